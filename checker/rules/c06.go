package rules

import (
	"go/ast"
	"go/types"
	"strings"

	"golang.org/x/tools/go/cfg"

	"lachk/core"
)

func init() {
	register("C06", "other", "T8 normalised comparisons (max / interval overlap), T4 two-sided guards, loop abstraction (every branch / every parent / every pair), provenance (what is gathered, collected and stored), ownership (storage origins of the branch table), T20 WrapperDelegation",
		"Decides the structural necessary conditions of the merged vector clock, not its values. Every clause works on the inlined view of its function (c06_inline.go): helpers of the same package that contain the calls the clause talks about are expanded in place (parameters bound to the arguments, single-return predicates substituted into conditions, results handed over through a result variable), so the facts are the same whether a loop, a loop body, a search or the final store is written out or lives in an extracted method; a stored entry may be a result carrier that receives the accumulator after the scan or the fork-detected branch itself. (gather) the merged entry of a creator is computed from every branch of that creator: the accumulator starts as the zero entry, is replaced by a branch exactly on the edges `branch is fork-detected` or `branch.Seq > accumulated.Seq` (normal form, so the maximum and not the minimum or the last is kept), the loop is left early only after a fork-detected branch, and the accumulator is stored for the requested validator on every path. (collect) when an event's vector collects a parent's vector the loop covers all branch indexes 0..num-1, an iteration ends without a write only when the parent's entry is empty (Seq == 0 and not fork-detected), the own entry is already fork-detected, or the own Seq is not smaller; the own Seq is overwritten by the parent's exactly on the `mine.Seq < his.Seq` edge and then stored. (fill) every parent's stored vector is collected into the vector that is later stored for the event, over all branches, after the vector was initialised with the event's own (branch, seq, seq). (detect) forks not seen by a single parent (the pair scan may be written out, or live in a boolean helper that is given the vector and the validator or its branch list, with the overlap test in a guard-chain predicate): for every validator not already marked, every ordered pair of distinct, non-empty branches is tested with the interval-overlap test MinSeq(a) <= Seq(b) && MinSeq(b) <= Seq(a) (normal form), the fork is marked exactly on that edge, and the pass runs whenever the index has at least one fork. (merge) the merged query gathers, for every creator, that creator's branches from the stored vector of the same event, and returns the stored vector itself only when no fork exists. (adapter) the consensus-side view reads Seq and the fork flag of the same entry. (branches) the creator -> branches table that gather and detect read (Engine.bi) is owned exclusively: a bounded storage-origin analysis (c06_own.go: definitions of locals, field-wise struct copies, append/make to the nesting depth of the type, callee summaries, call-site lifting of parameters) shows for every store in the module that the live table receives only freshly allocated / decoded storage or its own, and that no other retained field or package variable receives storage of the live table, so that the in-place change made for an event that is dropped afterwards cannot outlive DropNotFlushed. (persist) every in-place change of the branch table reaches the store with the next Flush (c06_persist.go): Flush hands the loaded table to a function that always reaches a key-value Put, on every path on which the table is loaded; when Flush may skip the store on one truth value of a boolean field, every store to a field of a branch table that is not being built in the same function lies on paths that all give the flag the other value (in the function, or around every call of it when the store lives in a helper), and the flag takes the skipping value only after a store or together with dropping the table. Not decided: that the branch bookkeeping (BranchIDByCreators, MinSeq/Seq ranges per branch) describes the DAG, i.e. the equality of each entry with the graph quantity for all DAGs and indexing orders; storage handed to a container through a call (cache.Add(k, bi)) or captured by a closure is not followed.",
		[]string{"branch i < validators.Len() belongs to creator i (BranchesInfo construction, C05/C08)", "entry encoding Get/Set round-trips (vecfc vector codec)", "fork marker is absorbing and consumers use the merged API (C03)"},
		runC06)
}

// c06Leaf: the calls a clause talks about (methods of the vector / engine types, by method name). They
// delimit the inlined view: helpers that contain one are expanded, the calls themselves never.
func c06Leaf(methods ...string) func(*core.CallSite) bool {
	return func(cs *core.CallSite) bool {
		if !strings.HasPrefix(cs.Name, "vecengine.") && !strings.HasPrefix(cs.Name, "vecfc.") {
			return false
		}
		for _, m := range methods {
			if methodNamed(cs.Name, m) {
				return true
			}
		}
		return false
	}
}

var (
	c06LeafVec    = c06Leaf("Get", "Set", "SetForkDetected", "IsForkDetected")
	c06LeafEngine = c06Leaf("CollectFrom", "InitWithEvent", "SetHighestBefore", "GetHighestBefore", "NewHighestBefore", "MinSeq", "Seq", "IsEmpty", "IsForkDetected", "setForkDetected", "AtLeastOneFork", "GatherFrom")
)

// c06SliceSources follows whole-variable assignments `x = y` backwards from the slice variable x that is
// read at `use`: the variables whose slice x may be. An assignment of nil is accepted only when it cannot
// reach the use (it is made together with a non-nil error whose `== nil` test lies on every path to the use).
func c06SliceSources(f *core.FuncInfo, x *types.Var, use core.Point) ([]*types.Var, bool) {
	srcs := []*types.Var{x}
	ok := true
	for i := 0; i < len(srcs) && len(srcs) < 6; i++ {
		for _, a := range assignsToVar(f, srcs[i]) {
			if a.RHS == nil {
				continue
			}
			rhs := ast.Unparen(a.RHS)
			if w := varOf(f, rhs); w != nil && !w.IsField() {
				known := false
				for _, s := range srcs {
					known = known || s == w
				}
				if !known {
					srcs = append(srcs, w)
				}
				continue
			}
			if core.IsNil(f.Info(), rhs) && !c06DeadBefore(f, a, use) {
				ok = false
			}
		}
	}
	return srcs, ok
}

// c06DeadBefore: the multi-assignment a also gives an error variable a freshly made (non-nil) error, the
// variable is not assigned again on the way, and every path from a to use takes an edge implying that the
// error is nil: the values assigned by a never arrive at use.
func c06DeadBefore(f *core.FuncInfo, a assignment, use core.Point) bool {
	as, isAs := a.Stmt.(*ast.AssignStmt)
	if !isAs || len(as.Lhs) != len(as.Rhs) {
		return false
	}
	for i, l := range as.Lhs {
		ev := varOf(f, l)
		call, isCall := ast.Unparen(as.Rhs[i]).(*ast.CallExpr)
		if ev == nil || !isCall || !hasSuffix(calleeName(f, call), "fmt.Errorf", "errors.New") {
			continue
		}
		again := false
		for _, b := range assignsToVar(f, ev) {
			if b.Stmt != a.Stmt && f.CanReach(a.Pt, b.Pt) && f.CanReach(b.Pt, use) {
				again = true
			}
		}
		if again {
			continue
		}
		if _, found := (core.PathQuery{F: f, From: a.Pt, FromAfter: true, Target: core.PointSet(use), AvoidEdge: f.EdgesImplying(varNilFact(f, ev, true))}).Find(); !found {
			return true
		}
	}
	return false
}

// c06LenOfField: e is (a conversion of) len(x.<field>), directly, through single-definition locals, or
// through accessor functions of the module whose body is one `return expr` (bounded depth).
func c06LenOfField(f *core.FuncInfo, e ast.Expr, field string, depth int) bool {
	call, isCall := resolveLocal(f, core.StripConv(f.Info(), resolveLocal(f, e))).(*ast.CallExpr)
	if !isCall {
		return false
	}
	if calleeName(f, call) == "builtin.len" && len(call.Args) == 1 {
		_, pth := fieldPath(f, call.Args[0])
		return len(pth) >= 1 && pth[len(pth)-1] == field
	}
	if depth <= 0 {
		return false
	}
	g := f.P.Func(calleeName(f, call))
	if g == nil || g.Decl == nil || g.Body == nil {
		return false
	}
	ret := c06ExprFunc(g)
	return ret != nil && c06LenOfField(g, ret, field, depth-1)
}

func c06Body(it *core.Iteration) core.Point { return core.Point{B: it.Head.Succs[0], I: 0} }

// c06SameLoc: do two expressions denote the same variable or the same field path of the same variable?
func c06SameLoc(f *core.FuncInfo, a, b ast.Expr) bool {
	ra, pa := fieldPath(f, a)
	rb, pb := fieldPath(f, b)
	va, vb := varOf(f, ra), varOf(f, rb)
	if va == nil || va != vb || len(pa) != len(pb) {
		return false
	}
	for i := range pa {
		if pa[i] != pb[i] {
			return false
		}
	}
	return true
}

// c06CallFact matches the boolean fact `<recv>.<method>(args…)` with the given truth; ok decides on the call.
func c06CallFact(f *core.FuncInfo, method string, want bool, ok func(call *ast.CallExpr, recv ast.Expr) bool) func(core.Fact) bool {
	return func(ft core.Fact) bool {
		if ft.Truth != want {
			return false
		}
		call, isCall := resolveLocal(f, ft.Expr).(*ast.CallExpr)
		if !isCall || !methodNamed(calleeName(f, call), method) {
			return false
		}
		sel, isSel := call.Fun.(*ast.SelectorExpr)
		return isSel && ok(call, sel.X)
	}
}

func c06LinFact(f *core.FuncInfo, namer core.AtomNamer, forms ...string) func(core.Fact) bool {
	return func(ft core.Fact) bool {
		lc, ok := core.NormLinCmp(f.Info(), ft, namer)
		if !ok {
			return false
		}
		for _, s := range forms {
			if lc.Equal(core.ParseLinCmp(s)) {
				return true
			}
		}
		return false
	}
}

func runC06(c *core.Ctx) {
	const (
		fSeq    = "vecfc.BranchSeq.Seq"
		hbGet   = "vecfc.HighestBeforeSeq.Get"
		hbSet   = "vecfc.HighestBeforeSeq.Set"
		hbSetFD = "vecfc.HighestBeforeSeq.SetForkDetected"
		byCr    = "vecengine.BranchesInfo.BranchIDByCreators"
	)

	c.Clause("C06.gather", func() {
		// the inlined view: the search loop may live in a helper that returns the entry
		gf := c06View(c.Fn("vecfc.HighestBeforeSeq.GatherFrom"), "vec", c06LeafVec)
		res := func(e ast.Expr) ast.Expr { return resolveLocal(gf, e) }
		to, from, self := gf.Param(0), gf.Param(2), gf.Recv()
		var stored *types.Var
		var sets []*core.CallSite
		for _, cs := range gf.CallsTo(hbSet) {
			if varOf(gf, res(cs.Recv())) != self || len(cs.Call.Args) != 2 {
				continue
			}
			v := varOf(gf, cs.Call.Args[1])
			if v == nil {
				v = varOf(gf, res(cs.Call.Args[1]))
			}
			c.Need(v != nil && (stored == nil || stored == v) && varOf(gf, res(cs.Call.Args[0])) == to, "GatherFrom stores one accumulated entry with Set(to, acc)")
			stored = v
			sets = append(sets, cs)
		}
		c.Need(stored != nil, "GatherFrom stores an accumulated entry with Set(to, acc)")
		ok, wit := gf.MustPassAfter(gf.Entry(), core.Points(sets))
		c.Check(ok, "the merged entry is stored on every path", "T3 post-dominance", gf.Pos(), "every return passes self.Set(to, acc)", "GatherFrom can return without storing the merged entry: the validator's entry stays empty ("+gf.DescribePath(wit)+")")

		// The stored variable may be a result carrier (the result variable of a single-exit form, or of a
		// search helper in the inlined view): a variable that only receives copies `carrier = v` of another
		// local. The accumulator is the root of these copies: the variable that is never a copy of another.
		class := []*types.Var{stored}
		inClass := func(v *types.Var) bool {
			for _, w := range class {
				if v != nil && v == w {
					return true
				}
			}
			return false
		}
		copyOf := func(a assignment) *types.Var { // a is `v = w` for a plain local w (not a parameter, not an entry read)
			if a.RHS == nil {
				return nil
			}
			w := varOf(gf, a.RHS)
			if w == nil || w.IsField() || w == self || w == to || w == from || w == gf.Param(1) || w.Pkg() == nil || w.Parent() == w.Pkg().Scope() {
				return nil
			}
			// a local that is defined once from something that is not a variable (the entry read
			// `branch := other.Get(i)`) is a value, not a carrier
			if defs := assignsToVar(gf, w); len(defs) == 1 && defs[0].RHS != nil && varOf(gf, defs[0].RHS) == nil {
				return nil
			}
			return w
		}
		for grown := true; grown && len(class) < 6; {
			grown = false
			for _, a := range assignments(gf) {
				if w := copyOf(a); w != nil && inClass(varOf(gf, a.LHS)) && !inClass(w) {
					class = append(class, w)
					grown = true
				}
			}
		}
		var acc *types.Var
		nRoot := 0
		for _, v := range class {
			root := true
			for _, a := range assignsToVar(gf, v) {
				if w := copyOf(a); w != nil && w != v {
					root = false
				}
			}
			if root {
				acc = v
				nRoot++
			}
		}
		c.Need(nRoot == 1, "the stored entry goes back to one accumulator variable")

		var loop ast.Stmt
		for _, a := range assignsToVar(gf, acc) {
			if l := c06Loop(gf, a.Stmt); l != nil {
				loop = l
			}
		}
		c.Need(loop != nil, "the accumulator is updated in a loop over the branches")
		it, okIt := core.IterationOf(gf, loop, res)
		c.Need(okIt && it.Head != nil && len(it.Head.Succs) > 0, "the loop over the branches is a recognisable iteration")
		c.Check(it.FromZero && it.Coll != nil && varOf(gf, it.Coll) == from, "every branch of the creator is read", "loop abstraction", loop.Pos(), "the loop iterates the whole `from` list", "the merge does not look at every branch of the creator: a higher sequence or a fork on a skipped branch is not reported")

		role := func(e ast.Expr) string {
			if v := varOf(gf, e); v != nil && v == acc {
				return "acc"
			}
			if call, isCall := res(e).(*ast.CallExpr); isCall && calleeName(gf, call) == hbGet && len(call.Args) == 1 && it.IsElem(call.Args[0], res) {
				if sel, isSel := call.Fun.(*ast.SelectorExpr); isSel && varOf(gf, res(sel.X)) != self {
					return "br"
				}
			}
			return ""
		}
		namer := func(e ast.Expr) string {
			if sel, isSel := res(e).(*ast.SelectorExpr); isSel && fieldNameOf(gf, sel) == fSeq {
				if r := role(sel.X); r != "" {
					return r + ".Seq"
				}
			}
			return ""
		}
		isFork := c06CallFact(gf, "IsForkDetected", true, func(_ *ast.CallExpr, recv ast.Expr) bool { return role(recv) == "br" })
		greater := c06LinFact(gf, namer, "acc.Seq - br.Seq + 1 <= 0", "acc.Seq - br.Seq <= 0")

		body := c06Body(it)
		var updates, forkUpdates, inits []core.Point
		var copies []assignment
		carrierDefs := map[*types.Var][]core.Point{}
		nInit := 0
		for _, a := range assignments(gf) {
			lv := varOf(gf, a.LHS)
			if !inClass(lv) {
				// a store through the accumulator (acc.Seq = …) is a shape this rule does not read
				root := ast.Unparen(a.LHS)
				if sel, isSel := root.(*ast.SelectorExpr); isSel && inClass(varOf(gf, sel.X)) {
					c.Undecided("field-wise update of the accumulator", "T8", a.Stmt.Pos(), "GatherFrom updates a field of the accumulated entry separately: the rule reads only whole-entry replacement")
				}
				continue
			}
			if lv != acc {
				// a result carrier: declared, copied from the class after the scan, or given the branch itself
				// on the fork-detected edge (which ends the scan)
				_, isDecl := a.Stmt.(*ast.ValueSpec)
				switch {
				case a.RHS == nil && isDecl:
				case copyOf(a) != nil && inClass(copyOf(a)):
					copies = append(copies, a)
					carrierDefs[lv] = append(carrierDefs[lv], a.Pt)
				case a.RHS != nil && role(a.RHS) == "br":
					gF, witF := gf.GuardedBetween(body, a.Pt, isFork)
					c.Check(gF, "a branch is handed out directly only when it is fork-detected", "T8 + T4", a.Stmt.Pos(), "the result takes the branch itself on the branch.IsForkDetected() edge", "the merged entry can be a branch that was not compared with the accumulated maximum: the reported sequence is not the highest observed ("+gf.DescribePath(witF)+")")
					updates = append(updates, a.Pt)
					if gF {
						forkUpdates = append(forkUpdates, a.Pt)
					}
					carrierDefs[lv] = append(carrierDefs[lv], a.Pt)
				default:
					c.Fail("the stored entry is the accumulator or a fork-detected branch", "provenance", a.Stmt.Pos(), "the entry that is stored receives something that is neither the accumulated entry nor the current branch's entry")
				}
				continue
			}
			if c06Loop(gf, a.Stmt) == nil {
				inits = append(inits, a.Pt)
				nInit++
				zero := false
				if a.RHS == nil {
					_, zero = a.Stmt.(*ast.ValueSpec)
				} else if cl, isLit := ast.Unparen(a.RHS).(*ast.CompositeLit); isLit && len(cl.Elts) == 0 {
					zero = true
				}
				c.Check(zero, "the accumulator starts as the empty entry", "provenance", a.Stmt.Pos(), "zero BranchSeq", "the merged entry of a creator nobody observed is not 0")
				continue
			}
			if role(a.RHS) != "br" {
				c.Fail("accumulator takes a branch entry", "provenance", a.Stmt.Pos(), "the accumulated entry receives something that is not the current branch's entry")
				continue
			}
			gF, _ := gf.GuardedBetween(body, a.Pt, isFork)
			gG, witG := gf.GuardedBetween(body, a.Pt, greater)
			c.Check(gF || gG, "the accumulator is replaced only by a fork-detected or a higher branch", "T8 + T4", a.Stmt.Pos(), "assignment is on the branch.IsForkDetected() or branch.Seq > acc.Seq edge", "the merged entry can take a branch that is neither fork-detected nor higher: the reported sequence is not the highest observed ("+gf.DescribePath(witG)+")")
			updates = append(updates, a.Pt)
			if gF {
				forkUpdates = append(forkUpdates, a.Pt)
			}
		}
		c.ExpectAtLeast("accumulator initialisations in GatherFrom", nInit, 1)
		c.ExpectAtLeast("accumulator updates in GatherFrom", len(updates), 2)
		// result carriers: a copy is taken when the scan is over, and what is stored / copied on has been given a value
		for _, cp := range copies {
			late := true
			for _, u := range append(append([]core.Point(nil), updates...), inits...) {
				if gf.CanReach(cp.Pt, u) {
					late = false
				}
			}
			c.Check(late, "the result is copied from the accumulator after the scan", "T17 Typestate", cp.Stmt.Pos(), "no replacement of the accumulator is reachable after the copy", "the entry that is stored is a copy taken before all branches were compared: a later, higher branch is not reported")
		}
		for _, v := range class {
			if v == acc {
				continue
			}
			var uses []core.Point
			for _, cs := range sets {
				if v == stored { // every Set stores the same variable (checked above)
					uses = append(uses, cs.Pt)
				}
			}
			for _, cp := range copies {
				if copyOf(cp) == v {
					uses = append(uses, cp.Pt)
				}
			}
			for _, u := range uses {
				okD, witD := gf.MustPassBefore(carrierDefs[v], u)
				c.Check(okD && len(carrierDefs[v]) > 0, "the stored result has received the accumulated entry", "T2 dominance", posOf(u), "every path to the use passes `result = accumulator` or the fork-detected hand-out", "the entry can be stored without having received the accumulated entry: the validator's merged entry stays empty ("+gf.DescribePath(witD)+")")
			}
		}
		// two-sided: a higher branch is always taken
		edges := edgesWithFact(gf, greater)
		for _, e := range edges {
			path, found := core.PathQuery{F: gf, From: blockEntry(e.B.Succs[e.Succ]), Avoid: core.PointSet(updates...), TargetExit: true,
				TargetBlock: func(b *cfg.Block) bool { return b == it.Head || b == it.Done }}.Find()
			c.Check(!found, "a higher branch always replaces the accumulator", "T4 two-sided", gf.Pos(), "the branch.Seq > acc.Seq edge always reaches the replacement", "a branch with a higher sequence can be passed over: "+gf.DescribePath(path))
		}
		c.ExpectAtLeast("comparisons branch.Seq > acc.Seq in GatherFrom", len(edges), 1)
		// a fork-detected branch is final: no later branch can replace it
		final := len(forkUpdates) > 0
		for _, fu := range forkUpdates {
			for _, u := range updates {
				if u != fu && gf.CanReach(fu, u) {
					final = false
				}
			}
		}
		c.Check(final, "a fork-detected branch is final", "T17 Typestate", loop.Pos(), "no replacement is reachable after a fork-detected branch was taken", "after a fork-detected branch was taken a later branch can still replace it (or no branch is taken for being fork-detected): the merged entry reports a sequence although the validator forked")
		// the loop is left early only after a fork-detected branch was taken
		path, found := core.PathQuery{F: gf, From: body, Avoid: core.PointSet(forkUpdates...),
			AvoidEdge:   func(b *cfg.Block, s int) bool { return b.Succs[s] == it.Head },
			TargetBlock: func(b *cfg.Block) bool { return b == it.Done }, TargetExit: true}.Find()
		c.Check(!found, "the scan stops early only at a fork-detected branch", "T4", loop.Pos(), "break/return inside the loop only after taking a fork-detected branch", "the merge can stop before all branches were read: "+gf.DescribePath(path))
	})

	c.Clause("C06.collect", func() {
		// the inlined view: the merge of one branch may live in a helper called from the loop
		cf := c06View(c.Fn("vecfc.HighestBeforeSeq.CollectFrom"), "vec", c06LeafVec)
		res := func(e ast.Expr) ast.Expr { return resolveLocal(cf, e) }
		self, num := cf.Recv(), cf.Param(1)
		var loop ast.Stmt
		for _, cs := range cf.CallsTo(hbGet) {
			if l := c06Loop(cf, cs.Call); l != nil {
				loop = l
			}
		}
		c.Need(loop != nil, "CollectFrom reads entries in a loop")
		it, okIt := core.IterationOf(cf, loop, res)
		c.Need(okIt && it.Head != nil && len(it.Head.Succs) > 0 && it.Index != nil, "the loop of CollectFrom is a counted iteration")
		boundOK := it.Counted && it.FromZero && it.Bound != nil && varOf(cf, res(core.StripConv(cf.Info(), res(it.Bound)))) == num
		c.Check(boundOK, "all branch indexes 0..num-1 are collected", "loop abstraction", loop.Pos(), "for branchID := 0; branchID < num; branchID++", "CollectFrom does not visit every branch index: what a parent observed on a skipped branch is lost")
		isIdx := func(e ast.Expr) bool { return varOf(cf, res(core.StripConv(cf.Info(), res(e)))) == it.Index }
		// the variable holding the own entry
		var mine *types.Var
		for _, a := range assignments(cf) {
			if call, isCall := ast.Unparen(a.RHS).(*ast.CallExpr); a.RHS != nil && isCall && calleeName(cf, call) == hbGet && len(call.Args) == 1 && isIdx(call.Args[0]) {
				if sel, isSel := call.Fun.(*ast.SelectorExpr); isSel && varOf(cf, res(sel.X)) == self {
					mine = varOf(cf, a.LHS)
				}
			}
		}
		role := func(e ast.Expr) string {
			if v := varOf(cf, e); v != nil && v == mine {
				return "mine"
			}
			if call, isCall := res(e).(*ast.CallExpr); isCall && calleeName(cf, call) == hbGet && len(call.Args) == 1 && isIdx(call.Args[0]) {
				if sel, isSel := call.Fun.(*ast.SelectorExpr); isSel {
					if varOf(cf, res(sel.X)) == self {
						return "mine"
					}
					return "his"
				}
			}
			return ""
		}
		namer := func(e ast.Expr) string {
			if sel, isSel := res(e).(*ast.SelectorExpr); isSel && fieldNameOf(cf, sel) == fSeq {
				if r := role(sel.X); r != "" {
					return r + ".Seq"
				}
			}
			return ""
		}
		less := c06LinFact(cf, namer, "mine.Seq - his.Seq + 1 <= 0", "mine.Seq - his.Seq <= 0")
		notLess := func(ft core.Fact) bool { return less(core.Fact{Expr: ft.Expr, Truth: !ft.Truth}) }
		hisZero := c06LinFact(cf, namer, "his.Seq == 0")
		hisNoFork := c06CallFact(cf, "IsForkDetected", false, func(_ *ast.CallExpr, recv ast.Expr) bool { return role(recv) == "his" })
		mineFork := c06CallFact(cf, "IsForkDetected", true, func(_ *ast.CallExpr, recv ast.Expr) bool { return role(recv) == "mine" })

		body := c06Body(it)
		toHead := func(b *cfg.Block) bool { return b == it.Head }
		var writes []core.Point
		for _, cs := range cf.CallsTo(hbSet, hbSetFD) {
			if varOf(cf, res(cs.Recv())) == self {
				writes = append(writes, cs.Pt)
			}
		}
		c.ExpectAtLeast("entry writes in CollectFrom", len(writes), 2)
		var seqAssigns []core.Point
		for _, a := range assignments(cf) {
			sel, isSel := ast.Unparen(a.LHS).(*ast.SelectorExpr)
			if !isSel || fieldNameOf(cf, sel) != fSeq || role(sel.X) != "mine" {
				continue
			}
			okRHS := a.RHS != nil && namer(a.RHS) == "his.Seq"
			g, wit := cf.GuardedBetween(body, a.Pt, less)
			c.Check(okRHS && g, "own Seq is raised to the parent's only when it is smaller", "T8 + T4", a.Stmt.Pos(), "mine.Seq = his.Seq on the mine.Seq < his.Seq edge", "the own sequence can be overwritten by a value that is not a higher observed sequence ("+cf.DescribePath(wit)+")")
			// the raised entry is stored before the next branch
			var stores []core.Point
			for _, cs := range cf.CallsTo(hbSet) {
				if varOf(cf, res(cs.Recv())) == self && len(cs.Call.Args) == 2 && isIdx(cs.Call.Args[0]) && role(cs.Call.Args[1]) == "mine" {
					stores = append(stores, cs.Pt)
				}
			}
			path, found := core.PathQuery{F: cf, From: a.Pt, Avoid: core.PointSet(stores...), TargetBlock: toHead, TargetExit: true}.Find()
			c.Check(!found, "the raised entry is written back", "T3", a.Stmt.Pos(), "Set(branchID, mine) follows in the same iteration", "the higher sequence is computed but not stored: "+cf.DescribePath(path))
			seqAssigns = append(seqAssigns, a.Pt)
		}
		if len(seqAssigns) == 0 {
			c.Undecided("own Seq update", "T8", cf.Pos(), "CollectFrom has no assignment mine.Seq = his.Seq: the entry is rebuilt in a form this rule does not read")
			return
		}
		lessEdges := edgesWithFact(cf, less)
		for _, e := range lessEdges {
			path, found := core.PathQuery{F: cf, From: blockEntry(e.B.Succs[e.Succ]), Avoid: core.PointSet(seqAssigns...), TargetBlock: toHead, TargetExit: true}.Find()
			c.Check(!found, "a higher parent sequence is always taken", "T4 two-sided", cf.Pos(), "the mine.Seq < his.Seq edge always reaches mine.Seq = his.Seq", "a parent's higher sequence can be ignored: "+cf.DescribePath(path))
		}
		c.ExpectAtLeast("comparisons mine.Seq < his.Seq in CollectFrom", len(lessEdges), 1)
		// an iteration ends without a write only if: parent entry empty (Seq == 0 AND not fork-detected), own entry fork-detected, or own Seq not smaller
		for _, alt := range []struct {
			name string
			fact func(core.Fact) bool
		}{{"his.Seq == 0", hisZero}, {"!his.IsForkDetected()", hisNoFork}} {
			altFact := alt.fact
			excused := cf.EdgesImplying(func(ft core.Fact) bool { return mineFork(ft) || notLess(ft) || altFact(ft) })
			path, found := core.PathQuery{F: cf, From: body, Avoid: core.PointSet(writes...), AvoidEdge: excused, TargetBlock: toHead}.Find()
			c.Check(!found, "a branch is skipped only for the listed reasons|"+alt.name, "T4", loop.Pos(), "no write-free iteration without `"+alt.name+"` (or own fork / own Seq not smaller)", "a parent's entry can be skipped although it is not empty, the own entry is not fork-detected and the own sequence is smaller: "+cf.DescribePath(path))
		}
	})

	c.Clause("C06.fill", func() {
		// the inlined view: the parent pre-load, the collection and the final store may each live in a helper
		f := c06View(c.Fn("vecengine.Engine.fillEventVectors"), "engine", c06LeafEngine)
		res := func(e ast.Expr) ast.Expr { return resolveLocal(f, e) }
		ev := f.Param(0)
		isParents := func(e ast.Expr) bool {
			call, isCall := res(e).(*ast.CallExpr)
			if !isCall || !methodNamed(calleeName(f, call), "Parents") {
				return false
			}
			sel, isSel := call.Fun.(*ast.SelectorExpr)
			return isSel && varOf(f, res(sel.X)) == ev
		}
		collects := f.CallsMatching(func(cs *core.CallSite) bool { return methodNamed(cs.Name, "CollectFrom") })
		c.Need(len(collects) >= 1, "fillEventVectors collects the parents' vectors")
		before := collects[0].Recv()
		nb := func(e ast.Expr) string {
			// a local that holds the (converted) length is looked through, and so is an accessor that returns it
			if c06LenOfField(f, e, "vecengine.BranchesInfo.BranchIDCreatorIdxs", 2) {
				return "nb"
			}
			return ""
		}
		for _, cs := range collects {
			c.Need(c06SameLoc(f, cs.Recv(), before) && len(cs.Call.Args) == 2, "every CollectFrom targets the event's HighestBefore vector")
			loop := c06Loop(f, cs.Call)
			c.Need(loop != nil, "CollectFrom is called in a loop over the parents")
			it, okIt := core.IterationOf(f, loop, res)
			c.Need(okIt && it.Head != nil && len(it.Head.Succs) > 0, "the loop around CollectFrom is a recognisable iteration")
			every, wit := it.EveryIterationPasses([]core.Point{cs.Pt}, false)
			c.Check(it.FromZero && every, "every parent's vector is collected", "loop abstraction", cs.Pos(), "each iteration calls CollectFrom", "a parent's observations can be left out of the event's vector: "+f.DescribePath(wit))
			lin := core.Linearize(f.Info(), cs.Call.Args[1], nb)
			want := core.ParseLinCmp("nb == 0")
			c.Check(len(lin.Coef) == 1 && lin.C.Sign() == 0 && lin.Coef["nb"] != nil && lin.Coef["nb"].Cmp(want.Form.Coef["nb"]) == 0, "all branches are collected", "T8", cs.Pos(), "num = len(BranchIDCreatorIdxs)", "only a part of the branches is collected from the parents")
			// provenance of the collected vector: the stored HighestBefore of a parent of e
			isStoredOf := func(e ast.Expr, elemOf *core.Iteration) bool {
				call, isCall := res(e).(*ast.CallExpr)
				return isCall && methodNamed(calleeName(f, call), "GetHighestBefore") && len(call.Args) == 1 && elemOf.IsElem(call.Args[0], res)
			}
			okProv := false
			if it.Coll != nil && isParents(it.Coll) {
				okProv = isStoredOf(cs.Call.Args[0], it)
			} else if x := varOf(f, it.Coll); x != nil && it.IsElem(cs.Call.Args[0], res) {
				n := 0
				okProv = true
				// the slice that is iterated may have been handed over by whole-variable assignments (the result
				// of a loading helper in the inlined view): follow them back to the slice that is filled
				srcs, okSrc := c06SliceSources(f, x, cs.Pt)
				okProv = okSrc
				isSrc := func(v *types.Var) bool {
					for _, w := range srcs {
						if v != nil && v == w {
							return true
						}
					}
					return false
				}
				for _, a := range assignments(f) {
					ix, isIx := ast.Unparen(a.LHS).(*ast.IndexExpr)
					if !isIx || !isSrc(varOf(f, ix.X)) {
						continue
					}
					n++
					l2 := c06Loop(f, a.Stmt)
					if l2 == nil {
						okProv = false
						continue
					}
					it2, ok2 := core.IterationOf(f, l2, res)
					if !ok2 || it2.Head == nil || len(it2.Head.Succs) == 0 || !it2.FromZero || it2.Coll == nil || !isParents(it2.Coll) || it2.Index == nil || varOf(f, ix.Index) != it2.Index || !isStoredOf(a.RHS, it2) {
						okProv = false
						continue
					}
					if every2, _ := it2.EveryIterationPasses([]core.Point{a.Pt}, false); !every2 {
						okProv = false
					}
				}
				okProv = okProv && n >= 1
			}
			c.Check(okProv, "the collected vectors are the stored vectors of the event's parents", "provenance", cs.Pos(), "GetHighestBefore(p) for every p in e.Parents()", "the vectors collected are not those of all parents of the event")
		}
		// initialisation with the event itself, before anything is collected or stored
		inits := f.CallsMatching(func(cs *core.CallSite) bool {
			return methodNamed(cs.Name, "InitWithEvent") && c06SameLoc(f, cs.Recv(), before) && len(cs.Call.Args) == 2 && varOf(f, res(cs.Call.Args[1])) == ev
		})
		stores := f.CallsMatching(func(cs *core.CallSite) bool {
			return methodNamed(cs.Name, "SetHighestBefore") && len(cs.Call.Args) == 2
		})
		c.Need(len(stores) >= 1, "fillEventVectors stores the HighestBefore vector")
		for _, st := range stores {
			okID := false
			if call, isCall := res(st.Call.Args[0]).(*ast.CallExpr); isCall && methodNamed(calleeName(f, call), "ID") {
				if sel, isSel := call.Fun.(*ast.SelectorExpr); isSel && varOf(f, res(sel.X)) == ev {
					okID = true
				}
			}
			c.Check(okID && c06SameLoc(f, st.Call.Args[1], before), "the computed vector is stored under the event's id", "provenance", st.Pos(), "SetHighestBefore(e.ID(), before)", "the vector stored for the event is not the one that was computed for it")
			okI, wit := f.MustPassBefore(core.Points(inits), st.Pt)
			c.Check(len(inits) > 0 && okI, "the vector observes the event itself", "T2 dominance", st.Pos(), "InitWithEvent(branch, e) dominates the store", "the event's own sequence is missing from its vector: "+f.DescribePath(wit))
			for _, cs := range collects {
				okC, _ := f.MustPassBefore(core.Points(inits), cs.Pt)
				c.Check(okC, "initialisation precedes collection", "T2 dominance", cs.Pos(), "InitWithEvent dominates CollectFrom", "the own entry can be initialised after parents were collected (overwriting a higher or fork-detected entry)")
			}
		}
		// the initial entry is (seq, seq) of the event
		iw := c.Fn("vecfc.HighestBeforeSeq.InitWithEvent")
		okInit := false
		for _, cs := range iw.CallsTo(hbSet) {
			if len(cs.Call.Args) != 2 || varOf(iw, cs.Call.Args[0]) != iw.Param(0) {
				continue
			}
			cl, isLit := resolveLocal(iw, cs.Call.Args[1]).(*ast.CompositeLit)
			if !isLit {
				continue
			}
			got := map[string]bool{}
			for _, el := range cl.Elts {
				kv, isKV := el.(*ast.KeyValueExpr)
				if !isKV {
					continue
				}
				call, isCall := resolveLocal(iw, kv.Value).(*ast.CallExpr)
				if isCall && methodNamed(calleeName(iw, call), "Seq") {
					if sel, isSel := call.Fun.(*ast.SelectorExpr); isSel && varOf(iw, sel.X) == iw.Param(1) {
						if id, isID := kv.Key.(*ast.Ident); isID {
							got[id.Name] = true
						}
					}
				}
			}
			okInit = got["Seq"] && got["MinSeq"]
		}
		c.Check(okInit, "the own entry starts as [e.Seq, e.Seq]", "provenance", iw.Pos(), "Set(i, BranchSeq{Seq: e.Seq(), MinSeq: e.Seq()})", "the own entry is not initialised with the event's sequence: the highest observed sequence of the creator is wrong")
	})

	c.Clause("C06.detect", func() {
		c06Detect(c)
	})

	c.Clause("C06.branches", func() {
		c06Branches(c)
	})

	c.Clause("C06.persist", func() {
		c06Persist(c)
	})

	c.Clause("C06.merge", func() {
		eg := c06View(c.Fn("vecengine.Engine.GetMergedHighestBefore"), "engine", c06LeafEngine)
		res := func(e ast.Expr) ast.Expr { return resolveLocal(eg, e) }
		id := eg.Param(0)
		stored := func(e ast.Expr) bool {
			call, isCall := res(e).(*ast.CallExpr)
			return isCall && methodNamed(calleeName(eg, call), "GetHighestBefore") && len(call.Args) == 1 && varOf(eg, res(call.Args[0])) == id
		}
		gathers := eg.CallsMatching(func(cs *core.CallSite) bool { return methodNamed(cs.Name, "GatherFrom") && len(cs.Call.Args) == 3 })
		c.Need(len(gathers) == 1, "exactly one GatherFrom call in GetMergedHighestBefore")
		g := gathers[0]
		loop := c06Loop(eg, g.Call)
		c.Need(loop != nil, "GatherFrom is called in a loop over the creators")
		it, okIt := core.IterationOf(eg, loop, res)
		c.Need(okIt && it.Head != nil && len(it.Head.Succs) > 0, "the creators loop is a recognisable iteration")
		every, wit := it.EveryIterationPasses([]core.Point{g.Pt}, true)
		c.Check(it.FromZero && it.Complete && every, "every creator's entry is gathered", "loop abstraction", loop.Pos(), "the loop over BranchIDByCreators is complete and each iteration gathers", "the merged vector can lack the entry of some validator: "+eg.DescribePath(wit))
		c.Check(stored(g.Call.Args[1]), "branches are gathered from the stored vector of the same event", "provenance", g.Pos(), "scattered = GetHighestBefore(id)", "the merged view is computed from another event's vector")
		// returns
		anyFork := c06CallFact(eg, "AtLeastOneFork", true, func(_ *ast.CallExpr, _ ast.Expr) bool { return true })
		noFork := c06CallFact(eg, "AtLeastOneFork", false, func(_ *ast.CallExpr, _ ast.Expr) bool { return true })
		merged := varOf(eg, g.Recv())
		nRet := 0
		for _, rp := range eg.ReturnPoints() {
			r, isRet := rp.Node().(*ast.ReturnStmt)
			if !isRet || len(r.Results) != 1 {
				continue
			}
			nRet++
			if v := varOf(eg, r.Results[0]); v != nil && v == merged {
				gd, _ := eg.GuardedBy(rp, anyFork)
				after, _ := eg.MustPassBefore([]core.Point{core.Point{B: it.Done, I: 0}}, rp)
				if it.Done != nil && len(it.Done.Nodes) == 0 {
					after, _ = mustPassBlockBefore(eg, it.Done, rp)
				}
				c.Check(gd && after, "the merged vector is returned after all creators were gathered", "T2 dominance", r.Pos(), "return merged after the loop", "the merged vector can be returned before it is complete")
				continue
			}
			gd, _ := eg.GuardedBy(rp, noFork)
			c.Check(stored(r.Results[0]) && gd, "without forks the stored vector is the merged view", "T4", r.Pos(), "return GetHighestBefore(id) only on !AtLeastOneFork()", "the per-branch vector is returned although forks exist (or a vector of another event is returned)")
		}
		c.ExpectAtLeast("returns of GetMergedHighestBefore", nRet, 2)
	})

	c.Clause("C06.adapter", func() {
		sq := c.Fn("utils/adapters.BranchSeq.Seq")
		ok := false
		for _, rp := range sq.ReturnPoints() {
			if r, isRet := rp.Node().(*ast.ReturnStmt); isRet && len(r.Results) == 1 {
				_, pth := fieldPath(sq, r.Results[0])
				ok = len(pth) >= 1 && pth[len(pth)-1] == fSeq
			}
		}
		c.Check(ok, "the consensus-side entry reports the highest sequence", "T20 WrapperDelegation", sq.Pos(), "Seq() returns BranchSeq.Seq", "the adapter reports another field (e.g. MinSeq) as the highest observed sequence")
		// every Get hands out an entry of its own: a result that is storage owned by the receiver would be
		// overwritten by the next Get (callers that read the whole clock first see one validator's entry everywhere)
		ag := c.Fn("utils/adapters.VectorSeqToDagIndexSeq.Get")
		nGet := 0
		for _, rp := range ag.ReturnPoints() {
			r, isRet := rp.Node().(*ast.ReturnStmt)
			if !isRet || len(r.Results) != 1 {
				continue
			}
			nGet++
			e := resolveLocal(ag, r.Results[0])
			root, pth := fieldPath(ag, e)
			shared := len(pth) > 0 && varOf(ag, root) != nil && varOf(ag, root) == ag.Recv()
			if tv, okT := ag.Info().Types[r.Results[0]]; okT {
				if _, isPtr := tv.Type.Underlying().(*types.Pointer); !isPtr {
					shared = false // a value copy
				}
			}
			c.Check(!shared, "each Get returns its own entry", "ownership", r.Pos(), "the result is not storage owned by the receiver", "Get hands out a pointer into the adapter itself: the next Get overwrites what the previous caller still holds, so a kept entry reports another validator's sequence or fork flag")
		}
		c.ExpectAtLeast("returns of the adapter's Get", nGet, 1)
		// the fork flag is the vector entry's own
		okF := false
		if t := c.P.LookupType("utils/adapters.BranchSeq"); t != nil {
			obj, _, _ := types.LookupFieldOrMethod(types.NewPointer(t.Type()), true, t.Pkg(), "IsForkDetected")
			if fn, isFn := obj.(*types.Func); isFn {
				okF = c.P.ObjName(fn) == "vecfc.BranchSeq.IsForkDetected"
			}
		}
		c.Check(okF, "the consensus-side entry reports the entry's own fork flag", "T20 WrapperDelegation", sq.Pos(), "IsForkDetected is promoted from vecfc.BranchSeq", "the adapter overrides the fork flag")
	})
}
