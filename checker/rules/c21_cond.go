package rules

import (
	"go/ast"
	"go/constant"
	"go/token"
	"go/types"

	"golang.org/x/tools/go/cfg"

	"lachk/core"
)

// C21 — named conditions.
//
// A test may be given a name before it is branched on (`wrapped := since < 0 && wait < threshold;
// if wrapped {…}`, also as the init statement of the if). The branch then carries a fact about the
// boolean local only. c21CondEdges reads such a fact as the disjunctive form of the expression the local
// was defined as — provided the local has a single definition in the function's own body (no address
// taken, not assigned in a closure) and no variable read by that expression can be re-assigned between
// the definition and the branch — and accepts an edge when, whichever alternative holds, a fact accepted
// by the matcher holds. Without named conditions it is core.GuardEdges.

// c21BoolLocalFact: ft says that a boolean local has a known truth value (`b`, `!b`, `b == true`,
// `false != b` …). Returns the local's identifier and the truth value.
func c21BoolLocalFact(f *core.FuncInfo, ft core.Fact) (*ast.Ident, bool, bool) {
	cm, ok := core.NormCmp(ft)
	if !ok || (cm.Op != token.EQL && cm.Op != token.NEQ) {
		return nil, false, false
	}
	e, truth := cm.L, cm.Op == token.EQL
	if cm.R != nil {
		other := cm.R
		cv, isC := core.ConstVal(f.Info(), other)
		if !isC {
			if cv, isC = core.ConstVal(f.Info(), cm.L); !isC {
				return nil, false, false
			}
			e = cm.R
		}
		if cv.Kind() != constant.Bool {
			return nil, false, false
		}
		if !constant.BoolVal(cv) {
			truth = !truth
		}
	}
	id, isID := ast.Unparen(e).(*ast.Ident)
	if !isID {
		return nil, false, false
	}
	v, _ := f.Info().ObjectOf(id).(*types.Var)
	if v == nil || v.IsField() {
		return nil, false, false
	}
	if b, isB := v.Type().Underlying().(*types.Basic); !isB || b.Info()&types.IsBoolean == 0 {
		return nil, false, false
	}
	return id, truth, true
}

// c21NamedCond: the definition of the boolean local id, when the local still stands for it at point `at`.
func c21NamedCond(f *core.FuncInfo, id *ast.Ident, at core.Point) ast.Expr {
	v, _ := f.Info().ObjectOf(id).(*types.Var)
	if v == nil || f.Body == nil || !c19Within(f.Body, v.Pos()) {
		return nil
	}
	def, ok := c19SingleDef(f, v)
	if !ok || def.RHS == nil || !def.Pt.Valid() {
		return nil
	}
	// nothing the definition reads is re-assigned on the way from the definition to the branch
	fresh := true
	seen := map[*types.Var]bool{}
	ast.Inspect(def.RHS, func(n ast.Node) bool {
		if _, isLit := n.(*ast.FuncLit); isLit {
			fresh = false
			return false
		}
		x, isID := n.(*ast.Ident)
		if !isID || !fresh {
			return fresh
		}
		w, _ := f.Info().ObjectOf(x).(*types.Var)
		if w == nil || w.IsField() || seen[w] || w.Pkg() == nil || w.Parent() == w.Pkg().Scope() {
			return true
		}
		seen[w] = true
		n2, addr := c19AssignCount(f, w)
		as := assignsToVar(f, w)
		if addr || n2 != len(as) {
			// address taken, or assigned inside a closure
			fresh = false
			return false
		}
		for _, a := range as {
			if a.Pt == def.Pt || !a.Pt.Valid() {
				if !a.Pt.Valid() {
					fresh = false
				}
				continue
			}
			if _, after := (core.PathQuery{F: f, From: def.Pt, FromAfter: true, Target: core.PointSet(a.Pt)}).Find(); !after {
				continue
			}
			if a.Pt == at {
				fresh = false
				continue
			}
			if _, before := (core.PathQuery{F: f, From: a.Pt, FromAfter: true, Target: core.PointSet(at)}).Find(); before {
				fresh = false
			}
		}
		return fresh
	})
	if !fresh {
		return nil
	}
	return def.RHS
}

// c21CondAlts: the disjunctive form of what taking successor succ of block b implies (one of the returned
// conjunctions holds), named conditions expanded. A fact about a named condition is kept next to its
// expansion, so a matcher written against the local still sees it.
func c21CondAlts(f *core.FuncInfo, b *cfg.Block, succ int) [][]core.Fact {
	cond := f.BranchCond(b)
	if cond == nil || len(b.Nodes) == 0 {
		return nil
	}
	at := core.Point{B: b, I: len(b.Nodes) - 1}
	var expand func(alts [][]core.Fact, depth int) [][]core.Fact
	expand = func(alts [][]core.Fact, depth int) [][]core.Fact {
		var out [][]core.Fact
		for _, alt := range alts {
			cur := [][]core.Fact{nil}
			for _, ft := range alt {
				sub := [][]core.Fact{{ft}}
				if id, truth, isBool := c21BoolLocalFact(f, ft); isBool && depth > 0 {
					if d := c21NamedCond(f, id, at); d != nil {
						sub = nil
						for _, s := range expand(core.Disjuncts(d, truth), depth-1) {
							sub = append(sub, append([]core.Fact{ft}, s...))
						}
					}
				}
				if len(cur)*len(sub) > 64 {
					sub = [][]core.Fact{{ft}}
				}
				var next [][]core.Fact
				for _, c := range cur {
					for _, s := range sub {
						next = append(next, append(append([]core.Fact{}, c...), s...))
					}
				}
				cur = next
			}
			out = append(out, cur...)
		}
		return out
	}
	return expand(core.Disjuncts(cond, succ == 0), 3)
}

// c21CondEdges returns the predicate "taking this edge establishes a fact accepted by match", named
// conditions looked through.
func c21CondEdges(f *core.FuncInfo, match func(core.Fact) bool) func(*cfg.Block, int) bool {
	plain := f.GuardEdges(match)
	cache := map[*cfg.Block][2]bool{}
	return func(b *cfg.Block, s int) bool {
		if s > 1 {
			return false
		}
		if plain(b, s) {
			return true
		}
		v, ok := cache[b]
		if !ok {
			for i := 0; i < 2; i++ {
				alts := c21CondAlts(f, b, i)
				all := len(alts) > 0
				for _, alt := range alts {
					one := false
					for _, ft := range alt {
						if match(ft) {
							one = true
							break
						}
					}
					if !one {
						all = false
						break
					}
				}
				v[i] = all
			}
			cache[b] = v
		}
		return v[s]
	}
}
