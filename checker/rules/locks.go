package rules

import (
	"fmt"
	"go/token"
	"sort"
	"strings"

	"lachk/core"
)

// lockException: (function, field) pairs whose unlocked access is accepted, with the reason.
type lockException struct {
	Func, Field, Reason string
}

// short drops the package path from a canonical name: "kvdb/flushable.Flushable.Put" -> "Flushable.Put".
func short(name string) string {
	if i := strings.LastIndex(name, "/"); i >= 0 {
		name = name[i+1:]
	}
	if i := strings.Index(name, "."); i >= 0 {
		return name[i+1:]
	}
	return name
}

func levelName(l int8) string {
	switch l {
	case core.LWrite:
		return "write-locked"
	case core.LRead:
		return "read-locked"
	}
	return "unlocked"
}

// reportLockset turns a lockset result into obligations: one per (function, guarded field),
// plus one per function for "every exit releases what it acquired".
// onlyFuncs, if non-nil, restricts reporting to functions for which it returns true.
func reportLockset(c *core.Ctx, res *core.LockResult, exceptions []lockException, onlyFuncs func(*core.FuncInfo) bool) (nOb int) {
	exc := map[string]string{}
	for _, e := range exceptions {
		exc[e.Func+"|"+e.Field] = e.Reason
	}
	type key struct{ fn, field string }
	groups := map[key][]core.Access{}
	var order []key
	for _, a := range res.Accesses {
		if onlyFuncs != nil && !onlyFuncs(a.F) {
			continue
		}
		k := key{a.F.Name, a.Field}
		if _, ok := groups[k]; !ok {
			order = append(order, k)
		}
		groups[k] = append(groups[k], a)
	}
	sort.Slice(order, func(i, j int) bool {
		if order[i].fn != order[j].fn {
			return order[i].fn < order[j].fn
		}
		return order[i].field < order[j].field
	})
	for _, k := range order {
		accs := groups[k]
		var bad []core.Access
		nW := 0
		for _, a := range accs {
			if a.Write {
				nW++
			}
			if !a.OK() {
				bad = append(bad, a)
			}
		}
		construct := short(k.fn) + "|" + short(k.field)
		nOb++
		if len(bad) == 0 {
			c.Pass(construct, "T1 LockSet", fmt.Sprintf("%d accesses (%d writes) all under %s", len(accs), nW, short(accs[0].Mutex)))
			continue
		}
		if reason, ok := exc[short(k.fn)+"|"+short(k.field)]; ok {
			c.Pass(construct, "T1 LockSet (exception)", "unlocked access accepted: "+reason)
			continue
		}
		b := bad[0]
		kind := "read"
		need := "at least a read lock"
		if b.Write {
			kind = "write (" + b.How + ")"
			need = "the write lock"
		}
		entry := ""
		if f := b.F; f != nil {
			if st, ok := res.Entry[f]; ok && f.Obj != nil && !f.Obj.Exported() {
				var weak []string
				for _, ci := range res.CallIns[f] {
					need := core.LRead
					if b.Write {
						need = core.LWrite
					}
					if ci.State[b.Mutex] < need {
						weak = append(weak, fmt.Sprintf("%s (%s, %s)", short(ci.Caller.Name), levelName(ci.State[b.Mutex]), c.P.Pos(ci.Pos)))
					}
				}
				sort.Strings(weak)
				entry = fmt.Sprintf("; %s is a helper entered %s: called without the needed lock from %s", short(f.Name), levelName(st[b.Mutex]), strings.Join(weak, ", "))
			}
		}
		c.Fail(construct, "T1 LockSet", b.Pos, fmt.Sprintf("%s of %s while %s is %s, needs %s (%d of %d accesses in this function)%s",
			kind, short(b.Field), short(b.Mutex), levelName(b.Held), need, len(bad), len(accs), entry))
	}
	// exits
	seen := map[string]bool{}
	for _, e := range res.ExitHeld {
		if onlyFuncs != nil && !onlyFuncs(e.F) {
			continue
		}
		construct := "exit|" + short(e.F.Name) + "|" + short(e.Mutex)
		if seen[construct] {
			continue
		}
		seen[construct] = true
		nOb++
		c.Fail(construct, "T1 LockSet (release on every exit)", e.Pos, fmt.Sprintf("%s returns with %s still held and no deferred unlock", short(e.F.Name), short(e.Mutex)))
	}
	return nOb
}

var _ = token.NoPos
