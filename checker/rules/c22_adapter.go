package rules

import (
	"go/ast"
	"go/token"
	"go/types"
	"strings"

	"lachk/core"
)

// Adapter types in the lockset of C22.
//
// A maintainer may replace direct calls of the overlay's write helpers (put/delete, "called under lock")
// by a small unexported type that implements an interface (Put/Delete) on top of them, and hand a value
// of it to a function that replays operations into any writer. The methods of such an adapter have
// exported names, so the lockset analysis (which is context-insensitive and resolves no interface calls)
// treats them as entry points reached without any lock. That is more than the property needs to assume
// when every value of the adapter type is born as a direct call argument under the lock and can only be
// used by the callee during that call. c22AdapterHeld decides exactly this, structurally:
//
//  1. T is an unexported named type of the package; outside T's own methods no expression has type T or
//     *T except composite literals T{…} / &T{…} that are written directly as an argument of a call of a
//     module function g (so no variable, field, result or conversion ever holds an adapter);
//  2. inside T's methods the receiver is only selected from (r.f, r.M()) — it is not stored or passed on;
//  3. in g the receiving parameter is never assigned and is only used as the receiver of method calls
//     made in g's own body outside go/defer (it does not escape, and is dead when g returns);
//  4. neither g, nor T's methods, nor the module functions they call (bounded depth) release a mutex, so
//     what the caller holds at the call of g is still held at every dispatch.
//
// Then every method of T is entered with at least the meet of the lock states at those calls of g
// (taken from the first lockset pass), which is handed to a second pass as the methods' entry state.
func c22AdapterHeld(p *core.Prog, pkgRel string, res *core.LockResult) map[string]map[string]int8 {
	pk := p.Pkg(pkgRel)
	if pk == nil || pk.TypesInfo == nil {
		return nil
	}
	info := pk.TypesInfo
	// candidate types: unexported named types that have methods among the analysed functions
	methods := map[*types.TypeName][]*core.FuncInfo{}
	for _, f := range res.Analysed {
		if f.Obj == nil || f.Recv() == nil {
			continue
		}
		if tn := c22NamedOf(f.Recv().Type()); tn != nil && !tn.Exported() && tn.Pkg() == pk.Types {
			methods[tn] = append(methods[tn], f)
		}
	}
	if len(methods) == 0 {
		return nil
	}
	inMethodOf := func(pos token.Pos) *types.TypeName {
		for tn, ms := range methods {
			for _, m := range ms {
				if m.Decl != nil && m.Decl.Pos() <= pos && pos < m.Decl.End() {
					return tn
				}
			}
		}
		return nil
	}
	type site struct {
		call *ast.CallExpr
		arg  int
	}
	sites := map[*types.TypeName][]site{}
	rejected := map[*types.TypeName]bool{}
	for _, file := range pk.Syntax {
		var stack []ast.Node
		ast.Inspect(file, func(n ast.Node) bool {
			if n == nil {
				stack = stack[:len(stack)-1]
				return true
			}
			stack = append(stack, n)
			e, ok := n.(ast.Expr)
			if !ok {
				return true
			}
			tv, ok := info.Types[e]
			if !ok || !tv.IsValue() {
				return true
			}
			tn := c22NamedOf(tv.Type)
			if tn == nil || methods[tn] == nil {
				return true
			}
			if _, isID := e.(*ast.Ident); isID && inMethodOf(e.Pos()) == tn {
				return true // the receiver inside T's methods: judged by c22RecvOnlySelected
			}
			// the literal, possibly under & and parentheses, directly as a call argument
			i := len(stack) - 1
			if _, isLit := e.(*ast.CompositeLit); !isLit {
				switch x := e.(type) {
				case *ast.ParenExpr:
					return true // judged at its operand
				case *ast.UnaryExpr:
					if _, inner := ast.Unparen(x.X).(*ast.CompositeLit); inner && x.Op == token.AND {
						return true // judged at the literal
					}
				}
				rejected[tn] = true
				return true
			}
			var child ast.Node = e
			for i--; i >= 0; i-- {
				switch x := stack[i].(type) {
				case *ast.ParenExpr:
					child = x
					continue
				case *ast.UnaryExpr:
					if x.Op == token.AND {
						child = x
						continue
					}
				case *ast.CallExpr:
					for k, a := range x.Args {
						if ast.Node(a) == child {
							sites[tn] = append(sites[tn], site{x, k})
							return true
						}
					}
				}
				break
			}
			rejected[tn] = true
			return true
		})
	}
	out := map[string]map[string]int8{}
	for tn, ss := range sites {
		if rejected[tn] || len(ss) == 0 {
			continue
		}
		ok := true
		for _, m := range methods[tn] {
			ok = ok && c22RecvOnlySelected(m) && c22NoRelease(m, 2)
		}
		var held core.LState
		for _, s := range ss {
			if !ok {
				break
			}
			fn, _ := core.ObjOfExpr(info, s.call.Fun).(*types.Func)
			g := p.FuncOf(fn)
			if g == nil || g.Body == nil || !c22ParamOnlyDispatched(g, g.Param(s.arg)) || !c22NoRelease(g, 2) {
				ok = false
				break
			}
			var st core.LState
			for _, ci := range res.CallIns[g] {
				if ci.Pos == s.call.End() && ci.Caller != nil && ci.Caller.Body != nil && ci.Caller.Body.Pos() <= s.call.Pos() && s.call.End() <= ci.Caller.Body.End() {
					st = ci.State
				}
			}
			if st == nil {
				ok = false
				break
			}
			if held == nil {
				held = core.LState{}
				for k, v := range st {
					held[k] = v
				}
			} else {
				for k, v := range held {
					if w := st[k]; w < v {
						held[k] = w
					}
				}
			}
		}
		if !ok || held == nil {
			continue
		}
		for _, m := range methods[tn] {
			lv := map[string]int8{}
			for k, v := range held {
				if v > 0 {
					lv[k] = v
				}
			}
			out[m.Name] = lv
		}
	}
	return out
}

// c22NamedOf: the type name of a named type or of a pointer to one (nil otherwise).
func c22NamedOf(t types.Type) *types.TypeName {
	if t == nil {
		return nil
	}
	if pt, ok := t.(*types.Pointer); ok {
		t = pt.Elem()
	}
	if nt, ok := t.(*types.Named); ok {
		return nt.Obj()
	}
	return nil
}

// c22RecvOnlySelected: every use of m's receiver is the operand of a selector (field or method).
func c22RecvOnlySelected(m *core.FuncInfo) bool {
	rv := m.Recv()
	if rv == nil || m.Body == nil {
		return false
	}
	selected := map[*ast.Ident]bool{}
	ok := true
	ast.Inspect(m.Body, func(n ast.Node) bool {
		switch x := n.(type) {
		case *ast.SelectorExpr:
			if id, isID := ast.Unparen(x.X).(*ast.Ident); isID {
				selected[id] = true
			}
		case *ast.Ident:
			if m.Info().ObjectOf(x) == types.Object(rv) && !selected[x] {
				ok = false
			}
		}
		return ok
	})
	return ok
}

// c22ParamOnlyDispatched: the parameter pv of g is never assigned, and each of its uses is the receiver
// of a method call made in g's own body (not in a nested literal), outside go and defer.
func c22ParamOnlyDispatched(g *core.FuncInfo, pv *types.Var) bool {
	if pv == nil || len(assignsToVar(g, pv)) > 0 {
		return false
	}
	recvUse := map[*ast.Ident]bool{}
	for _, cs := range g.Calls() {
		if cs.InGo || cs.InDefer {
			continue
		}
		if r := cs.Recv(); r != nil {
			if id, ok := ast.Unparen(r).(*ast.Ident); ok && g.Info().ObjectOf(id) == types.Object(pv) {
				recvUse[id] = true
			}
		}
	}
	ok := true
	ast.Inspect(g.Body, func(n ast.Node) bool {
		if id, isID := n.(*ast.Ident); isID && g.Info().ObjectOf(id) == types.Object(pv) && !recvUse[id] {
			ok = false
		}
		return ok
	})
	return ok
}

// c22NoRelease: neither f (with its literals) nor the module functions it calls (bounded depth) unlock
// a mutex.
func c22NoRelease(f *core.FuncInfo, depth int) bool {
	for _, h := range append([]*core.FuncInfo{f}, allLits(f)...) {
		for _, cs := range h.Calls() {
			if strings.HasPrefix(cs.Name, "sync.") && strings.HasSuffix(cs.Name, "Unlock") {
				return false
			}
			if depth > 0 {
				if g := c22Callee(cs); g != nil && !c22NoRelease(g, depth-1) {
					return false
				}
			}
		}
	}
	return true
}
