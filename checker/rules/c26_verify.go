package rules

import (
	"fmt"
	"go/ast"
	"go/token"
	"go/types"

	"lachk/core"
)

// c26Verify decides the record check of verification. The comparison of one recorded request with its
// current route may be written in verifyRecords itself or in a module function it calls (at most two
// levels down); the facts are the same in every layout:
//
//	current route            the function holding the comparison computes RouteOf(<record>.Req), and the
//	                         record is the element of the loop around it (or the parameter that the caller
//	                         binds to the element of its loop);
//	field coverage           in that function a differing type, name or table leads only to error returns
//	                         and acceptance needs each of the three tests to have failed;
//	verdict propagated       on every level above, a non-nil error of the callee leads only to error
//	                         returns, is obtained for every element, and acceptance needs it to be nil;
//	complete loops           the loops of all these functions visit every element.
func c26Verify(c *core.Ctx, f *core.FuncInfo) {
	errRetOf := func(g *core.FuncInfo) func(*ast.ReturnStmt) bool {
		return func(r *ast.ReturnStmt) bool { return len(r.Results) == 1 && !core.IsNil(g.Info(), r.Results[0]) }
	}
	// the variable holding RouteOf(x.Req), with the root x of the request
	routeOf := func(g *core.FuncInfo) (*types.Var, ast.Expr, *ast.CallExpr) {
		for _, a := range assignments(g) {
			if call := isCallTo(g, a.RHS, mdP+"Producer.RouteOf"); call != nil && a.RHS != nil && len(call.Args) == 1 {
				if root, pth := fieldPath(g, call.Args[0]); len(pth) == 1 && pth[0] == mdP+"TableRecord.Req" {
					if v := varOf(g, a.LHS); v != nil {
						return v, root, call
					}
				}
			}
		}
		return nil, nil, nil
	}
	type link struct {
		caller *core.FuncInfo
		cs     *core.CallSite
		callee *core.FuncInfo
	}
	var find func(g *core.FuncInfo, depth int) (*core.FuncInfo, []link)
	find = func(g *core.FuncInfo, depth int) (*core.FuncInfo, []link) {
		if v, _, _ := routeOf(g); v != nil {
			return g, nil
		}
		if depth == 0 {
			return nil, nil
		}
		for _, cs := range g.Calls() {
			h := c27ModuleCallee(g, cs)
			if h == nil || core.RelPkg(h.Pkg.PkgPath) != "kvdb/multidb" {
				continue
			}
			if v, chain := find(h, depth-1); v != nil {
				return v, append([]link{{g, cs, h}}, chain...)
			}
		}
		return nil, nil
	}
	v, chain := find(f, 2)
	c.Need(v != nil, "newRoute := RouteOf(old.Req)")
	newRoute, recRoot, routeCall := routeOf(v)

	// field coverage, in the function that holds the comparison
	type cmp struct{ name, oldF, newF string }
	for _, w := range []cmp{
		{"type", mdP + "DBLocator.Type", mdP + "Route.Type"},
		{"name", mdP + "DBLocator.Name", mdP + "Route.Name"},
		{"table", mdP + "TableRecord.Table", mdP + "Route.Table"},
	} {
		w := w
		ok, why := rejectedWhen(v, func(ft core.Fact) bool {
			cm, k := core.NormCmp(ft)
			if !k || cm.R == nil || cm.Op != token.NEQ {
				return false
			}
			is := func(x, y ast.Expr) bool {
				_, p1 := fieldPath(v, x)
				r2, p2 := fieldPath(v, y)
				return len(p1) == 1 && p1[0] == w.oldF && len(p2) == 1 && p2[0] == w.newF && varOf(v, r2) == newRoute
			}
			return is(cm.L, cm.R) || is(cm.R, cm.L)
		}, errRetOf(v))
		c.Check(ok, "changed "+w.name+" => verification fails", "T8 field coverage", v.Pos(), "a differing "+w.name+" leads only to error returns and every record passes that test", "verification does not fail when the "+w.name+" of a recorded request changed: "+why)
	}

	// the record whose route is recomputed is the element of the loop around the comparison
	elemOf := func(g *core.FuncInfo, at token.Pos, e ast.Expr) (decided, ok bool) {
		loop := enclosingLoop(g, at)
		if loop == nil {
			return false, false
		}
		resolve := func(x ast.Expr) ast.Expr { return resolveLocal(g, x) }
		it, isIt := core.IterationOf(g, loop, resolve)
		if !isIt {
			return false, false
		}
		return true, it.IsElem(e, resolve)
	}
	recOK, recDecided := false, false
	if len(chain) == 0 {
		recDecided, recOK = elemOf(v, routeCall.Pos(), recRoot)
	} else if i := c27ParamIndex(v, varOf(v, resolveLocal(v, recRoot))); i >= 0 {
		last := chain[len(chain)-1]
		if i < len(last.cs.Call.Args) {
			recDecided, recOK = elemOf(last.caller, last.cs.Pos(), last.cs.Call.Args[i])
		}
	}
	if recDecided {
		c.Check(recOK, "the route of every record is recomputed", "provenance", routeCall.Pos(), "RouteOf is asked for the request of the record being visited", "the request whose route is recomputed is not the one of the record being visited: some recorded requests are never verified")
	}

	// the verdict on a record travels up to verifyRecords
	for _, l := range chain {
		g, cs := l.caller, l.cs
		ok, why := false, ""
		inLoop := enclosingLoop(g, cs.Pos())
		if ev := errVarOfCall(g, cs.Call); ev != nil {
			ok, why = rejectedWhen(g, varNilFact(g, ev, false), errRetOf(g))
			if ok && inLoop != nil {
				if it, isIt := core.IterationOf(g, inLoop, func(x ast.Expr) ast.Expr { return resolveLocal(g, x) }); isIt {
					if every, wit := it.EveryIterationPasses([]core.Point{cs.Pt}, false); !every {
						ok, why = false, "an element can be passed over without the check: "+g.DescribePath(wit)
					}
				}
			}
		} else if r, isRet := cs.Pt.Node().(*ast.ReturnStmt); isRet && len(r.Results) == 1 && ast.Unparen(r.Results[0]) == ast.Expr(cs.Call) {
			switch {
			case inLoop != nil:
				why = "the verdict on the first element ends the loop"
			default:
				accepting := func(pt core.Point) bool {
					rs, isR := pt.Node().(*ast.ReturnStmt)
					return isR && !errRetOf(g)(rs)
				}
				path, found := core.PathQuery{F: g, From: g.Entry(), Target: accepting, Avoid: core.PointSet(cs.Pt)}.Find()
				ok = !found
				if found {
					why = "acceptance is reachable without the check: " + g.DescribePath(path)
				}
			}
		} else {
			why = "the error result of " + short(l.callee.Name) + " is discarded"
		}
		c.Check(ok, short(g.Name)+"|a failed record check fails verification", "T8 DecisionTable", cs.Pos(), "a non-nil error of "+short(l.callee.Name)+" leads only to error returns, and acceptance needs it to be nil", "verification does not fail although the check of a record failed: "+why)
	}

	// loops are complete (every record of every database is checked), in range or counted form
	n := 0
	seen := map[*core.FuncInfo]bool{}
	funcs := []*core.FuncInfo{f}
	for _, l := range chain {
		funcs = append(funcs, l.callee)
	}
	for _, g := range funcs {
		if seen[g] {
			continue
		}
		seen[g] = true
		g := g
		resolve := func(e ast.Expr) ast.Expr { return resolveLocal(g, e) }
		for _, lp := range c26Loops(g) {
			n++
			it, isIt := core.IterationOf(g, lp, resolve)
			c.Check(isIt && c26FullIteration(it), fmt.Sprintf("verification loop %d is complete", n), "T2 (loop)", lp.Pos(), "visits every element; left only by returning an error or when exhausted", "verification can stop early (or skip records) without an error")
		}
	}
	c.ExpectAtLeast("verification loops", n, 2)
}
