package rules

import (
	"go/ast"
	"go/token"
	"go/types"
	"math/big"

	"lachk/core"
)

const cpState = "kvdb/cachedproducer.cacheState"

func init() {
	register("C27", "other", "T16a SiblingAgreement (constructors initialise every map written), T1 LockSet, T7 Pairing, T4 GuardedBy (normalised counter tests)",
		"Decides the reference-counting shape: wherever a cache state comes into existence — a state literal in a constructor or in a constructor helper, the state field of every producer literal, new() — every map that openDB writes into is made (a missing one makes the first open panic); an entry of the opened map is removed, anywhere in the package, only on the counter == 1 edge of a test of the reference counter and together with the counter entry (a store that is still referenced stays the one that further opens return); the three maps are only touched under the state mutex; every path of openDB that returns a store increments the reference counter exactly once (paths taken per outcome of the cache lookup; an update written in a module function is counted through its summary: never / always / exactly when a boolean result is true) and returns the store kept in the cache; the close function — with the counter logic inline or in one helper whose error and last-reference results are followed — returns an error when the counter is <= 0, forgets the entry and calls the real close exactly on counter == 1 (one test or two bounds), and stores back counter - 1 otherwise; the drop function — with the test-and-clear inline or in a helper whose boolean result it tests — reads and clears the not-dropped mark in one critical section and calls the real drop only on the marked edge. History equivalence with a reference-counting model is not decided.",
		[]string{"the wrapped producer's OpenDB/Close/Drop are opaque", "two concurrent first opens of one name are outside this property (histories are sequential)"},
		runC27)
}

func runC27(c *core.Ctx) {
	p := c.P
	opened, refc, notDropped := cpState+".opened", cpState+".refCounter", cpState+".notDropped"

	c.Clause("C27.init", func() {
		// every creation site of a cache state is obliged (see checkMapInit); the floor only excludes vacuity
		checkMapInit(c, "kvdb/cachedproducer", cpState, 1)
	})

	c.Clause("C27.lock", func() {
		spec := core.LockSpec{
			Pkgs: []string{"kvdb/cachedproducer"},
			Guarded: map[string]string{
				c.Fld(opened): cpState + ".mu", c.Fld(refc): cpState + ".mu", c.Fld(notDropped): cpState + ".mu",
			},
		}
		full := core.RunLockset(p, spec)
		// an unlocked access to a state that is still under construction (a fresh local of a constructor
		// that has not been handed out yet, or the parameter of a helper that only constructors call on
		// such a local: see c27Constr) is no access to shared memory
		rest, constr := c27ConstructionAccesses(c27NewConstr(p, "kvdb/cachedproducer"), full)
		view := *full
		view.Accesses = rest
		res := &view
		reportLockset(c, res, nil, nil)
		seenConstr := map[string]bool{}
		for _, a := range constr {
			key := "construction|" + short(a.F.Name) + "|" + short(a.Field)
			if !seenConstr[key] {
				seenConstr[key] = true
				c.Pass(key, "T1 LockSet (object under construction)", "unlocked "+a.How+" of "+short(a.Field)+" at "+p.Pos(a.Pos)+": the state it belongs to has not been handed out yet, no other goroutine can reach it")
			}
		}
		// not vacuous: each of the three maps is seen being written somewhere (how the accesses are
		// spread over functions and closures is a matter of layout, not of the property)
		written := map[string]bool{}
		for _, a := range res.Accesses {
			if a.Write {
				written[a.Field] = true
			}
		}
		c.ExpectAtLeast("cache-state maps with analysed writes", len(written), 3)
	})

	// refCounter[k]++, refCounter[k] += 1, refCounter[k] = refCounter[k] + 1 — written in openDB or in a
	// module function it calls (see c27Effect)
	incEffect := c27NewEffect(opened, func(f *core.FuncInfo, a assignment) (ast.Expr, bool) {
		ix, ok := ast.Unparen(a.LHS).(*ast.IndexExpr)
		if !ok || fieldNameOf(f, ix.X) != refc {
			return nil, false
		}
		cell := func(e ast.Expr) string {
			if jx, k := ast.Unparen(e).(*ast.IndexExpr); k && fieldNameOf(f, jx.X) == refc && varOf(f, jx.Index) != nil && varOf(f, jx.Index) == varOf(f, ix.Index) {
				return "cell"
			}
			return ""
		}
		switch a.Tok {
		case token.INC:
			return ix.Index, true
		case token.ADD_ASSIGN:
			return ix.Index, a.RHS != nil && core.IsConstInt(f.Info(), a.RHS, 1)
		case token.ASSIGN:
			if a.RHS == nil {
				return nil, false
			}
			l := core.Linearize(f.Info(), a.RHS, cell)
			k := l.Coef["cell"]
			return ix.Index, len(l.Coef) == 1 && k != nil && k.Cmp(big.NewInt(1)) == 0 && l.C.Cmp(big.NewInt(1)) == 0
		}
		return nil, false
	})
	// notDropped[k] = true
	armEffect := c27NewEffect(opened, func(f *core.FuncInfo, a assignment) (ast.Expr, bool) {
		ix, ok := ast.Unparen(a.LHS).(*ast.IndexExpr)
		if !ok || fieldNameOf(f, ix.X) != notDropped || a.RHS == nil || !c26IsTrue(f, a.RHS) {
			return nil, false
		}
		return ix.Index, true
	})
	// the caching open is located by what it does (see c27Openers): it may be a function over the state,
	// a method of the state or of a producer
	checkOpen := func(open *core.FuncInfo, nameParam *types.Var) {
		isName := func(e ast.Expr) bool { return nameParam != nil && varOf(open, resolveLocal(open, e)) == nameParam }
		c.Need(nameParam != nil, "the opening function has a parameter carrying the name")
		incs, bad := incEffect.sites(open, 2)
		if bad != "" {
			c.Undecided("open counted", "T7 Pairing", open.Pos(), "cannot tell on which paths openDB increments the reference counter: "+bad)
		}
		c.ExpectAtLeast("refCounter[name]++ sites in openDB", len(incs), 1)
		for _, s := range incs {
			for _, k := range s.keys {
				c.Check(isName(k), "the counter of the opened name is incremented", "provenance", s.pos, "refCounter is indexed by openDB's name", "the open is counted for "+exprStr(k)+", not for the name being opened")
			}
		}
		okRet := returnsWith(open, 0, func(e ast.Expr) bool { return !core.IsNil(open.Info(), e) })
		c.ExpectAtLeast("store-returning exits of openDB", len(okRet), 1)
		// paths are searched per outcome of the cache lookup (hit / miss) — made in openDB or reported by
		// the helper that makes it —, so that `if ok {count}; …; if ok {return}` is read like the nested form
		scenarios := incEffect.scenarios(open, incs)
		for _, rp := range okRet {
			ok, wit := true, []core.Point(nil)
			for _, sc := range scenarios {
				isInc := core.PointSet(sc.active(incs)...)
				if path, found := (core.PathQuery{F: open, From: open.Entry(), Target: core.PointSet(rp), Avoid: isInc, AvoidEdge: sc.infeasible}).Find(); found && !isInc(rp) {
					ok, wit = false, path
				}
			}
			c.Check(ok, "open counted", "T7 Pairing", posOf(rp), "every path returning a store increments refCounter[name]", "a store is returned without counting the open: "+open.DescribePath(wit))
		}
		twice := false
		for _, sc := range scenarios {
			if fl := c27FlowOf(open, sc, incs); fl.feasible && fl.twice {
				twice = true
			}
		}
		c.Check(!twice, "open counted once", "T5 AtMostOnce", open.Pos(), "no path increments the counter twice", "a path increments refCounter twice for one open")
		// the cached store is what is returned: on the hit edge the returned variable is the comma-ok result of opened[name];
		// on the miss path the variable stored into opened[name] is the one returned (the read and the store may
		// each live in a helper: see c27CacheReads, c27Puts)
		puts := c27Puts(open, opened, 2)
		okCache, whyCache := len(puts) == 1, "opened[name] is not assigned at exactly one place"
		if okCache {
			st := puts[0]
			sv := varOf(open, st.val)
			if sv == nil {
				okCache, whyCache = false, "what is put into opened[name] is not a variable"
			}
			// variables read from the cache: v, ok := opened[name] / v := opened[name]
			fromCache := c27CacheReads(open, opened, 2)
			nAfter := 0
			for _, rp := range okRet {
				if !okCache {
					break
				}
				rv := varOf(open, rp.Node().(*ast.ReturnStmt).Results[0])
				_, hitPath := (core.PathQuery{F: open, From: open.Entry(), Target: core.PointSet(rp), Avoid: core.PointSet(st.pt)}).Find()
				missPath := open.CanReach(st.pt, rp)
				switch {
				case rv == nil:
					okCache, whyCache = false, "a successful exit returns something other than a variable holding the store"
				case missPath && rv != sv:
					okCache, whyCache = false, "the store returned after caching is not the one kept in opened[name]"
				case hitPath && !fromCache[rv]:
					okCache, whyCache = false, "a store is returned that was neither read from opened[name] nor put into it"
				}
				if missPath && okCache {
					nAfter++
					for _, d := range assignsToVar(open, sv) {
						if open.CanReach(st.pt, d.Pt) && open.CanReach(d.Pt, rp) {
							okCache, whyCache = false, "the variable put into opened[name] is replaced before it is returned"
						}
					}
				}
			}
			if okCache && nAfter == 0 {
				okCache, whyCache = false, "no successful exit follows the caching of the new store"
			}
		}
		c.Check(okCache, "new store is cached and returned", "provenance", open.Pos(), "the wrapped store is put into opened[name] and the same value is returned; a cache hit returns what was read from opened[name]", "the store returned by openDB is not the one kept in opened[name]: "+whyCache)
		// notDropped[name] = true on every open
		// (sites that certainly set the mark: an assignment, or a helper every path of which makes it)
		var nd []core.Point
		arms, _ := armEffect.sites(open, 2)
		for _, s := range arms {
			if s.cond != nil {
				continue
			}
			named := true
			for _, k := range s.keys {
				named = named && isName(k)
			}
			if named {
				nd = append(nd, s.pt)
			}
		}
		okND := len(nd) > 0
		for _, rp := range okRet {
			if ok, _ := open.MustPassBefore(nd, rp); !ok {
				okND = false
			}
		}
		c.Check(okND, "every open re-arms the drop", "T2 Dominates", open.Pos(), "notDropped[name] = true dominates every successful return", "an open can succeed without marking the name droppable")
	}
	var openers []c27Opener
	c.Clause("C27.open", func() {
		openers = c27Openers(p, incEffect)
		c.Need(len(openers) > 0, "a function of the cachedproducer package that opens the wrapped producer's database")
	})
	for _, o := range openers {
		o := o
		c.Clause("C27.open", func() { checkOpen(o.f, o.name) })
	}

	// the two closures
	// (the StoreWithFn literal may be built in openDB or in a helper of the package)
	var closeFn, dropFn, host *core.FuncInfo
	for _, h := range p.Funcs() {
		if core.RelPkg(h.Pkg.PkgPath) != "kvdb/cachedproducer" {
			continue
		}
		h := h
		h.InspectOwn(func(n ast.Node) bool {
			kv, ok := n.(*ast.KeyValueExpr)
			if !ok {
				return true
			}
			id, ok := kv.Key.(*ast.Ident)
			if !ok {
				return true
			}
			lit, ok := ast.Unparen(kv.Value).(*ast.FuncLit)
			if !ok {
				return true
			}
			if v, ok := h.Info().ObjectOf(id).(*types.Var); ok {
				switch p.FieldName(v) {
				case "kvdb/cachedproducer.StoreWithFn.CloseFn":
					closeFn, host = p.LitInfo(lit), h
				case "kvdb/cachedproducer.StoreWithFn.DropFn":
					dropFn, host = p.LitInfo(lit), h
				}
			}
			return true
		})
	}

	// the real close/drop of the underlying store: a call of a local holding the method value
	// (realClose := store.Close), or a direct call of the interface method
	isReal := func(methods ...string) func(cs *core.CallSite) bool {
		vars := map[types.Object]bool{}
		for g := host; g != nil; g = g.Parent {
			for _, a := range assignments(g) {
				if sel, ok := ast.Unparen(a.RHS).(*ast.SelectorExpr); ok && a.RHS != nil {
					if fn, ok := g.Info().Uses[sel.Sel].(*types.Func); ok {
						for _, m := range methods {
							if core.FuncName(fn) == m {
								if v := varOf(g, a.LHS); v != nil {
									vars[v] = true
								}
							}
						}
					}
				}
			}
		}
		return func(cs *core.CallSite) bool {
			if cs.Callee != nil && vars[cs.Callee] {
				return true
			}
			for _, m := range methods {
				if cs.Name == m {
					return true
				}
			}
			return false
		}
	}

	c.Clause("C27.close", func() {
		c.Need(closeFn != nil, "StoreWithFn literal with CloseFn closure in the cachedproducer package")
		c27Close(c, closeFn, isReal("kvdb.Store.Close", "io.Closer.Close"), refc, opened)
	})

	c.Clause("C27.evict", func() {
		c27Evict(c, opened, refc)
	})

	c.Clause("C27.drop", func() {
		c.Need(dropFn != nil, "StoreWithFn literal with DropFn closure in the cachedproducer package")
		c27Drop(c, dropFn, isReal("kvdb.Droper.Drop", "kvdb.Store.Drop"), notDropped)
	})
}
