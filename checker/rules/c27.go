package rules

import (
	"fmt"
	"go/ast"
	"go/token"
	"go/types"

	"lachk/core"
)

const cpState = "kvdb/cachedproducer.cacheState"

func init() {
	register("C27", "other", "T16a SiblingAgreement (constructors initialise every map written), T1 LockSet, T7 Pairing, T4 GuardedBy (normalised counter tests)",
		"Decides the reference-counting shape: both constructors (Wrap, WrapAll) initialise every map of the shared cache state that openDB writes into (a missing one makes the first open panic); the three maps are only touched under the state mutex; every path of openDB that returns a store increments the reference counter exactly once and returns the store kept in the cache; the close function returns an error when the counter is <= 0, forgets the entry and calls the real close exactly on counter == 1, and decrements otherwise; the drop function tests-and-clears the not-dropped mark under the lock and calls the real drop only on the marked edge. History equivalence with a reference-counting model is not decided.",
		[]string{"the wrapped producer's OpenDB/Close/Drop are opaque", "two concurrent first opens of one name are outside this property (histories are sequential)"},
		runC27)
}

// checkMapInit is T16a: every composite literal of the struct initialises each map-typed field
// that some function of the package assigns into.
func checkMapInit(c *core.Ctx, pkg, structName string, minLits int) {
	p := c.P
	tn := p.LookupType(structName)
	c.Need(tn != nil, "type "+structName)
	st, ok := tn.Type().Underlying().(*types.Struct)
	c.Need(ok, structName+" is a struct")
	written := map[string]string{} // field -> where
	for _, f := range p.Funcs() {
		if core.RelPkg(f.Pkg.PkgPath) != pkg {
			continue
		}
		for _, a := range assignments(f) {
			ix, ok := ast.Unparen(a.LHS).(*ast.IndexExpr)
			if !ok {
				continue
			}
			fn := fieldNameOf(f, ix.X)
			if fn == "" {
				continue
			}
			if _, isMap := f.Info().TypeOf(ix.X).Underlying().(*types.Map); isMap {
				if _, seen := written[fn]; !seen {
					written[fn] = short(f.Name) + " at " + p.Pos(a.Stmt.Pos())
				}
			}
		}
	}
	var mapFields []string
	for i := 0; i < st.NumFields(); i++ {
		fld := st.Field(i)
		if _, isMap := fld.Type().Underlying().(*types.Map); isMap {
			mapFields = append(mapFields, p.FieldName(fld))
		}
	}
	nLits := 0
	for _, f := range p.Funcs() {
		if core.RelPkg(f.Pkg.PkgPath) != pkg {
			continue
		}
		f.InspectOwn(func(n ast.Node) bool {
			cl, ok := n.(*ast.CompositeLit)
			if !ok {
				return true
			}
			t := f.Info().TypeOf(cl)
			if t == nil || !types.Identical(t, tn.Type()) {
				return true
			}
			nLits++
			inited := map[string]bool{}
			for _, el := range cl.Elts {
				kv, ok := el.(*ast.KeyValueExpr)
				if !ok {
					continue
				}
				if id, ok := kv.Key.(*ast.Ident); ok {
					if v, ok := f.Info().ObjectOf(id).(*types.Var); ok {
						if call, isCall := ast.Unparen(kv.Value).(*ast.CallExpr); isCall && calleeName(f, call) == "builtin.make" {
							inited[p.FieldName(v)] = true
						} else if _, isLit := ast.Unparen(kv.Value).(*ast.CompositeLit); isLit {
							inited[p.FieldName(v)] = true
						}
					}
				}
			}
			for _, mf := range mapFields {
				where, w := written[mf]
				if !w {
					continue
				}
				c.Check(inited[mf], short(f.Name)+"|"+short(mf)+" initialised", "T16a SiblingAgreement", cl.Pos(),
					"the literal makes the map that "+where+" assigns into",
					fmt.Sprintf("this constructor leaves %s nil although %s assigns into it: the first such assignment panics (assignment to entry in nil map)", short(mf), where))
			}
			return true
		})
	}
	c.ExpectAtLeast("composite literals of "+short(structName), nLits, minLits)
}

func runC27(c *core.Ctx) {
	p := c.P
	opened, refc, notDropped := cpState+".opened", cpState+".refCounter", cpState+".notDropped"

	c.Clause("C27.init", func() {
		checkMapInit(c, "kvdb/cachedproducer", cpState, 2)
	})

	c.Clause("C27.lock", func() {
		spec := core.LockSpec{
			Pkgs: []string{"kvdb/cachedproducer"},
			Guarded: map[string]string{
				c.Fld(opened): cpState + ".mu", c.Fld(refc): cpState + ".mu", c.Fld(notDropped): cpState + ".mu",
			},
		}
		res := core.RunLockset(p, spec)
		n := reportLockset(c, res, nil, nil)
		c.ExpectAtLeast("cache-state access groups", n, 6)
	})

	open := c.Fn("kvdb/cachedproducer.openDB")
	nameParam := open.ParamNamed("name")

	isRefInc := func(f *core.FuncInfo, a assignment) bool {
		ix, ok := ast.Unparen(a.LHS).(*ast.IndexExpr)
		return ok && fieldNameOf(f, ix.X) == refc && a.Tok == token.INC
	}

	c.Clause("C27.open", func() {
		c.Need(nameParam != nil, "openDB has a name parameter")
		var incs []core.Point
		for _, a := range assignments(open) {
			if isRefInc(open, a) {
				incs = append(incs, a.Pt)
			}
		}
		c.ExpectAtLeast("refCounter[name]++ sites in openDB", len(incs), 2)
		okRet := returnsWith(open, 0, func(e ast.Expr) bool { return !core.IsNil(open.Info(), e) })
		c.ExpectAtLeast("store-returning exits of openDB", len(okRet), 2)
		for _, rp := range okRet {
			ok, wit := open.MustPassBefore(incs, rp)
			c.Check(ok, "open counted", "T7 Pairing", posOf(rp), "every path returning a store increments refCounter[name]", "a store is returned without counting the open: "+open.DescribePath(wit))
		}
		twice := false
		for _, a := range incs {
			for _, b := range incs {
				if open.CanReach(a, b) {
					twice = true
				}
			}
		}
		c.Check(!twice, "open counted once", "T5 AtMostOnce", open.Pos(), "no path increments the counter twice", "a path increments refCounter twice for one open")
		// the cached store is what is returned: on the hit edge the returned variable is the comma-ok result of opened[name];
		// on the miss path the variable stored into opened[name] is the one returned
		var storeAssign []assignment
		for _, a := range assignments(open) {
			if ix, ok := ast.Unparen(a.LHS).(*ast.IndexExpr); ok && fieldNameOf(open, ix.X) == opened {
				storeAssign = append(storeAssign, a)
			}
		}
		okCache := len(storeAssign) == 1
		if okCache {
			sv := varOf(open, storeAssign[0].RHS)
			last := okRet[len(okRet)-1]
			r := last.Node().(*ast.ReturnStmt)
			okCache = sv != nil && varOf(open, r.Results[0]) == sv
			if okCache {
				okCache, _ = open.MustPassBefore([]core.Point{storeAssign[0].Pt}, last)
			}
		}
		c.Check(okCache, "new store is cached and returned", "provenance", open.Pos(), "the wrapped store is put into opened[name] and the same value is returned", "the store returned on the miss path is not the one kept in opened[name]")
		// notDropped[name] = true on every open
		var nd []core.Point
		for _, a := range assignments(open) {
			if ix, ok := ast.Unparen(a.LHS).(*ast.IndexExpr); ok && fieldNameOf(open, ix.X) == notDropped && isIdentNamed(a.RHS, "true") {
				nd = append(nd, a.Pt)
			}
		}
		okND := len(nd) > 0
		for _, rp := range okRet {
			if ok, _ := open.MustPassBefore(nd, rp); !ok {
				okND = false
			}
		}
		c.Check(okND, "every open re-arms the drop", "T2 Dominates", open.Pos(), "notDropped[name] = true dominates every successful return", "an open can succeed without marking the name droppable")
	})

	// the two closures
	var closeFn, dropFn *core.FuncInfo
	open.InspectOwn(func(n ast.Node) bool {
		kv, ok := n.(*ast.KeyValueExpr)
		if !ok {
			return true
		}
		id, ok := kv.Key.(*ast.Ident)
		if !ok {
			return true
		}
		lit, ok := ast.Unparen(kv.Value).(*ast.FuncLit)
		if !ok {
			return true
		}
		if v, ok := open.Info().ObjectOf(id).(*types.Var); ok {
			switch p.FieldName(v) {
			case "kvdb/cachedproducer.StoreWithFn.CloseFn":
				closeFn = p.LitInfo(lit)
			case "kvdb/cachedproducer.StoreWithFn.DropFn":
				dropFn = p.LitInfo(lit)
			}
		}
		return true
	})

	// real close/drop variables: method values of the underlying store
	methodValueVar := func(method string) *types.Var {
		for _, a := range assignments(open) {
			if sel, ok := ast.Unparen(a.RHS).(*ast.SelectorExpr); ok && a.RHS != nil {
				if fn, ok := open.Info().Uses[sel.Sel].(*types.Func); ok && core.FuncName(fn) == method {
					return varOf(open, a.LHS)
				}
			}
		}
		return nil
	}

	c.Clause("C27.close", func() {
		c.Need(closeFn != nil, "StoreWithFn literal with CloseFn closure in openDB")
		f := closeFn
		realClose := methodValueVar("kvdb.Store.Close")
		if realClose == nil {
			realClose = methodValueVar("io.Closer.Close")
		}
		c.Need(realClose != nil, "realClose := store.Close")
		// counter variable = refCounter[name]
		var counter *types.Var
		for _, a := range assignments(f) {
			if ix, ok := ast.Unparen(a.RHS).(*ast.IndexExpr); ok && a.RHS != nil && fieldNameOf(f, ix.X) == refc {
				counter = varOf(f, a.LHS)
			}
		}
		c.Need(counter != nil, "counter := refCounter[name]")
		namer := func(e ast.Expr) string {
			if varOf(f, e) == counter {
				return "counter"
			}
			return ""
		}
		lin := func(want string) func(core.Fact) bool {
			w := core.ParseLinCmp(want)
			return func(ft core.Fact) bool {
				lc, ok := core.NormLinCmp(f.Info(), ft, namer)
				return ok && lc.Equal(w)
			}
		}
		// error return <=> counter <= 0
		errRets := returnsWith(f, 0, func(e ast.Expr) bool {
			return !core.IsNil(f.Info(), e) && isCallTo(f, e, "errors.New", "fmt.Errorf") != nil
		})
		c.ExpectAtLeast("error returns of CloseFn", len(errRets), 1)
		for _, rp := range errRets {
			ok, _ := f.GuardedBy(rp, lin("counter <= 0"))
			c.Check(ok, "over-close reported", "T4 GuardedBy", posOf(rp), "the error is returned on the counter <= 0 edge", "the over-close error is not tied to counter <= 0")
		}
		// real close call: guarded by a flag set only on counter == 1; deletes on that edge
		rc := f.CallsMatching(func(cs *core.CallSite) bool { return cs.Callee == types.Object(realClose) })
		c.Check(len(rc) == 1, "real close called at one site", "T6 WhoMayCall", f.Pos(), "exactly one call of the real close", fmt.Sprintf("%d calls of the real close in CloseFn", len(rc)))
		if len(rc) == 1 {
			// flag variable
			var flag *types.Var
			okG, _ := f.GuardedBy(rc[0].Pt, func(ft core.Fact) bool {
				cm, ok := core.NormCmp(ft)
				if ok && cm.R == nil && cm.Op == token.EQL {
					if v := varOf(f, cm.L); v != nil && v != counter {
						flag = v
						return true
					}
				}
				return lin("counter - 1 == 0")(ft)
			})
			c.Check(okG, "real close is conditional", "T4 GuardedBy", rc[0].Pos(), "the real close is reached only through a flag / counter test", "the real close is called unconditionally")
			if flag != nil {
				nSet := 0
				for _, a := range assignsToVar(f, flag) {
					if isIdentNamed(a.RHS, "true") {
						nSet++
						ok, wit := f.GuardedBy(a.Pt, lin("counter - 1 == 0"))
						ok0, _ := f.GuardedBy(a.Pt, lin("-counter + 1 <= 0")) // counter >= 1, i.e. not the error edge
						c.Check(ok && ok0, "close flag set exactly on counter == 1", "T4 GuardedBy", a.Stmt.Pos(), "the flag enabling the real close is set only on the counter == 1 edge (last reference)", "the underlying database can be closed while references remain: "+f.DescribePath(wit))
						// both deletes on that edge
						for _, fld := range []string{refc, opened} {
							del := core.Points(f.CallsMatching(func(cs *core.CallSite) bool {
								return cs.Name == "builtin.delete" && len(cs.Call.Args) > 0 && fieldNameOf(f, cs.Call.Args[0]) == fld
							}))
							okD, _ := pairedWith(f, a.Pt, del)
							c.Check(okD, "last close forgets "+short(fld), "T7 Pairing", a.Stmt.Pos(), "delete("+short(fld)+", name) is on every path through the last-close edge", "the last close does not delete "+short(fld)+"[name] (a later open would return a closed store)")
						}
					} else if a.RHS != nil && !isIdentNamed(a.RHS, "false") {
						c.Fail("close flag has an unexpected definition", "T4 GuardedBy", a.Stmt.Pos(), "the flag guarding the real close is assigned something other than true/false")
					}
				}
				c.ExpectAtLeast("assignments enabling the real close", nSet, 1)
			}
		}
		// decrement otherwise: refCounter[name] = counter after counter--, on the edge counter > 1
		nDec := 0
		for _, a := range assignments(f) {
			if ix, ok := ast.Unparen(a.LHS).(*ast.IndexExpr); ok && fieldNameOf(f, ix.X) == refc {
				nDec++
				var decs []core.Point
				for _, d := range assignsToVar(f, counter) {
					if d.Tok == token.DEC {
						decs = append(decs, d.Pt)
					}
				}
				ok1 := varOf(f, a.RHS) == counter
				ok2, _ := f.MustPassBefore(decs, a.Pt)
				ok3, _ := f.GuardedBy(a.Pt, lin("-counter + 1 <= 0"))
				okN, _ := f.GuardedBy(a.Pt, lin("counter - 1 != 0"))
				c.Check(ok1 && ok2 && ok3 && okN, "other closes decrement the counter", "T7 Pairing", a.Stmt.Pos(), "on the counter > 1 edge the counter is decremented by one and stored back", "the counter is not decremented by exactly one on the remaining-references edge")
			}
		}
		c.ExpectAtLeast("counter write-backs in CloseFn", nDec, 1)
	})

	c.Clause("C27.drop", func() {
		c.Need(dropFn != nil, "StoreWithFn literal with DropFn closure in openDB")
		f := dropFn
		realDrop := methodValueVar("kvdb.Droper.Drop")
		if realDrop == nil {
			realDrop = methodValueVar("kvdb.Store.Drop")
		}
		c.Need(realDrop != nil, "realDrop := store.Drop")
		rd := f.CallsMatching(func(cs *core.CallSite) bool { return cs.Callee == types.Object(realDrop) })
		c.Check(len(rd) == 1, "real drop called at one site", "T6 WhoMayCall", f.Pos(), "exactly one call of the real drop", fmt.Sprintf("%d calls of the real drop in DropFn", len(rd)))
		if len(rd) != 1 {
			return
		}
		var flag *types.Var
		okG, _ := f.GuardedBy(rd[0].Pt, func(ft core.Fact) bool {
			cm, ok := core.NormCmp(ft)
			if ok && cm.R == nil && cm.Op == token.EQL {
				if v := varOf(f, cm.L); v != nil {
					flag = v
					return true
				}
			}
			return false
		})
		c.Check(okG && flag != nil, "real drop is conditional on the mark", "T4 GuardedBy", rd[0].Pos(), "the real drop is reached only on the true edge of a flag", "the real drop is called unconditionally: it can run more than once per open")
		if flag == nil {
			return
		}
		// the flag's only non-false definition is notDropped[name], and the mark is cleared after reading it, before unlock
		var read []assignment
		for _, a := range assignsToVar(f, flag) {
			if a.RHS == nil || isIdentNamed(a.RHS, "false") {
				continue
			}
			ix, ok := ast.Unparen(a.RHS).(*ast.IndexExpr)
			if ok && fieldNameOf(f, ix.X) == notDropped {
				read = append(read, a)
			} else {
				c.Fail("drop flag has an unexpected definition", "provenance", a.Stmt.Pos(), "the flag guarding the real drop is not read from notDropped[name]")
			}
		}
		c.Check(len(read) == 1, "drop flag is the not-dropped mark", "provenance", f.Pos(), "toDrop = notDropped[name]", "the drop flag is not read from notDropped[name]")
		if len(read) == 1 {
			del := core.Points(f.CallsMatching(func(cs *core.CallSite) bool {
				return cs.Name == "builtin.delete" && len(cs.Call.Args) > 0 && fieldNameOf(f, cs.Call.Args[0]) == notDropped
			}))
			unl := core.Points(f.CallsTo("sync.Mutex.Unlock"))
			ok1, _ := f.MustPassAfter(read[0].Pt, del)
			// no unlock between the read and the clear (test-and-clear is one critical section)
			ok2 := len(del) > 0
			for _, d := range del {
				if _, found := (core.PathQuery{F: f, From: read[0].Pt, FromAfter: true, Target: core.PointSet(d), Avoid: nil}).Find(); found {
					if ok, _ := f.MustPassBetween(read[0].Pt, unl, d); ok && len(unl) > 0 {
						ok2 = false // every path passes an unlock in between
					}
				}
			}
			c.Check(ok1 && ok2, "test-and-clear of the mark", "T7 Pairing", read[0].Stmt.Pos(), "the mark is deleted after it is read, within the same critical section", "the not-dropped mark is not cleared atomically with its test: two drops can both run the real drop")
		}
	})
}
