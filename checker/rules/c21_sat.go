package rules

import (
	"go/ast"
	"go/constant"
	"go/token"
	"go/types"

	"lachk/core"
)

// C21 — T19 SaturatingArith for the remaining time handed to the maximum keeper.
//
// since(t) is the saturating Time.Sub, the remaining time is threshold - since(t) in wrapping int64
// arithmetic. For a timestamp far enough in the future (since(t) < threshold - MaxInt64, which includes
// but is wider than the saturated value MinInt64) the true difference exceeds MaxInt64 and the machine
// result wraps to a negative number; the keeper (`cur < new`) ignores it and emission is permitted.
//
// Decided: wherever a value that flows into apply's wait argument is the plain difference
// threshold - since (in the inlined view: through helpers, local closures, single-definition locals,
// re-assigned result variables), every path from the subtraction to that use takes an edge that excludes
// wrap-around, whichever alternative of a disjunctive edge holds:
//
//	since >= c, c >= 0          the subtrahend is not negative, the difference of a positive threshold fits
//	wait  >= threshold          a wrapped difference is < threshold (threshold - since - 2^64 < threshold)
//	wait  >= c, c >= 0          a wrapped difference is negative
//
// (normalised comparisons: `0 <= since`, `!(since < 0)`, `since > -1` are the same fact). Any other value
// that reaches the use must be the constant MaxInt64 (the cap), a zero value, or come from a helper for
// which the same holds at each of its returns. A test of the saturated value only (since == MinInt64)
// does not qualify: differences between MaxInt64-threshold+1 and MaxInt64 wrap without saturating.

type c21SatVerdict struct {
	ok, decided bool
	why         string
	pos         token.Pos
}

type c21Sat struct {
	view *c21View
}

func c21IsMaxDur(f *core.FuncInfo, e ast.Expr) bool {
	v, ok := core.ConstVal(f.Info(), e)
	if !ok {
		return false
	}
	v = constant.ToInt(v)
	return v.Kind() == constant.Int && constant.Compare(v, token.EQL, constant.MakeInt64(1<<63-1))
}

func c21ConstInt64(f *core.FuncInfo, e ast.Expr) (int64, bool) {
	v, ok := core.ConstVal(f.Info(), e)
	if !ok {
		return 0, false
	}
	v = constant.ToInt(v)
	if v.Kind() != constant.Int {
		return 0, false
	}
	return constant.Int64Val(v)
}

// satCall: e denotes the result of a saturating time subtraction (SyncStatus.Since or Time.Sub).
func (s *c21Sat) satCall(fr *c21Frame, e ast.Expr) (*c21Frame, *ast.CallExpr) {
	fr2, r := c21Resolve(fr, e)
	call, ok := r.(*ast.CallExpr)
	if !ok {
		return nil, nil
	}
	switch calleeName(fr2.F, call) {
	case dsP + "SyncStatus.Since", "time.Time.Sub":
		return fr2, call
	}
	return nil, nil
}

// diffOf: e (already resolved in fr) is `A - B` with B a saturating duration.
func (s *c21Sat) diffOf(fr *c21Frame, e ast.Expr) *ast.BinaryExpr {
	be, ok := ast.Unparen(e).(*ast.BinaryExpr)
	if !ok || be.Op != token.SUB {
		return nil
	}
	if _, call := s.satCall(fr, be.Y); call == nil {
		return nil
	}
	return be
}

// sameValue: two expressions of one frame denote the same value (same resolved node, same variable,
// or the same pure expression text after resolution).
func (s *c21Sat) sameValue(fr *c21Frame, a, b ast.Expr) bool {
	fa, ra := c21Resolve(fr, a)
	fb, rb := c21Resolve(fr, b)
	if fa != fb {
		return false
	}
	if ra == rb {
		return true
	}
	ia, okA := ra.(*ast.Ident)
	ib, okB := rb.(*ast.Ident)
	if okA || okB {
		return okA && okB && fa.F.Info().ObjectOf(ia) != nil && fa.F.Info().ObjectOf(ia) == fa.F.Info().ObjectOf(ib)
	}
	return exprStr(ra) == exprStr(rb)
}

// noWrapFact builds the predicate "this fact excludes wrap-around of d" for facts of frame fr's function.
// waitVar, when not nil, is a variable known to hold d on the paths considered.
func (s *c21Sat) noWrapFact(fr *c21Frame, d *ast.BinaryExpr, waitVar *types.Var) func(core.Fact) bool {
	isSince := func(e ast.Expr) bool {
		if _, call := s.satCall(fr, e); call == nil {
			return false
		}
		return s.sameValue(fr, e, d.Y)
	}
	isWait := func(e ast.Expr) bool {
		e = ast.Unparen(e)
		if id, ok := e.(*ast.Ident); ok && waitVar != nil && fr.F.Info().ObjectOf(id) == types.Object(waitVar) {
			return true
		}
		fr2, r := c21Resolve(fr, e)
		if fr2 != fr {
			return false
		}
		if r == ast.Expr(d) {
			return true
		}
		be, ok := r.(*ast.BinaryExpr)
		return ok && be.Op == token.SUB && s.sameValue(fr, be.X, d.X) && s.sameValue(fr, be.Y, d.Y)
	}
	return func(ft core.Fact) bool {
		cm, ok := core.NormCmp(ft)
		if !ok || cm.R == nil || (cm.Op != token.LSS && cm.Op != token.LEQ) {
			return false
		}
		// L < R / L <= R: a lower bound on R
		if k, isC := c21ConstInt64(fr.F, cm.L); isC {
			min := int64(0)
			if cm.Op == token.LSS {
				min = -1
			}
			return k >= min && (isSince(cm.R) || isWait(cm.R))
		}
		return isWait(cm.R) && s.sameValue(fr, cm.L, d.X)
	}
}

func c21Up(fr, to *c21Frame, use core.Point) core.Point {
	for x := fr; x != nil && x != to; x = x.Up {
		if x.Site != nil {
			use = x.Site.Pt
		}
	}
	return use
}

const c21WrapStory = "since() saturates and is very negative for a far-future timestamp, the difference wraps to a negative value, the maximum keeper ignores it and emission is permitted although the timestamp is not threshold in the past"

// check decides that the value of e, used at point `use` of frame fr, is never a wrapped difference.
func (s *c21Sat) check(fr *c21Frame, e ast.Expr, use core.Point, depth int) c21SatVerdict {
	if depth <= 0 {
		return c21SatVerdict{pos: e.Pos(), why: "the wait is computed through more helper levels than the rule follows"}
	}
	fr2, r := c21Resolve(fr, e)
	use = c21Up(fr, fr2, use)
	f := fr2.F
	if c21IsMaxDur(f, r) || core.IsConstInt(f.Info(), r, 0) {
		return c21SatVerdict{ok: true, decided: true}
	}
	plain := func(d *ast.BinaryExpr, from *core.Point, others []core.Point, v *types.Var) c21SatVerdict {
		if !s.view.isVar(fr2, d.X, s.view.threshold) {
			return c21SatVerdict{pos: d.Pos(), why: "the wait is a difference whose minuend is not the threshold: " + exprStr(d)}
		}
		// (a wrap-around test may be named before it is branched on: c21_cond.go)
		edges := c21CondEdges(f, s.noWrapFact(fr2, d, v))
		q := core.PathQuery{F: f, From: f.Entry(), Target: core.PointSet(use), AvoidEdge: edges}
		if from != nil {
			q.From, q.FromAfter, q.Avoid = *from, true, core.PointSet(others...)
		}
		path, found := q.Find()
		if from == nil && use == f.Entry() {
			found = true
		}
		if found {
			return c21SatVerdict{decided: true, pos: d.Pos(), why: "the wait can be the plain difference " + exprStr(d) + " without a wrap-around test on the way (path " + f.DescribePath(path) + "): no edge says since >= 0 or difference >= threshold; " + c21WrapStory}
		}
		return c21SatVerdict{ok: true, decided: true}
	}
	if d := s.diffOf(fr2, r); d != nil {
		return plain(d, nil, nil, nil)
	}
	switch x := r.(type) {
	case *ast.Ident:
		// a variable assigned more than once (wait := threshold - since; if wrapped { wait = max })
		v, _ := f.Info().ObjectOf(x).(*types.Var)
		if v == nil || !c19Within(f.Body, v.Pos()) {
			return c21SatVerdict{pos: x.Pos(), why: "the wait is held in a variable the rule cannot trace: " + x.Name}
		}
		as := assignsToVar(f, v)
		if len(as) == 0 {
			return c21SatVerdict{pos: x.Pos(), why: "the wait variable " + x.Name + " is assigned in a way the rule cannot trace"}
		}
		if _, addr := c19AssignCount(f, v); addr {
			return c21SatVerdict{pos: x.Pos(), why: "the address of the wait variable " + x.Name + " is taken"}
		}
		for _, l := range allLits(f) {
			if len(assignsToVar(l, v)) > 0 {
				return c21SatVerdict{pos: x.Pos(), why: "the wait variable " + x.Name + " is assigned inside a closure"}
			}
		}
		for i, a := range as {
			var others []core.Point
			for j, b := range as {
				if j != i && b.Pt != a.Pt {
					others = append(others, b.Pt)
				}
			}
			if a.Pt != use {
				if _, reaches := (core.PathQuery{F: f, From: a.Pt, FromAfter: true, Target: core.PointSet(use), Avoid: core.PointSet(others...)}).Find(); !reaches {
					continue
				}
			}
			if a.RHS == nil {
				if _, isSpec := a.Stmt.(*ast.ValueSpec); isSpec {
					continue // zero value
				}
				return c21SatVerdict{pos: a.Stmt.Pos(), why: "the wait variable " + x.Name + " is assigned by a multi-value form"}
			}
			if a.Tok != token.DEFINE && a.Tok != token.ASSIGN {
				return c21SatVerdict{pos: a.Stmt.Pos(), why: "the wait variable " + x.Name + " is updated arithmetically"}
			}
			fa, ra := c21Resolve(fr2, a.RHS)
			if d := s.diffOf(fa, ra); d != nil && fa == fr2 {
				pt := a.Pt
				if vd := plain(d, &pt, others, v); !vd.ok {
					return vd
				}
				continue
			}
			if vd := s.check(fr2, a.RHS, a.Pt, depth-1); !vd.ok {
				return vd
			}
		}
		return c21SatVerdict{ok: true, decided: true}
	case *ast.CallExpr:
		sub := c21EnterCall(fr2, x)
		if sub == nil {
			return c21SatVerdict{pos: x.Pos(), why: "the wait is computed by a call the rule cannot enter: " + exprStr(x)}
		}
		rets := sub.F.ReturnPoints()
		if len(rets) == 0 {
			return c21SatVerdict{pos: x.Pos(), why: short(sub.F.Name) + " has no return"}
		}
		und := c21SatVerdict{ok: true, decided: true}
		for _, rp := range rets {
			rs := rp.Node().(*ast.ReturnStmt)
			if len(rs.Results) != 1 {
				und = c21SatVerdict{pos: rs.Pos(), why: short(sub.F.Name) + " does not return the wait as its single explicit result"}
				continue
			}
			vd := s.check(sub, rs.Results[0], rp, depth-1)
			if !vd.ok && vd.decided {
				return vd
			}
			if !vd.ok {
				und = vd
			}
		}
		return und
	}
	return c21SatVerdict{pos: r.Pos(), why: "the wait has a form the rule cannot classify: " + exprStr(r)}
}

// c21CheckSaturating is T19 for one apply site of the inlined view.
func c21CheckSaturating(c *core.Ctx, view *c21View, ap c21Apply, stamp string) {
	construct := stamp + "|remaining time saturates"
	s := &c21Sat{view: view}
	vd := s.check(ap.Fr, ap.Wait, ap.Pt, 6)
	pos := vd.pos
	if !pos.IsValid() {
		pos = ap.Pos
	}
	switch {
	case vd.ok:
		c.Pass(construct, "T19 SaturatingArith", "every plain difference threshold - since("+stamp+") that can reach apply is used only over an edge excluding wrap-around (since >= 0 or difference >= threshold); otherwise the maximum duration is substituted")
	case vd.decided:
		c.Fail(construct, "T19 SaturatingArith", pos, vd.why)
	default:
		c.Undecided(construct, "T19 SaturatingArith", pos, vd.why)
	}
}
