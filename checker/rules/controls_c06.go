package rules

// Positive controls for C06 (see controls.go for the conventions).
func init() {
	Controls["C06"] = []Control{
		{"merge keeps the lowest branch", "vecfc/vector_ops.go", `branch\.Seq > highestBranchSeq\.Seq`, "branch.Seq < highestBranchSeq.Seq", "C06.gather"},
		{"fork-only parent entries skipped", "vecfc/vector_ops.go", `if hisSeq\.Seq == 0 && !hisSeq\.IsForkDetected\(\) \{`, "if hisSeq.Seq == 0 {", "C06.collect"},
		{"half-open overlap test", "vecengine/index.go", `MinSeq\(a\) <= myVecs\.before\.Seq\(b\)`, "MinSeq(a) < myVecs.before.Seq(b)", "C06.detect"},
		{"per-branch vector returned although forks exist", "vecengine/index.go", `if vi\.AtLeastOneFork\(\) \{\n\t\tscatteredBefore`, "if !vi.AtLeastOneFork() {\n\t\tscatteredBefore", "C06.merge"},
		{"flushed branch table kept by reference", "vecengine/index.go", `func \(vi \*Engine\) Flush\(\) \{\n\tif vi\.bi != nil \{\n\t\tvi\.setBranchesInfo\(vi\.bi\)\n`, "var lastFlushedBranches *BranchesInfo\n\nfunc (vi *Engine) Flush() {\n\tif vi.bi != nil {\n\t\tvi.setBranchesInfo(vi.bi)\n\t\tlastFlushedBranches = vi.bi\n", "no other retained object keeps storage of the live branch table"},
		{"branch table stored only once a fork exists", "vecengine/index.go", `\tif vi\.bi != nil \{\n\t\tvi\.setBranchesInfo\(vi\.bi\)\n\t\}\n\tif err := vi\.vecDb\.Flush`, "\tif vi.bi != nil && len(vi.bi.BranchIDCreatorIdxs) > int(vi.validators.Len()) {\n\t\tvi.setBranchesInfo(vi.bi)\n\t}\n\tif err := vi.vecDb.Flush", "changes of the branch table are stored by Flush"},
	}
}
