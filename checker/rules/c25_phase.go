package rules

import (
	"go/ast"
	"go/token"
	"go/types"

	"golang.org/x/tools/go/cfg"

	"lachk/core"
)

// Phase analysis of SyncedPool.flush (C25.pool).
//
// The crash-consistency argument is about *phases*: "every pooled database carries the dirty mark",
// "every pooled database was flushed", "every pooled database carries the clean mark". A phase is
// recognised semantically, not by its spelling: it is a complete iteration over the pool map in which
// every element receives the effect (the mark call / the Flush call, directly or through a helper that
// always performs it), written either inline in flush or inside a helper that flush calls (the helper's
// parameters are bound to the roles of the arguments at the call: flush ID, dirty/clean prefix, key).
// "Phase X is over before point P" is then dominance by the loop's exit (inline) or by the successful
// return of the helper call.

const (
	c25Dirty = "dirty"
	c25Clean = "clean"
	c25Flush = "flush"
	c25MarkF = "kvdb/flushable.MarkFlushID"
)

// c25Env maps parameters (and the flush ID parameter of flush itself) to their role: "id", "key",
// "dirty", "clean".
type c25Env map[*types.Var]string

// c25Role evaluates an expression of g to the role it plays ("" if none).
func c25Role(g *core.FuncInfo, env c25Env, e ast.Expr) string {
	if e == nil {
		return ""
	}
	e = core.StripConv(g.Info(), resolveLocal(g, e))
	e = resolveLocal(g, e)
	switch {
	case constNamed(g, e, "kvdb/flushable.DirtyPrefix"):
		return c25Dirty
	case constNamed(g, e, "kvdb/flushable.CleanPrefix"):
		return c25Clean
	}
	if v := varOf(g, e); v != nil {
		if r := env[v]; r != "" {
			return r
		}
		if r := env[canonVar(g, v)]; r != "" {
			return r
		}
	}
	if fieldNameOf(g, e) == poolT+".flushIDKey" {
		return "key"
	}
	return ""
}

// c25HelperEnv binds the parameters of helper h to the roles of the arguments of the call cs in g.
// A helper that is a method of the pool must be called on the same pool.
func c25HelperEnv(cs *core.CallSite, g *core.FuncInfo, env c25Env, h *core.FuncInfo) (c25Env, bool) {
	if h.RecvTypeName() == poolT && g.RecvTypeName() == poolT {
		r := cs.Recv()
		if r == nil || g.Recv() == nil || canonVar(g, varOf(g, r)) != g.Recv() {
			return nil, false
		}
	}
	out := c25Env{}
	for pv, arg := range c22ParamArgs(cs, h) {
		if r := c25Role(g, env, arg); r != "" {
			out[pv] = r
		} else if c25StoreKind(g, env, arg, 2) == c25Raw {
			// the underlying database of a pooled wrapper handed to the helper (c25_store.go)
			out[pv] = c25Raw
		}
	}
	return out, true
}

// c25IsUnit: does the call apply the effect `kind` to one database?
func c25IsUnit(g *core.FuncInfo, env c25Env, cs *core.CallSite, kind string) bool {
	if cs.InGo || cs.InDefer {
		return false
	}
	if kind == c25Flush {
		return cs.Name == "kvdb/flushable.LazyFlushable.Flush" || cs.Name == "kvdb/flushable.Flushable.Flush" || cs.Name == "kvdb.FlushableKVStore.Flush"
	}
	if cs.Name != c25MarkF || len(cs.Call.Args) != 4 {
		return false
	}
	return c25Role(g, env, cs.Call.Args[1]) == "key" && c25Role(g, env, cs.Call.Args[2]) == kind && c25Role(g, env, cs.Call.Args[3]) == "id"
}

// c25ReturnsError: is the last result of h an error?
func c25ReturnsError(h *core.FuncInfo) bool {
	if h.Obj == nil {
		return false
	}
	sig, _ := h.Obj.Type().(*types.Signature)
	if sig == nil || sig.Results().Len() == 0 {
		return false
	}
	return types.Identical(sig.Results().At(sig.Results().Len()-1).Type(), types.Universe.Lookup("error").Type())
}

// c25MaySucceed: can this return statement of h report success? Not when it returns an error variable
// on an edge that implies the variable is non-nil.
func c25MaySucceed(h *core.FuncInfo, rp core.Point) bool {
	r, ok := rp.Node().(*ast.ReturnStmt)
	if !ok || len(r.Results) == 0 {
		return true
	}
	last := r.Results[len(r.Results)-1]
	if core.IsNil(h.Info(), last) {
		return true
	}
	if v := varOf(h, last); v != nil {
		if g, _ := h.GuardedBy(rp, varNilFact(h, v, false)); g {
			return false
		}
	}
	return true
}

func c25SucceedingReturns(h *core.FuncInfo) []core.Point {
	var out []core.Point
	for _, rp := range h.ReturnPoints() {
		if c25MaySucceed(h, rp) {
			out = append(out, rp)
		}
	}
	return out
}

// c25Unit is a point of g at which one database certainly receives the effect.
type c25Unit struct {
	Pt     core.Point
	Helper *core.CallSite // non-nil: the effect happens inside this helper call (which returns an error)
}

// c25Units lists the unit sites of `kind` in g: direct calls, and calls of error-returning helpers every
// succeeding return of which has passed a unit site.
func c25Units(g *core.FuncInfo, env c25Env, kind string, depth int) []c25Unit {
	var out []c25Unit
	for _, cs := range g.Calls() {
		if c25IsUnit(g, env, cs, kind) {
			out = append(out, c25Unit{Pt: cs.Pt})
			continue
		}
		if depth <= 0 || cs.InGo || cs.InDefer {
			continue
		}
		h := c22Callee(cs)
		if h == nil || !c25ReturnsError(h) {
			continue
		}
		henv, ok := c25HelperEnv(cs, g, env, h)
		if !ok {
			continue
		}
		inner := c25Units(h, henv, kind, depth-1)
		if len(inner) == 0 {
			continue
		}
		var pts []core.Point
		for _, u := range inner {
			pts = append(pts, u.Pt)
		}
		always := true
		for _, rp := range c25SucceedingReturns(h) {
			if o, _ := h.MustPassBefore(pts, rp); !o {
				always = false
			}
		}
		if always {
			out = append(out, c25Unit{Pt: cs.Pt, Helper: cs})
		}
	}
	return out
}

// c25Phase is one candidate phase of `kind` found in function G.
type c25Phase struct {
	G    *core.FuncInfo
	Kind string
	// inline form: a loop over the pool map in G
	Loop                 ast.Stmt
	Head, Done           *cfg.Block
	Units                []c25Unit
	Complete, Every, Err bool // loop has no early exit; every iteration passes a unit; helper units' errors end the iteration
	// helper form: a call in G of a helper that contains the phase
	Call   *core.CallSite
	Inner  []*c25Phase
	Covers bool // every succeeding return of the helper is preceded by one of its (sound) phases
}

func (ph *c25Phase) Pos() token.Pos {
	if ph.Call != nil {
		return ph.Call.Pos()
	}
	return ph.Loop.Pos()
}

// leaves: the loops that implement the phase (inline: itself).
func (ph *c25Phase) leaves() []*c25Phase {
	if ph.Call == nil {
		return []*c25Phase{ph}
	}
	var out []*c25Phase
	for _, in := range ph.Inner {
		out = append(out, in.leaves()...)
	}
	return out
}

// OK: when control passes the completion point (loop exit / successful helper return), every pooled
// database has received the effect.
func (ph *c25Phase) OK() bool {
	if ph.Call == nil {
		return ph.Complete && ph.Every && ph.Err
	}
	return ph.Covers
}

// Before: is the phase certainly over when `to` (a point of ph.G) is reached?
func (ph *c25Phase) Before(to core.Point) (bool, []core.Point) {
	if !ph.OK() {
		return false, nil
	}
	if ph.Call == nil {
		return mustPassBlockBefore(ph.G, ph.Done, to)
	}
	if to == ph.Call.Pt {
		// the helper call is evaluated by the statement at `to` itself (return helper(...)): only its
		// result leaves the function
		if r, ok := to.Node().(*ast.ReturnStmt); ok && len(r.Results) > 0 && ast.Unparen(r.Results[len(r.Results)-1]) == ast.Expr(ph.Call.Call) {
			return true, nil
		}
		return false, nil
	}
	if ok, wit := ph.G.MustPassBefore([]core.Point{ph.Call.Pt}, to); !ok {
		return false, wit
	}
	return afterSuccess(ph.G, ph.Call, to), nil
}

// Reaches: can control get from the phase's completion point to `to`?
func (ph *c25Phase) Reaches(to core.Point) bool {
	if ph.Call != nil {
		return ph.G.CanReach(ph.Call.Pt, to)
	}
	if ph.Done == nil {
		return true
	}
	if to.B == ph.Done {
		return true
	}
	_, found := core.PathQuery{F: ph.G, From: core.Point{B: ph.Done, I: 0}, Target: core.PointSet(to)}.Find()
	return found
}

// c25Phases finds the candidate phases of `kind` in g (sound or not: the caller reports the defects).
func c25Phases(g *core.FuncInfo, env c25Env, kind string, depth int) []*c25Phase {
	var out []*c25Phase
	units := c25Units(g, env, kind, depth)
	resolve := func(e ast.Expr) ast.Expr { return resolveLocal(g, e) }
	var loops []ast.Stmt
	g.InspectOwn(func(n ast.Node) bool {
		switch n.(type) {
		case *ast.ForStmt, *ast.RangeStmt:
			loops = append(loops, n.(ast.Stmt))
		}
		return true
	})
	for _, lp := range loops {
		it, ok := core.IterationOf(g, lp, resolve)
		if !ok || it.Coll == nil || fieldNameOf(g, it.Coll) != poolT+".wrappers" || it.Head == nil || it.Done == nil {
			continue
		}
		var in []c25Unit
		var pts []core.Point
		for _, u := range units {
			if enclosingLoop(g, posOf(u.Pt)) == lp {
				in = append(in, u)
				pts = append(pts, u.Pt)
			}
		}
		if len(in) == 0 {
			continue
		}
		ph := &c25Phase{G: g, Kind: kind, Loop: lp, Head: it.Head, Done: it.Done, Units: in, Complete: it.Complete, Err: true}
		ph.Every, _ = it.EveryIterationPasses(pts, false)
		// a helper that may fail before the effect must end the phase with its error: the next
		// iteration (or the loop's exit) is reached only over the err == nil edge
		for _, u := range in {
			if u.Helper == nil {
				continue
			}
			ev := errVarOfCall(g, u.Helper.Call)
			if ev == nil {
				ph.Err = false
				continue
			}
			_, found := core.PathQuery{F: g, From: u.Pt, FromAfter: true, AvoidEdge: g.GuardEdges(varNilFact(g, ev, true)),
				TargetBlock: func(b *cfg.Block) bool { return b == it.Head }}.Find()
			if found {
				ph.Err = false
			}
		}
		out = append(out, ph)
	}
	if depth <= 0 {
		return out
	}
	for _, cs := range g.Calls() {
		if cs.InGo || cs.InDefer {
			continue
		}
		h := c22Callee(cs)
		if h == nil {
			continue
		}
		henv, ok := c25HelperEnv(cs, g, env, h)
		if !ok {
			continue
		}
		inner := c25Phases(h, henv, kind, depth-1)
		if len(inner) == 0 {
			continue
		}
		ph := &c25Phase{G: g, Kind: kind, Call: cs, Inner: inner, Covers: c25ReturnsError(h)}
		for _, rp := range c25SucceedingReturns(h) {
			covered := false
			for _, in := range inner {
				if o, _ := in.Before(rp); o {
					covered = true
				}
			}
			if !covered {
				ph.Covers = false
			}
		}
		out = append(out, ph)
	}
	return out
}

// c25Site is a call of flush through which an effect may happen: the call itself (Inner == CS) or a
// helper call that (transitively) contains it.
type c25Site struct {
	CS    *core.CallSite // the call in the analysed function
	Inner *core.CallSite // the effect's own call site
	G     *core.FuncInfo // function containing Inner
	Env   c25Env         // roles in G
}

// c25MaySites lists the calls of g through which a call satisfying pred may be made (helpers and their
// literals included, bounded depth).
func c25MaySites(g *core.FuncInfo, env c25Env, pred func(h *core.FuncInfo, henv c25Env, cs *core.CallSite) bool, depth int) []c25Site {
	var out []c25Site
	for _, cs := range g.Calls() {
		if pred(g, env, cs) {
			out = append(out, c25Site{CS: cs, Inner: cs, G: g, Env: env})
			continue
		}
		if depth <= 0 {
			continue
		}
		h := c22Callee(cs)
		if h == nil {
			continue
		}
		henv, ok := c25HelperEnv(cs, g, env, h)
		if !ok {
			henv = c25Env{}
		}
		all := append([]*core.FuncInfo{h}, allLits(h)...)
		for _, x := range all {
			for _, s := range c25MaySites(x, henv, pred, depth-1) {
				out = append(out, c25Site{CS: cs, Inner: s.Inner, G: s.G, Env: s.Env})
			}
		}
	}
	return out
}

// c25AnyBefore: is one of the phases certainly over at `to`?
func c25AnyBefore(phases []*c25Phase, to core.Point) (bool, []core.Point) {
	var wit []core.Point
	for _, ph := range phases {
		ok, w := ph.Before(to)
		if ok {
			return true, nil
		}
		if w != nil {
			wit = w
		}
	}
	return false, wit
}

// c25ImpliedEdges is GuardEdges for conditions with alternatives: the edge is selected when every way
// of taking it (each disjunct of `a || b` = true, of `a && b` = false) implies a matching fact.
func c25ImpliedEdges(f *core.FuncInfo, match func(core.Fact) bool) func(*cfg.Block, int) bool {
	return func(b *cfg.Block, s int) bool {
		if s > 1 {
			return false
		}
		cond := f.BranchCond(b)
		if cond == nil {
			return false
		}
		alts := core.Disjuncts(cond, s == 0)
		if len(alts) == 0 {
			return false
		}
		for _, alt := range alts {
			hit := false
			for _, ft := range alt {
				if match(ft) {
					hit = true
				}
			}
			if !hit {
				return false
			}
		}
		return true
	}
}
