package rules

// C15.order — "events of an ordered batch reach the ordering buffer in batch order".
//
// process() hands exactly one event on per call (C15.process), so the batch order is kept exactly when,
// in the ordered mode, the k-th process() call of an inserter task is made for batch position k. That is
// decided as a linear invariant over the task's CFG (a small forward data-flow analysis, flat lattice):
// for every integer local v the difference  v - N  is tracked, N being the number of process() calls the
// task has made so far, and for every local holding a result slot  R[idx]  the difference  idx - N.
// At an ordered process() call the slot handed on must have difference 0. Together with "the slot index
// a result is stored under is its own pos" and "pos is the element's index in the batch" this gives the
// order; none of it depends on how the loops are spelled (index copied from the counter, the counter
// itself, a temporary for the slot, for/range, if/else or early continue).

import (
	"go/ast"
	"go/constant"
	"go/token"
	"go/types"
	"strconv"

	"golang.org/x/tools/go/cfg"

	"lachk/core"
)

// c15Checker is what is known about Enqueue's checker task.
type c15Checker struct {
	ranged      bool // a task iterates over the whole acquired batch
	checkedEach bool // and calls CheckParentless for the element in every iteration
	recOK       bool // whose callback queues a checkRes carrying that element and the check's error
	posOK       bool // and the element's index in the batch as pos
	posPos      token.Pos
}

// c15FindChecker locates, among Enqueue's task literals, the iteration over the batch that hands every
// element to CheckParentless. The loop may be a range or a counted loop with batch[i].
func c15FindChecker(enq *core.FuncInfo, batch *types.Var) c15Checker {
	var out c15Checker
	for _, l := range c10AllLits(enq) {
		l.InspectOwn(func(n ast.Node) bool {
			switch n.(type) {
			case *ast.RangeStmt, *ast.ForStmt:
			default:
				return true
			}
			it := c10Iter(l, n.(ast.Stmt))
			if it == nil || it.Coll == nil || varOf(l, c15Resolve(l, it.Coll)) != batch {
				return true
			}
			if c10Forward(it) {
				out.ranged = true
			}
			for _, cs := range l.CallsTo(c15Pkg + ".EventCallback.CheckParentless") {
				if len(cs.Call.Args) != 2 || !c10IsElem(l, it, cs.Call.Args[0]) {
					continue
				}
				// unconditional in the loop body
				if ok, _ := it.EveryIterationPasses([]core.Point{cs.Pt}, true); ok {
					out.checkedEach = true
				}
				cb := c10LitArg(l, cs.Call, 1)
				if cb == nil {
					continue
				}
				cb.InspectOwn(func(m ast.Node) bool {
					flds, cl, ok := c15StructFields(cb, c15ExprOf(m))
					if !ok || c15TypeName(cb.Info().Types[cl].Type) != c15Pkg+".checkRes" {
						return true
					}
					if c10IsElem(l, it, flds[c15Pkg+".checkRes.e"]) && cb.Param(0) != nil && varOf(cb, flds[c15Pkg+".checkRes.err"]) == cb.Param(0) {
						out.recOK = true
					}
					out.posPos = cl.Pos()
					if pe := flds[c15Pkg+".checkRes.pos"]; pe != nil && it.Index != nil {
						v := varOf(cb, core.StripConv(cb.Info(), c15Through(cb, core.StripConv(cb.Info(), pe))))
						out.posOK = v == it.Index
					}
					return true
				})
			}
			return true
		})
	}
	return out
}

// c15Offsets is the abstract state: known differences to the number of process() calls made so far.
type c15Offsets struct {
	reached bool
	off     map[*types.Var]int
	nAbs    int // the number of process() calls itself, when it is the same on all paths
	nKnown  bool
}

func (s *c15Offsets) clone() *c15Offsets {
	o := &c15Offsets{reached: s.reached, off: map[*types.Var]int{}, nAbs: s.nAbs, nKnown: s.nKnown}
	for k, v := range s.off {
		o.off[k] = v
	}
	return o
}

// join merges b into s (s may be unreached); reports whether s changed.
func (s *c15Offsets) join(b *c15Offsets) bool {
	if !s.reached {
		*s = *b.clone()
		return true
	}
	changed := false
	for k, v := range s.off {
		if w, ok := b.off[k]; !ok || w != v {
			delete(s.off, k)
			changed = true
		}
	}
	if s.nKnown && (!b.nKnown || b.nAbs != s.nAbs) {
		s.nKnown, changed = false, true
	}
	return changed
}

// c15OrderAnalysis runs the analysis over one task literal.
type c15OrderAnalysis struct {
	f        *core.FuncInfo
	isCount  func(*ast.CallExpr) bool // the counted call (process)
	wild     map[*types.Var]bool      // variables also assigned outside f's own body: never tracked
	rangeIds map[*ast.Ident]bool      // key/value identifiers of range statements (assigned by the loop)
	names    map[*types.Var]string
	in       map[*cfg.Block]*c15Offsets
	// results: the state just before each counted call
	at map[*ast.CallExpr]*c15Offsets
}

func (a *c15OrderAnalysis) tracked(v *types.Var) bool {
	if v == nil || v.IsField() || a.wild[v] {
		return false
	}
	if b, ok := v.Type().Underlying().(*types.Basic); ok && b.Info()&types.IsInteger != 0 {
		return true
	}
	return c15IsResultPtr(v.Type())
}

func c15IsResultPtr(t types.Type) bool {
	_, isPtr := t.(*types.Pointer)
	return isPtr && c15TypeName(t) == c15Pkg+".checkRes"
}

func (a *c15OrderAnalysis) namer(e ast.Expr) string {
	v := varOf(a.f, e)
	if v == nil {
		return ""
	}
	if a.names[v] == "" {
		a.names[v] = "v" + strconv.Itoa(len(a.names))
	}
	return a.names[v]
}

// eval gives the difference (value of e) - N in state s, if known. e is an integer expression, a
// result variable, or a slot R[idx] of results (then the difference is that of idx).
func (a *c15OrderAnalysis) eval(s *c15Offsets, e ast.Expr) (int, bool) {
	if e == nil {
		return 0, false
	}
	info := a.f.Info()
	e = core.StripConv(info, e)
	if ix, ok := e.(*ast.IndexExpr); ok {
		if tv, ok := info.Types[ix]; ok && c15IsResultPtr(tv.Type) {
			return a.eval(s, ix.Index)
		}
		return 0, false
	}
	if v := varOf(a.f, e); v != nil && c15IsResultPtr(v.Type()) {
		d, ok := s.off[v]
		return d, ok
	}
	if tv, ok := info.Types[e]; !ok || tv.Type == nil {
		return 0, false
	} else if b, isB := tv.Type.Underlying().(*types.Basic); !isB || b.Info()&types.IsInteger == 0 {
		return 0, false
	}
	l := core.Linearize(info, e, a.namer)
	if !l.C.IsInt64() {
		return 0, false
	}
	switch len(l.Coef) {
	case 0:
		if s.nKnown {
			return int(l.C.Int64()) - s.nAbs, true
		}
	case 1:
		for k, coef := range l.Coef {
			if !coef.IsInt64() || coef.Int64() != 1 {
				return 0, false
			}
			v := varOf(a.f, l.Atom[k])
			if d, ok := s.off[v]; ok && v != nil {
				return d + int(l.C.Int64()), true
			}
		}
	}
	return 0, false
}

// step applies one CFG node to the state.
func (a *c15OrderAnalysis) step(s *c15Offsets, n ast.Node, record bool) {
	// counted calls inside the node happen before the node's own assignment takes effect
	ast.Inspect(n, func(m ast.Node) bool {
		if _, ok := m.(*ast.FuncLit); ok {
			return false
		}
		if call, ok := m.(*ast.CallExpr); ok && a.isCount(call) {
			if record {
				a.at[call] = s.clone()
			}
			for k := range s.off {
				s.off[k]--
			}
			if s.nKnown {
				s.nAbs++
			}
		}
		return true
	})
	set := func(lhs ast.Expr, d int, ok bool) {
		v := varOf(a.f, lhs)
		if v == nil {
			return
		}
		if ok && a.tracked(v) {
			s.off[v] = d
		} else {
			delete(s.off, v)
		}
	}
	switch x := n.(type) {
	case *ast.AssignStmt:
		switch {
		case x.Tok == token.ASSIGN || x.Tok == token.DEFINE:
			if len(x.Lhs) == len(x.Rhs) {
				type res struct {
					d  int
					ok bool
				}
				vals := make([]res, len(x.Rhs))
				for i, r := range x.Rhs {
					vals[i].d, vals[i].ok = a.eval(s, r)
				}
				for i, l := range x.Lhs {
					set(l, vals[i].d, vals[i].ok)
				}
			} else {
				for _, l := range x.Lhs {
					set(l, 0, false)
				}
			}
		case (x.Tok == token.ADD_ASSIGN || x.Tok == token.SUB_ASSIGN) && len(x.Lhs) == 1 && len(x.Rhs) == 1:
			d, ok := s.off[varOf(a.f, x.Lhs[0])]
			k, isC := core.ConstVal(a.f.Info(), x.Rhs[0])
			if ok && isC {
				if kv, exact := constInt(k); exact {
					if x.Tok == token.SUB_ASSIGN {
						kv = -kv
					}
					set(x.Lhs[0], d+kv, true)
					break
				}
			}
			set(x.Lhs[0], 0, false)
		default:
			for _, l := range x.Lhs {
				set(l, 0, false)
			}
		}
	case *ast.IncDecStmt:
		d, ok := s.off[varOf(a.f, x.X)]
		if x.Tok == token.INC {
			set(x.X, d+1, ok)
		} else {
			set(x.X, d-1, ok)
		}
	case *ast.ValueSpec:
		for i, id := range x.Names {
			if i < len(x.Values) && len(x.Values) == len(x.Names) {
				d, ok := a.eval(s, x.Values[i])
				set(id, d, ok)
			} else if len(x.Values) == 0 && s.nKnown {
				set(id, -s.nAbs, true) // zero value
			} else {
				set(id, 0, false)
			}
		}
	case *ast.Ident:
		if a.rangeIds[x] {
			set(x, 0, false)
		}
	}
}

func constInt(v constant.Value) (int, bool) {
	v = constant.ToInt(v)
	if v.Kind() != constant.Int {
		return 0, false
	}
	i, exact := constant.Int64Val(v)
	return int(i), exact && i > -1<<30 && i < 1<<30
}

// run computes the fixpoint and records the state before every counted call.
func (a *c15OrderAnalysis) run() {
	f := a.f
	a.wild = map[*types.Var]bool{}
	a.rangeIds = map[*ast.Ident]bool{}
	a.names = map[*types.Var]string{}
	a.at = map[*ast.CallExpr]*c15Offsets{}
	a.in = map[*cfg.Block]*c15Offsets{}
	var mark func(g *core.FuncInfo)
	mark = func(g *core.FuncInfo) {
		if g != f {
			for _, as := range assignments(g) {
				if v := varOf(g, as.LHS); v != nil {
					a.wild[v] = true
				}
			}
		}
		for _, l := range c10Lits(g) {
			mark(l)
		}
	}
	mark(c15Root(f))
	f.InspectOwn(func(n ast.Node) bool {
		if rs, ok := n.(*ast.RangeStmt); ok {
			for _, e := range []ast.Expr{rs.Key, rs.Value} {
				if id, ok := e.(*ast.Ident); ok {
					a.rangeIds[id] = true
				}
			}
		}
		return true
	})
	blocks := f.CFG().Blocks
	for _, b := range blocks {
		a.in[b] = &c15Offsets{off: map[*types.Var]int{}}
	}
	entry := blocks[0]
	a.in[entry] = &c15Offsets{reached: true, off: map[*types.Var]int{}, nKnown: true}
	work := []*cfg.Block{entry}
	for iter := 0; len(work) > 0 && iter < 10000; iter++ {
		b := work[0]
		work = work[1:]
		s := a.in[b].clone()
		for _, n := range b.Nodes {
			a.step(s, n, false)
		}
		for _, succ := range b.Succs {
			if a.in[succ].join(s) {
				work = append(work, succ)
			}
		}
	}
	for _, b := range blocks {
		if !a.in[b].reached {
			continue
		}
		s := a.in[b].clone()
		for _, n := range b.Nodes {
			a.step(s, n, true)
		}
	}
}

func c15Order(c *core.Ctx) {
	c.Clause("C15.order", func() {
		p := c.P
		enq := c15View(c.Fn(c15Proc + ".Enqueue"))
		procName := c15Proc + ".process"
		sig, sigOK := c15SigOf(c15View(c.Fn(procName)))
		c.Need(sigOK, "process receives the checked event and the check's error (two parameters, or one check result record)")
		// the mode flag: Enqueue's boolean parameter
		var ordered *types.Var
		nBool := 0
		for i := 0; i < 10; i++ {
			if v := enq.Param(i); v != nil {
				if b, ok := v.Type().Underlying().(*types.Basic); ok && b.Kind() == types.Bool {
					ordered = v
					nBool++
				}
			}
		}
		c.Need(nBool == 1, "Enqueue has one boolean (ordered) parameter")
		// the batch and its checker task: pos is the element's index in the batch
		acq := enq.CallsTo(c15Acquire)
		c.Need(len(acq) == 1 && len(acq[0].Call.Args) >= 1, "Enqueue acquires the events semaphore once")
		var batch *types.Var
		if call := isCallTo(enq, c15Through(enq, acq[0].Call.Args[0]), c15EvMetric); call != nil {
			if sel, ok := ast.Unparen(call.Fun).(*ast.SelectorExpr); ok {
				batch = varOf(enq, sel.X)
			}
		}
		c.Need(batch != nil, "the batch whose Metric() is acquired")
		chk := c15FindChecker(enq, batch)
		pos := chk.posPos
		if pos == token.NoPos {
			pos = enq.Pos()
		}
		c.Check(chk.ranged && chk.posOK, "a check result carries its event's position in the batch", "T8 provenance", pos,
			"the checkRes queued for an element has pos = the index of that element in the iteration over the batch",
			"the position recorded with a check result is not the index of its event in the batch: the ordered inserter reassembles the batch in another order")
		// the inserter task(s): literals of Enqueue that call process()
		nOrdered, nOther := 0, 0
		for _, l := range c15Funcs(p) {
			if c15Root(l) != enq || len(l.CallsTo(procName)) == 0 {
				continue
			}
			an := &c15OrderAnalysis{f: l, isCount: func(call *ast.CallExpr) bool { return calleeName(l, call) == procName }}
			an.run()
			isOrdered := c15BoolFact(true, func(e ast.Expr) bool { return varOf(l, c15Resolve(l, e)) == ordered })
			var slots *types.Var // the results slice of the ordered mode
			for _, cs := range l.CallsTo(procName) {
				if g, _ := l.GuardedBy(cs.Pt, isOrdered); !g {
					nOther++
					continue
				}
				nOrdered++
				st := an.at[cs.Call]
				root := sig.handed(l, cs.Call)
				if st == nil || root == nil {
					c.Undecided("ordered mode hands on the next position of the batch", "T20 CounterInvariant", cs.Pos(), "cannot tell which check result the ordered branch hands to process() ("+exprStr(cs.Call)+")")
					continue
				}
				if ix, ok := root.(*ast.IndexExpr); ok {
					if v := varOf(l, ix.X); v != nil {
						if slots == nil {
							slots = v
						}
					}
				} else if rv := varOf(l, root); rv != nil {
					if rhs, _ := c15SingleDef(l, rv); rhs != nil {
						if ix, ok := ast.Unparen(rhs).(*ast.IndexExpr); ok && slots == nil {
							slots = varOf(l, ix.X)
						}
					}
				}
				d, known := an.eval(st, root)
				why := ""
				switch {
				case !known:
					why = "the slot handed on, " + exprStr(root) + ", is not provably the one at index 'number of events this task has processed so far'" + c15BlameIndex(l, root, cs.Pt)
				case d != 0:
					why = "the slot handed on, " + exprStr(root) + ", is at index 'events processed so far' " + signed(d)
				}
				c.Check(why == "", "ordered mode hands on the next position of the batch", "T20 CounterInvariant", cs.Pos(),
					"at every process() call of the ordered mode the result handed on is the one stored at index N, N being the number of process() calls the task has made (linear invariant over all paths)",
					"in the ordered mode of "+short(l.Name)+" "+why+": a check result that arrives ahead of its predecessors is pushed to the ordering buffer at once, so the events of an ordered batch do not reach the buffer in batch order (children before parents, needless parent requests)")
			}
			// results are stored under their own position
			if slots != nil {
				nStore := 0
				for _, a := range assignments(l) {
					ix, ok := ast.Unparen(a.LHS).(*ast.IndexExpr)
					if !ok || varOf(l, ix.X) != slots || a.RHS == nil || core.IsNil(l.Info(), a.RHS) {
						continue
					}
					nStore++
					r, pth := fieldPath(l, core.StripConv(l.Info(), ix.Index))
					rv := varOf(l, r)
					okS := rv != nil && len(pth) == 1 && pth[0] == c15Pkg+".checkRes.pos" && varOf(l, a.RHS) == rv
					if okS {
						// rv is a received result: its only definition is a channel receive
						defs := c15DefsOf(l, rv)
						okS = len(defs) == 1
						if okS {
							u, isU := ast.Unparen(defs[0].A.RHS).(*ast.UnaryExpr)
							okS = defs[0].A.RHS != nil && isU && u.Op == token.ARROW
						}
					}
					c.Check(okS, "a result is kept under its own position", "T8 provenance", a.Stmt.Pos(),
						"the ordered mode stores a received check result at index <that result>.pos", "a received check result is not stored at its own pos: the batch is reassembled in another order")
				}
				c.ExpectAtLeast("stores of received results in the ordered mode", nStore, 1)
			}
		}
		c.ExpectAtLeast("process() calls of the ordered mode", nOrdered, 1)
		// the other role: results of a batch that is not ordered are handed on as well
		c.ExpectAtLeast("process() calls reachable when the batch is not ordered", nOther, 1)
	})
}

func signed(d int) string {
	if d >= 0 {
		return "+ " + strconv.Itoa(d)
	}
	return "- " + strconv.Itoa(-d)
}

// c15BlameIndex names the assignment that makes the slot index unknown: a definition of the index
// variable reaching the call that is neither a copy of / offset from a tracked counter nor a step.
func c15BlameIndex(l *core.FuncInfo, slot ast.Expr, at core.Point) string {
	var idx *types.Var
	collect := func(e ast.Expr) {
		if ix, ok := ast.Unparen(e).(*ast.IndexExpr); ok {
			ast.Inspect(ix.Index, func(n ast.Node) bool {
				if id, ok := n.(*ast.Ident); ok && idx == nil {
					if v, ok := l.Info().Uses[id].(*types.Var); ok && !v.IsField() {
						idx = v
					}
				}
				return true
			})
		}
	}
	collect(slot)
	if idx == nil {
		if rhs, _ := c15SingleDef(l, varOf(l, slot)); rhs != nil {
			collect(rhs)
		}
	}
	if idx == nil {
		return ""
	}
	defs, _ := c10ReachingDefs(l, idx, at)
	for _, d := range defs {
		if d.Tok == token.INC || d.Tok == token.ADD_ASSIGN || d.RHS == nil {
			continue
		}
		if v := varOf(l, core.StripConv(l.Info(), d.RHS)); v != nil {
			continue
		}
		return " (its index " + idx.Name() + " is set to " + exprStr(d.RHS) + " at " + l.P.Pos(d.Stmt.Pos()) + ")"
	}
	return ""
}
