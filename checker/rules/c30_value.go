package rules

import (
	"go/ast"
	"go/token"
	"go/types"

	"lachk/core"
)

// C30.overrelease, decided statically on the inlined view of Release (c30ViewSites): no statement of
// /repo is interpreted or executed, concretely or symbolically. The clause is made of
//
//   - reaching definitions: which assignments can define the value that a store into `processing`
//     writes (the store itself, or — when the store copies a local — the assignments to that local
//     that reach the store without being overwritten; a path query per definition),
//   - a classification of the defining expression by its linear normal form over the roles
//     held.X (the counter, or a local snapshot of it taken before any store) and rel.X (the parameter):
//     the zero value, held.X - rel.X, or held.X itself,
//   - guard facts in linear normal form: a difference may be defined only on paths that have taken
//     edges implying rel.X <= held.X for both components; a zero may reach the store only over an edge
//     implying held.X < rel.X for some component,
//   - path queries for the report: the warning callback is called only on over-release edges and only
//     on the `warning != nil` edge, is not reachable from a store or from itself, and every path of
//     Release that has not established rel.X <= held.X passes the call or the `warning == nil` edge.

const c30ProcF = semT + ".processing"

var c30Comps = []string{"inter/dag.Metric.Num", "inter/dag.Metric.Size"}

// c30RawPath splits a chain of field selections into its root variable and canonical field names
// without looking through locals (nil root if the chain does not start at a variable).
func c30RawPath(f *core.FuncInfo, e ast.Expr) (*types.Var, []string) {
	var path []string
	for e != nil {
		e = ast.Unparen(e)
		switch x := e.(type) {
		case *ast.SelectorExpr:
			s, ok := f.Info().Selections[x]
			if !ok {
				return nil, nil
			}
			v, ok := s.Obj().(*types.Var)
			if !ok || !v.IsField() {
				return nil, nil
			}
			path = append([]string{f.P.FieldName(v)}, path...)
			e = x.X
		case *ast.StarExpr:
			e = x.X
		case *ast.Ident:
			return varOfRaw(f, x), path
		default:
			return nil, nil
		}
	}
	return nil, nil
}

// c30Rel holds the roles of the Release view.
type c30Rel struct {
	f      *core.FuncInfo
	weight *types.Var
	snap   map[*types.Var]bool // locals of Release that hold a copy of processing taken before any store
	// arg is the role name of the parameter: "rel" (the released amount; default) or "req" (the requested
	// amount, in the view of tryAcquire)
	arg string
	// sums: locals of the functions of the view (helpers included) every definition of which is
	// held + request for both components; their components have the role new.X
	sums map[*types.Var]bool
}

func (r *c30Rel) argRole() string {
	if r.arg == "" {
		return "rel"
	}
	return r.arg
}

func (r *c30Rel) name(acc c30Access) string {
	if len(acc.Path) == 1 && acc.Root != nil {
		if acc.Root == r.weight {
			return r.argRole() + "." + short(acc.Path[0])
		}
		if r.snap[acc.Root] {
			return "held." + short(acc.Path[0])
		}
		if r.sums[acc.Root] {
			return "new." + short(acc.Path[0])
		}
	}
	if len(acc.Path) == 2 && acc.Path[0] == c30ProcF {
		return "held." + short(acc.Path[1])
	}
	if len(acc.Path) == 2 && acc.Path[0] == semT+".maxProcessing" {
		return "max." + short(acc.Path[1])
	}
	return ""
}

// snapshots: locals of f all of whose definitions copy processing wholesale, that are never stored into
// component-wise, and whose definitions cannot be preceded by a change of processing.
func (r *c30Rel) snapshots() {
	r.snap = map[*types.Var]bool{}
	f := r.f
	whole := map[*types.Var][]assignment{}
	dirty := map[*types.Var]bool{}
	for _, a := range assignments(f) {
		if v := varOfRaw(f, a.LHS); v != nil {
			whole[v] = append(whole[v], a)
			continue
		}
		if v, path := c30RawPath(f, a.LHS); v != nil && len(path) > 0 {
			dirty[v] = true
		}
	}
	changes := c30StateChanges(f, c30ProcF, 2)
	for v, defs := range whole {
		if dirty[v] || v == r.weight || v == f.Recv() {
			continue
		}
		ok := true
		for _, d := range defs {
			_, path := c30RawPath(f, d.RHS)
			if d.RHS == nil || len(path) != 1 || path[0] != c30ProcF {
				ok = false
				break
			}
			for _, ch := range changes {
				if ch.Pt == d.Pt || f.CanReach(ch.Pt, d.Pt) {
					ok = false
				}
			}
		}
		if ok {
			r.snap[v] = true
		}
	}
}

func (r *c30Rel) fits(comp string) func(sc *c30Scope, ft core.Fact) bool {
	w := core.ParseLinCmp("rel." + short(comp) + " - held." + short(comp) + " <= 0")
	return func(sc *c30Scope, ft core.Fact) bool { return c30Implies(sc, ft, w, r.name, 2) }
}

// over: the fact establishes held.X < rel.X for some component.
func (r *c30Rel) over() func(sc *c30Scope, ft core.Fact) bool {
	var ws []core.LinCmp
	for _, comp := range c30Comps {
		ws = append(ws, core.ParseLinCmp("held."+short(comp)+" - rel."+short(comp)+" + 1 <= 0"))
	}
	return func(sc *c30Scope, ft core.Fact) bool {
		return c30ImpliesAny(sc, ft, ws, c30AccessNamer(r.name), 2)
	}
}

// classify names the value of an integer expression for component comp: "zero", "diff" (held - rel),
// "held", or "?".
func (r *c30Rel) classify(sc *c30Scope, e ast.Expr, comp string) string {
	if e == nil {
		return "?"
	}
	if core.IsConstInt(sc.F.Info(), e, 0) {
		return "zero"
	}
	lin := core.Linearize(sc.F.Info(), e, func(x ast.Expr) string {
		if acc, ok := sc.access(x); ok {
			return r.name(acc)
		}
		return ""
	})
	h, l := "held."+short(comp), r.argRole()+"."+short(comp)
	want := func(form string) bool { return lin.String() == core.ParseLinCmp(form+" <= 0").Form.String() }
	switch {
	case want(h):
		return "held"
	case want(h + " - " + l):
		return "diff"
	case want(h + " + " + l), want("new." + short(comp)):
		return "sum"
	}
	return "?"
}

// classifyWhole names the value that a struct-valued expression gives to component comp.
func (r *c30Rel) classifyWhole(sc *c30Scope, e ast.Expr, comp string) string {
	if e == nil {
		return "?"
	}
	if cl, ok := ast.Unparen(e).(*ast.CompositeLit); ok {
		if len(cl.Elts) == 0 {
			return "zero"
		}
		for _, el := range cl.Elts {
			kv, ok := el.(*ast.KeyValueExpr)
			if !ok {
				return "?" // positional literal: not looked into
			}
			id, _ := kv.Key.(*ast.Ident)
			if id == nil {
				return "?"
			}
			if fld, ok := sc.F.Info().Uses[id].(*types.Var); ok && sc.F.P.FieldName(fld) == comp {
				return r.classify(sc, kv.Value, comp)
			}
		}
		return "zero" // keyed literal without this field
	}
	if _, path := c30RawPath(sc.F, e); len(path) == 1 && path[0] == c30ProcF {
		return "held"
	}
	if acc, ok := sc.access(e); ok {
		switch {
		case len(acc.Path) == 0 && r.snap[acc.Root]:
			return "held"
		case len(acc.Path) == 0 && r.sums[acc.Root]:
			return "sum"
		case len(acc.Path) == 1 && acc.Path[0] == c30ProcF:
			return "held" // a parameter of a helper bound to the counter
		}
	}
	return "?"
}

// c30ValueDef is one assignment that can define what a store writes into component Comp of processing.
type c30ValueDef struct {
	Site    c30Site // the defining assignment in the view (for a value computed by a helper: down to its return)
	Sc      *c30Scope
	Class   string
	Comp    string
	Store   core.Point   // the store it reaches (== the definition itself for a direct store)
	Redefs  []core.Point // other definitions of the same local component (a path through them does not carry this value)
	Local   bool
	LocalPt core.Point // with Local: the defining assignment in Sc.F
	// for a value given by a return of a helper called at the defining assignment
	ret    *ast.ReturnStmt
	callee *core.FuncInfo
}

// exprCases: the definitions that can give component comp of the struct-valued expression e, evaluated
// at point `at` of sc.F: the expression itself, or — when it is the call of a declared function — the
// result expressions of that function's returns, each with the chain of points that leads to it (so that
// the guards on the way to the return count as guards of the value), or — when it is a local of sc.F —
// the definitions of the local that reach `at`.
func (r *c30Rel) exprCases(sc *c30Scope, e ast.Expr, at core.Point, comp string, depth int) []c30ValueDef {
	here := c30Site{Hops: []c30Hop{{sc, at}}, Pos: posOf(at)}
	if e != nil {
		here.Pos = e.Pos()
	}
	one := func(class string) []c30ValueDef {
		return []c30ValueDef{{Site: here, Sc: sc, Class: class, Comp: comp, Store: at}}
	}
	if e == nil {
		return one("?")
	}
	if call, ok := ast.Unparen(e).(*ast.CallExpr); ok && depth > 0 {
		return r.callCases(sc, call, 0, at, comp, depth)
	}
	if x := varOfRaw(sc.F, e); x != nil && depth > 0 && !r.snap[x] && !r.sums[x] && c30IsLocalOf(sc.F, x) {
		if _, bound := sc.Bind[x]; !bound {
			return r.defsOnLocal(sc, x, comp, at, depth)
		}
	}
	return one(r.classifyWhole(sc, e, comp))
}

// callCases: the values result idx of the call (made at point `at` of sc.F) can have, one per return of
// the called function.
func (r *c30Rel) callCases(sc *c30Scope, call *ast.CallExpr, idx int, at core.Point, comp string, depth int) []c30ValueDef {
	unknown := []c30ValueDef{{Site: c30Site{Hops: []c30Hop{{sc, at}}, Pos: call.Pos()}, Sc: sc, Class: "?", Comp: comp, Store: at}}
	if depth <= 0 {
		return unknown
	}
	sub := sc.enter(call)
	if sub == nil {
		return unknown
	}
	cases, ok := c30ResultCases(sub.F, idx)
	if !ok {
		return unknown
	}
	var out []c30ValueDef
	for _, rc := range cases {
		for _, d := range r.exprCases(sub, rc.Expr, rc.Pt, comp, depth-1) {
			d.Site.Hops = append([]c30Hop{{sc, at}}, d.Site.Hops...)
			d.Sc, d.Store, d.Local, d.Redefs = sc, at, false, nil
			d.ret, d.callee = rc.Ret, sub.F
			out = append(out, d)
		}
	}
	return out
}

// c30IsLocalOf: x is declared in the body of f or is one of its named results.
func c30IsLocalOf(f *core.FuncInfo, x *types.Var) bool {
	if f.Body != nil && f.Body.Pos() <= x.Pos() && x.Pos() < f.Body.End() {
		return true
	}
	return c30IsNamedResult(f, x)
}

func c30IsNamedResult(f *core.FuncInfo, x *types.Var) bool {
	if f.Type == nil || f.Type.Results == nil {
		return false
	}
	for _, fl := range f.Type.Results.List {
		for _, nm := range fl.Names {
			if f.Info().Defs[nm] == types.Object(x) {
				return true
			}
		}
	}
	return false
}

// defsOnLocal: the definitions of component comp of the local x (of sc.F) that reach `to`.
func (r *c30Rel) defsOnLocal(sc *c30Scope, x *types.Var, comp string, to core.Point, depth int) (out []c30ValueDef) {
	return r.defsOnLocalX(sc, x, comp, to, depth, false)
}

// defsOnLocalX with before == true lists the definitions that reach `to` from before it (`to` being
// itself a definition of the component, as in x.C -= y: what x.C is when the statement starts).
func (r *c30Rel) defsOnLocalX(sc *c30Scope, x *types.Var, comp string, to core.Point, depth int, before bool) (out []c30ValueDef) {
	g := sc.F
	type ldef struct {
		a     assignment
		whole bool
	}
	var all []ldef
	for _, d := range assignments(g) {
		if varOfRaw(g, d.LHS) == x {
			all = append(all, ldef{d, true})
			continue
		}
		if v, path := c30RawPath(g, d.LHS); v == x && len(path) == 1 && path[0] == comp {
			all = append(all, ldef{d, false})
		}
	}
	var allPts []core.Point
	for _, d := range all {
		allPts = append(allPts, d.a.Pt)
	}
	if c30IsNamedResult(g, x) {
		// a named result starts as the zero value
		if _, reaches := (core.PathQuery{F: g, From: g.Entry(), Target: core.PointSet(to), Avoid: core.PointSet(allPts...)}).Find(); reaches {
			out = append(out, c30ValueDef{Sc: sc, Class: "zero", Comp: comp, Store: to, Redefs: allPts, Local: true, LocalPt: g.Entry(),
				Site: c30Site{Hops: []c30Hop{{sc, g.Entry()}}, Pos: x.Pos()}})
		}
	}
	for i, d := range all {
		var others []core.Point
		for j, o := range all {
			if j != i && o.a.Pt != d.a.Pt {
				others = append(others, o.a.Pt)
			}
		}
		if d.a.Pt != to || before {
			var avoid []core.Point
			for _, o := range others {
				if o != to {
					avoid = append(avoid, o)
				}
			}
			if _, reaches := (core.PathQuery{F: g, From: d.a.Pt, FromAfter: true, Target: core.PointSet(to), Avoid: core.PointSet(avoid...)}).Find(); !reaches {
				continue
			}
		}
		local := func(class string) c30ValueDef {
			return c30ValueDef{Sc: sc, Class: class, Comp: comp, Store: to, Redefs: others, Local: true, LocalPt: d.a.Pt,
				Site: c30Site{Hops: []c30Hop{{sc, d.a.Pt}}, Pos: d.a.Stmt.Pos()}}
		}
		class := "?"
		switch {
		case d.whole && d.a.RHS == nil:
			if _, isSpec := d.a.Stmt.(*ast.ValueSpec); isSpec {
				class = "zero" // var x dag.Metric
			}
		case d.whole:
			call, isCall := ast.Unparen(d.a.RHS).(*ast.CallExpr)
			if !isCall || depth <= 0 {
				class = r.classifyWhole(sc, d.a.RHS, comp)
				break
			}
			// x (, ok) := helper(…): one definition per return of the helper; a return is left out when
			// the paths to `to` are taken only with a sibling result it does not give
			idx := 0
			if as, isAssign := d.a.Stmt.(*ast.AssignStmt); isAssign && len(as.Lhs) != len(as.Rhs) {
				for k, l := range as.Lhs {
					if l == d.a.LHS {
						idx = k
					}
				}
			}
			for _, cd := range r.callCases(sc, call, idx, d.a.Pt, comp, depth-1) {
				if cd.callee != nil && d.a.Pt != to && c30SiblingExcludes(g, call, d.a.Pt, cd.callee, cd.ret, to) {
					continue
				}
				cd.Store, cd.Redefs, cd.Local, cd.LocalPt = to, others, true, d.a.Pt
				out = append(out, cd)
			}
			continue
		case d.a.Tok == token.ASSIGN:
			class = r.classify(sc, d.a.RHS, comp)
		case (d.a.Tok == token.SUB_ASSIGN || d.a.Tok == token.ADD_ASSIGN) && depth > 0:
			// x.C -= rel.C / x.C += req.C: the difference / sum when everything that reaches it is the held amount
			if acc, ok := sc.access(d.a.RHS); ok && r.name(acc) == r.argRole()+"."+short(comp) {
				base := r.defsOnLocalX(sc, x, comp, d.a.Pt, depth-1, true)
				class = "diff"
				if d.a.Tok == token.ADD_ASSIGN {
					class = "sum"
				}
				for _, b := range base {
					if b.Class != "held" {
						class = "?"
					}
				}
				if len(base) == 0 {
					class = "?"
				}
			}
		}
		out = append(out, local(class))
	}
	return out
}

func c30OverRelease(c *core.Ctx) {
	f := c.Fn(semT + ".Release")
	r := &c30Rel{f: f, weight: f.Param(0)}
	c.Need(r.weight != nil, "Release has a named parameter")
	r.snapshots()
	root := &c30Scope{F: f}

	// ---- stores into processing (wholesale or one component), in Release or in what it calls
	type rawStore struct {
		sc *c30Scope
		a  assignment
	}
	var raw []rawStore
	stores := c30ViewSites(root, 2, func(sc *c30Scope) []c30Site {
		var out []c30Site
		for _, a := range assignments(sc.F) {
			if _, path := c30RawPath(sc.F, a.LHS); len(path) >= 1 && len(path) <= 2 && path[0] == c30ProcF {
				raw = append(raw, rawStore{sc, a})
				out = append(out, c30Site{Hops: []c30Hop{{sc, a.Pt}}, Pos: a.Stmt.Pos()})
			}
		}
		return out
	})
	c.Need(len(raw) == len(stores), "store sites of the view")
	covers := func(i int, comp string) bool {
		_, path := c30RawPath(raw[i].sc.F, raw[i].a.LHS)
		return len(path) == 1 || path[1] == comp
	}
	var defs []c30ValueDef
	for i, s := range stores {
		sc, a := raw[i].sc, raw[i].a
		prefix := s.Hops[:len(s.Hops)-1]
		_, lpath := c30RawPath(sc.F, a.LHS)
		for _, comp := range c30Comps {
			if !covers(i, comp) {
				continue
			}
			direct := func(class string) {
				defs = append(defs, c30ValueDef{Site: s, Sc: sc, Class: class, Comp: comp, Store: a.Pt})
			}
			switch {
			case len(lpath) == 2 && a.Tok == token.SUB_ASSIGN:
				// processing.C -= rel.C: the difference, provided no other store of C can come before it
				class := "?"
				if acc, ok := sc.access(a.RHS); ok && r.name(acc) == "rel."+short(comp) {
					class = "diff"
					for j, o := range stores {
						if covers(j, comp) && (j != i && c28CanFollow(o, s) || j == i && sc.F.CanReach(a.Pt, a.Pt)) {
							class = "?"
						}
					}
				}
				direct(class)
			case len(lpath) == 2 && a.Tok == token.ASSIGN:
				direct(r.classify(sc, a.RHS, comp))
			case len(lpath) == 1 && a.Tok == token.ASSIGN:
				// the value of a local (its reaching definitions), of a helper call (one per return of the
				// helper), or of the expression itself
				for _, d := range r.exprCases(sc, a.RHS, a.Pt, comp, 3) {
					d.Site.Hops = append(append([]c30Hop(nil), prefix...), d.Site.Hops...)
					defs = append(defs, d)
				}
			default:
				direct("?")
			}
		}
	}
	nDiff, nZero := 0, 0
	over := r.over()
	for _, d := range defs {
		cn := short(d.Comp)
		switch d.Class {
		case "diff":
			nDiff++
			for _, x := range c30Comps {
				ok, wit := c30SiteGuarded(d.Site, r.fits(x))
				c.Check(ok, "difference "+cn+" only when "+short(x)+" fits", "reaching definition + T4 GuardedBy", d.Site.Pos,
					"held."+cn+" - released."+cn+" is computed for the counter only on paths that have established released."+short(x)+" <= held."+short(x),
					"held."+cn+" - released."+cn+" can reach the counter without released."+short(x)+" <= held."+short(x)+" (the unsigned difference wraps, and an over-release is not reset to zero): "+f.DescribePath(wit))
			}
		case "zero":
			nZero++
			ok, wit := c30SiteGuarded(d.Site, over)
			if !ok && d.Local {
				// a zero defined before the branch: it must reach the store only over an over-release edge
				g := d.Sc.F
				edges := g.GuardEdges(func(ft core.Fact) bool { return over(d.Sc, ft) })
				var found bool
				wit, found = core.PathQuery{F: g, From: d.LocalPt, FromAfter: true, Target: core.PointSet(d.Store), Avoid: core.PointSet(d.Redefs...), AvoidEdge: edges}.Find()
				ok = !found
			}
			c.Check(ok, "zero "+cn+" only on over-release", "reaching definition + T4 GuardedBy", d.Site.Pos,
				"the zero value reaches processing."+cn+" only over an edge establishing held < released for some component",
				"the zero value can reach processing."+cn+" although the release fits (the held amount is lost): "+f.DescribePath(wit))
		case "held":
			c.Fail("value stored into processing."+cn, "reaching definition", d.Site.Pos, "the held amount can be stored back unchanged: the release has no effect on processing."+cn)
		default:
			c.Undecided("value stored into processing."+cn, "reaching definition", d.Site.Pos, "the value defined here for processing."+cn+" is neither the zero value nor held - released in linear normal form")
		}
	}
	// vacuity: one instance of each role per clause (every definition owes its obligation, however many)
	c.ExpectAtLeast("definitions of held - released reaching processing", nDiff, 1)
	c.ExpectAtLeast("definitions of zero reaching processing", nZero, 1)
	// every path of Release settles both components
	for _, comp := range c30Comps {
		comp := comp
		must := c30MustPoints(f, 2, func(g *core.FuncInfo) []core.Point {
			var out []core.Point
			for _, a := range assignments(g) {
				if _, path := c30RawPath(g, a.LHS); len(path) >= 1 && path[0] == c30ProcF && (len(path) == 1 || len(path) == 2 && path[1] == comp) {
					out = append(out, a.Pt)
				}
			}
			return out
		})
		wit, escapes := core.PathQuery{F: f, From: f.Entry(), Avoid: core.PointSet(must...), TargetExit: true}.Find()
		c.Check(!escapes, "every path stores "+short(comp), "T2 Dominates", f.Pos(), "every path of Release writes processing."+short(comp),
			"a path of Release leaves processing."+short(comp)+" as it was: "+f.DescribePath(wit))
	}

	// ---- the report
	isWarn := func(g *core.FuncInfo, cs *core.CallSite) bool {
		return !cs.InGo && (cs.Name == semT+".warning" || fieldNameOf(g, cs.Call.Fun) == semT+".warning")
	}
	warns := c30ViewSites(root, 2, func(sc *c30Scope) []c30Site {
		var out []c30Site
		for _, cs := range sc.F.Calls() {
			if isWarn(sc.F, cs) {
				out = append(out, c30Site{Hops: []c30Hop{{sc, cs.Pt}}, Pos: cs.Pos()})
			}
		}
		return out
	})
	c.ExpectAtLeast("calls of the warning callback in Release", len(warns), 1)
	nonNil := func(sc *c30Scope, ft core.Fact) bool {
		cm, ok := core.NormCmp(ft)
		return ok && cm.Op == token.NEQ && cm.R != nil && fieldNameOf(sc.F, cm.L) == semT+".warning" && core.IsNil(sc.F.Info(), cm.R)
	}
	isNil := func(sc *c30Scope, ft core.Fact) bool {
		cm, ok := core.NormCmp(ft)
		return ok && cm.Op == token.EQL && cm.R != nil && fieldNameOf(sc.F, cm.L) == semT+".warning" && core.IsNil(sc.F.Info(), cm.R)
	}
	for _, w := range warns {
		ok, wit := c30SiteGuarded(w, nonNil)
		c.Check(ok, "warning nil-guarded", "T4 GuardedBy", w.Pos, "warning is called only when non-nil", "warning may be called when nil: "+f.DescribePath(wit))
		ok, wit = c30SiteGuarded(w, over)
		c.Check(ok, "no report when the release fits", "T4 GuardedBy", w.Pos, "the warning callback is called only over an edge establishing held < released for some component",
			"the warning callback can be called although the release fits: "+f.DescribePath(wit))
		again := false
		for _, o := range warns {
			last := w.Hops[len(w.Hops)-1]
			if c28CanFollow(w, o) || o.Pos == w.Pos && last.Sc.F.CanReach(last.Pt, last.Pt) {
				again = true
			}
		}
		c.Check(!again, "over-release reported once", "T2 path query", w.Pos, "no further warning call is reachable from this one", "an over-release can be reported more than once: another warning call is reachable from this one")
		// (only owed when the call reads the counter itself: arguments that are snapshots taken before any
		// store show the old amounts wherever the call stands)
		early := true
		lastW := w.Hops[len(w.Hops)-1]
		readsCounter := false
		for _, cs := range lastW.Sc.F.Calls() {
			if cs.Pt == lastW.Pt && cs.Pos() == w.Pos && mentionsField(lastW.Sc.F, cs.Call, c30ProcF) {
				readsCounter = true
			}
		}
		for _, s := range stores {
			if readsCounter && c28CanFollow(s, w) {
				early = false
			}
		}
		c.Check(early, "reported before the counter is changed", "T2 path query", w.Pos, "no store into processing can precede the warning call (it reports the amounts as they were)", "a store into processing can precede the warning call: the report shows the counter after the reset")
	}
	// every path that has not established released.X <= held.X passes the report or the warning == nil edge
	var discharges func(sc *c30Scope, comp string, depth int) (bool, []core.Point)
	discharges = func(sc *c30Scope, comp string, depth int) (bool, []core.Point) {
		g := sc.F
		var pts []core.Point
		for _, cs := range g.Calls() {
			if cs.InDefer {
				continue
			}
			if isWarn(g, cs) {
				pts = append(pts, cs.Pt)
				continue
			}
			if depth <= 0 || cs.InGo {
				continue
			}
			if sub := sc.enter(cs.Call); sub != nil {
				if ok, _ := discharges(sub, comp, depth-1); ok {
					pts = append(pts, cs.Pt)
				}
			}
		}
		fits := r.fits(comp)
		edges := g.GuardEdges(func(ft core.Fact) bool { return isNil(sc, ft) || fits(sc, ft) })
		wit, escapes := core.PathQuery{F: g, From: g.Entry(), Avoid: core.PointSet(pts...), AvoidEdge: edges, TargetExit: true}.Find()
		return !escapes, wit
	}
	for _, comp := range c30Comps {
		ok, wit := discharges(root, comp, 2)
		c.Check(ok, "over-release in "+short(comp)+" reported", "T3 path query", f.Pos(),
			"every path of Release passes the warning call, the warning == nil edge, or an edge establishing released."+short(comp)+" <= held."+short(comp),
			"Release can return without reporting although released."+short(comp)+" <= held."+short(comp)+" was not established and the callback is set: "+f.DescribePath(wit))
	}
}
