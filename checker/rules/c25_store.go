package rules

import (
	"go/ast"
	"go/types"

	"lachk/core"
)

// Which store does a flush mark go to? (C25.pool)
//
// The dirty/clean protocol of the pool is a protocol about what is *on disk*: a mark counts only when it
// was put into the underlying database itself. The pooled wrapper (a flushable store) also offers Put, but
// that Put only buffers the pair in the overlay; the mark would reach the disk later, inside a data batch.
// So the database argument of every MarkFlushID call of the flush must be the underlying store — a value
// obtained from the wrapper's InitUnderlyingDb() — and never a value whose type is itself a flushable
// (write-buffering) store. The value may travel through locals, helper parameters and helper results.

const (
	c25Raw      = "raw"
	c25Buffered = "buffered"
)

var c25RawGetters = []string{
	"kvdb/flushable.LazyFlushable.InitUnderlyingDb",
	"kvdb/flushable.LazyFlushable.initUnderlyingDb",
}

// c25IsBufferingType: values of this static type buffer writes until Flush (the type has the methods of
// a flushable store).
func c25IsBufferingType(t types.Type) bool {
	if t == nil {
		return false
	}
	for _, m := range []string{"Flush", "DropNotFlushed", "NotFlushedPairs"} {
		obj, _, _ := types.LookupFieldOrMethod(t, true, nil, m)
		if _, ok := obj.(*types.Func); !ok {
			return false
		}
	}
	return true
}

// c25ResultIsRaw: result 0 of the call is the underlying store: the call is InitUnderlyingDb() of a lazy
// flushable, or a call of a module function every return of which yields such a value as first result.
func c25ResultIsRaw(g *core.FuncInfo, env c25Env, call *ast.CallExpr, depth int) bool {
	name := calleeName(g, call)
	for _, n := range c25RawGetters {
		if name == n {
			return true
		}
	}
	if depth <= 0 {
		return false
	}
	fn, _ := g.ObjOf(call.Fun).(*types.Func)
	h := g.P.FuncOf(fn)
	if h == nil || h == g {
		return false
	}
	henv := c25Env{}
	sig, _ := fn.Type().(*types.Signature)
	for i, a := range call.Args {
		if sig != nil && sig.Variadic() && i >= sig.Params().Len()-1 {
			break
		}
		if pv := h.Param(i); pv != nil && c25StoreKind(g, env, a, depth-1) == c25Raw {
			henv[pv] = c25Raw
		}
	}
	rets := h.ReturnPoints()
	if len(rets) == 0 {
		return false
	}
	some := false
	for _, rp := range rets {
		r, _ := rp.Node().(*ast.ReturnStmt)
		if r == nil || len(r.Results) == 0 {
			return false // bare return of named results: not decided
		}
		first := ast.Unparen(r.Results[0])
		if core.IsNil(h.Info(), first) {
			continue // the error return
		}
		if c, ok := first.(*ast.CallExpr); ok && len(r.Results) == 1 {
			// return w.InitUnderlyingDb()
			if !c25ResultIsRaw(h, henv, c, depth-1) {
				return false
			}
			some = true
			continue
		}
		if c25StoreKind(h, henv, first, depth-1) != c25Raw {
			return false
		}
		some = true
	}
	return some
}

// c25StoreKind classifies the store expression e of g: c25Raw (certainly the underlying database of a
// pooled wrapper), c25Buffered (a flushable store: its Put only buffers) or "" (unknown).
func c25StoreKind(g *core.FuncInfo, env c25Env, e ast.Expr, depth int) string {
	if e == nil {
		return ""
	}
	e = ast.Unparen(e)
	if c25IsBufferingType(g.Info().TypeOf(e)) {
		return c25Buffered
	}
	if call, ok := e.(*ast.CallExpr); ok {
		if c25ResultIsRaw(g, env, call, depth) {
			return c25Raw
		}
		return ""
	}
	v := canonVar(g, varOf(g, e))
	if v == nil {
		return ""
	}
	if env[v] == c25Raw {
		return c25Raw
	}
	if depth <= 0 {
		return ""
	}
	// every definition of the variable yields the underlying store (the variable may be declared in an
	// enclosing function when g is a literal)
	n := 0
	for h := g; h != nil; h = h.Parent {
		for _, a := range assignsToVar(h, v) {
			n++
			as, ok := a.Stmt.(*ast.AssignStmt)
			if !ok || a.RHS == nil {
				if _, isSpec := a.Stmt.(*ast.ValueSpec); isSpec && a.RHS == nil {
					n--
					continue // var db kvdb.Store (zero value), assigned later
				}
				return ""
			}
			if len(as.Lhs) != len(as.Rhs) {
				// db, err := call(): the store is the first result
				call, isCall := ast.Unparen(a.RHS).(*ast.CallExpr)
				if !isCall || ast.Unparen(as.Lhs[0]) != ast.Unparen(a.LHS) || !c25ResultIsRaw(h, env, call, depth-1) {
					return ""
				}
				continue
			}
			if c25StoreKind(h, env, a.RHS, depth-1) != c25Raw {
				return ""
			}
		}
	}
	if n == 0 {
		return ""
	}
	return c25Raw
}
