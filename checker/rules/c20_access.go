package rules

import (
	"go/ast"
	"go/token"
	"go/types"

	"lachk/core"
)

// C20 — accessor helpers of the observation matrix.
//
// The raw cell access globalMatrix.Row(subject)[observer] may be wrapped by small accessor methods of the
// indexer (a setter `h.set(subject, observer, seq)` and a getter `h.get(subject, observer)`). They are
// recognised by what they do, on the callee's body, and the call then stands for the store / the read
// with the call's arguments in the roles of the parameters:
//
//	setter: the body's only statement with an effect is <receiver>.<field>…[p] = q on every path, all
//	        index roles and the value being unmodified parameters of the method;
//	getter: handled on the inlined view (c20FrCellRead): its single return yields the indexed element.

// c20Cell is one store into the observation matrix or the self-parent sequences as ProcessEvent performs
// it: directly, or through a setter method called on its receiver. All expressions are ProcessEvent's.
type c20Cell struct {
	Fld    string
	Pt     core.Point
	Pos    token.Pos
	RowArg ast.Expr // matrix: the argument of Row(..) (nil when the row is not <receiver>.globalMatrix.Row(x))
	Index  ast.Expr // matrix: the column; selfParentSeqs: the element index
	SelfOK bool     // selfParentSeqs: the container is <receiver>.selfParentSeqs
	Val    ast.Expr // nil when the store is not a plain `=`
}

// c20SetterOf describes a setter method g: it stores into exactly one place, an indexed store into the
// given source field on every path, and nothing else is assigned in it; returns the parameter positions
// of the row argument (matrix only, -1 otherwise), the index and the value.
func c20SetterOf(g *core.FuncInfo) (fld string, row, index, val int, ok bool) {
	row, index, val = -1, -1, -1
	if g == nil || g.Recv() == nil || g.RecvTypeName() != c20QiT || len(allLits(g)) > 0 {
		return
	}
	as := assignments(g)
	if len(as) != 1 || as[0].RHS == nil || as[0].Tok != token.ASSIGN {
		return
	}
	a := as[0]
	ix, isIx := ast.Unparen(a.LHS).(*ast.IndexExpr)
	if !isIx || !c20AlwaysPasses(g, []core.Point{a.Pt}) {
		return
	}
	fld = c20QIField(g, a.LHS, 0)
	index = c20ParamIndex(g, c20VarAt(g, ix.Index))
	val = c20ParamIndex(g, varOf(g, core.StripConv(g.Info(), a.RHS)))
	if index < 0 || val < 0 {
		return
	}
	switch fld {
	case c20Matrix:
		rc := isCallTo(g, c19Resolve(g, ix.X, a.Pt), c20Row)
		if rc == nil || len(rc.Args) != 1 {
			return
		}
		sel, isSel := ast.Unparen(rc.Fun).(*ast.SelectorExpr)
		if !isSel || !c20RecvField(g, sel.X, c20Matrix) {
			return
		}
		row = c20ParamIndex(g, c20VarAt(g, rc.Args[0]))
		ok = row >= 0
	case c20Self:
		ok = c20RecvField(g, ix.X, c20Self)
	}
	return
}

// c20Cells lists the cell stores of f (ProcessEvent).
func c20Cells(f *core.FuncInfo) []c20Cell {
	var out []c20Cell
	for _, a := range assignments(f) {
		ix, ok := ast.Unparen(a.LHS).(*ast.IndexExpr)
		if !ok {
			continue
		}
		fld := c20QIField(f, a.LHS, 0)
		if fld != c20Matrix && fld != c20Self {
			continue
		}
		cell := c20Cell{Fld: fld, Pt: a.Pt, Pos: a.Stmt.Pos(), Index: ix.Index}
		if a.RHS != nil && a.Tok == token.ASSIGN {
			cell.Val = a.RHS
		}
		switch fld {
		case c20Matrix:
			if row := isCallTo(f, c19Resolve(f, ix.X, a.Pt), c20Row); row != nil && len(row.Args) == 1 {
				if sel, isSel := ast.Unparen(row.Fun).(*ast.SelectorExpr); isSel && c20RecvField(f, sel.X, c20Matrix) {
					cell.RowArg = row.Args[0]
				}
			}
		case c20Self:
			cell.SelfOK = c20RecvField(f, ix.X, c20Self)
		}
		out = append(out, cell)
	}
	for _, cs := range f.Calls() {
		g := c20Callee(f, cs)
		if g == nil || !c20OnRecv(f, cs) {
			continue
		}
		fld, row, index, val, ok := c20SetterOf(g)
		if !ok || index >= len(cs.Call.Args) || val >= len(cs.Call.Args) || row >= len(cs.Call.Args) {
			continue
		}
		cell := c20Cell{Fld: fld, Pt: cs.Pt, Pos: cs.Pos(), Index: cs.Call.Args[index], Val: cs.Call.Args[val], SelfOK: fld == c20Self}
		if row >= 0 {
			cell.RowArg = cs.Call.Args[row]
		}
		out = append(out, cell)
	}
	return out
}

// c20StoresDeep lists the stores of f into indexer fields including those made by private methods of the
// indexer that f calls on its own receiver (bounded depth): the call site then stands for the store. A
// private method (unexported, never a method value, only called on the caller's receiver) runs only as a
// part of its callers, so what has to follow a store (dirty = true) may follow the call.
func c20StoresDeep(p *core.Prog, f *core.FuncInfo, depth int) []c20Store {
	out := c20Stores(f)
	if depth <= 0 {
		return out
	}
	for _, cs := range f.Calls() {
		g := c20Callee(f, cs)
		if g == nil || !c20OnRecv(f, cs) || g == c20RecacheFn(p) {
			continue
		}
		if _, private := c20PrivateSites(p, g); !private {
			continue
		}
		seen := map[string]bool{}
		for _, s := range c20StoresDeep(p, g, depth-1) {
			if !seen[s.Field] {
				seen[s.Field] = true
				out = append(out, c20Store{Field: s.Field, Pt: cs.Pt, Pos: cs.Pos()})
			}
		}
	}
	return out
}

// c20FrVarIn: e, read in frame fr, denotes variable v of the function of frame `in` (an ancestor of fr,
// or fr itself), looking through conversions, single-definition locals and bound parameters.
func c20FrVarIn(fr *c21Frame, e ast.Expr, in *c21Frame, v *types.Var) bool {
	if v == nil || e == nil {
		return false
	}
	for i := 0; i < 8 && fr != in; i++ {
		s := core.StripConv(fr.F.Info(), e)
		fr2, r := c21Resolve(fr, s)
		if fr2 == fr && r == e {
			return false
		}
		fr, e = fr2, r
	}
	return fr == in && c20VarAt(fr.F, e) == v
}

// c20FrCellRead: e (in frame fr) reads a cell of the observation matrix, either as the raw element
// <root receiver>.globalMatrix.Row(x)[y] or through a getter method whose single return yields such an
// element of its parameters; returns the frames and expressions of x and y.
func c20FrCellRead(fr *c21Frame, e ast.Expr, use core.Point) (rowFr *c21Frame, rowArg ast.Expr, colFr *c21Frame, col ast.Expr, ok bool) {
	for depth := 0; depth < 3; depth++ {
		var r ast.Expr
		if depth == 0 {
			r = c19Resolve(fr.F, e, use)
		} else {
			fr, r = c20FrStrip(fr, e)
		}
		switch x := ast.Unparen(r).(type) {
		case *ast.IndexExpr:
			rfr, row := c20FrCall(fr, x.X, c20Row)
			if row == nil || len(row.Args) != 1 {
				return
			}
			sel, isSel := ast.Unparen(row.Fun).(*ast.SelectorExpr)
			if !isSel || !c20FrRootField(rfr, sel.X, c20Matrix) {
				return
			}
			return rfr, row.Args[0], fr, x.Index, true
		case *ast.CallExpr:
			sub := c21EnterCall(fr, x)
			if sub == nil || len(allLits(sub.F)) > 0 || len(assignments(sub.F)) > 0 {
				return
			}
			rets := sub.F.ReturnPoints()
			if len(rets) != 1 {
				return
			}
			rs, isRet := rets[0].Node().(*ast.ReturnStmt)
			if !isRet || len(rs.Results) != 1 {
				return
			}
			fr, e = sub, rs.Results[0]
		default:
			return
		}
	}
	return
}
