package rules

import (
	"go/ast"
	"go/token"
	"go/types"

	"lachk/core"
)

// c14Recheck decides a structural necessary condition of the completeness part of C14 ("when the
// limits suffice and all checks and processing succeed, every event of a parents-closed set is
// processed whatever the arrival order"): after an event e was connected, every buffered event that
// lists e among its parents must be pushed again, because nothing else will ever look at it. On the
// inlined view of pushEvent the recheck is the iteration around the recursive pushEvent call:
//
//   - the iteration is left only through its head (no break before all buffered events were looked at);
//   - a round of it that does not push the child again either takes the edge on which the child is
//     known to be released / no longer buffered, or runs a scan over the child's parents list to its
//     end (the scan's exhaustion edge);
//   - a round of such a scan that goes on to the next parent without pushing the child takes the edge
//     "this parent is not e's ID".
//
// Any other way round the push (a filter on a quantity the buffer never validates, a bounded scan, a
// test against something else than e's ID) leaves a completed child in the buffer for ever.
func c14Recheck(c *core.Ctx, push *core.FuncInfo, pushName, relF string) {
	vp := c14NewView(push, 4, nil)
	e := c14Val{Fr: vp.Root, V: push.Param(0)}
	c.Need(e.V != nil, "pushEvent(e, …)")
	recs := vp.callsTo(pushName)
	c.ExpectAtLeast("recheck recursion sites", len(recs), 1)
	c.Need(vp.reachable(recs...), "the recheck recursion is reachable in the inlined view")

	methodCall := func(fr *c14Frame, x ast.Expr, name string) (*c14Frame, ast.Expr) {
		if x == nil {
			return nil, nil
		}
		f2, e2 := fr.origin(x, true)
		call, ok := e2.(*ast.CallExpr)
		if !ok || len(call.Args) != 0 {
			return nil, nil
		}
		sel, ok := ast.Unparen(call.Fun).(*ast.SelectorExpr)
		if !ok || sel.Sel.Name != name {
			return nil, nil
		}
		if fn, _ := f2.Fn.Info().Uses[sel.Sel].(*types.Func); fn == nil {
			return nil, nil
		}
		return f2, sel.X
	}
	// x is <owner>.event.M() (or <owner>.M()) for the event value owner
	isMethodOf := func(fr *c14Frame, x ast.Expr, name string, owner c14Val) bool {
		f2, recv := methodCall(fr, x, name)
		if f2 == nil {
			return false
		}
		root, path := f2.fieldPath(recv)
		return len(path) <= 1 && root.same(owner)
	}

	type scan struct {
		fr *c14Frame
		it *core.Iteration
	}
	for _, rc := range recs {
		if len(rc.CS.Call.Args) < 1 {
			c.Undecided("recheck recursion", "shape", rc.pos(), "the recursive call has no event argument")
			continue
		}
		child := rc.Fr.val(rc.CS.Call.Args[0])
		// the iteration whose element is the child
		var outer *core.Iteration
		var ofr *c14Frame
		if child.V != nil {
			ofr = child.Fr
			fn := ofr.Fn
			var loops []ast.Stmt
			fn.InspectOwn(func(n ast.Node) bool {
				switch s := n.(type) {
				case *ast.ForStmt, *ast.RangeStmt:
					if s.Pos() <= child.V.Pos() && child.V.Pos() < s.End() {
						loops = append(loops, s.(ast.Stmt))
					}
				}
				return true
			})
			for i := len(loops) - 1; i >= 0 && outer == nil; i-- {
				it, ok := core.IterationOf(fn, loops[i], func(x ast.Expr) ast.Expr { return resolveLocal(fn, x) })
				if !ok {
					continue
				}
				if it.Value == child.V {
					outer = it
				} else if d := singleDef(fn, child.V); d != nil && it.IsElem(d, nil) {
					outer = it
				}
			}
		}
		if outer == nil || outer.Head == nil || len(outer.Head.Succs) == 0 || ofr.blocks[outer.Head] == nil || ofr.blocks[outer.Head.Succs[0]] == nil {
			c.Undecided("recheck recursion", "shape", rc.pos(), "the event pushed again is not the element of an iteration over the buffered events")
			continue
		}
		c.Check(outer.Complete, "recheck looks at every buffered event", "T3 PostDominates", outer.Stmt.Pos(),
			"the recheck iteration is left only through its head", "the recheck iteration can be left before all buffered events were looked at: a completed child stays in the buffer")

		// scans over the child's parents list
		var scans []scan
		for _, fr := range vp.Frames {
			fr := fr
			fr.Fn.InspectOwn(func(n ast.Node) bool {
				switch s := n.(type) {
				case *ast.ForStmt, *ast.RangeStmt:
					it, ok := core.IterationOf(fr.Fn, s.(ast.Stmt), nil)
					if ok && it.FromZero && it.Coll != nil && it.Head != nil && it.Done != nil && len(it.Head.Succs) == 2 &&
						fr.blocks[it.Head] != nil && fr.blocks[it.Done] != nil && isMethodOf(fr, it.Coll, "Parents", child) {
						scans = append(scans, scan{fr, it})
					}
				}
				return true
			})
		}
		exhausted := func(ed *c14Edge) bool {
			for _, s := range scans {
				if ed.From.Fr == s.fr && ed.From.Pt.B == s.it.Head && ed.To == s.fr.blocks[s.it.Done] {
					return true
				}
			}
			return false
		}
		// the child is known to be released / not buffered any more
		gone := func(ft c14Fact) bool {
			cm, ok := core.NormCmp(ft.Fact)
			if !ok || cm.R != nil {
				return false
			}
			if cm.Op == token.EQL {
				root, path := ft.Fr.fieldPath(cm.L)
				return len(path) == 1 && path[0] == relF && root.same(child)
			}
			if f2, call := ft.Fr.callTo(cm.L, "utils/wlru.Cache.Contains"); call != nil && len(call.Args) == 1 {
				found := false
				ast.Inspect(call.Args[0], func(n ast.Node) bool {
					if ex, ok := n.(ast.Expr); ok && !found && f2.val(ex).same(child) {
						found = true
					}
					return !found
				})
				return found
			}
			return false
		}
		goneEdge := vp.edgesWith(gone)
		head, body := ofr.blocks[outer.Head], ofr.blocks[outer.Head.Succs[0]]
		path, found := vp.find(c14Query{From: []*c14Node{body}, Target: c14NodeSet(head), Avoid: c14NodeSet(recs...),
			AvoidEdge: func(ed *c14Edge) bool { return goneEdge(ed) || exhausted(ed) }})
		c.Check(!found, "recheck pushes every child of the connected event", "T3 PostDominates (refined)", rc.pos(),
			"a buffered event is passed over by the recheck only when it is released / no longer buffered, or after its whole parents list was compared with the connected event",
			"the recheck can pass over a buffered event without comparing the connected event with its parents (the buffer does not validate the quantity tested instead): a child whose last missing parent was just connected stays in the buffer and is never processed; path "+vp.describe(path))
		c.ExpectAtLeast("scans over the child's parents", len(scans), 1)
		for _, s := range scans {
			s := s
			mismatch := vp.edgesWith(func(ft c14Fact) bool {
				cm, ok := core.NormCmp(ft.Fact)
				if !ok || cm.R == nil || cm.Op != token.NEQ {
					return false
				}
				isElem := func(x ast.Expr) bool {
					v := ft.Fr.val(x)
					if v.Fr != s.fr {
						return false
					}
					if v.V != nil && v.V == s.it.Value {
						return true
					}
					if v.V != nil {
						if d := singleDef(s.fr.Fn, v.V); d != nil && s.it.IsElem(d, nil) {
							return true
						}
					}
					return v.E != nil && s.it.IsElem(v.E, nil)
				}
				isID := func(x ast.Expr) bool { return isMethodOf(ft.Fr, x, "ID", e) }
				return (isElem(cm.L) && isID(cm.R)) || (isElem(cm.R) && isID(cm.L))
			})
			sh, sb := s.fr.blocks[s.it.Head], s.fr.blocks[s.it.Head.Succs[0]]
			if sb == nil {
				c.Undecided("parents scan", "shape", s.it.Stmt.Pos(), "the body of the scan is not in the inlined view")
				continue
			}
			p2, skip := vp.find(c14Query{From: []*c14Node{sb}, Target: c14NodeSet(sh), Avoid: c14NodeSet(recs...), AvoidEdge: mismatch})
			c.Check(!skip, "parents scan compares every parent with the connected event", "T4 GuardedBy", s.it.Stmt.Pos(),
				"the scan goes on to the next parent without pushing the child only on the edge where this parent is not the connected event's ID",
				"the scan over a child's parents can go on without pushing the child although the parent was not compared with the connected event's ID: "+vp.describe(p2))
		}
	}
}
