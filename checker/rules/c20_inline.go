package rules

import (
	"go/ast"
	"go/types"
	"strings"
	"sync"

	"lachk/core"
)

// Helpers that let the C20 clauses see through "extract method" refactors of recacheState and of the
// dirty-marking code: a statement may live in a private helper of the indexer that is called on the same
// receiver. Only declared functions are entered (no interfaces, no function values), one level deep.

// c20Callee returns the declared module function entered by a plain (not go/defer) call site.
func c20Callee(f *core.FuncInfo, cs *core.CallSite) *core.FuncInfo {
	if cs.InGo || cs.InDefer || cs.IsConv {
		return nil
	}
	fn, ok := cs.Callee.(*types.Func)
	if !ok {
		return nil
	}
	g := f.P.FuncOf(fn)
	if g == nil || g == f {
		return nil
	}
	return g
}

// c20OnRecv: the call is a method call on f's own receiver (h.helper(..) inside a method of h).
func c20OnRecv(f *core.FuncInfo, cs *core.CallSite) bool {
	r := cs.Recv()
	if r == nil || f.Recv() == nil {
		return false
	}
	return varOf(f, r) == f.Recv()
}

// c20AlwaysPasses: every path from the entry of g to a return passes one of the points.
func c20AlwaysPasses(g *core.FuncInfo, pts []core.Point) bool {
	if len(pts) == 0 {
		return false
	}
	_, found := core.PathQuery{F: g, From: g.Entry(), Avoid: core.PointSet(pts...), TargetExit: true}.Find()
	return !found
}

// c20NumParams counts the parameters of g (named or not).
func c20NumParams(g *core.FuncInfo) int {
	n := 0
	for _, fl := range g.Type.Params.List {
		if len(fl.Names) == 0 {
			n++
		} else {
			n += len(fl.Names)
		}
	}
	return n
}

// c20ParamIndex returns the position of parameter v of g (-1 if v is not a parameter, or is reassigned
// or has its address taken in g: then it no longer stands for the caller's argument).
func c20ParamIndex(g *core.FuncInfo, v *types.Var) int {
	if v == nil {
		return -1
	}
	for i := 0; i < c20NumParams(g); i++ {
		if g.Param(i) == v {
			if n, addr := c19AssignCount(g, v); n != 0 || addr {
				return -1
			}
			return i
		}
	}
	return -1
}

// c20RecacheFn locates the function that rebuilds the derived state of the indexer by what it does, not
// by its name: the one method of QuorumIndexer that clears the dirty flag. When several functions clear
// it (one of them is then reported by C20.dirty), the one that also stores derived state or computes a
// median is meant; the historic name only breaks a remaining tie. nil: nothing rebuilds the state.
var c20RecacheMemo sync.Map // *core.Prog -> *core.FuncInfo

func c20RecacheFn(p *core.Prog) *core.FuncInfo {
	if v, ok := c20RecacheMemo.Load(p); ok {
		return v.(*core.FuncInfo)
	}
	var methods, clearing []*core.FuncInfo
	for _, f := range c20PkgFuncs(p) {
		if f.Lit != nil || f.RecvTypeName() != c20QiT {
			continue
		}
		methods = append(methods, f)
		if len(c20DirtyAssigns(f, false)) > 0 {
			clearing = append(clearing, f)
		}
	}
	storesDerived := func(f *core.FuncInfo) bool {
		for _, s := range c20Stores(f) {
			if c20Derived[s.Field] {
				return true
			}
		}
		return false
	}
	rebuilds := func(f *core.FuncInfo) bool {
		if storesDerived(f) {
			return true
		}
		return len(f.SitesMay(func(cs *core.CallSite) bool { return cs.Name == "utils/wmedian.Of" }, 2)) > 0
	}
	pick := func(cands []*core.FuncInfo) *core.FuncInfo {
		if len(cands) == 1 {
			return cands[0]
		}
		var narrowed []*core.FuncInfo
		for _, f := range cands {
			if rebuilds(f) {
				narrowed = append(narrowed, f)
			}
		}
		if len(narrowed) == 1 {
			return narrowed[0]
		}
		for _, f := range cands {
			if f.Name == c20Recache {
				return f
			}
		}
		return nil
	}
	var rec *core.FuncInfo
	if len(clearing) > 0 {
		rec = pick(clearing)
	} else {
		var cands []*core.FuncInfo
		for _, f := range methods {
			if storesDerived(f) {
				cands = append(cands, f)
			}
		}
		if len(cands) > 0 {
			rec = pick(cands)
		}
	}
	c20RecacheMemo.Store(p, rec)
	return rec
}

// c20RecacheAnchor resolves the rebuilding function for a clause (undecided when there is none).
func c20RecacheAnchor(c *core.Ctx) *core.FuncInfo {
	if rec := c20RecacheFn(c.P); rec != nil {
		return rec
	}
	return c.Fn(c20Recache)
}

// c20RecacheHelpers returns the private helpers of recacheState: unexported methods of the indexer
// whose every call site in the package lies in recacheState (or in another such helper) and is made on
// the caller's receiver, and which are never used as a method value. Code in such a helper runs only
// as a part of recacheState.
func c20RecacheHelpers(p *core.Prog) map[*core.FuncInfo]bool {
	out := map[*core.FuncInfo]bool{}
	funcs := c20PkgFuncs(p)
	rec := c20RecacheFn(p)
	type site struct {
		from *core.FuncInfo
		cs   *core.CallSite
	}
	callers := map[*core.FuncInfo][]site{}
	for _, f := range funcs {
		for _, cs := range f.Calls() {
			if fn, ok := cs.Callee.(*types.Func); ok {
				if g := p.FuncOf(fn); g != nil {
					callers[g] = append(callers[g], site{f, cs})
				}
			}
		}
	}
	// references that are not calls (method values) disqualify
	refs := map[*types.Func]int{}
	for _, f := range funcs {
		if f.Lit != nil {
			continue // literals are walked as part of their parent
		}
		f.InspectAll(func(n ast.Node) bool {
			if id, ok := n.(*ast.Ident); ok {
				if fn, ok := f.Info().Uses[id].(*types.Func); ok {
					refs[fn]++
				}
			}
			return true
		})
	}
	for changed := true; changed; {
		changed = false
		for _, g := range funcs {
			if out[g] || g.Obj == nil || g.Obj.Exported() || g == rec || g.RecvTypeName() != c20QiT {
				continue
			}
			cs := callers[g]
			ok := len(cs) > 0 && refs[g.Obj] == len(cs)
			for _, s := range cs {
				if !(s.from == rec || out[s.from]) || !c20OnRecv(s.from, s.cs) || s.cs.InGo || s.cs.InDefer {
					ok = false
				}
			}
			if ok {
				out[g] = true
				changed = true
			}
		}
	}
	return out
}

// c20HelperSites lists the call sites of f that enter a helper g on f's receiver for which `in`
// returns true (e.g. "g always stores a median").
func c20HelperSites(f *core.FuncInfo, in func(g *core.FuncInfo, cs *core.CallSite) bool) []*core.CallSite {
	var out []*core.CallSite
	for _, cs := range f.Calls() {
		g := c20Callee(f, cs)
		if g == nil || !c20OnRecv(f, cs) {
			continue
		}
		if in(g, cs) {
			out = append(out, cs)
		}
	}
	return out
}

// c20DirtySetSites: the points of f after which dirty is certainly true: `dirty = true` assignments, and
// calls of helpers on the same receiver that set dirty = true on every path (and never clear it).
func c20DirtySetSites(f *core.FuncInfo) []core.Point {
	out := c20DirtyAssigns(f, true)
	for _, cs := range c20HelperSites(f, func(g *core.FuncInfo, _ *core.CallSite) bool {
		for _, inner := range g.Calls() {
			if strings.HasPrefix(inner.Name, c20QiT+".") {
				return false // may recache (and clear dirty) after marking
			}
		}
		return len(c20DirtyAssigns(g, false)) == 0 && c20AlwaysPasses(g, c20DirtyAssigns(g, true))
	}) {
		out = append(out, cs.Pt)
	}
	return out
}

// c20Dirtying lists the points of f after which the derived state may be stale: dirty = true (directly
// or in a helper that always sets it) and stores into source state.
func c20Dirtying(f *core.FuncInfo) []core.Point {
	out := c20DirtySetSites(f)
	for _, s := range c20StoresDeep(f.P, f, 2) {
		if s.Field != c20Dirty && !c20Derived[s.Field] {
			out = append(out, s.Pt)
		}
	}
	return out
}

// c20FreshSites lists the points of f after which the derived state is certainly fresh: calls of
// recacheState, and calls (on f's receiver) of a helper that ensures freshness (c20EnsuresClean), e.g. an
// extracted `if h.dirty { h.recacheState() }`.
func c20FreshSites(f *core.FuncInfo, depth int) []core.Point {
	var out []core.Point
	rec := c20RecacheFn(f.P)
	for _, cs := range f.Calls() {
		if fn, ok := cs.Callee.(*types.Func); ok && rec != nil && f.P.FuncOf(fn) == rec && !cs.InGo && !cs.InDefer && c20OnRecv(f, cs) {
			out = append(out, cs.Pt)
		}
	}
	if depth <= 0 {
		return out
	}
	for _, cs := range c20HelperSites(f, func(g *core.FuncInfo, _ *core.CallSite) bool { return c20EnsuresClean(g, depth) }) {
		out = append(out, cs.Pt)
	}
	return out
}

// c20EnsuresClean: the indexer method g returns only with fresh derived state: every path from its entry
// to a return runs recacheState (directly or through another such helper, bounded depth) or takes the
// dirty == false edge, and so does every path from a dirtying statement of g to a return.
func c20EnsuresClean(g *core.FuncInfo, depth int) bool {
	if g == nil || depth <= 0 || g.Recv() == nil || g.RecvTypeName() != c20QiT || g == c20RecacheFn(g.P) {
		return false
	}
	fresh := core.PointSet(c20FreshSites(g, depth-1)...)
	clean := c19Edges(g, c20BoolFact(g, c20Dirty, false))
	if _, stale := (core.PathQuery{F: g, From: g.Entry(), Avoid: fresh, AvoidEdge: clean, TargetExit: true}).Find(); stale {
		return false
	}
	for _, d := range c20Dirtying(g) {
		if fresh(d) {
			continue
		}
		if _, stale := (core.PathQuery{F: g, From: d, FromAfter: true, Avoid: fresh, AvoidEdge: clean, TargetExit: true}).Find(); stale {
			return false
		}
	}
	return true
}

// c20Site is one call of a function, with the caller.
type c20Site struct {
	from *core.FuncInfo
	cs   *core.CallSite
}

// c20PrivateSites lists every call of g when g is a private method of the indexer: unexported, never
// used as a method value, called only as a plain call on the caller's own receiver. Code of such a
// method runs only as a part of its callers, at those call sites.
func c20PrivateSites(p *core.Prog, g *core.FuncInfo) ([]c20Site, bool) {
	if g == nil || g.Obj == nil || g.Obj.Exported() || g.RecvTypeName() != c20QiT {
		return nil, false
	}
	var sites []c20Site
	refs := 0
	for _, f := range c20PkgFuncs(p) {
		for _, cs := range f.Calls() {
			if fn, ok := cs.Callee.(*types.Func); ok && p.FuncOf(fn) == g {
				sites = append(sites, c20Site{f, cs})
			}
		}
		if f.Lit != nil {
			continue // literals are walked as part of their parent
		}
		f.InspectAll(func(n ast.Node) bool {
			if id, ok := n.(*ast.Ident); ok {
				if fn, ok := f.Info().Uses[id].(*types.Func); ok && p.FuncOf(fn) == g {
					refs++
				}
			}
			return true
		})
	}
	if len(sites) == 0 || refs != len(sites) {
		return nil, false
	}
	for _, s := range sites {
		if s.cs.InGo || s.cs.InDefer || s.cs.IsConv || !c20OnRecv(s.from, s.cs) {
			return nil, false
		}
	}
	return sites, true
}

// c20CleanAt decides that the derived state is fresh whenever point pt of f is reached: within f, pt is
// reached only after a freshness point (recacheState or an ensure-clean helper) or over the
// dirty == false edge, also after any dirtying statement of f; or f is a private method that does not
// dirty the state before pt and the same holds at each of its call sites (bounded depth). On failure
// it returns the function and path that witness a stale read.
func c20CleanAt(p *core.Prog, f *core.FuncInfo, pt core.Point, depth int) (bool, *core.FuncInfo, []core.Point) {
	if f.Lit != nil {
		return false, f, nil
	}
	fresh := core.PointSet(c20FreshSites(f, 2)...)
	clean := c19Edges(f, c20BoolFact(f, c20Dirty, false))
	for _, d := range c20Dirtying(f) {
		if d == pt {
			continue
		}
		if p2, stale := (core.PathQuery{F: f, From: d, FromAfter: true, Target: core.PointSet(pt), Avoid: fresh, AvoidEdge: clean}).Find(); stale {
			return false, f, p2
		}
	}
	path, found := core.PathQuery{F: f, From: f.Entry(), Target: core.PointSet(pt), Avoid: fresh, AvoidEdge: clean}.Find()
	if pt == f.Entry() {
		found = true
	}
	if !found {
		return true, nil, nil
	}
	// f can reach pt with the state it was entered with: every call site has to establish freshness
	if depth > 0 {
		if sites, private := c20PrivateSites(p, f); private {
			for _, s := range sites {
				if ok, wf, wp := c20CleanAt(p, s.from, s.cs.Pt, depth-1); !ok {
					return false, wf, wp
				}
			}
			return true, nil, nil
		}
	}
	return false, f, path
}

// c20HelperStoresMedian: g stores into globalMedianSeqs at exactly one place, `globalMedianSeqs[p] = …`
// with p one of its (unmodified) parameters, and does so on every path; returns p's position.
func c20HelperStoresMedian(g *core.FuncInfo) (int, bool) {
	if g == nil {
		return -1, false
	}
	var pts []core.Point
	k, n := -1, 0
	for _, s := range c20Stores(g) {
		if s.Field != c20Medians {
			continue
		}
		n++
		for _, a := range assignments(g) {
			if ix, ok := ast.Unparen(a.LHS).(*ast.IndexExpr); ok && a.Pt == s.Pt && a.Stmt.Pos() == s.Pos && fieldNameOf(g, ix.X) == c20Medians {
				k = c20ParamIndex(g, c20VarAt(g, ix.Index))
				pts = append(pts, a.Pt)
			}
		}
	}
	return k, n == 1 && k >= 0 && c20AlwaysPasses(g, pts)
}
