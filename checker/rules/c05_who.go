package rules

import (
	"go/ast"
	"go/token"
	"go/types"
	"strings"

	"lachk/core"
)

// c05Who decides that a cached vector always equals the stored one. For each of the two vector caches:
//
//	Set accessor:  in its inlined view (its own body and the vecfc helpers it calls) there is exactly one
//	               write of the table and one fill of the cache; the table is written under id.Bytes() with
//	               the vector parameter (or what it points to), the cache is filled under id with the
//	               vector parameter, and both happen on every path through either of them;
//	Get accessor:  exactly one read of the table and one fill of the cache; the read is made under
//	               id.Bytes(), the fill under id, every path to the fill has made the read, and the value
//	               cached is (the address of a local holding) the result of that read;
//	nobody else:   every other function of vecfc that fills a vector cache is an unexported helper that
//	               is only ever called (never used as a value), and only from the accessors' inlined views
//	               that were checked above.
//
// The statements may sit in the accessor or in helpers (setBytes/getBytes today); operands are read
// back through parameter bindings, so neither extracting nor inlining a helper changes the verdict.
// Table and cache may reach a helper as parameters or as fields of a grouping struct value built by a
// composite literal (c05ResolveDeep projects the field out of the literal, also when a helper returns
// it); the read-before-fill dominance is decided in the innermost activation containing both sites
// (c05Meet), and the cached value is traced to the table read through conversions, &local, helper
// results and callbacks bound to function literals (c05Origin). A cache fill whose receiver is not
// certainly another cache of the index must be one of the fills checked in an accessor's view.
func c05Who(c *core.Ctx) {
	p := c.P
	hbCache := vfIdx + ".cache.HighestBeforeSeq"
	laCache := vfIdx + ".cache.LowestAfterSeq"
	type acc struct{ fn, cache, table string }
	sets := []acc{
		{vfIdx + ".SetHighestBefore", hbCache, vfIdx + ".table.HighestBeforeSeq"},
		{vfIdx + ".SetLowestAfter", laCache, vfIdx + ".table.LowestAfterSeq"},
	}
	gets := []acc{
		{vfIdx + ".GetHighestBefore", hbCache, vfIdx + ".table.HighestBeforeSeq"},
		{vfIdx + ".GetLowestAfter", laCache, vfIdx + ".table.LowestAfterSeq"},
	}
	inVecfc := func(g *core.FuncInfo) bool { return core.RelPkg(g.Pkg.PkgPath) == "vecfc" }
	const depth = 3
	cacheAdd := func(cache string) func(*c05Frame, *core.CallSite) bool {
		return func(fr *c05Frame, cs *core.CallSite) bool {
			if cs.Name != "utils/simplewlru.Cache.Add" || len(cs.Call.Args) < 2 {
				return false
			}
			name, own := c05FieldIn(fr, cs.Recv())
			return own && name == cache
		}
	}
	tableOp := func(op, table string) func(*c05Frame, *core.CallSite) bool {
		return func(fr *c05Frame, cs *core.CallSite) bool {
			if cs.Name != op || cs.Recv() == nil {
				return false
			}
			name, own := c05FieldIn(fr, cs.Recv())
			return own && name == table
		}
	}
	// accounted[call site] = a cache fill that was checked as part of an accessor's inlined view
	accounted := map[*ast.CallExpr]bool{}
	// entered[helper][call expr] = calls through which a checked accessor enters a helper on the way to the fill
	enteredBy := map[*core.FuncInfo]map[*ast.CallExpr]bool{}
	account := func(s c05Site) {
		accounted[s.CS.Call] = true
		for fr := s.Fr; fr.Up != nil; fr = fr.Up {
			if enteredBy[fr.F] == nil {
				enteredBy[fr.F] = map[*ast.CallExpr]bool{}
			}
			enteredBy[fr.F][fr.At.Call] = true
		}
	}
	owners := map[*core.FuncInfo]bool{}

	for _, s := range sets {
		f := c.Fn(s.fn)
		owners[f] = true
		id, vec := f.Param(0), f.Param(1)
		adds := c05Sites(f, depth, inVecfc, cacheAdd(s.cache))
		wr := c05Sites(f, depth, inVecfc, tableOp(kvPut, s.table))
		ok, why := true, ""
		switch {
		case id == nil || vec == nil:
			ok, why = false, "the accessor does not have the parameters (id, vector)"
		case len(adds) != 1:
			ok, why = false, "the accessor does not fill its cache exactly once"
		case len(wr) != 1 || len(wr[0].CS.Call.Args) != 2:
			ok, why = false, "the accessor does not write its table exactly once"
		}
		if ok {
			a, w := adds[0], wr[0]
			account(a)
			kfr, kx := w.Arg(0)
			vfr, vx := w.Arg(1)
			if st, isStar := ast.Unparen(vx).(*ast.StarExpr); isStar {
				vx = st.X
			}
			afr0, ax0 := a.Arg(0)
			afr1, ax1 := a.Arg(1)
			switch {
			case !c05IsRootVar(afr0, ax0, id):
				ok, why = false, "the cache is filled under a key other than the id parameter"
			case !c05MethodOnRootVar(kfr, kx, "Bytes", id):
				ok, why = false, "the table is written under a key other than id.Bytes()"
			case !c05IsRootVar(afr1, ax1, vec):
				ok, why = false, "the value cached is not the vector parameter"
			case !c05IsRootVar(vfr, vx, vec):
				ok, why = false, "the value stored in the table is not the vector parameter"
			case !a.Always() || !w.Always():
				ok, why = false, "a helper performs the table write or the cache fill only on some of its paths"
			default:
				if paired, _ := pairedWith(f, a.RootPt(), []core.Point{w.RootPt()}); !paired {
					ok, why = false, "the cache can be filled on a path that does not write the table"
				} else if paired, _ := pairedWith(f, w.RootPt(), []core.Point{a.RootPt()}); !paired {
					ok, why = false, "the table can be written on a path that does not refresh the cache (a stale cached vector survives)"
				}
			}
		}
		c.Check(ok, short(s.fn)+" writes cache and table together", "T7 Pairing (inlined view)", f.Pos(), "the same (id, vector) goes to the table and to the cache, on the same paths", "cache and table can receive different values or keys: "+why)
	}

	for _, g := range gets {
		f := c.Fn(g.fn)
		owners[f] = true
		id := f.Param(0)
		adds := c05Sites(f, depth, inVecfc, cacheAdd(g.cache))
		rd := c05Sites(f, depth, inVecfc, tableOp(kvGet, g.table))
		ok, why := true, ""
		switch {
		case id == nil:
			ok, why = false, "the accessor does not have the parameter id"
		case len(adds) != 1:
			ok, why = false, "the accessor does not fill its cache exactly once"
		case len(rd) != 1 || len(rd[0].CS.Call.Args) != 1:
			ok, why = false, "the accessor does not read its table exactly once"
		}
		if ok {
			a, r := adds[0], rd[0]
			account(a)
			kfr, kx := r.Arg(0)
			afr0, ax0 := a.Arg(0)
			switch {
			case !c05IsRootVar(afr0, ax0, id):
				ok, why = false, "the cache is filled under a key other than the id parameter"
			case !c05MethodOnRootVar(kfr, kx, "Bytes", id):
				ok, why = false, "the table is read under a key other than id.Bytes()"
			default:
				// the read dominates the fill in the innermost activation that contains both (the accessor
				// itself, or a helper that holds the whole miss path), and the helpers between that
				// activation and the read perform it on each of their returning paths
				mf, aPt, rPt, rAlways := c05Meet(a, r)
				switch {
				case mf == nil:
					ok, why = false, "the table read and the cache fill cannot be related"
				case !rAlways:
					ok, why = false, "a helper reads the table only on some of its paths"
				default:
					if d, _ := mf.MustPassBefore([]core.Point{rPt}, aPt); !d {
						ok, why = false, "the cache can be filled on a path that has not read the table"
					} else if _, oc := c05Origin(a.Fr, a.CS.Call.Args[1]); oc == nil || oc != r.CS.Call {
						ok, why = false, "the value cached is not the vector that was read from the table"
					}
				}
			}
		}
		c.Check(ok, short(g.fn)+" fills the cache only from the table", "T7 Pairing (inlined view)", f.Pos(), "a miss reads the table under the same id and caches what was read", "the cache can be filled with something that is not the stored vector: "+why)
	}

	// nobody else adds to the vector caches
	n := 0
	for _, g := range p.FuncsInPkg("vecfc") {
		all := append([]*core.FuncInfo{g}, allLits(g)...)
		for _, h := range all {
			for _, cs := range h.CallsTo("utils/simplewlru.Cache.Add") {
				// a fill of a vector cache, or of a cache the function received from elsewhere (a parameter, a
				// field of a grouping struct): only a receiver that is certainly another cache of the index
				// (the pair cache) is none of this clause's business
				cf := fieldNameOf(h, cs.Recv())
				if cf != hbCache && cf != laCache && strings.HasPrefix(cf, vfIdx+".cache.") {
					continue
				}
				n++
				okOwner := accounted[cs.Call]
				why := "the fill is not the one checked in an accessor"
				if okOwner && !owners[h] {
					okOwner, why = c05PrivateHelper(p, h, enteredBy[h])
				}
				c.Check(okOwner, "vector cache written in "+short(h.Name), "T6 WhoMayWrite", cs.Pos(), "owner accessor, or its private helper entered only from the checked accessors", "a vector cache is written outside the four accessors: "+why)
			}
		}
	}
	c.ExpectAtLeast("vector cache writers", n, 2)
}

// c05HoldsResultOf: argument i of the fill site a is the result of the read site r: the argument (or
// the local whose address it is) is defined, up to conversions and single-definition locals, by the
// call of the root function through which r is reached, and when r sits in helpers each of them
// returns the result of the inner call.
func c05HoldsResultOf(a c05Site, i int, r c05Site) bool {
	fr, x := a.Arg(i)
	if x == nil {
		return false
	}
	if u, ok := ast.Unparen(x).(*ast.UnaryExpr); ok && u.Op == token.AND {
		x = u.X
	}
	dfr, call := c05DefiningCall(fr, x)
	if call == nil || dfr.Up != nil || call != r.RootCall() {
		return false
	}
	// each helper on the way returns what the inner call produced
	inner := r.CS.Call
	for h := r.Fr; h.Up != nil; h = h.Up {
		rets := h.F.ReturnPoints()
		if len(rets) == 0 {
			return false
		}
		for _, rp := range rets {
			rs, _ := rp.Node().(*ast.ReturnStmt)
			if rs == nil || len(rs.Results) < 1 {
				return false
			}
			_, rc := c05DefiningCall(&c05Frame{F: h.F}, rs.Results[0])
			if rc != inner {
				return false
			}
		}
		inner = h.At.Call
	}
	return true
}

// c05PrivateHelper: h is an unexported declared function that is referenced only as the callee of the
// given call expressions (so it cannot be reached from anywhere else, nor escape as a value).
func c05PrivateHelper(p *core.Prog, h *core.FuncInfo, allowed map[*ast.CallExpr]bool) (bool, string) {
	if h.Obj == nil {
		return false, "the fill sits in a function literal"
	}
	if h.Obj.Exported() {
		return false, short(h.Name) + " is exported: it can be called with any (id, vector)"
	}
	ok, why := true, ""
	for _, g := range p.Funcs() {
		if g.Obj == nil || g.Pkg != h.Pkg {
			continue // unexported: only its own package can refer to it
		}
		callFun := map[*ast.Ident]*ast.CallExpr{}
		g.InspectAll(func(n ast.Node) bool {
			if call, isCall := n.(*ast.CallExpr); isCall {
				switch fn := ast.Unparen(call.Fun).(type) {
				case *ast.Ident:
					callFun[fn] = call
				case *ast.SelectorExpr:
					callFun[fn.Sel] = call
				}
			}
			return true
		})
		g.InspectAll(func(n ast.Node) bool {
			id, isID := n.(*ast.Ident)
			if !isID {
				return true
			}
			fn, _ := g.Info().Uses[id].(*types.Func)
			if fn == nil || (fn != h.Obj && fn.Origin() != h.Obj) {
				return true
			}
			if call := callFun[id]; call == nil {
				ok, why = false, short(h.Name)+" is used as a value in "+short(g.Name)
			} else if !allowed[call] {
				ok, why = false, short(h.Name)+" is also called from "+short(g.Name)+" outside the checked accessors"
			}
			return true
		})
	}
	return ok, why
}

// c05Meet relates two sites of one inlined view: the innermost activation that contains both (compared
// by function and entering call), the points of that activation's function at which a resp. r happen
// (the site itself or the call towards it), and whether every helper between that activation and r
// passes r on each of its returning paths. nil when the sites have no common activation.
func c05Meet(a, r c05Site) (mf *core.FuncInfo, aPt, rPt core.Point, rAlways bool) {
	chain := func(s c05Site) []*c05Frame {
		var out []*c05Frame
		for fr := s.Fr; fr != nil; fr = fr.Up {
			out = append([]*c05Frame{fr}, out...)
		}
		return out
	}
	ca, cr := chain(a), chain(r)
	if len(ca) == 0 || len(cr) == 0 || ca[0].F != cr[0].F {
		return nil, aPt, rPt, false
	}
	k := 0
	for k+1 < len(ca) && k+1 < len(cr) && ca[k+1].F == cr[k+1].F && ca[k+1].At.Call == cr[k+1].At.Call {
		k++
	}
	at := func(c []*c05Frame, s c05Site) core.Point {
		if k+1 < len(c) {
			return c[k+1].At.Pt
		}
		return s.CS.Pt
	}
	aPt, rPt = at(ca, a), at(cr, r)
	rAlways = true
	pt := r.CS.Pt
	for i := len(cr) - 1; i > k; i-- {
		if _, skip := (core.PathQuery{F: cr[i].F, From: cr[i].F.Entry(), Avoid: core.PointSet(pt), TargetExit: true}).Find(); skip {
			rAlways = false
		}
		pt = cr[i].At.Pt
	}
	return ca[k].F, aPt, rPt, rAlways
}
