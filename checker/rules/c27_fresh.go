package rules

import (
	"go/ast"
	"go/token"
	"go/types"

	"lachk/core"
)

// c27Constr decides "this object is still under construction here": nobody but the running function
// (and the helpers it hands the object to, which keep it to themselves) can see it, so
//
//   - a store into one of its guarded maps needs no lock (C27.lock), and
//   - a map that the allocating literal leaves nil may still be made before the object is handed out
//     (C27.init: the literal and the field stores / the initialising helper are one construction).
//
// The facts are decided on the uses of the variable that holds the object, not on the spelling:
//
//	fresh local     a local of the function with one definition, which is an allocation (composite
//	                literal, &literal, new(T), var x T);
//	publishing use  every use of the variable other than: a field selection that is stored into, read as
//	                a scalar, indexed, ranged over, compared or measured; being the receiver / (address)
//	                argument of a function of the package that in turn keeps its parameter to itself
//	                (bounded depth; not in a go or defer statement). A use inside a function literal,
//	                an alias, a return, a store into another object, a call of anything else publish;
//	under construction at a point: no publishing use can reach the point on the CFG;
//	construction helper: an unexported function of the package that keeps the parameter to itself, is
//	                never used as a value, and at every call site receives an object that is under
//	                construction there (a fresh local of the caller, or the caller's own parameter when
//	                the caller is itself such a helper).
type c27Constr struct {
	p      *core.Prog
	pkg    string
	funcs  []*core.FuncInfo // declared functions and literals of the package
	keepsM map[c27ParamKey]int8
	helpM  map[c27ParamKey]int8
}

type c27ParamKey struct {
	f *core.FuncInfo
	v *types.Var
}

type c27Use struct {
	id      *ast.Ident
	pt      core.Point
	hasPt   bool
	publish bool
	how     string
}

const c27ConstrDepth = 3

func c27NewConstr(p *core.Prog, pkg string) *c27Constr {
	k := &c27Constr{p: p, pkg: pkg, keepsM: map[c27ParamKey]int8{}, helpM: map[c27ParamKey]int8{}}
	for _, f := range p.Funcs() {
		if core.RelPkg(f.Pkg.PkgPath) == pkg && f.Body != nil {
			k.funcs = append(k.funcs, f)
		}
	}
	return k
}

// c27RootVar: the variable at the root of a chain of field selections, address-of and parentheses.
func c27RootVar(f *core.FuncInfo, e ast.Expr) *types.Var {
	for e != nil {
		switch x := e.(type) {
		case *ast.ParenExpr:
			e = x.X
		case *ast.UnaryExpr:
			if x.Op != token.AND {
				return nil
			}
			e = x.X
		case *ast.SelectorExpr:
			s, ok := f.Info().Selections[x]
			if !ok || s.Kind() != types.FieldVal {
				return nil
			}
			e = x.X
		case *ast.Ident:
			v, _ := f.Info().ObjectOf(x).(*types.Var)
			if v == nil || v.IsField() {
				return nil
			}
			return v
		default:
			return nil
		}
	}
	return nil
}

func c27IsBasic(t types.Type) bool {
	if t == nil {
		return false
	}
	_, ok := t.Underlying().(*types.Basic)
	return ok
}

// isParamOf: v is the receiver or a parameter of f.
func c27IsParamOf(f *core.FuncInfo, v *types.Var) bool {
	if f == nil || v == nil {
		return false
	}
	in := func(fl *ast.FieldList) bool { return fl != nil && fl.Pos() <= v.Pos() && v.Pos() < fl.End() }
	if f.Decl != nil && in(f.Decl.Recv) {
		return true
	}
	return f.Type != nil && in(f.Type.Params)
}

// uses classifies every use of v in g (nested literals included).
func (k *c27Constr) uses(g *core.FuncInfo, v *types.Var, depth int) []c27Use {
	var out []c27Use
	if g == nil || g.Body == nil || v == nil {
		return nil
	}
	var stack []ast.Node
	ast.Inspect(g.Body, func(n ast.Node) bool {
		if n == nil {
			stack = stack[:len(stack)-1]
			return true
		}
		if id, ok := n.(*ast.Ident); ok && g.Info().Uses[id] == types.Object(v) {
			out = append(out, k.classify(g, id, stack, depth))
		}
		stack = append(stack, n)
		return true
	})
	return out
}

func (k *c27Constr) classify(g *core.FuncInfo, id *ast.Ident, stack []ast.Node, depth int) c27Use {
	u := c27Use{id: id}
	info := g.Info()
	for _, s := range stack {
		if lit, ok := s.(*ast.FuncLit); ok {
			u.pt, u.hasPt = g.PointOf(lit)
			u.publish, u.how = true, "captured by a function literal"
			return u
		}
	}
	u.pt, u.hasPt = g.PointOf(id)
	pub := func(how string) c27Use { u.publish, u.how = true, how; return u }
	var cur ast.Expr = id
	bare := true
	i := len(stack) - 1
climb:
	for i >= 0 {
		switch p := stack[i].(type) {
		case *ast.ParenExpr:
			cur = p
			i--
			continue
		case *ast.SelectorExpr:
			if p.X == cur {
				if s, ok := info.Selections[p]; ok && s.Kind() == types.FieldVal {
					cur, bare = p, false
					i--
					continue
				}
			}
		}
		break climb
	}
	if i < 0 {
		return pub("used in an unknown context")
	}
	// the call (with the index of the operand; -1: receiver) that cur is handed to
	handed := func(call *ast.CallExpr, j int, at int) c27Use {
		if at-1 >= 0 {
			switch stack[at-1].(type) {
			case *ast.GoStmt:
				return pub("handed to a goroutine")
			case *ast.DeferStmt:
				return pub("handed to a deferred call")
			}
		}
		if k.calleeKeeps(g, call, j, depth) {
			return u
		}
		return pub("handed to " + exprStr(call.Fun))
	}
	argIndex := func(call *ast.CallExpr, e ast.Expr) int {
		for j, a := range call.Args {
			if a == e {
				return j
			}
		}
		return -1
	}
	t := info.TypeOf(cur)
	switch p := stack[i].(type) {
	case *ast.SelectorExpr:
		// a method of the object (or of one of its fields)
		if p.X != cur || i-1 < 0 {
			return pub("used in an unknown context")
		}
		call, ok := stack[i-1].(*ast.CallExpr)
		if !ok || ast.Unparen(call.Fun) != ast.Expr(p) {
			return pub("bound as a method value")
		}
		return handed(call, -1, i-1)
	case *ast.UnaryExpr:
		if p.Op != token.AND {
			if c27IsBasic(t) {
				return u
			}
			return pub("used in an expression")
		}
		var e ast.Expr = p
		j := i - 1
		for j >= 0 {
			pe, ok := stack[j].(*ast.ParenExpr)
			if !ok {
				break
			}
			e = pe
			j--
		}
		if j >= 0 {
			if call, ok := stack[j].(*ast.CallExpr); ok {
				if a := argIndex(call, e); a >= 0 {
					return handed(call, a, j)
				}
			}
		}
		return pub("its address is taken")
	case *ast.CallExpr:
		if p.Fun == cur {
			if bare {
				return pub("called")
			}
			return u // a function-typed field is read and called
		}
		a := argIndex(p, cur)
		if a < 0 {
			return pub("used in an unknown context")
		}
		if b, ok := core.ObjOfExpr(info, p.Fun).(*types.Builtin); ok {
			switch b.Name() {
			case "len", "cap", "delete", "clear":
				return u
			}
			return pub("handed to " + b.Name())
		}
		if bare {
			return handed(p, a, i)
		}
		if c27IsBasic(t) {
			return u
		}
		return pub("a part of it is handed to " + exprStr(p.Fun))
	case *ast.AssignStmt:
		for _, l := range p.Lhs {
			if l == cur {
				return u
			}
		}
		if !bare && c27IsBasic(t) {
			return u
		}
		return pub("aliased by an assignment")
	case *ast.IndexExpr:
		if p.X == cur && !bare {
			return u
		}
		if c27IsBasic(t) {
			return u
		}
		return pub("used as an index")
	case *ast.RangeStmt:
		if p.X == cur && !bare {
			return u
		}
		return pub("used in a range statement")
	case *ast.BinaryExpr, *ast.IncDecStmt:
		return u
	case *ast.ReturnStmt:
		if !bare && c27IsBasic(t) {
			return u
		}
		return pub("returned")
	}
	if !bare && c27IsBasic(t) {
		return u
	}
	return pub("used in an unknown context")
}

// calleeKeeps: the called function is a function of the package that keeps operand j (-1: the receiver)
// to itself.
func (k *c27Constr) calleeKeeps(g *core.FuncInfo, call *ast.CallExpr, j int, depth int) bool {
	h, pv, unused := k.calleeParam(g, call, j)
	if h == nil || depth <= 0 {
		return false
	}
	if unused {
		return true
	}
	return pv != nil && k.keeps(h, pv, depth-1)
}

// calleeParam: the package function called and its parameter that receives operand j (-1: receiver);
// unused: the parameter has no name, so the callee cannot use it.
func (k *c27Constr) calleeParam(g *core.FuncInfo, call *ast.CallExpr, j int) (h *core.FuncInfo, pv *types.Var, unused bool) {
	obj, _ := k.p.ResolveCallee(g.Info(), call)
	fn := c27AsFunc(obj)
	if fn == nil {
		return nil, nil, false
	}
	h = k.p.FuncOf(fn)
	if h == nil || h.Body == nil || h.Decl == nil || core.RelPkg(h.Pkg.PkgPath) != k.pkg {
		return nil, nil, false
	}
	sig, ok := fn.Type().(*types.Signature)
	if !ok {
		return nil, nil, false
	}
	if sel, ok := ast.Unparen(call.Fun).(*ast.SelectorExpr); ok {
		if s, ok := g.Info().Selections[sel]; ok && s.Kind() != types.MethodVal {
			return nil, nil, false // method expression, function-typed field
		}
	}
	if j < 0 {
		if sig.Recv() == nil {
			return nil, nil, false
		}
		pv = h.Recv()
		return h, pv, pv == nil
	}
	if j >= sig.Params().Len() || (sig.Variadic() && j >= sig.Params().Len()-1) {
		return nil, nil, false
	}
	pv = h.Param(j)
	return h, pv, pv == nil
}

// keeps: h never publishes its parameter pv (and never rebinds it).
func (k *c27Constr) keeps(h *core.FuncInfo, pv *types.Var, depth int) bool {
	key := c27ParamKey{h, pv}
	switch k.keepsM[key] {
	case 1:
		return true // in progress (recursion): a publishing use is found where it is written
	case 2:
		return true
	case 3:
		return false
	}
	k.keepsM[key] = 1
	ok := len(assignsToVar(h, pv)) == 0
	for _, l := range allLits(h) {
		ok = ok && len(assignsToVar(l, pv)) == 0
	}
	if ok {
		for _, u := range k.uses(h, pv, depth) {
			if u.publish {
				ok = false
				break
			}
		}
	}
	if ok {
		k.keepsM[key] = 2
	} else {
		k.keepsM[key] = 3
	}
	return ok
}

// allocDef: v is a local of f (declared in f's own body) with exactly one definition, which is an
// allocation; the definition is returned.
func (k *c27Constr) allocDef(f *core.FuncInfo, v *types.Var) (assignment, bool) {
	if f == nil || f.Body == nil || v == nil || v.IsField() || !(f.Body.Pos() <= v.Pos() && v.Pos() < f.Body.End()) {
		return assignment{}, false
	}
	for _, l := range allLits(f) {
		if l.Body != nil && l.Body.Pos() <= v.Pos() && v.Pos() < l.Body.End() {
			return assignment{}, false // declared in a nested literal
		}
		if len(assignsToVar(l, v)) > 0 {
			return assignment{}, false
		}
	}
	defs := assignsToVar(f, v)
	if len(defs) != 1 {
		return assignment{}, false
	}
	d := defs[0]
	if as, ok := d.Stmt.(*ast.AssignStmt); ok && len(as.Lhs) != len(as.Rhs) {
		return assignment{}, false
	}
	if d.RHS == nil {
		// var x T: the zero value of a struct is an allocation
		if _, isSpec := d.Stmt.(*ast.ValueSpec); !isSpec {
			return assignment{}, false
		}
		if _, isStruct := v.Type().Underlying().(*types.Struct); !isStruct {
			return assignment{}, false
		}
		return d, true
	}
	e := ast.Unparen(d.RHS)
	if un, ok := e.(*ast.UnaryExpr); ok && un.Op == token.AND {
		e = ast.Unparen(un.X)
	}
	switch x := e.(type) {
	case *ast.CompositeLit:
		return d, true
	case *ast.CallExpr:
		if b, ok := f.ObjOf(x.Fun).(*types.Builtin); ok && b.Name() == "new" {
			return d, true
		}
	}
	return assignment{}, false
}

// freshAt: v is a fresh local of f that no publishing use can have reached at pt.
func (k *c27Constr) freshAt(f *core.FuncInfo, v *types.Var, pt core.Point) bool {
	if _, ok := k.allocDef(f, v); !ok {
		return false
	}
	for _, u := range k.uses(f, v, c27ConstrDepth) {
		if !u.publish {
			continue
		}
		if !u.hasPt || u.pt == pt || f.CanReach(u.pt, pt) {
			return false
		}
	}
	return true
}

// helper: h is a construction helper with respect to its parameter pv.
func (k *c27Constr) helper(h *core.FuncInfo, pv *types.Var, depth int) bool {
	if h == nil || pv == nil || h.Obj == nil || h.Obj.Exported() || depth <= 0 {
		return false
	}
	key := c27ParamKey{h, pv}
	switch k.helpM[key] {
	case 1, 3:
		return false // recursion is not construction
	case 2:
		return true
	}
	k.helpM[key] = 1
	ok := k.keeps(h, pv, c27ConstrDepth) && k.onlyCalled(h)
	nSites := 0
	if ok {
	sites:
		for _, g := range k.funcs {
			for _, cs := range g.Calls() {
				if cs.Callee != types.Object(h.Obj) && (cs.Callee == nil || c27AsFunc(cs.Callee) == nil || c27AsFunc(cs.Callee).Origin() != h.Obj) {
					continue
				}
				nSites++
				if cs.InGo || cs.InDefer {
					ok = false
					break sites
				}
				j, operand := -1, ast.Expr(nil)
				if pv == h.Recv() {
					operand = cs.Recv()
				} else {
					for a := range cs.Call.Args {
						if h.Param(a) == pv {
							j, operand = a, cs.Call.Args[a]
						}
					}
				}
				if hh, pp, _ := k.calleeParam(g, cs.Call, j); operand == nil || hh != h || pp != pv {
					ok = false
					break sites
				}
				r := c27RootVar(g, operand)
				if r == nil || !(k.freshAt(g, r, cs.Pt) || (c27IsParamOf(g, r) && k.helper(g, r, depth-1))) {
					ok = false
					break sites
				}
			}
		}
	}
	ok = ok && nSites > 0
	if ok {
		k.helpM[key] = 2
	} else {
		k.helpM[key] = 3
	}
	return ok
}

// onlyCalled: the function is never used as a value in the package (every mention is the callee of a call).
func (k *c27Constr) onlyCalled(h *core.FuncInfo) bool {
	ok := true
	for _, g := range k.funcs {
		if g.Lit != nil {
			continue // literals are inspected with their declaring function
		}
		var stack []ast.Node
		ast.Inspect(g.Body, func(n ast.Node) bool {
			if n == nil {
				stack = stack[:len(stack)-1]
				return true
			}
			if id, isID := n.(*ast.Ident); isID {
				if fn, isFn := g.Info().Uses[id].(*types.Func); isFn && (fn == h.Obj || fn.Origin() == h.Obj) {
					var e ast.Expr = id
					i := len(stack) - 1
					if i >= 0 {
						if sel, isSel := stack[i].(*ast.SelectorExpr); isSel && sel.Sel == id {
							e = sel
							i--
						}
					}
					for i >= 0 {
						pe, isParen := stack[i].(*ast.ParenExpr)
						if !isParen {
							break
						}
						e = pe
						i--
					}
					isCall := false
					if i >= 0 {
						if c, isC := stack[i].(*ast.CallExpr); isC && c.Fun == e {
							isCall = true
						}
					}
					if !isCall {
						ok = false
					}
				}
			}
			stack = append(stack, n)
			return true
		})
	}
	return ok
}

// underConstruction: the guarded-field selection sel, evaluated in f, belongs to an object that is
// still under construction.
func (k *c27Constr) underConstruction(f *core.FuncInfo, sel ast.Expr) bool {
	r := c27RootVar(f, sel)
	if r == nil {
		return false
	}
	pt, ok := f.PointOf(sel)
	if !ok {
		return false
	}
	if c27IsParamOf(f, r) {
		return k.helper(f, r, c27ConstrDepth)
	}
	return k.freshAt(f, r, pt)
}

// c27ConstructionAccesses splits the accesses of a lockset result: those made on an object under
// construction (no lock needed, nobody else can see the object) and the rest.
func c27ConstructionAccesses(k *c27Constr, res *core.LockResult) (rest, constr []core.Access) {
	sels := map[*core.FuncInfo]map[token.Pos][]*ast.SelectorExpr{}
	for _, a := range res.Accesses {
		exempt := false
		if a.F != nil && a.F.Body != nil && !a.OK() {
			m, ok := sels[a.F]
			if !ok {
				m = map[token.Pos][]*ast.SelectorExpr{}
				a.F.InspectOwn(func(n ast.Node) bool {
					if s, isSel := n.(*ast.SelectorExpr); isSel {
						m[s.Pos()] = append(m[s.Pos()], s)
					}
					return true
				})
				sels[a.F] = m
			}
			for _, s := range m[a.Pos] {
				if sl, ok := a.F.Info().Selections[s]; ok {
					if v, ok := sl.Obj().(*types.Var); ok && v.IsField() && k.p.FieldName(v) == a.Field {
						exempt = k.underConstruction(a.F, s)
					}
				}
			}
		}
		if exempt {
			constr = append(constr, a)
		} else {
			rest = append(rest, a)
		}
	}
	return rest, constr
}

// c27Making says what counts as giving a map field its map: isMade(f, rhs) — the assigned value is a made
// map; whole(f, lhs, rhs) — the assignment replaces a whole state by one whose maps are checked elsewhere.
type c27Making struct {
	isMade func(f *core.FuncInfo, rhs ast.Expr) bool
	whole  func(f *core.FuncInfo, lhs, rhs ast.Expr) bool
}

// madeSites: the points of f after which the map field (canonical name) of the state reached from
// variable w certainly holds a made map: an assignment w.….field = make(…) (or of a whole checked state),
// or a call that hands (the address of) w or of a part of it to a function of the package every exit of
// which lies behind such a site for its pointer parameter (bounded depth).
func (k *c27Constr) madeSites(f *core.FuncInfo, w *types.Var, field string, mk c27Making, depth int) []core.Point {
	var out []core.Point
	if f == nil || f.Body == nil || w == nil {
		return nil
	}
	for _, a := range assignments(f) {
		if a.Tok != token.ASSIGN || a.RHS == nil {
			continue
		}
		sel, ok := ast.Unparen(a.LHS).(*ast.SelectorExpr)
		if !ok || c27RootVar(f, sel) != w {
			continue
		}
		pt, ok := f.PointOf(a.Stmt)
		if !ok {
			continue
		}
		s, ok := f.Info().Selections[sel]
		if !ok {
			continue
		}
		fv, ok := s.Obj().(*types.Var)
		if !ok {
			continue
		}
		if (k.p.FieldName(fv) == field && mk.isMade(f, a.RHS)) || (mk.whole != nil && mk.whole(f, a.LHS, a.RHS)) {
			out = append(out, pt)
		}
	}
	if depth <= 0 {
		return out
	}
	for _, cs := range f.Calls() {
		if cs.InGo || cs.InDefer {
			continue
		}
		for j := -1; j < len(cs.Call.Args); j++ {
			var operand ast.Expr
			if j < 0 {
				operand = cs.Recv()
			} else {
				operand = cs.Call.Args[j]
			}
			if operand == nil || c27RootVar(f, operand) != w {
				continue
			}
			h, pv, _ := k.calleeParam(f, cs.Call, j)
			if h == nil || pv == nil || h == f {
				continue
			}
			if _, isPtr := pv.Type().Underlying().(*types.Pointer); !isPtr {
				continue // the callee works on a copy
			}
			if len(assignsToVar(h, pv)) > 0 {
				continue
			}
			sub := k.madeSites(h, pv, field, mk, depth-1)
			rets := h.ReturnPoints()
			must := len(sub) > 0 && len(rets) > 0
			for _, rp := range rets {
				if !must {
					break
				}
				if ok, _ := h.MustPassBefore(sub, rp); !ok {
					must = false
				}
			}
			if must {
				out = append(out, cs.Pt)
			}
		}
	}
	return out
}

// completed: the object allocated by alloc (a composite literal or new call in f) is kept in a fresh local
// of f, and on every path from the allocation to a use that publishes the object the map field is made.
func (k *c27Constr) completed(f *core.FuncInfo, alloc ast.Expr, field string, mk c27Making) (bool, string) {
	var w *types.Var
	var def assignment
	for _, a := range assignments(f) {
		if a.RHS == nil {
			continue
		}
		e := ast.Unparen(a.RHS)
		if un, ok := e.(*ast.UnaryExpr); ok && un.Op == token.AND {
			e = ast.Unparen(un.X)
		}
		if e != alloc {
			continue
		}
		if v := varOf(f, a.LHS); v != nil {
			if d, ok := k.allocDef(f, v); ok && d.Stmt == a.Stmt {
				w, def = v, d
			}
		}
	}
	if w == nil {
		return false, "the object is not kept in a local variable of " + short(f.Name) + " that is defined once"
	}
	from, ok := f.PointOf(def.Stmt)
	if !ok {
		return false, "the allocation has no place in the control flow of " + short(f.Name)
	}
	sites := k.madeSites(f, w, field, mk, c27ConstrDepth)
	if len(sites) == 0 {
		return false, "nothing in " + short(f.Name) + " (or a function it hands " + w.Name() + " to) makes " + short(field)
	}
	isSite := core.PointSet(sites...)
	for _, u := range k.uses(f, w, c27ConstrDepth) {
		if !u.publish {
			continue
		}
		if !u.hasPt || isSite(u.pt) {
			return false, w.Name() + " is handed out (" + u.how + ") at " + k.p.Pos(u.id.Pos()) + " where " + short(field) + " may not be made yet"
		}
		if u.pt == from {
			continue
		}
		if ok, _ := f.MustPassBetween(from, sites, u.pt); !ok {
			return false, w.Name() + " is handed out (" + u.how + ") at " + k.p.Pos(u.id.Pos()) + " on a path on which " + short(field) + " has not been made"
		}
	}
	return true, ""
}
