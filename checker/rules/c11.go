package rules

import (
	"fmt"
	"go/ast"
	"go/constant"
	"go/token"
	"go/types"
	"math/big"
	"sort"
	"strings"

	"lachk/core"
)

const (
	c11Pkg   = "inter/pos"
	c11V     = c11Pkg + ".Validators"
	c11Cache = c11Pkg + ".cache"
	c11WC    = c11Pkg + ".WeightCounter"

	c11FTotal   = c11Cache + ".totalWeight"
	c11FWeights = c11Cache + ".weights"
	c11FIDs     = c11Cache + ".ids"
	c11FIndexes = c11Cache + ".indexes"
	c11FVCache  = c11V + ".cache"
	c11FVValues = c11V + ".values"
)

func init() {
	register("C11", "proof", "T8/normalised AST shape (quorum formula), T4 GuardedBy (bound and wrap checks on every returning path), T15 ConstRelation (go/constant + types.Sizes), T6 WhoMayWrite, T7 Pairing, NormLinCmp",
		"Shape obligations, all of which must discharge: (1) Validators.Quorum returns ((T*2)/3)+1 with T = TotalWeight() = cache.totalWeight, multiplication before division (evaluation order fixes the floor), over an unsigned type at least as wide as Weight; (2) every returning path of calcCaches has taken the edge totalWeight <= K (one constant K, read from the code with go/constant) after the last write of the total, and every accumulation total += w is followed, before the next iteration or a return, by the edge snapshot <= total of the wrap check (unsigned a+b wraps iff the result is below a), so the cached total is the true sum; the accumulated value is the value stored as weights[i] in the same iteration (the same expression, the same field of the iteration's element however the element is spelled, or weights[i] itself read back) of a loop whose index is advanced by the loop header only (range or counted by one), or the total is accumulated by a later complete pass over the cached weights themselves with no store into them afterwards, and GetWeightByIdx reads weights[i]; intermediate values may sit in single-definition locals throughout; (3) T15: Weight is unsigned, 2*K <= max(type of T*2) and floor(2K/3)+1 <= max(Weight), so T*2 cannot overflow and the quorum is representable; (4) T6: the fields of Validators, cache and WeightCounter are written only by the frozen owners (calcCaches on its fresh local cache, newValidators, DecodeRLP by whole-struct replacement, newWeightCounter, CountByIdx), module-wide for composite literals and whole-struct stores; a constructor's single stores x.f = e through the fresh, non-escaping local x that holds its one allocation count as that allocation (same meaning as the literal T{f: e}); (5) CountByIdx adds GetWeightByIdx(i) to sum only on the edge already[i] == false and pairs it with already[i] = true for the same i; the counter starts with sum 0 and a fresh all-false slice; Count is CountByIdx(validators.GetIdx(v)); (6) HasQuorum normalises to sum >= quorum (returned directly, as constant results on the corresponding edges, or through a result variable each of whose values is justified by the edges around its assignment) and quorum is written once, from Quorum() of the very validator set stored in the counter. "+
			"Helpers: each clause about a function body is decided on the function as written or, if that leaves something open, on its inlined view (c11_view.go): a re-typechecked copy in which the statically dispatched calls of same-package functions other than the anchors named here, and the calls of local closures, are replaced by the callee's body (bounded depth); both are the same program. A function literal whose calls are not looked through and that writes the watched state fails the clause. In (4), a store through a parameter of a delegate (unexported, only ever called, never a function value or go target) or of a closure that cannot run outside its function is a store of its callers through their operand (c11_deleg.go). "+
			"Trusted elementary lemma: for integers 1 <= T <= K and Q = floor(2T/3)+1: (a) T >= Q, since floor(2T/3) <= T-1 for T >= 1; (b) S <= 2T/3 implies S <= floor(2T/3) < Q; (c) S1,S2 >= Q implies S1,S2 > 2T/3, so the shared weight S1+S2-T > 4T/3-T = T/3; by (5) the counter's sum is a sum of weights[i] over distinct i, hence <= T <= K and never wraps, and by (6) a quorum is reported exactly when sum >= Q. Together with (1)-(4) this is the statement for every non-empty set with total <= K. Not decided: nothing of the statement beyond the lemma; behaviour for an empty set (T = 0, Q = 1) and for Count of an unknown validator ID (GetIdx yields index 0) is outside the quantifier.",
		[]string{"the elementary lemma stated in the explanation", "Go unsigned integer arithmetic is modulo 2^n (language spec)", "sets are non-empty; Count is called with member IDs only"},
		runC11)
}

// ---------------------------------------------------------------------------
// shared helpers (c11 prefix; also used by c12.go)

// c11Chain walks an lvalue-like expression down to its root, looking through parentheses, index,
// slice and dereference, and lists the canonical field names crossed (outermost object first).
func c11Chain(f *core.FuncInfo, e ast.Expr) (root ast.Expr, fields []string) {
	for {
		e = ast.Unparen(e)
		switch x := e.(type) {
		case *ast.StarExpr:
			e = x.X
		case *ast.IndexExpr:
			e = x.X
		case *ast.SliceExpr:
			e = x.X
		case *ast.SelectorExpr:
			fn := fieldNameOf(f, x)
			if fn == "" {
				return e, fields
			}
			fields = append([]string{fn}, fields...)
			e = x.X
		default:
			return e, fields
		}
	}
}

// c11IsPath: e is exactly root.f1.f2... (pure selector chain) over the given variable.
func c11IsPath(f *core.FuncInfo, e ast.Expr, root *types.Var, fields ...string) bool {
	if root == nil {
		return false
	}
	r, path := fieldPath(f, e)
	if varOf(f, r) != root || len(path) != len(fields) {
		return false
	}
	for i := range path {
		if path[i] != fields[i] {
			return false
		}
	}
	return true
}

// c11Store is one store-like effect of a function's own body.
type c11Store struct {
	F      *core.FuncInfo
	Target ast.Expr
	Kind   string // assign | incdec | delete | append | copy | sort | addr
	Pos    token.Pos
}

// c11Stores enumerates everything in f's own body that can change memory reachable from an lvalue:
// assignments (not definitions of fresh locals), inc/dec, delete, append (first argument), copy (destination),
// sort.* (first argument) and address-of.
func c11Stores(f *core.FuncInfo) []c11Store {
	var out []c11Store
	for _, a := range assignments(f) {
		switch a.Stmt.(type) {
		case *ast.ValueSpec:
			continue
		}
		kind := "assign"
		if _, ok := a.Stmt.(*ast.IncDecStmt); ok {
			kind = "incdec"
		}
		if a.Tok == token.DEFINE {
			if _, isID := ast.Unparen(a.LHS).(*ast.Ident); isID {
				continue
			}
		}
		out = append(out, c11Store{f, a.LHS, kind, a.Stmt.Pos()})
	}
	for _, cs := range f.Calls() {
		if len(cs.Call.Args) == 0 {
			continue
		}
		switch {
		case cs.Name == "builtin.delete":
			out = append(out, c11Store{f, cs.Call.Args[0], "delete", cs.Pos()})
		case cs.Name == "builtin.append":
			out = append(out, c11Store{f, cs.Call.Args[0], "append", cs.Pos()})
		case cs.Name == "builtin.copy":
			out = append(out, c11Store{f, cs.Call.Args[0], "copy", cs.Pos()})
		case strings.HasPrefix(cs.Name, "sort."):
			out = append(out, c11Store{f, core.StripConv(f.Info(), cs.Call.Args[0]), "sort", cs.Pos()})
		}
	}
	f.InspectOwn(func(n ast.Node) bool {
		if u, ok := n.(*ast.UnaryExpr); ok && u.Op == token.AND {
			if _, isLit := ast.Unparen(u.X).(*ast.CompositeLit); !isLit {
				out = append(out, c11Store{f, u.X, "addr", u.Pos()})
			}
		}
		return true
	})
	return out
}

// c11NamedOf returns the canonical name "<relpkg>.<Type>" of a (pointer to a) named type, "" otherwise.
func c11NamedOf(t types.Type) string {
	if t == nil {
		return ""
	}
	if p, ok := t.(*types.Pointer); ok {
		t = p.Elem()
	}
	if n, ok := t.(*types.Named); ok && n.Obj().Pkg() != nil {
		return core.RelPkg(n.Obj().Pkg().Path()) + "." + n.Obj().Name()
	}
	return ""
}

var c11One = big.NewInt(1)

// c11Owner is one row of the frozen who-may-write table.
type c11Owner struct{ Func, What, Reason string }

var c11ValidatorOwners = []c11Owner{
	{c11Pkg + ".newValidators", "lit:" + c11V, "the only constructor: builds the object around a private copy of the values"},
	{c11Pkg + ".newValidators", c11FVCache, "cache = calcCaches() immediately after construction, before the object is published"},
	{c11V + ".calcCaches", "lit:" + c11Cache, "creates the fresh cache it fills"},
	{c11V + ".calcCaches", c11FIndexes, "fills its fresh local cache"},
	{c11V + ".calcCaches", c11FWeights, "fills its fresh local cache"},
	{c11V + ".calcCaches", c11FIDs, "fills its fresh local cache"},
	{c11V + ".calcCaches", c11FTotal, "accumulates the total of its fresh local cache"},
	{c11V + ".DecodeRLP", "whole:" + c11V, "replaces the receiver by a freshly built set"},
}

// c11MinValidatorWriters guards the writer enumeration against matching nothing. It is one less than the
// table: the row lit:cache has an equivalent spelling without a literal (var c cache; c.ids = ...), all
// other rows are found under every spelling (field stores of a constructor are attributed to lit:T).
var c11MinValidatorWriters = len(c11ValidatorOwners) - 1

var c11CounterOwners = []c11Owner{
	{c11Pkg + ".newWeightCounter", "lit:" + c11WC, "the only constructor of a counter"},
	{c11WC + ".CountByIdx", c11WC + ".sum", "adds a validator's weight when first counted"},
	{c11WC + ".CountByIdx", c11WC + ".already", "marks the validator as counted"},
}

// c11Writers enumerates, over the whole module, every function that writes a watched field (through any
// chain of selectors/indexing), builds a composite literal of a watched struct type, or overwrites a whole
// value of a watched struct type through a pointer or field, and compares with the owner table.
// It emits one obligation per (function, what) and returns the number of writers found.
func c11Writers(c *core.Ctx, watchedFields []string, watchedTypes []string, owners []c11Owner) int {
	p := c.P
	isWF := map[string]bool{}
	for _, w := range watchedFields {
		c.Fld(w)
		isWF[w] = true
	}
	isWT := map[string]bool{}
	for _, t := range watchedTypes {
		c.Need(p.LookupType(t) != nil, "type "+t)
		isWT[t] = true
	}
	own := map[string]string{}
	for _, o := range owners {
		own[o.Func+"|"+o.What] = o.Reason
	}
	type hit struct {
		fn   *core.FuncInfo
		what string
		pos  token.Pos
		kind string
	}
	found := map[string]hit{}
	var order []string
	add := func(f *core.FuncInfo, what, kind string, pos token.Pos) {
		// literals are attributed to themselves: a closure is not its parent
		k := f.Name + "|" + what
		if _, ok := found[k]; !ok {
			found[k] = hit{f, what, pos, kind}
			order = append(order, k)
		}
	}
	chain0 := func(ch []string) string {
		if len(ch) == 0 {
			return ""
		}
		return ch[0]
	}
	deleg := c11DelegOf(p)
	for _, f := range p.Funcs() {
		objs := map[string]*c11Object{}
		constructed := func(tn string) *c11Object {
			if o, ok := objs[tn]; ok {
				return o
			}
			o := c11Constructed(f, tn)
			objs[tn] = o
			return o
		}
		for _, st := range c11Stores(f) {
			root, chain := c11Chain(f, st.Target)
			// a store through a parameter of a delegate (a private helper that is only ever called) is a
			// store of its callers through their operand
			ownStore := false
			for _, fld := range chain {
				if _, listed := own[f.Name+"|"+fld]; listed && isWF[fld] {
					ownStore = true // f is itself a listed owner of the field: the store is its own
				}
			}
			if attrs := deleg.attributed(f, varOf(f, root), c11DelegDepth); !ownStore && (len(attrs) != 1 || attrs[0].F != f) {
				for _, at := range attrs {
					via := st.Kind + " through " + short(f.Name)
					viaWatched := false
					for _, fld := range append(append([]string(nil), at.Prefix...), chain...) {
						if isWF[fld] {
							add(at.F, fld, via, st.Pos)
							viaWatched = true
						}
					}
					if st.Kind == "assign" && !viaWatched {
						if tv, ok := f.Info().Types[st.Target]; ok {
							if _, isPtr := tv.Type.(*types.Pointer); !isPtr && isWT[c11NamedOf(tv.Type)] {
								if _, plain := ast.Unparen(st.Target).(*ast.Ident); !plain {
									add(at.F, "whole:"+c11NamedOf(tv.Type), via, st.Pos)
								}
							}
						}
					}
				}
				continue
			}
			// construction: a constructor that fills its one object field by field through the fresh local
			// holding it (x := &T{}; x.a = ...) does what the literal T{a: ...} does; such a store is
			// attributed to the allocation ("lit:T"), whichever spelling is used
			if _, listed := own[f.Name+"|"+chain0(chain)]; st.Kind == "assign" && len(chain) == 1 && isWF[chain[0]] && !listed {
				if i := strings.LastIndex(chain[0], "."); i > 0 && isWT[chain[0][:i]] {
					if o := constructed(chain[0][:i]); o != nil && o.Var != nil && varOf(f, root) == o.Var && o.Stores[ast.Unparen(st.Target)] {
						add(f, "lit:"+chain[0][:i], "construction", st.Pos)
						continue
					}
				}
			}
			viaWatched := false
			for _, fld := range chain {
				if isWF[fld] {
					add(f, fld, st.Kind, st.Pos)
					viaWatched = true
				}
			}
			// whole-value store of a watched struct type through something that is neither a plain local
			// variable nor a watched field (the latter is already reported as a write of that field)
			if st.Kind == "assign" && !viaWatched {
				if tv, ok := f.Info().Types[st.Target]; ok {
					if _, isPtr := tv.Type.(*types.Pointer); !isPtr && isWT[c11NamedOf(tv.Type)] {
						if _, plain := ast.Unparen(st.Target).(*ast.Ident); plain {
							continue
						}
						// a by-value field of an object that is still under construction in f (a fresh local
						// that only leaves f by being returned) is that object's own memory
						if sel, isSel := ast.Unparen(st.Target).(*ast.SelectorExpr); isSel && len(chain) == 1 && c11FreshLocal(f, varOf(f, sel.X)) {
							continue
						}
						add(f, "whole:"+c11NamedOf(tv.Type), st.Kind, st.Pos)
					}
				}
			}
		}
		f.InspectOwn(func(n ast.Node) bool {
			if lit, ok := n.(*ast.CompositeLit); ok {
				if tv, ok := f.Info().Types[lit]; ok {
					if _, isPtr := tv.Type.(*types.Pointer); !isPtr && isWT[c11NamedOf(tv.Type)] {
						// an allocation made by a delegate is made on behalf of its callers (unless the
						// delegate is itself the listed owner of the allocation)
						rs := []*core.FuncInfo{f}
						if _, listed := own[f.Name+"|lit:"+c11NamedOf(tv.Type)]; !listed {
							rs = deleg.roots(f, c11DelegDepth)
						}
						for _, r := range rs {
							kind := "literal"
							if r != f {
								kind = "literal in " + short(f.Name)
							}
							add(r, "lit:"+c11NamedOf(tv.Type), kind, lit.Pos())
						}
					}
				}
			}
			return true
		})
	}
	sort.Strings(order)
	for _, k := range order {
		h := found[k]
		reason, ok := own[k]
		what := h.what
		if i := strings.Index(what, ":"); i >= 0 {
			what = what[:i+1] + short(what[i+1:])
		} else {
			what = short(what)
		}
		c.Check(ok, short(h.fn.Name)+" writes "+what, "T6 WhoMayWrite", h.pos,
			"owner: "+reason,
			fmt.Sprintf("%s (%s) writes %s but is not an owner: the read-only validator set / the counter's bookkeeping can change after construction, so cached total, quorum and order no longer describe the contents", h.fn.Name, h.kind, h.what))
	}
	return len(order)
}

// c11BoolFact reads a fact about a boolean expression: the expression and the value it is known to have.
func c11BoolFact(info *types.Info, ft core.Fact) (ast.Expr, bool, bool) {
	cm, ok := core.NormCmp(ft)
	if !ok {
		return nil, false, false
	}
	if cm.R == nil {
		if _, isBin := cm.L.(*ast.BinaryExpr); isBin {
			return nil, false, false
		}
		return cm.L, cm.Op == token.EQL, true
	}
	if cm.Op != token.EQL && cm.Op != token.NEQ {
		return nil, false, false
	}
	bc := func(e ast.Expr) (bool, bool) {
		v, ok := core.ConstVal(info, e)
		if !ok || v.Kind() != constant.Bool {
			return false, false
		}
		return constant.BoolVal(v), true
	}
	lv, lok := bc(cm.L)
	rv, rok := bc(cm.R)
	switch {
	case rok && !lok:
		return cm.L, (cm.Op == token.EQL) == rv, true
	case lok && !rok:
		return cm.R, (cm.Op == token.EQL) == lv, true
	}
	return nil, false, false
}

// c11SameExpr: structural equality of two side-effect-free expressions, identifiers compared by object.
func c11SameExpr(f *core.FuncInfo, a, b ast.Expr) bool {
	a, b = ast.Unparen(a), ast.Unparen(b)
	switch x := a.(type) {
	case *ast.Ident:
		y, ok := b.(*ast.Ident)
		return ok && f.Info().ObjectOf(x) != nil && f.Info().ObjectOf(x) == f.Info().ObjectOf(y)
	case *ast.SelectorExpr:
		y, ok := b.(*ast.SelectorExpr)
		return ok && f.ObjOf(x) != nil && f.ObjOf(x) == f.ObjOf(y) && c11SameExpr(f, x.X, y.X)
	case *ast.IndexExpr:
		y, ok := b.(*ast.IndexExpr)
		return ok && c11SameExpr(f, x.X, y.X) && c11SameExpr(f, x.Index, y.Index)
	case *ast.StarExpr:
		y, ok := b.(*ast.StarExpr)
		return ok && c11SameExpr(f, x.X, y.X)
	case *ast.BasicLit:
		y, ok := b.(*ast.BasicLit)
		return ok && x.Kind == y.Kind && x.Value == y.Value
	}
	return false
}

// c11UnsignedMax returns 2^(8*size)-1 for an unsigned integer type (ok=false otherwise).
func c11UnsignedMax(sizes types.Sizes, t types.Type) (constant.Value, int64, bool) {
	b, ok := t.Underlying().(*types.Basic)
	if !ok || b.Info()&types.IsUnsigned == 0 || sizes == nil {
		return nil, 0, false
	}
	sz := sizes.Sizeof(b)
	one := constant.MakeInt64(1)
	return constant.BinaryOp(constant.Shift(one, token.SHL, uint(8*sz)), token.SUB, one), sz, true
}

// c11StripWide removes parentheses and conversions to unsigned integer types of at least minSize bytes
// (a widening or same-width conversion cannot change a value that fits the narrower type).
func c11StripWide(f *core.FuncInfo, sizes types.Sizes, e ast.Expr, minSize int64) ast.Expr {
	for {
		e = ast.Unparen(e)
		call, ok := e.(*ast.CallExpr)
		if !ok || len(call.Args) != 1 {
			return e
		}
		tv, ok := f.Info().Types[call.Fun]
		if !ok || !tv.IsType() {
			return e
		}
		if _, sz, ok := c11UnsignedMax(sizes, tv.Type); !ok || sz < minSize {
			return e
		}
		e = call.Args[0]
	}
}

// c11Addend: for "L += x", "L = L + x" or "L = x + L" (L recognised by isL) returns x; nil otherwise.
func c11Addend(a assignment, isL func(ast.Expr) bool) ast.Expr {
	switch {
	case a.Tok == token.ADD_ASSIGN:
		return a.RHS
	case a.Tok == token.ASSIGN && a.RHS != nil:
		if be, ok := ast.Unparen(a.RHS).(*ast.BinaryExpr); ok && be.Op == token.ADD {
			if isL(be.X) {
				return be.Y
			} else if isL(be.Y) {
				return be.X
			}
		}
	}
	return nil
}

// c11SingleDef returns the unique defining expression of a local variable (nil if it is assigned
// more than once, by a multi-value form, or is a parameter).
func c11SingleDef(f *core.FuncInfo, v *types.Var) ast.Expr {
	if v == nil {
		return nil
	}
	as := assignsToVar(f, v)
	if len(as) != 1 || as[0].RHS == nil {
		return nil
	}
	switch as[0].Tok {
	case token.DEFINE, token.ASSIGN:
	default:
		return nil
	}
	if st, ok := as[0].Stmt.(*ast.AssignStmt); ok && len(st.Lhs) != len(st.Rhs) {
		return nil
	}
	if _, ok := as[0].Stmt.(*ast.RangeStmt); ok {
		return nil
	}
	return as[0].RHS
}

// c11Iter is the spelling-independent view of "for every element of a collection" used by C11 and C12:
// a range loop, or a loop counted from 0 in steps of 1 up to len(C), with single-definition locals
// looked through (xs := C; n := len(xs); for i := 0; i < n; i++ { v := xs[i] ... }). The index and value
// variables are bound by the loop header only, so the index is distinct in every iteration and an element
// expression denotes the element of the current iteration.
type c11Iter struct {
	*core.Iteration
	f *core.FuncInfo
}

func c11Resolver(f *core.FuncInfo) func(ast.Expr) ast.Expr {
	return func(e ast.Expr) ast.Expr { return resolveLocal(f, e) }
}

// c11HeaderBound: every assignment of v in f (nested literals included) belongs to the loop header
// (the range clause, or the init/post clause of a counted loop).
func c11HeaderBound(f *core.FuncInfo, loop ast.Stmt, v *types.Var) bool {
	if v == nil {
		return true
	}
	for _, a := range assignsToVar(f, v) {
		switch s := loop.(type) {
		case *ast.RangeStmt:
			if a.Stmt != ast.Node(s) {
				return false
			}
		case *ast.ForStmt:
			if (s.Init == nil || a.Stmt != ast.Node(s.Init)) && (s.Post == nil || a.Stmt != ast.Node(s.Post)) {
				return false
			}
		default:
			return false
		}
	}
	for _, l := range allLits(f) {
		if len(assignsToVar(l, v)) > 0 {
			return false
		}
	}
	return true
}

// c11Iterations lists the loops of f's own body that are iterations starting at the first element whose
// collection (nil for a counted loop whose bound is not len of something) satisfies pred.
func c11Iterations(f *core.FuncInfo, pred func(coll ast.Expr) bool) []*c11Iter {
	var out []*c11Iter
	f.InspectOwn(func(n ast.Node) bool {
		var loop ast.Stmt
		switch s := n.(type) {
		case *ast.RangeStmt:
			loop = s
		case *ast.ForStmt:
			loop = s
		default:
			return true
		}
		it, ok := core.IterationOf(f, loop, c11Resolver(f))
		if !ok || !it.FromZero || !pred(it.Coll) {
			return true
		}
		if !c11HeaderBound(f, loop, it.Index) || !c11HeaderBound(f, loop, it.Value) {
			return true
		}
		out = append(out, &c11Iter{it, f})
		return true
	})
	return out
}

// c11IterationAt returns the innermost loop statement around pos as an iteration (nil if that loop is not one).
func c11IterationAt(f *core.FuncInfo, pos token.Pos) *c11Iter {
	loop := enclosingLoop(f, pos)
	if loop == nil {
		return nil
	}
	for _, it := range c11Iterations(f, func(ast.Expr) bool { return true }) {
		if it.Stmt == loop {
			return it
		}
	}
	return nil
}

// isIndex: e is the iteration's index variable (through conversions and single-definition locals).
func (it *c11Iter) isIndex(e ast.Expr) bool {
	if it.Index == nil || e == nil {
		return false
	}
	e = resolveLocal(it.f, e)
	for i := 0; i < 4; i++ {
		s := core.StripConv(it.f.Info(), e)
		if s == e {
			break
		}
		e = resolveLocal(it.f, s)
	}
	return varOf(it.f, e) == it.Index
}

// isElem: e denotes the element of the current iteration: the range value variable, C[i] for the
// iteration's collection and index, or a local declared inside the loop body by its single definition
// `v := C[i]` (declared where it is defined, so every use follows the definition in the same iteration).
func (it *c11Iter) isElem(e ast.Expr) bool {
	if e == nil {
		return false
	}
	e = ast.Unparen(e)
	if v := varOf(it.f, e); v != nil && v != it.Value {
		d := singleDef(it.f, v)
		if d == nil || it.Body == nil || !(it.Body.Pos() <= v.Pos() && v.Pos() < it.Body.End()) {
			return false
		}
		declaredAtDef := false
		for _, a := range assignsToVar(it.f, v) {
			if a.RHS == d && a.LHS.Pos() == v.Pos() {
				declaredAtDef = true
			}
		}
		if !declaredAtDef {
			return false
		}
		return it.isElem(d)
	}
	if ix, isIx := e.(*ast.IndexExpr); isIx {
		if it.Coll == nil {
			return false
		}
		// a local slice whose elements are stored in this function does not denote a fixed collection
		if v := varOf(it.f, ix.X); v != nil && c11StoredThrough(it.f, v, it.Body) {
			return false
		}
	}
	return it.IsElem(e, c11Resolver(it.f))
}

// c11StoredThrough: some store-like effect inside the given block of f (or anywhere in one of f's function
// literals) has a target reached through v (v[i] = ..., v.f = ..., *v = ..., append/copy/sort on v, &v ...),
// or rebinds v itself.
func c11StoredThrough(f *core.FuncInfo, v *types.Var, within *ast.BlockStmt) bool {
	for _, g := range append([]*core.FuncInfo{f}, allLits(f)...) {
		for _, st := range c11Stores(g) {
			if g == f && within != nil && !(within.Pos() <= st.Pos && st.Pos < within.End()) {
				continue
			}
			root, _ := c11Chain(g, st.Target)
			if varOf(g, root) == v {
				return true
			}
		}
	}
	return false
}

// isElemField: e is <element>.<field> (e itself may be a single-definition local holding that value).
func (it *c11Iter) isElemField(e ast.Expr, field string) bool {
	if e == nil {
		return false
	}
	sel, ok := ast.Unparen(resolveLocal(it.f, e)).(*ast.SelectorExpr)
	if !ok || fieldNameOf(it.f, sel) != field {
		return false
	}
	return it.isElem(sel.X)
}

// everyIteration: the loop runs to completion (left only through its head, no return inside) and every
// path through its body passes one of pts.
func (it *c11Iter) everyIteration(pts []core.Point) bool {
	if !it.Complete || len(pts) == 0 || !c12NoReturnInside(it.f, it.Stmt) {
		return false
	}
	ok, _ := it.EveryIterationPasses(pts, false)
	return ok
}

// c11LimitInfo is what the bound clause learns from calcCaches and hands to T15 (and to C12).
type c11LimitInfo struct {
	K  constant.Value // the constant of the guard total <= K (nil if not found)
	ok bool
}

// c11FindLimit locates the guard "total <= K" in calcCaches: V is the returned cache variable.
func c11FindLimit(calc *core.FuncInfo) (V *types.Var, K constant.Value, match func(core.Fact) bool, why string) {
	rps := calc.ReturnPoints()
	if len(rps) == 0 {
		return nil, nil, nil, "calcCaches has no return statement"
	}
	for _, rp := range rps {
		r := rp.Node().(*ast.ReturnStmt)
		if len(r.Results) != 1 {
			return nil, nil, nil, "calcCaches returns through named results"
		}
		v := varOf(calc, r.Results[0])
		if v == nil || (V != nil && v != V) {
			return nil, nil, nil, "calcCaches does not return one local cache variable"
		}
		V = v
	}
	namer := c11TotalNamer(calc, V)
	var ks []constant.Value
	for _, b := range calc.CFG().Blocks {
		if !b.Live || calc.BranchCond(b) == nil {
			continue
		}
		for s := 0; s < 2; s++ {
			for _, ft := range calc.EdgeFacts(b, s) {
				if k, ok := c11UpperBoundOfTotal(calc, ft, namer); ok {
					dup := false
					for _, o := range ks {
						if constant.Compare(o, token.EQL, k) {
							dup = true
						}
					}
					if !dup {
						ks = append(ks, k)
					}
				}
			}
		}
	}
	if len(ks) != 1 {
		return V, nil, nil, fmt.Sprintf("found %d distinct constant upper bounds on the returned total, expected one", len(ks))
	}
	K = ks[0]
	match = func(ft core.Fact) bool {
		k, ok := c11UpperBoundOfTotal(calc, ft, namer)
		return ok && constant.Compare(k, token.EQL, K)
	}
	return V, K, match, ""
}

func c11TotalNamer(calc *core.FuncInfo, V *types.Var) core.AtomNamer {
	return func(e ast.Expr) string {
		if c11IsPath(calc, e, V, c11FTotal) {
			return "total"
		}
		return ""
	}
}

// c11UpperBoundOfTotal: the fact is "total <= k" for a constant k (any arithmetic rewriting).
func c11UpperBoundOfTotal(calc *core.FuncInfo, ft core.Fact, namer core.AtomNamer) (constant.Value, bool) {
	lc, ok := core.NormLinCmp(calc.Info(), ft, namer)
	if !ok || lc.Op != "<=" || len(lc.Form.Coef) != 1 {
		return nil, false
	}
	co, ok := lc.Form.Coef["total"]
	if !ok || co.Cmp(c11One) != 0 {
		return nil, false
	}
	// total + C <= 0  <=>  total <= -C
	k := constant.Make(lc.Form.C)
	return constant.UnaryOp(token.SUB, k, 0), true
}

// ---------------------------------------------------------------------------

func runC11(c *core.Ctx) {
	p := c.P
	pk := p.Pkg(c11Pkg)
	var sizes types.Sizes
	if pk != nil {
		sizes = pk.TypesSizes
	}
	var (
		mulType types.Type     // type in which T*2 is evaluated (from clause quorum)
		limitK  constant.Value // K of calcCaches (from clause bound)
	)
	weightSize := func() int64 {
		tn := p.LookupType(c11Pkg + ".Weight")
		if tn == nil {
			return 0
		}
		_, sz, _ := c11UnsignedMax(sizes, tn.Type())
		return sz
	}

	// (1) ---------------------------------------------------------------
	c11Clause(c, "C11.quorum", func(c *core.Ctx) {
		q := c11Fn(c, c11V+".Quorum")
		tw := c11Fn(c, c11V+".TotalWeight")
		c.Need(sizes != nil && weightSize() > 0, "Weight is an unsigned integer type with known size")
		okTW := len(tw.ReturnPoints()) > 0
		for _, rp := range tw.ReturnPoints() {
			r := rp.Node().(*ast.ReturnStmt)
			if len(r.Results) != 1 || !c11IsPath(tw, r.Results[0], tw.Recv(), c11FVCache, c11FTotal) {
				okTW = false
			}
		}
		c.Check(okTW, "TotalWeight is cache.totalWeight", "provenance", tw.Pos(),
			"every return of TotalWeight yields the receiver's cache.totalWeight", "TotalWeight does not return the cached total: the quorum is computed over something other than the checked sum of weights")

		isTotal := func(e ast.Expr) bool { return false }
		isTotal = func(e ast.Expr) bool {
			e = c11StripWide(q, sizes, e, weightSize())
			if call := isCallTo(q, e, c11V+".TotalWeight"); call != nil {
				if sel, ok := ast.Unparen(call.Fun).(*ast.SelectorExpr); ok && varOf(q, sel.X) == q.Recv() && q.Recv() != nil {
					return true
				}
				return false
			}
			if c11IsPath(q, e, q.Recv(), c11FVCache, c11FTotal) {
				return true
			}
			if v := varOf(q, e); v != nil && v != q.Recv() {
				if d := c11SingleDef(q, v); d != nil {
					return isTotal(d)
				}
			}
			return false
		}
		rps := q.ReturnPoints()
		c.Need(len(rps) > 0, "Quorum has a return statement")
		for _, rp := range rps {
			r := rp.Node().(*ast.ReturnStmt)
			c.Need(len(r.Results) == 1, "Quorum returns one expression")
			ok, mul, why := c11QuorumShape(q, sizes, r.Results[0], isTotal, weightSize())
			if ok {
				if tv, k := q.Info().Types[mul]; k {
					mulType = tv.Type
				}
				c.Pass("Quorum = floor(T*2/3)+1", "normalised AST shape", "the result is ((T*2)/3)+1 with T the cached total: multiplication by 2, then integer division by 3, then +1")
				continue
			}
			cex := c11QuorumCounterexample(q, sizes, r.Results[0], isTotal, weightSize())
			switch {
			case cex != "":
				c.Fail("Quorum = floor(T*2/3)+1", "normalised AST shape", r.Pos(), why+"; "+cex+": a subset at or below two thirds can reach the quorum, or the whole set cannot, or two quorums need not share more than a third")
			default:
				c.Undecided("Quorum = floor(T*2/3)+1", "normalised AST shape", r.Pos(), why+" (shape not recognised as ((T*2)/3)+1)")
			}
		}
	})

	// (2) ---------------------------------------------------------------
	c11Clause(c, "C11.bound", func(c *core.Ctx) {
		calc := c11Fn(c, c11V+".calcCaches")
		V, K, match, why := c11FindLimit(calc)
		if K == nil {
			if V != nil && strings.HasPrefix(why, "found 0 ") {
				c.Fail("calcCaches returns only with total <= K", "T4 GuardedBy", calc.Pos(), "calcCaches compares the returned total with no constant upper bound: a set with any total up to max(Weight) can be built and T*2 in Quorum wraps for totals above max/2")
				return
			}
			c.Undecided("calcCaches returns only with total <= K", "T4 GuardedBy", calc.Pos(), why)
			return
		}
		limitK = K
		if pos, hit := c11LitEffect(calc, map[string]bool{c11FTotal: true}, map[*types.Var]bool{V: true}, false); hit {
			c.Fail("no effect hidden in a function literal", "T6 (closures)", pos, "a function literal of calcCaches that is not looked through writes the cache total: the bound and wrap checks of the body do not cover that write")
		}
		isTotalLHS := func(a assignment) bool { return c11IsPath(calc, a.LHS, V, c11FTotal) }
		// every return is reached only through the edge total <= K ...
		okAll := true
		for _, rp := range calc.ReturnPoints() {
			ok, wit := calc.GuardedBy(rp, match)
			if !ok {
				okAll = false
				c.Fail("calcCaches returns only with total <= K", "T4 GuardedBy", posOf(rp), "a validator set whose total exceeds "+K.ExactString()+" can be built: T*2 in Quorum may then wrap; path without the bound check "+calc.DescribePath(wit))
			}
		}
		// ... taken after the last write of the total (or of the whole cache variable)
		var writes []assignment
		for _, a := range assignments(calc) {
			if isTotalLHS(a) || varOf(calc, a.LHS) == V {
				writes = append(writes, a)
			}
		}
		for _, w := range writes {
			for _, rp := range calc.ReturnPoints() {
				if ok, wit := calc.GuardedBetween(w.Pt, rp, match); !ok {
					okAll = false
					c.Fail("calcCaches returns only with total <= K", "T4 GuardedBy", w.Stmt.Pos(), "the total is written after the bound check: the returned total is unchecked on path "+calc.DescribePath(wit))
				}
			}
		}
		if okAll {
			c.Pass("calcCaches returns only with total <= K", "T4 GuardedBy", fmt.Sprintf("every returning path takes the edge totalWeight <= %s after the last write of the total (violations panic)", K.ExactString()))
		}

		// running-sum wrap check
		nAcc := 0
		for _, w := range writes {
			if !isTotalLHS(w) {
				continue
			}
			// total += x, total = total + x, or the sum formed in a local from the total (or a snapshot of
			// it) and then stored: one accumulation, whichever way it is spelled (c11_acc.go)
			acc := c11AccOf(calc, w, func(e ast.Expr) bool { return c11IsPath(calc, e, V, c11FTotal) }, writes)
			if _, isInc := w.Stmt.(*ast.IncDecStmt); isInc && acc == nil {
				acc = &c11Acc{W: w}
			}
			if acc == nil {
				if w.Tok != token.DEFINE {
					c.Undecided("total is only accumulated", "T7", w.Stmt.Pos(), "the total is overwritten by a form other than total += w")
				}
				continue
			}
			nAcc++
			c11CheckWrap(c, calc, V, acc, writes)
		}
		c.ExpectAtLeast("accumulations into totalWeight", nAcc, 1)
	})

	// (2b) the summands are the cached weights ---------------------------
	c11Clause(c, "C11.summands", func(c *core.Ctx) {
		calc := c11Fn(c, c11V+".calcCaches")
		V, _, _, _ := c11FindLimit(calc)
		c.Need(V != nil, "calcCaches returns one local cache variable")
		if pos, hit := c11LitEffect(calc, map[string]bool{c11FTotal: true, c11FWeights: true}, map[*types.Var]bool{V: true}, false); hit {
			c.Fail("no effect hidden in a function literal", "T6 (closures)", pos, "a function literal of calcCaches that is not looked through writes the cached weights or the total: the sum need not be the sum of the cached weights")
		}
		var acc, wst []assignment
		var accs []*c11Acc
		isTot := func(e ast.Expr) bool { return c11IsPath(calc, e, V, c11FTotal) }
		var totWrites []assignment
		for _, a := range assignments(calc) {
			if isTot(a.LHS) || varOf(calc, a.LHS) == V {
				totWrites = append(totWrites, a)
			}
		}
		for _, a := range assignments(calc) {
			if isTot(a.LHS) {
				// the accumulation may be spelled total += x or as a sum formed in a local and then stored
				if ac := c11AccOf(calc, a, isTot, totWrites); ac != nil {
					acc = append(acc, a)
					accs = append(accs, ac)
				}
			}
			if ix, ok := ast.Unparen(a.LHS).(*ast.IndexExpr); ok && c11IsPath(calc, ix.X, V, c11FWeights) {
				wst = append(wst, a)
			}
		}
		c.Need(len(acc) == 1 && len(wst) == 1, "one total += and one weights[i] = in calcCaches")
		a, w := acc[0], wst[0]
		accAddend := accs[0].Addend
		// the loop may be written as a range or as a counted loop: what matters is that its index takes
		// each value once (bound by the loop header only, stepping by one)
		it := c11IterationAt(calc, a.Stmt.Pos())
		if it != nil && it.Stmt != enclosingLoop(calc, w.Stmt.Pos()) && it.Coll != nil && c11IsPath(calc, it.Coll, V, c11FWeights) {
			// split form: the weights are stored by one loop and summed by a later, complete pass over the
			// cached weights themselves (for _, x := range cache.weights { total += x }). The total is then
			// the sum of weights[j] over all j whatever the first loop stored, provided nothing is stored
			// into the weights once the pass has begun.
			elem := it.isElem(accAddend)
			every := it.everyIteration([]core.Point{a.Pt})
			noLate := true
			for _, st := range c11Stores(calc) {
				root, chain := c11Chain(calc, st.Target)
				if varOf(calc, root) != V {
					continue
				}
				touches := len(chain) == 0
				for _, fld := range chain {
					if fld == c11FWeights {
						touches = true
					}
				}
				if pt, ok := calc.PointOf(st.Target); touches && (!ok || calc.CanReach(a.Pt, pt)) {
					noLate = false
				}
			}
			c.Check(elem && every && noLate, "total is the sum of weights[i]", "T7 Pairing", a.Stmt.Pos(),
				"a complete pass over the cached weights adds every weights[j] to the total, and nothing is stored into the weights after it has begun",
				"the pass that sums the cached weights skips elements, adds something else, or the weights are changed after they were summed: a counter summing weights[i] over distinct i may then exceed the total")
			c11CheckGetWeight(c)
			return
		}
		c.Need(it != nil && it.Stmt == enclosingLoop(calc, w.Stmt.Pos()), "both statements are in the same loop whose index is advanced by the loop header only")
		ix := ast.Unparen(w.LHS).(*ast.IndexExpr)
		keyOK := it.isIndex(ix.Index)
		addend := accAddend
		same := w.RHS != nil && w.Tok == token.ASSIGN &&
			(c11SameExpr(calc, w.RHS, addend) || c11SameExpr(calc, resolveLocal(calc, w.RHS), resolveLocal(calc, addend)))
		if !same && w.RHS != nil && w.Tok == token.ASSIGN {
			// the same field of the element of the current iteration, however the element is spelled
			// (range value, C[i], a local holding C[i])
			sa, okA := ast.Unparen(resolveLocal(calc, w.RHS)).(*ast.SelectorExpr)
			sb, okB := ast.Unparen(resolveLocal(calc, addend)).(*ast.SelectorExpr)
			if okA && okB {
				if fn := fieldNameOf(calc, sa); fn != "" && fn == fieldNameOf(calc, sb) {
					same = it.isElem(sa.X) && it.isElem(sb.X)
				}
			}
		}
		if !same && w.RHS != nil && w.Tok == token.ASSIGN {
			// total += weights[i] after weights[i] = x in the same iteration
			if ax, ok := ast.Unparen(resolveLocal(calc, addend)).(*ast.IndexExpr); ok && c11IsPath(calc, ax.X, V, c11FWeights) && it.isIndex(ax.Index) {
				same, _ = precedesLocally(calc, []core.Point{w.Pt}, a.Pt)
			}
		}
		paired, _ := pairedWith(calc, a.Pt, []core.Point{w.Pt})
		paired2, _ := pairedWith(calc, w.Pt, []core.Point{a.Pt})
		c.Check(keyOK && same && paired && paired2, "total is the sum of weights[i]", "T7 Pairing", a.Stmt.Pos(),
			"in every iteration the value added to the total is the value stored at weights[i], i the loop index (distinct per iteration)",
			"the accumulated value and the stored weights[i] differ, or one of them can be skipped: a counter summing weights[i] over distinct i may then exceed the total (a subset could exceed the whole set, sum may wrap)")
		c11CheckGetWeight(c)
	})

	// (3) ---------------------------------------------------------------
	c11Clause(c, "C11.const", func(c *core.Ctx) {
		tn := c.P.LookupType(c11Pkg + ".Weight")
		c.Need(tn != nil && sizes != nil, "type Weight and the target's type sizes")
		maxW, sz, uns := c11UnsignedMax(sizes, tn.Type())
		c.Check(uns, "Weight is unsigned", "T15 ConstRelation", tn.Pos(), fmt.Sprintf("Weight's underlying type is an unsigned %d-bit integer (wrap detection by result < operand is exact)", 8*sz),
			"Weight is not an unsigned integer: the wrap check and the quorum arithmetic have different overflow behaviour")
		if !uns {
			return
		}
		if limitK == nil {
			c.Undecided("2*K <= max", "T15 ConstRelation", tn.Pos(), "the limit K of calcCaches was not found")
			return
		}
		maxMul := maxW
		mt := "Weight"
		if mulType != nil {
			if m, _, ok := c11UnsignedMax(sizes, mulType); ok {
				maxMul, mt = m, mulType.String()
			} else {
				c.Fail("2*K <= max", "T15 ConstRelation", tn.Pos(), "T*2 is evaluated in a type that is not an unsigned integer: "+mulType.String())
				return
			}
		}
		two, three, one := constant.MakeInt64(2), constant.MakeInt64(3), constant.MakeInt64(1)
		twoK := constant.BinaryOp(limitK, token.MUL, two)
		c.Check(constant.Compare(twoK, token.LEQ, maxMul), "2*K <= max", "T15 ConstRelation", tn.Pos(),
			fmt.Sprintf("2*%s = %s <= %s = max(%s): T*2 cannot overflow for any admitted total", limitK.ExactString(), twoK.ExactString(), maxMul.ExactString(), mt),
			fmt.Sprintf("2*K = %s exceeds max(%s) = %s: for totals above %s the product T*2 wraps and the quorum is far too small (e.g. T = K gives Q = floor((2K mod 2^n)/3)+1)", twoK.ExactString(), mt, maxMul.ExactString(), constant.BinaryOp(maxMul, token.QUO_ASSIGN, two).ExactString()))
		qK := constant.BinaryOp(constant.BinaryOp(twoK, token.QUO_ASSIGN, three), token.ADD, one)
		c.Check(constant.Compare(qK, token.LEQ, maxW), "floor(2K/3)+1 <= max(Weight)", "T15 ConstRelation", tn.Pos(),
			fmt.Sprintf("the largest quorum %s fits Weight (max %s)", qK.ExactString(), maxW.ExactString()),
			fmt.Sprintf("the largest quorum %s does not fit Weight (max %s)", qK.ExactString(), maxW.ExactString()))
		c.Check(constant.Compare(limitK, token.GEQ, one), "K >= 1", "T15 ConstRelation", tn.Pos(), "the limit admits non-empty sets", "the limit admits no non-empty set")
		c.Note("C11: limit K = %s read from calcCaches; Weight is %d bits; T*2 evaluated in %s", limitK.ExactString(), 8*sz, mt)
	})

	// (4) ---------------------------------------------------------------
	c.Clause("C11.writers", func() {
		n := c11Writers(c,
			[]string{c11FVValues, c11FVCache, c11FIndexes, c11FWeights, c11FIDs, c11FTotal},
			[]string{c11V, c11Cache}, c11ValidatorOwnersOf(c.P))
		c.ExpectAtLeast("writers of Validators/cache state", n, c11MinValidatorWriters)
	})
	c11Clause(c, "C11.writers", func(c *core.Ctx) {
		// newValidators: cache is assigned from calcCaches() of the object under construction
		nv := c11Fn(c, c11Pkg+".newValidators")
		// (x.cache = x.calcCaches() before every return of x, or the same fact under any spelling of the
		// construction and of calcCaches: c11_anchor.go)
		okC, _ := c12CacheBound(nv)
		c.Check(okC, "newValidators sets cache = calcCaches()", "T2 Dominates", nv.Pos(),
			"the returned object's cache is calcCaches() of that same object on every path", "a Validators object can be returned whose cache was not computed (and bound-checked) from its own values")
	})

	// (5) ---------------------------------------------------------------
	c.Clause("C11.counter", func() {
		n := c11Writers(c,
			[]string{c11WC + ".sum", c11WC + ".already", c11WC + ".quorum", c11WC + ".validators"},
			[]string{c11WC}, c11CounterOwners)
		c.ExpectAtLeast("writers of WeightCounter state", n, len(c11CounterOwners))
		// the private slice does not leak: only CountByIdx (and code that runs only as a part of it: a
		// delegate reaching the slice through the operand CountByIdx passes) mentions the field
		f := c.Fn(c11WC + ".CountByIdx")
		ctor := c.Fn(c11Pkg + ".newWeightCounter")
		obj := c11Constructed(ctor, c11WC)
		c.Need(obj != nil, "newWeightCounter builds one WeightCounter whose fields are each initialised once (literal or stores through the fresh local)")
		deleg := c11DelegOf(p)
		for _, g := range p.Funcs() {
			if g.Pkg.PkgPath != f.Pkg.PkgPath || g == f {
				continue
			}
			leak := false
			g.InspectOwn(func(n ast.Node) bool {
				if sel, ok := n.(*ast.SelectorExpr); ok && fieldNameOf(g, sel) == c11WC+".already" {
					// the constructor's initialising store counter.already = make(...) is not an access
					if g == ctor && obj.Stores[ast.Expr(sel)] {
						return true
					}
					root, _ := c11Chain(g, sel)
					for _, at := range deleg.attributed(g, varOf(g, root), c11DelegDepth) {
						if at.F != f {
							leak = true
						}
					}
				}
				return true
			})
			if leak {
				c.Fail(short(g.Name)+" touches already", "T6 WhoMayWrite", g.Pos(), g.Name+" accesses the counter's private already slice: marks can be changed or aliased outside CountByIdx")
			}
		}
	})
	c11Clause(c, "C11.counter", func(c *core.Ctx) {
		f := c11Fn(c, c11WC+".CountByIdx")
		recv, idxP := f.Recv(), f.Param(0)
		c.Need(recv != nil && idxP != nil, "CountByIdx has a named receiver and index parameter")
		if pos, hit := c11LitEffect(f, map[string]bool{c11WC + ".sum": true, c11WC + ".already": true}, map[*types.Var]bool{}, false); hit {
			c.Fail("no effect hidden in a function literal", "T6 (closures)", pos, "a function literal of CountByIdx that is not looked through changes sum or already: guard, mark and addition are not the only effects")
		}
		c.Check(len(assignsToVar(f, idxP)) == 0 && len(assignsToVar(f, recv)) == 0, "index and receiver are not reassigned", "provenance", f.Pos(),
			"the guard, the mark and the added weight all refer to the caller's index", "the index parameter or receiver is reassigned inside CountByIdx: guard, mark and weight may refer to different validators")
		isAlready := func(e ast.Expr) bool {
			ix, ok := ast.Unparen(e).(*ast.IndexExpr)
			return ok && c11IsPath(f, ix.X, recv, c11WC+".already") && varOf(f, core.StripConv(f.Info(), ix.Index)) == idxP
		}
		var adds, marks []assignment
		for _, a := range assignments(f) {
			if c11IsPath(f, a.LHS, recv, c11WC+".sum") {
				adds = append(adds, a)
			}
			if isAlready(a.LHS) {
				marks = append(marks, a)
			} else if ix, ok := ast.Unparen(a.LHS).(*ast.IndexExpr); ok && c11IsPath(f, ix.X, recv, c11WC+".already") {
				c.Fail("already[i] mark", "T7 Pairing", a.Stmt.Pos(), "already is written at an index other than the counted validator's")
			}
		}
		var trueMarks []core.Point
		for _, m := range marks {
			if v, ok := core.ConstVal(f.Info(), m.RHS); ok && v.Kind() == constant.Bool && constant.BoolVal(v) && m.Tok == token.ASSIGN {
				trueMarks = append(trueMarks, m.Pt)
			} else {
				c.Fail("already[i] mark", "T7 Pairing", m.Stmt.Pos(), "already[i] is set to something other than true: a validator can be counted again")
			}
		}
		for _, a := range adds {
			// the added value
			addend := c11Addend(a, func(e ast.Expr) bool { return c11IsPath(f, e, recv, c11WC+".sum") })
			if addend == nil {
				c.Fail("sum += weight(i)", "provenance", a.Stmt.Pos(), "sum is changed by something other than adding a weight: the counted weight is not the sum of the counted validators' weights")
				continue
			}
			if v := varOf(f, addend); v != nil {
				if d := c11SingleDef(f, v); d != nil {
					addend = d
				}
			}
			okAdd := false
			if call := isCallTo(f, addend, c11V+".GetWeightByIdx"); call != nil && len(call.Args) == 1 {
				if sel, ok := ast.Unparen(call.Fun).(*ast.SelectorExpr); ok {
					okAdd = c11IsPath(f, sel.X, recv, c11WC+".validators") && varOf(f, core.StripConv(f.Info(), call.Args[0])) == idxP
				}
			}
			if !okAdd {
				// the accessor written out: validators.cache.weights[i]
				if ix, ok := ast.Unparen(resolveLocal(f, addend)).(*ast.IndexExpr); ok {
					okAdd = c11IsPath(f, ix.X, recv, c11WC+".validators", c11FVCache, c11FWeights) && varOf(f, core.StripConv(f.Info(), ix.Index)) == idxP
				}
			}
			c.Check(okAdd, "sum += weight(i)", "provenance", a.Stmt.Pos(), "the added value is validators.GetWeightByIdx(i) for the counted index i", "the value added to sum is not the counted validator's weight")
			ok, wit := f.GuardedBy(a.Pt, func(ft core.Fact) bool {
				e, val, ok := c11BoolFact(f.Info(), ft)
				return ok && !val && isAlready(e)
			})
			c.Check(ok, "sum += guarded by !already[i]", "T4 GuardedBy", a.Stmt.Pos(), "the weight is added only on the edge where already[i] is false",
				"a validator's weight can be added although it was counted before (sum can exceed the total and wrap; a minority can reach the quorum): path "+f.DescribePath(wit))
			ok2, wit2 := pairedWith(f, a.Pt, trueMarks)
			c.Check(ok2, "sum += paired with already[i] = true", "T7 Pairing", a.Stmt.Pos(), "every path through the addition also marks the validator as counted",
				"a weight can be added without marking the validator: the next call adds it again; path "+f.DescribePath(wit2))
		}
		c.ExpectAtLeast("additions to sum in CountByIdx", len(adds), 1)
		// marks without an addition make the counter under-count: already[i]=true must be paired with the addition too
		for _, m := range marks {
			ok, _ := pairedWith(f, m.Pt, pointsOfAssign(adds))
			c.Check(ok, "already[i] = true paired with sum +=", "T7 Pairing", m.Stmt.Pos(), "a validator is marked only when its weight is added", "a validator can be marked as counted without its weight being added: a quorum that was reached is not reported")
		}

		// constructor: sum starts at 0, already is a fresh all-false slice
		ctor := c11Fn(c, c11Pkg+".newWeightCounter")
		obj := c11Constructed(ctor, c11WC)
		c.Need(obj != nil, "newWeightCounter builds one WeightCounter whose fields are each initialised once (literal or stores through the fresh local)")
		kv := obj.Fields
		okSum := true
		if e, ok := kv[c11WC+".sum"]; ok {
			okSum = core.IsConstInt(ctor.Info(), e, 0)
		}
		okAl := false
		if e, ok := kv[c11WC+".already"]; ok {
			okAl = isCallTo(ctor, e, "builtin.make") != nil
		}
		c.Check(okSum && okAl, "counter starts empty", "T16 initial state", obj.Pos, "sum starts at 0 and already is a fresh make([]bool, n) (all false)",
			"a new counter does not start with sum 0 and a fresh all-false slice: the reported quorum does not correspond to the counted validators")

		// Count = CountByIdx(GetIdx(v))
		cnt := c11Fn(c, c11WC+".Count")
		okCnt := len(cnt.ReturnPoints()) > 0
		for _, rp := range cnt.ReturnPoints() {
			r := rp.Node().(*ast.ReturnStmt)
			okR := false
			if len(r.Results) == 1 {
				if call := isCallTo(cnt, r.Results[0], c11WC+".CountByIdx"); call != nil && len(call.Args) == 1 {
					sel, _ := ast.Unparen(call.Fun).(*ast.SelectorExpr)
					arg := ast.Unparen(call.Args[0])
					if v := varOf(cnt, arg); v != nil {
						if d := c11SingleDef(cnt, v); d != nil {
							arg = d
						}
					}
					if g := isCallTo(cnt, arg, c11V+".GetIdx"); g != nil && len(g.Args) == 1 && sel != nil {
						gs, _ := ast.Unparen(g.Fun).(*ast.SelectorExpr)
						okR = varOf(cnt, sel.X) == cnt.Recv() && gs != nil && c11IsPath(cnt, gs.X, cnt.Recv(), c11WC+".validators") && varOf(cnt, g.Args[0]) == cnt.Param(0) && cnt.Param(0) != nil
					} else if ix, isIx := ast.Unparen(resolveLocal(cnt, arg)).(*ast.IndexExpr); isIx && sel != nil {
						// the accessor written out: validators.cache.indexes[v]
						okR = varOf(cnt, sel.X) == cnt.Recv() && c11IsPath(cnt, ix.X, cnt.Recv(), c11WC+".validators", c11FVCache, c11FIndexes) && varOf(cnt, ix.Index) == cnt.Param(0) && cnt.Param(0) != nil
					}
				}
			}
			okCnt = okCnt && okR
		}
		c.Check(okCnt, "Count = CountByIdx(GetIdx(v))", "provenance", cnt.Pos(), "Count delegates to CountByIdx with the index of the given validator in the counter's own set", "Count does not delegate to CountByIdx(validators.GetIdx(v)): counting by ID and by index disagree")
		gi := c11Fn(c, c11V+".GetIdx")
		okGI := len(gi.ReturnPoints()) > 0
		for _, rp := range gi.ReturnPoints() {
			r := rp.Node().(*ast.ReturnStmt)
			okR := false
			if len(r.Results) == 1 {
				if ix, ok := ast.Unparen(resolveLocal(gi, r.Results[0])).(*ast.IndexExpr); ok {
					okR = c11IsPath(gi, ix.X, gi.Recv(), c11FVCache, c11FIndexes) && varOf(gi, ix.Index) == gi.Param(0) && gi.Param(0) != nil && len(assignsToVar(gi, gi.Param(0))) == 0
				}
			}
			okGI = okGI && okR
		}
		c.Check(okGI, "GetIdx reads indexes[id]", "provenance", gi.Pos(), "GetIdx(id) is cache.indexes[id]", "GetIdx does not return cache.indexes[id]")
	})

	// (6) ---------------------------------------------------------------
	c11Clause(c, "C11.hasQuorum", func(c *core.Ctx) {
		f := c11Fn(c, c11WC+".HasQuorum")
		recv := f.Recv()
		c.Need(recv != nil, "HasQuorum has a named receiver")
		namer := func(e ast.Expr) string {
			switch {
			case c11IsPath(f, e, recv, c11WC+".sum"):
				return "sum"
			case c11IsPath(f, e, recv, c11WC+".quorum"):
				return "quorum"
			}
			if call := isCallTo(f, e, c11WC+".Sum"); call != nil {
				if sel, ok := ast.Unparen(call.Fun).(*ast.SelectorExpr); ok && varOf(f, sel.X) == recv {
					return "sum"
				}
			}
			return ""
		}
		yes := core.ParseLinCmp("quorum - sum <= 0")
		no := core.ParseLinCmp("sum - quorum + 1 <= 0")
		is := func(want core.LinCmp) func(core.Fact) bool {
			return func(ft core.Fact) bool {
				lc, ok := core.NormLinCmp(f.Info(), ft, namer)
				return ok && lc.Equal(want)
			}
		}
		rps := f.ReturnPoints()
		c.Need(len(rps) > 0, "HasQuorum has a return statement")
		for _, rp := range rps {
			r := rp.Node().(*ast.ReturnStmt)
			c.Need(len(r.Results) == 1, "HasQuorum returns one expression")
			res := r.Results[0]
			failMsg := "HasQuorum is not sum >= quorum: a quorum is reported below the threshold or withheld at it (boundary sum == quorum)"
			if v, ok := core.ConstVal(f.Info(), res); ok && v.Kind() == constant.Bool {
				want := no
				if constant.BoolVal(v) {
					want = yes
				}
				ok, wit := f.GuardedBy(rp, is(want))
				c.Check(ok, "HasQuorum = (sum >= quorum)", "T4 GuardedBy + NormLinCmp", r.Pos(), fmt.Sprintf("%v is returned only on the edge %s", constant.BoolVal(v), want), failMsg+"; path "+f.DescribePath(wit))
				continue
			}
			// a result variable (single-exit form): every value it can hold at the return is justified by
			// the edges taken before and after the assignment that put it there
			if v := varOf(f, res); v != nil && v != recv && c11SingleDef(f, v) == nil {
				as := assignsToVar(f, v)
				okVar := len(as) > 0
				for _, l := range allLits(f) {
					if len(assignsToVar(l, v)) > 0 {
						okVar = false
					}
				}
				wit := []core.Point(nil)
				for _, a := range as {
					isConst, val := false, false
					if a.RHS == nil {
						if _, isSpec := a.Stmt.(*ast.ValueSpec); isSpec {
							isConst = true // var res bool
						}
					} else if cv, ok := core.ConstVal(f.Info(), a.RHS); ok && cv.Kind() == constant.Bool && (a.Tok == token.ASSIGN || a.Tok == token.DEFINE) {
						isConst, val = true, constant.BoolVal(cv)
					}
					if !isConst {
						// res = (sum >= quorum) is right on every path
						if a.RHS == nil || (a.Tok != token.ASSIGN && a.Tok != token.DEFINE) || !is(yes)(core.Fact{Expr: resolveLocal(f, a.RHS), Truth: true}) {
							okVar = false
						}
						continue
					}
					want := no
					if val {
						want = yes
					}
					guard := f.GuardEdges(is(want))
					var others []core.Point
					for _, o := range as {
						if o.Pt != a.Pt {
							others = append(others, o.Pt)
						}
					}
					before, w1 := f.ReachableAvoiding(a.Pt, nil, guard)
					w2, after := core.PathQuery{F: f, From: a.Pt, FromAfter: true, Target: core.PointSet(rp), Avoid: core.PointSet(others...), AvoidEdge: guard}.Find()
					if before && after {
						okVar = false
						wit = append(append([]core.Point(nil), w1...), w2...)
					}
				}
				c.Check(okVar, "HasQuorum = (sum >= quorum)", "T4 GuardedBy + NormLinCmp", r.Pos(), "the returned variable holds true only after the edge quorum - sum <= 0 and false only after the edge sum - quorum + 1 <= 0", failMsg+"; path "+f.DescribePath(wit))
				continue
			}
			c.Check(is(yes)(core.Fact{Expr: resolveLocal(f, res), Truth: true}), "HasQuorum = (sum >= quorum)", "NormLinCmp", r.Pos(), "the result normalises to quorum - sum <= 0", failMsg)
		}
		// Sum accessor, if used above, must be the field
		sm := c11Fn(c, c11WC+".Sum")
		okS := len(sm.ReturnPoints()) > 0
		for _, rp := range sm.ReturnPoints() {
			r := rp.Node().(*ast.ReturnStmt)
			okS = okS && len(r.Results) == 1 && c11IsPath(sm, r.Results[0], sm.Recv(), c11WC+".sum")
		}
		c.Check(okS, "Sum is the counted weight", "provenance", sm.Pos(), "Sum() returns sum", "Sum() does not return the counted weight")

		// quorum is set once, in the constructor, from Quorum() of the stored set
		ctor := c11Fn(c, c11Pkg+".newWeightCounter")
		obj := c11Constructed(ctor, c11WC)
		c.Need(obj != nil, "newWeightCounter builds one WeightCounter whose fields are each initialised once (literal or stores through the fresh local)")
		kv := obj.Fields
		okQ := false
		qe, vq := kv[c11WC+".quorum"]
		ve, vv := kv[c11WC+".validators"]
		if vq && vv {
			if call := isCallTo(ctor, qe, c11V+".Quorum"); call != nil {
				if sel, ok := ast.Unparen(call.Fun).(*ast.SelectorExpr); ok {
					// Quorum() of the variable stored as validators (never reassigned) ...
					okQ = varOf(ctor, sel.X) != nil && varOf(ctor, sel.X) == varOf(ctor, ve) && len(assignsToVar(ctor, varOf(ctor, ve))) == 0
					// ... or of the object's own validators field, already set by the literal
					if !okQ && obj.Var != nil && obj.InLit[c11WC+".validators"] && !obj.InLit[c11WC+".quorum"] {
						okQ = c11IsPath(ctor, sel.X, obj.Var, c11WC+".validators")
					}
				}
			}
		}
		c.Check(okQ, "quorum = validators.Quorum()", "provenance", obj.Pos, "the counter's quorum is Quorum() of the very set whose weights it counts; no other writer exists (see writers)",
			"the counter's threshold is not Quorum() of the validator set it counts over")
		// every *WeightCounter is made by newWeightCounter: NewCounter delegates
		nc := c11Fn(c, c11V+".NewCounter")
		okN := len(nc.ReturnPoints()) > 0
		for _, rp := range nc.ReturnPoints() {
			r := rp.Node().(*ast.ReturnStmt)
			okR := false
			if len(r.Results) == 1 {
				if call := isCallTo(nc, r.Results[0], c11Pkg+".newWeightCounter"); call != nil && len(call.Args) == 1 {
					a := ast.Unparen(call.Args[0])
					if st, ok := a.(*ast.StarExpr); ok {
						a = st.X
					}
					okR = varOf(nc, a) == nc.Recv() && nc.Recv() != nil
				}
			}
			okN = okN && okR
		}
		c.Check(okN, "NewCounter = newWeightCounter(receiver)", "provenance", nc.Pos(), "NewCounter counts over its receiver", "NewCounter does not build the counter over its receiver")
	})
}

// c11AllocOf: e (after parentheses and a leading &) is a composite literal of a struct type or new(T);
// returns the literal (nil for new) and the canonical name of the allocated type ("" if e is neither).
func c11AllocOf(f *core.FuncInfo, e ast.Expr) (*ast.CompositeLit, string) {
	e = ast.Unparen(e)
	if u, ok := e.(*ast.UnaryExpr); ok && u.Op == token.AND {
		e = ast.Unparen(u.X)
	}
	switch x := e.(type) {
	case *ast.CompositeLit:
		if tv, ok := f.Info().Types[x]; ok {
			if _, isStruct := tv.Type.Underlying().(*types.Struct); isStruct {
				if _, isPtr := tv.Type.(*types.Pointer); !isPtr {
					return x, c11NamedOf(tv.Type)
				}
			}
		}
	case *ast.CallExpr:
		if calleeName(f, x) == "builtin.new" && len(x.Args) == 1 {
			if tv, ok := f.Info().Types[x.Args[0]]; ok && tv.IsType() {
				if _, isStruct := tv.Type.Underlying().(*types.Struct); isStruct {
					return nil, c11NamedOf(tv.Type)
				}
			}
		}
	}
	return nil, ""
}

// c11FreshLocal: v is a local of f defined once as &T{...}, T{...} or new(T) that does not escape by
// anything other than being returned: every mention of v is its definition, a field selection or method
// call on it (v.f, v.m()), a dereference, or a return operand. Memory reached by a direct field of such a
// variable belongs to the object under construction, whatever the order of the statements.
func c11FreshLocal(f *core.FuncInfo, v *types.Var) bool {
	if v == nil || v.IsField() {
		return false
	}
	d := c11SingleDef(f, v)
	if d == nil {
		return false
	}
	if _, tn := c11AllocOf(f, d); tn == "" {
		return false
	}
	ok := true
	var stack []ast.Node
	ast.Inspect(f.Body, func(n ast.Node) bool {
		if n == nil {
			stack = stack[:len(stack)-1]
			return true
		}
		if id, isID := n.(*ast.Ident); isID && f.Info().Uses[id] == types.Object(v) {
			inLit := false
			for _, s := range stack {
				if _, isLit := s.(*ast.FuncLit); isLit {
					inLit = true
				}
			}
			var parent ast.Node
			up := len(stack) - 1
			for up >= 0 {
				if _, isParen := stack[up].(*ast.ParenExpr); !isParen {
					break
				}
				up--
			}
			if up >= 0 {
				parent = stack[up]
			}
			switch p := parent.(type) {
			case *ast.SelectorExpr:
				if p.Sel == id {
					ok = false
				}
			case *ast.StarExpr, *ast.ReturnStmt:
			case *ast.CallExpr:
				// handed to the function that computes the caches (calcCaches written as a function over the
				// object): it reads the object; a store through its parameter is reported by the who-may-write rule
				if nm := c11ActualName(f.P, c11CalcAnchor); nm == "" || calleeName(f, p) != nm || ast.Unparen(p.Fun) == ast.Expr(id) {
					ok = false
				}
			case *ast.AssignStmt:
				isLHS := false
				for _, l := range p.Lhs {
					if ast.Unparen(l) == ast.Expr(id) {
						isLHS = true
					}
				}
				if !isLHS {
					ok = false
				}
			default:
				ok = false
			}
			if inLit {
				ok = false
			}
		}
		stack = append(stack, n)
		return true
	})
	return ok
}

// c11Object is the one object of a struct type that a constructor builds.
type c11Object struct {
	Var    *types.Var          // the fresh local holding it (or a pointer to it); nil if the allocation is used directly
	Fields map[string]ast.Expr // field -> initial value, from the literal and from the stores Var.field = e
	Stores map[ast.Expr]bool   // the left-hand sides of those stores
	InLit  map[string]bool     // fields given by the literal itself
	Pos    token.Pos
}

// c11Constructed describes the single allocation of the named struct type in f (composite literal or
// new), independent of whether the fields are given in the literal (keyed or positional) or stored one by
// one through the fresh local that holds the object (x := &T{}; x.a = ...; return x). A field is
// initialised at most once, outside loops, on every path to a return. nil when f does not have exactly
// one such allocation or the initialisation is not of that form.
func c11Constructed(f *core.FuncInfo, typeName string) *c11Object {
	var allocs []ast.Expr
	f.InspectOwn(func(n ast.Node) bool {
		if e, ok := n.(ast.Expr); ok {
			switch e.(type) {
			case *ast.CompositeLit, *ast.CallExpr:
				if _, tn := c11AllocOf(f, e); tn == typeName {
					allocs = append(allocs, e)
				}
			}
		}
		return true
	})
	if len(allocs) != 1 {
		return nil
	}
	obj := &c11Object{Fields: map[string]ast.Expr{}, Stores: map[ast.Expr]bool{}, InLit: map[string]bool{}, Pos: allocs[0].Pos()}
	if lit, _ := c11AllocOf(f, allocs[0]); lit != nil {
		obj.Fields = c11LitFields(f, lit)
		if obj.Fields == nil {
			return nil
		}
		for k := range obj.Fields {
			obj.InLit[k] = true
		}
	}
	// the local holding the object
	for _, a := range assignments(f) {
		v := varOf(f, a.LHS)
		if v == nil || a.RHS == nil {
			continue
		}
		r := ast.Unparen(a.RHS)
		if u, ok := r.(*ast.UnaryExpr); ok && u.Op == token.AND {
			r = ast.Unparen(u.X)
		}
		if r == allocs[0] && c11FreshLocal(f, v) {
			obj.Var = v
		}
	}
	if obj.Var == nil {
		return obj
	}
	for _, a := range assignments(f) {
		sel, ok := ast.Unparen(a.LHS).(*ast.SelectorExpr)
		if !ok || varOf(f, sel.X) != obj.Var {
			continue
		}
		fld := ""
		if s, ok := f.Info().Selections[sel]; ok {
			if fv, ok := s.Obj().(*types.Var); ok && fv.IsField() {
				fld = f.P.FieldName(fv)
			}
		}
		if fld == "" || !strings.HasPrefix(fld, typeName+".") {
			return nil
		}
		if _, dup := obj.Fields[fld]; dup || a.Tok != token.ASSIGN || a.RHS == nil || enclosingLoop(f, a.Stmt.Pos()) != nil {
			return nil
		}
		for _, rp := range f.ReturnPoints() {
			if ok, _ := f.MustPassBefore([]core.Point{a.Pt}, rp); !ok {
				return nil
			}
		}
		obj.Fields[fld] = a.RHS
		obj.Stores[ast.Expr(sel)] = true
	}
	return obj
}

// c11LitFields maps canonical field names to the value expressions of a struct literal, keyed or
// positional (nil for forms it cannot read).
func c11LitFields(f *core.FuncInfo, lit *ast.CompositeLit) map[string]ast.Expr {
	out := map[string]ast.Expr{}
	// positional form T{a, b}: the i-th element initialises the i-th field
	if len(lit.Elts) > 0 {
		if _, keyed := lit.Elts[0].(*ast.KeyValueExpr); !keyed {
			tv, ok := f.Info().Types[lit]
			if !ok {
				return nil
			}
			st, ok := tv.Type.Underlying().(*types.Struct)
			if !ok || st.NumFields() != len(lit.Elts) {
				return nil
			}
			for i, el := range lit.Elts {
				if _, keyed := el.(*ast.KeyValueExpr); keyed {
					return nil
				}
				name := f.P.FieldName(st.Field(i))
				if name == "" {
					return nil
				}
				out[name] = el
			}
			return out
		}
	}
	for _, el := range lit.Elts {
		kv, ok := el.(*ast.KeyValueExpr)
		if !ok {
			return nil
		}
		id, ok := kv.Key.(*ast.Ident)
		if !ok {
			return nil
		}
		v, _ := f.Info().ObjectOf(id).(*types.Var)
		if v == nil || !v.IsField() {
			return nil
		}
		out[f.P.FieldName(v)] = kv.Value
	}
	return out
}

// c11QuorumShape decides whether e is ((T*2)/3)+1 (operands of + and * in either order).
func c11QuorumShape(f *core.FuncInfo, sizes types.Sizes, e ast.Expr, isTotal func(ast.Expr) bool, wsize int64) (bool, ast.Expr, string) {
	info := f.Info()
	// intermediate results may be held in single-definition locals (q := T*2/3; return q+1): the value is
	// the same expression, evaluated in the same type
	strip := func(x ast.Expr) ast.Expr {
		for i := 0; i < 6; i++ {
			y := ast.Unparen(resolveLocal(f, c11StripWide(f, sizes, x, wsize)))
			if y == x {
				break
			}
			x = y
		}
		return x
	}
	add, ok := strip(e).(*ast.BinaryExpr)
	if !ok || add.Op != token.ADD {
		return false, nil, "the result is not of the form X + 1"
	}
	x := add.X
	switch {
	case core.IsConstInt(info, add.Y, 1):
	case core.IsConstInt(info, add.X, 1):
		x = add.Y
	default:
		return false, nil, "the result is not of the form X + 1"
	}
	div, ok := strip(x).(*ast.BinaryExpr)
	if !ok || div.Op != token.QUO {
		return false, nil, "the term before +1 is not a division (the division by 3 must be the last step before +1)"
	}
	if !core.IsConstInt(info, div.Y, 3) {
		return false, nil, "the divisor is not 3"
	}
	mul, ok := strip(div.X).(*ast.BinaryExpr)
	if !ok || mul.Op != token.MUL {
		return false, nil, "the dividend is not T*2"
	}
	switch {
	case core.IsConstInt(info, mul.Y, 2) && isTotal(mul.X):
	case core.IsConstInt(info, mul.X, 2) && isTotal(mul.Y):
	default:
		return false, nil, "the dividend is not the total weight times 2"
	}
	return true, mul, ""
}

// c11QuorumCounterexample evaluates the returned expression over small totals (pure arithmetic on the AST,
// modulo the width of Weight) and reports the first total where it differs from floor(2T/3)+1.
func c11QuorumCounterexample(f *core.FuncInfo, sizes types.Sizes, e ast.Expr, isTotal func(ast.Expr) bool, wsize int64) string {
	if wsize <= 0 || wsize > 8 {
		return ""
	}
	mod := constant.Shift(constant.MakeInt64(1), token.SHL, uint(8*wsize))
	var eval func(x ast.Expr, T constant.Value) (constant.Value, bool)
	eval = func(x ast.Expr, T constant.Value) (constant.Value, bool) {
		x = ast.Unparen(x)
		if v, ok := core.ConstVal(f.Info(), x); ok {
			v = constant.ToInt(v)
			return v, v.Kind() == constant.Int
		}
		if isTotal(x) {
			return T, true
		}
		switch y := x.(type) {
		case *ast.Ident:
			if d := ast.Unparen(resolveLocal(f, y)); d != ast.Expr(y) {
				return eval(d, T)
			}
		case *ast.CallExpr:
			if tv, ok := f.Info().Types[y.Fun]; ok && tv.IsType() && len(y.Args) == 1 {
				return eval(y.Args[0], T)
			}
		case *ast.BinaryExpr:
			a, ok1 := eval(y.X, T)
			b, ok2 := eval(y.Y, T)
			if !ok1 || !ok2 {
				return nil, false
			}
			var r constant.Value
			switch y.Op {
			case token.ADD, token.SUB, token.MUL:
				r = constant.BinaryOp(a, y.Op, b)
			case token.QUO:
				if constant.Sign(b) == 0 {
					return nil, false
				}
				r = constant.BinaryOp(a, token.QUO_ASSIGN, b)
			case token.REM:
				if constant.Sign(b) == 0 {
					return nil, false
				}
				r = constant.BinaryOp(a, token.REM, b)
			default:
				return nil, false
			}
			// wrap modulo 2^n (unsigned)
			r = constant.BinaryOp(r, token.REM, mod)
			if constant.Sign(r) < 0 {
				r = constant.BinaryOp(r, token.ADD, mod)
			}
			return r, true
		}
		return nil, false
	}
	two, three, one := constant.MakeInt64(2), constant.MakeInt64(3), constant.MakeInt64(1)
	for t := int64(1); t <= 64; t++ {
		T := constant.MakeInt64(t)
		got, ok := eval(e, T)
		if !ok {
			return ""
		}
		want := constant.BinaryOp(constant.BinaryOp(constant.BinaryOp(T, token.MUL, two), token.QUO_ASSIGN, three), token.ADD, one)
		if !constant.Compare(got, token.EQL, want) {
			return fmt.Sprintf("for total T=%d the code yields %s, floor(2T/3)+1 = %s", t, got.ExactString(), want.ExactString())
		}
	}
	return ""
}

// c11CheckGetWeight: GetWeightByIdx(i) is cache.weights[i].
func c11CheckGetWeight(c *core.Ctx) {
	g := c11Fn(c, c11V+".GetWeightByIdx")
	okG := len(g.ReturnPoints()) > 0
	for _, rp := range g.ReturnPoints() {
		r := rp.Node().(*ast.ReturnStmt)
		okR := false
		if len(r.Results) == 1 {
			if ix, ok := ast.Unparen(resolveLocal(g, r.Results[0])).(*ast.IndexExpr); ok {
				okR = c11IsPath(g, ix.X, g.Recv(), c11FVCache, c11FWeights) && varOf(g, ix.Index) == g.Param(0) && g.Param(0) != nil && len(assignsToVar(g, g.Param(0))) == 0
			}
		}
		okG = okG && okR
	}
	c.Check(okG, "GetWeightByIdx reads weights[i]", "provenance", g.Pos(), "GetWeightByIdx(i) is cache.weights[i]", "GetWeightByIdx does not return cache.weights[i]: the counter adds something that is not part of the checked total")
}
