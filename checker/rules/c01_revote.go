package rules

import (
	"go/ast"
	"go/types"

	"lachk/core"
)

// C01.revote — after every decided, non-sealing frame the known roots are re-processed before the next
// root is handed to the election; a sealing decision ends the voting of the current root; the
// re-processing goes on until no further frame is decided; Bootstrap ends with it.
//
// The clause is decided on inlined views (c01View) of the two drivers of the election,
// Orderer.handleElection and Orderer.Bootstrap, in which only the two anchors stay calls:
//
//   - the decision step (Orderer.onFrameDecided: results `sealed, err`);
//   - the replay routines: the functions of package abft that hand the elements of
//     Store.GetFrameRoots(..) to Election.ProcessRoot (located by that effect, not by name; results
//     `decided, err`).
//
// How the steps in between are split over helpers (bootstrapElection, a common "apply and re-process"
// loop, results handed on through `return true, nil`) is folded away by the view; what a call reported
// is followed through assignments and tests by c01EnvQuery.

const (
	c01ProcessRoot = "abft/election.Election.ProcessRoot"
	c01Decide      = "abft.Orderer.onFrameDecided"
	c01GetRoots    = "abft.Store.GetFrameRoots"
)

// c01IsReplayVote: the ProcessRoot call votes with a stored root: its argument is the current element
// of an iteration over Store.GetFrameRoots(..).
func c01IsReplayVote(g *core.FuncInfo, cs *core.CallSite) bool {
	if cs == nil || cs.Name != c01ProcessRoot || len(cs.Call.Args) != 1 {
		return false
	}
	for _, loop := range c01LoopsAroundNode(g, cs.Call) {
		it, ok := c01IterationOf(g, loop)
		if !ok || it.Coll == nil || !it.IsElem(cs.Call.Args[0], c01Resolver(g)) {
			continue
		}
		if isCallTo(g, it.Coll, c01GetRoots) != nil {
			return true
		}
	}
	return false
}

// c01ReplayRoutines: the declared functions of package abft that contain a replay vote.
func c01ReplayRoutines(p *core.Prog) map[string]bool {
	out := map[string]bool{}
	for _, g := range p.FuncsInPkg("abft") {
		for _, cs := range g.CallsTo(c01ProcessRoot) {
			if c01IsReplayVote(g, cs) {
				out[g.Name] = true
			}
		}
	}
	return out
}

// c01Driver is the view of one driver of the election with its sites classified.
type c01Driver struct {
	v       *core.FuncInfo
	decides []*core.CallSite // onFrameDecided
	replays []*core.CallSite // replay routine calls and replay votes folded into the view
	lives   []*core.CallSite // ProcessRoot calls that vote with something else than a stored root
}

func c01DriverView(f *core.FuncInfo, replay map[string]bool) *c01Driver {
	keep := []string{c01Decide}
	for nm := range replay {
		if nm != f.Name {
			keep = append(keep, nm)
		}
	}
	d := &c01Driver{v: c01View(f, keep...)}
	for _, cs := range d.v.Calls() {
		switch {
		case cs.Name == c01Decide:
			d.decides = append(d.decides, cs)
		case replay[cs.Name] && cs.Name != f.Name:
			d.replays = append(d.replays, cs)
		case cs.Name == c01ProcessRoot:
			if c01IsReplayVote(d.v, cs) {
				d.replays = append(d.replays, cs)
			} else {
				d.lives = append(d.lives, cs)
			}
		}
	}
	return d
}

func c01Revote(c *core.Ctx) {
	c.Clause("C01.revote", func() {
		p := c.P
		he := c.Fn("abft.Orderer.handleElection")
		bs := c.Fn("abft.Orderer.Bootstrap")
		c.Fn(c01Decide)
		replay := c01ReplayRoutines(p)
		c.Need(len(replay) >= 1, "a routine that hands the stored roots (Store.GetFrameRoots) to Election.ProcessRoot exists in package abft")
		hd := c01DriverView(he, replay)
		bd := c01DriverView(bs, replay)
		c.Need(len(hd.decides) >= 1 && len(hd.lives) >= 1, "handleElection casts the live vote (ProcessRoot) and applies a decision (onFrameDecided)")

		pts := func(cs []*core.CallSite) func(core.Point) bool { return core.PointSet(core.Points(cs)...) }
		assume := func(v *core.FuncInfo, cs *core.CallSite, first, second c01Abs) (map[*types.Var]c01Abs, *types.Var) {
			r0, r1 := c01ResultVar(v, cs.Call, 0), c01ResultVar(v, cs.Call, 1)
			m := map[*types.Var]c01Abs{}
			if r0 != nil {
				m[r0] = first
			}
			if r1 != nil {
				m[r1] = second
			}
			return m, r0
		}

		// (1) a decision that does not seal the epoch is followed by the replay before the next live vote
		// and before the driver is left
		afterDecision := func(d *c01Driver, key, bad string) {
			ok, wit := true, ""
			for _, cs := range d.decides {
				init, _ := assume(d.v, cs, c01AbsFalse, c01AbsNil)
				if path, found := (c01EnvQuery{F: d.v, From: cs.Pt, FromAfter: true, Init: init, Target: pts(d.lives), Avoid: pts(d.replays), TargetExit: true}).Find(); found {
					ok, wit = false, d.v.DescribePath(path)
				}
			}
			pos := d.v.Pos()
			if len(d.decides) > 0 {
				pos = d.decides[0].Pos()
			}
			c.Check(ok, key, "T3 PostDominates (inlined view, values of the results followed)", pos,
				"from every onFrameDecided that reported (not sealed, no error) every path to the next live vote or out of the routine passes a replay of the stored roots", bad+": "+wit)
		}
		afterDecision(hd, "known roots are re-processed after a decision before the next root votes",
			"after a frame is decided the election can continue with the next root without re-processing the known roots of the new frame (instances that received events in another order decide differently)")

		// (2) a decision that seals the epoch resets the election to the new epoch's validators and first
		// frame. The remaining frame slots of the current root belong to the old epoch: if one of them is
		// still voted, the new election is fed a root of another epoch. Whether that happens depends on
		// which root happened to trigger the decision, i.e. on the delivery order.
		{
			const key = "a sealing decision ends the voting of the current root"
			const rule = "T4 GuardedBy (values of the results followed)"
			okS, whyS := true, ""
			posS := hd.decides[0].Pos()
			for _, cs := range hd.decides {
				init, sealed := assume(hd.v, cs, c01AbsTrue, c01AbsNil)
				if sealed == nil {
					okS, posS = false, cs.Pos()
					whyS = "the 'sealed' result of onFrameDecided is discarded: after a decision that seals the epoch the loop goes on feeding the remaining frame slots of the old epoch's root into the new epoch's election (the instance that decided through this root fails or diverges, others do not)"
					continue
				}
				if path, found := (c01EnvQuery{F: hd.v, From: cs.Pt, FromAfter: true, Init: init, Target: pts(hd.lives)}).Find(); found {
					okS, posS = false, cs.Pos()
					whyS = "after onFrameDecided reported that the epoch was sealed the current root can still vote with its remaining frame slots, now in the new epoch's election (" + hd.v.DescribePath(path) + "): the instance that decided through this root fails or diverges, others do not"
				}
			}
			c.Check(okS, key, rule, posS, "no path from an onFrameDecided that reported 'sealed' leads to another live vote of the root", whyS)
		}
		c.ExpectAtLeast("decisions applied in handleElection (view)", len(hd.decides), 1)

		// (3) Bootstrap replays the stored roots after the election was created
		news := bd.v.CallsTo("abft/election.New")
		okB := len(news) >= 1
		for _, nw := range news {
			if _, found := (c01EnvQuery{F: bd.v, From: nw.Pt, FromAfter: true, Avoid: pts(bd.replays), TargetExit: true}).Find(); found {
				okB = false
			}
		}
		c.Check(okB, "Bootstrap re-processes the known roots", "T3 PostDominates", bs.Pos(), "every return after the election is created passes a replay of the stored roots", "a restarted instance does not replay the votes of stored roots")

		// (4) the re-processing goes on while frames are decided
		afterDecision(bd, "re-processing stops only when no further frame is decided", "the re-processing of the known roots can stop although a further frame was decided")

		// (5) a decision found while re-processing is applied before anything else happens
		okA, witA := true, ""
		posA := he.Pos()
		for _, d := range []*c01Driver{hd, bd} {
			for _, cs := range d.replays {
				init, dec := assume(d.v, cs, c01AbsNonNil, c01AbsNil)
				if dec == nil {
					// the result leaves the view with the call (`return p.processKnownRoots()` of a replay
					// routine that is the driver itself) — nothing to apply here
					if _, isRet := cs.Pt.Node().(*ast.ReturnStmt); isRet {
						continue
					}
					okA, witA, posA = false, "the decision returned by the replay is discarded", cs.Pos()
					continue
				}
				targets := append(append([]*core.CallSite(nil), d.replays...), d.lives...)
				if path, found := (c01EnvQuery{F: d.v, From: cs.Pt, FromAfter: true, Init: init, Target: pts(targets), Avoid: pts(d.decides), TargetExit: true}).Find(); found {
					okA, witA, posA = false, d.v.DescribePath(path), cs.Pos()
				}
			}
		}
		c.Check(okA, "every decision found while re-processing is applied", "T3 (inlined view, values of the results followed)", posA,
			"from every replay that reported a decided frame every path reaches onFrameDecided before the next replay, the next live vote or the end of the routine", "a decision found during re-processing can be dropped: "+witA)
	})
}
