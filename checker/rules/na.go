package rules

// NotApplicable: properties that are not claimed, with the reason. Entries for
// properties that are in the Registry are ignored.
var NotApplicable = map[string]string{
	"C06": "equates every entry of the merged vector clock with a graph quantity (max sequence / fork existence) for all DAGs and indexing orders; no sound static argument in reach bounds those runtime values, and the only structural facts (fork marker absorbing, consumers use the merged API) are decided under C03 — claiming C06 through them would misstate what is decided",
}
