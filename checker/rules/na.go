package rules

// NotApplicable: properties that are not claimed, with the reason. Entries for
// properties that are in the Registry are ignored.
var NotApplicable = map[string]string{
	"C06": "equates every entry of the merged vector clock with a graph quantity (max sequence / fork existence) for all DAGs and indexing orders; no sound static argument in reach bounds those runtime values, and the only structural facts (fork marker absorbing, consumers use the merged API) are decided under C03 — claiming C06 through them would misstate what is decided",
}

func init() {
	for _, id := range []string{"C01", "C02", "C03", "C04", "C05", "C07", "C08", "C09", "C10", "C11", "C12", "C13", "C14", "C15", "C16", "C17", "C18", "C19", "C20", "C21", "C22", "C23", "C24", "C25", "C26", "C27", "C28", "C29", "C30", "C31", "C32", "C33"} {
		if _, ok := NotApplicable[id]; !ok {
			NotApplicable[id] = "rules for this property are designed (DESIGN.md §4) but not yet built in the checker; not claimed until they are"
		}
	}
}
