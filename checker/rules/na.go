package rules

// NotApplicable: properties that are not claimed, with the reason. Entries for
// properties that are in the Registry are ignored. (C06 was listed here until its structural
// necessary conditions were split out and claimed at level "other", see c06.go.)
var NotApplicable = map[string]string{}
