package rules

import (
	"go/ast"
	"go/constant"

	"golang.org/x/tools/go/cfg"

	"lachk/core"
)

// Helpers of C05.forkpairs for "the scan is left early only when the test succeeded" (candidates for
// promotion to core next to Iteration.EveryIterationPasses):
//
//	c05Established  edge predicate: taking the edge implies that the expression img is true
//	c05TestImage    the expression that stands for a test in an outer activation frame (the test itself, or
//	                the call of the predicate helper that returns it)
//	c05EarlyExit    a path that leaves an iteration other than through its head without such an edge

// c05Established: the edge (b, succ) implies that img holds, whichever alternative of a compound branch
// condition was taken: an alternative contains the fact "x is true" for an x that is img (directly, or a
// local defined as img), or it contains every conjunct of img.
func c05Established(f *core.FuncInfo, img ast.Expr) func(*cfg.Block, int) bool {
	img = ast.Unparen(img)
	want := core.Decompose(img, true)
	has := func(alt []core.Fact, w core.Fact) bool {
		for _, ft := range alt {
			if ft.Truth == w.Truth && ast.Unparen(ft.Expr) == ast.Unparen(w.Expr) {
				return true
			}
		}
		return false
	}
	return func(b *cfg.Block, s int) bool {
		cond := f.BranchCond(b)
		if cond == nil || s > 1 {
			return false
		}
		for _, alt := range core.Disjuncts(cond, s == 0) {
			ok := false
			for _, ft := range alt {
				if ft.Truth && ast.Unparen(resolveLocal(f, ft.Expr)) == img {
					ok = true
					break
				}
			}
			if !ok {
				ok = true
				for _, w := range want {
					if !has(alt, w) {
						ok = false
						break
					}
				}
			}
			if !ok {
				return false
			}
		}
		return true
	}
}

// c05TestImage returns the expression of frame `at` whose truth means that the test cond of frame fr
// succeeded: cond itself when both are the same frame, otherwise the call (in at's function) of the
// helper on the chain towards fr. ok is false when a helper on that chain may return true without the
// inner expression being true (its results must be the inner expression, the constant false, or the
// constant true behind the inner expression's true edge).
func c05TestImage(fr *c05Frame, cond ast.Expr, at *c05Frame) (img ast.Expr, ok bool) {
	img = cond
	for h := fr; h != at; h = h.Up {
		if h.Up == nil {
			return nil, false // `at` is not on the chain above the test
		}
		f := h.F
		inner := ast.Unparen(img)
		established := c05Established(f, inner)
		rets := f.ReturnPoints()
		if len(rets) == 0 {
			return nil, false
		}
		for _, rp := range rets {
			r, _ := rp.Node().(*ast.ReturnStmt)
			if r == nil || len(r.Results) != 1 {
				return h.At.Call, false
			}
			if ast.Unparen(resolveLocal(f, r.Results[0])) == inner {
				continue
			}
			cv, isConst := core.ConstVal(f.Info(), r.Results[0])
			if !isConst || cv.Kind() != constant.Bool {
				return h.At.Call, false
			}
			if constant.BoolVal(cv) {
				if reach, _ := f.ReachableAvoiding(rp, nil, established); reach {
					return h.At.Call, false
				}
			}
		}
		img = h.At.Call
	}
	return img, true
}

// c05EarlyExit looks for a path from the start of the iteration's body that leaves the loop — to a block
// outside the loop statement, or by returning — without passing the loop's head (exhaustion, next
// element) and without taking an edge that implies img. A labelled continue of an enclosing loop, a
// goto behind the loop and a break all count as leaving.
func c05EarlyExit(it *core.Iteration, img ast.Expr) ([]core.Point, bool) {
	f := it.F
	if it.Head == nil || len(it.Head.Succs) == 0 {
		return []core.Point{f.Entry()}, true
	}
	loop := it.Stmt
	inside := func(b *cfg.Block) bool {
		if b == it.Done || b.Stmt == nil {
			return false
		}
		return loop.Pos() <= b.Stmt.Pos() && b.Stmt.End() <= loop.End()
	}
	established := c05Established(f, img)
	q := core.PathQuery{
		F:    f,
		From: core.Point{B: it.Head.Succs[0], I: 0},
		AvoidEdge: func(b *cfg.Block, s int) bool {
			return b.Succs[s] == it.Head || established(b, s)
		},
		TargetBlock: func(b *cfg.Block) bool { return !inside(b) },
		TargetExit:  true,
	}
	return q.Find()
}
