package rules

import (
	"go/ast"
	"go/types"
	"strings"

	"lachk/core"
)

func init() {
	register("C07", "other", "T2 Dominates (deferred drop before indexing), T4 GuardedBy + T6 WhoMayCall (flush only after both steps succeeded), T6 effects reachable from Build, T7 Pairing (drop clears everything the add filled), T21 (shared)",
		"Decides the structure that makes a built or rejected event leave no trace: in IndexedLachesis.Build and Process the deferred DropNotFlushed is registered before the event is added to the index; the index is flushed only in Process and only after both indexing and the consensus step returned nil; nothing reachable from Build writes a consensus-store table (its only store effects go through the index's droppable overlay), and no abft function reachable from Build assigns a field of an outliving object that a function reachable from Process or Build reads, except the temporary-ID counter and the store's read-through caches (C07.build-state: no memo of built events); in the consensus step every error return precedes root registration and the election runs only after the event was accepted; dropping resets the branch info, drops the overlay and purges every cache the add could have filled with the dropped event's data, and temporary IDs cannot alias (C04.tmpid). Behavioural equivalence with 'never submitted' is not decided beyond these effects.",
		[]string{"the index's overlay is a correct flushable store (C22)", "application callbacks are opaque"},
		runC07)
}

func runC07(c *core.Ctx) {
	p := c.P
	idxF := ilT + ".dagIndexer"
	isIdxCall := func(f *core.FuncInfo, cs *core.CallSite, method string) bool {
		return methodNamed(cs.Name, method) && strings.HasPrefix(cs.Name, "abft.DagIndexer.") && fieldNameOf(f, cs.Recv()) == idxF
	}

	c.Clause("C07.defer", func() {
		for _, name := range []string{"Build", "Process"} {
			f := c.Fn(ilT + "." + name)
			drops := f.CallsMatching(func(cs *core.CallSite) bool { return isIdxCall(f, cs, "DropNotFlushed") && cs.InDefer })
			adds := f.CallsMatching(func(cs *core.CallSite) bool { return isIdxCall(f, cs, "Add") })
			c.Need(len(adds) >= 1, name+" adds the event to the index")
			for _, a := range adds {
				ok, wit := f.MustPassBefore(core.Points(drops), a.Pt)
				c.Check(ok && len(drops) > 0, name+"|deferred drop registered before indexing", "T2 Dominates", a.Pos(), "defer dagIndexer.DropNotFlushed() dominates dagIndexer.Add", "the event can be indexed without a pending drop: a failure or a mere build leaves its vectors behind ("+f.DescribePath(wit)+")")
			}
		}
	})

	c.Clause("C07.flush", func() {
		proc := c.Fn(ilT + ".Process")
		flushes := proc.CallsMatching(func(cs *core.CallSite) bool { return isIdxCall(proc, cs, "Flush") })
		c.ExpectAtLeast("index flush sites in Process", len(flushes), 1)
		adds := proc.CallsMatching(func(cs *core.CallSite) bool { return isIdxCall(proc, cs, "Add") })
		steps := proc.CallsTo("abft.Lachesis.Process", "abft.Orderer.Process")
		c.Need(len(adds) == 1 && len(steps) == 1, "Process = Add + consensus step")
		for _, fl := range flushes {
			ok := afterSuccess(proc, adds[0], fl.Pt) && afterSuccess(proc, steps[0], fl.Pt)
			c.Check(ok, "flush only after indexing and consensus both succeeded", "T2+T4", fl.Pos(), "dagIndexer.Flush() is reached only on the nil edges of Add and of the consensus step", "index data of an event can become durable although the event was rejected")
		}
		// nobody else in abft flushes the index; Build reaches no Flush
		for _, g := range p.FuncsInPkg("abft") {
			all := append([]*core.FuncInfo{g}, allLits(g)...)
			for _, h := range all {
				for _, cs := range h.Calls() {
					if strings.HasPrefix(cs.Name, "abft.DagIndexer.") && methodNamed(cs.Name, "Flush") && h != proc {
						c.Fail("index flushed in "+short(h.Name), "T6 WhoMayCall", cs.Pos(), "the index is flushed outside IndexedLachesis.Process")
					}
				}
			}
		}
		build := c.Fn(ilT + ".Build")
		reach := core.ReachableFuncs(p, []*core.FuncInfo{build}, false)
		okNoFlush := true
		for _, g := range reach {
			for _, cs := range g.Calls() {
				if (strings.HasPrefix(cs.Name, "abft.DagIndexer.") || strings.HasPrefix(cs.Name, "vecengine.Engine.")) && methodNamed(cs.Name, "Flush") {
					okNoFlush = false
				}
			}
		}
		c.Check(okNoFlush, "Build reaches no index flush", "T6 effects", build.Pos(), "no Flush of the index is reachable from Build through static calls in the module", "Build can flush index data of an event that is only being built")
	})

	c.Clause("C07.build-effects", func() {
		build := c.Fn(ilT + ".Build")
		reach := core.ReachableFuncs(p, []*core.FuncInfo{build}, false)
		n := 0
		var bad []string
		for _, g := range reach {
			if core.RelPkg(g.Pkg.PkgPath) != "abft" {
				continue
			}
			n++
			for _, cs := range g.Calls() {
				if cs.Name == kvPut || cs.Name == kvDelete || cs.Name == "kvdb.Batch.Write" {
					// a write on one of the consensus store's tables?
					_, path := fieldPath(g, cs.Recv())
					if len(path) > 0 && strings.HasPrefix(path[0], "abft.Store.") {
						bad = append(bad, short(g.Name)+" writes "+strings.Join(path, ".")+" at "+p.Pos(cs.Pos()))
					}
				}
			}
		}
		c.Check(len(bad) == 0, "Build writes no consensus-store table", "T6 effects", build.Pos(), "no Put/Delete/Write on an abft.Store table is reachable from Build", "reachable from Build: "+strings.Join(bad, "; "))
		c.ExpectAtLeast("abft functions reachable from Build", n, 6)
		// Build hands the event to Orderer.Build only after Add succeeded
		adds := build.CallsMatching(func(cs *core.CallSite) bool { return isIdxCall(build, cs, "Add") })
		inner := build.CallsTo("abft.Lachesis.Build", "abft.Orderer.Build")
		ok := len(adds) == 1 && len(inner) == 1 && afterSuccess(build, adds[0], inner[0].Pt)
		c.Check(ok, "frame is computed only after indexing succeeded", "T2+T4", build.Pos(), "Orderer.Build runs on the nil edge of dagIndexer.Add", "the frame can be computed for an event that could not be indexed")
	})

	c.Clause("C07.build-state", func() { c07BuildState(c) })

	c.Clause("C07.order", func() {
		chk := c.Fn(ordT + ".checkAndSaveEvent")
		// no error return after AddRoot; the error is the result of type error, wherever it stands in the
		// result list (c07ErrResult)
		ei, _ := c07ErrResult(chk)
		c.Need(ei >= 0, "checkAndSaveEvent has one result of type error")
		for _, ar := range chk.CallsTo("abft.Store.AddRoot") {
			_, found := core.PathQuery{F: chk, From: ar.Pt, FromAfter: true, Target: func(pt core.Point) bool {
				r, ok := pt.Node().(*ast.ReturnStmt)
				return ok && c07MayReturnError(chk, r)
			}}.Find()
			c.Check(!found, "no rejection after the root was registered", "T2 Dominates", ar.Pos(), "every error return of checkAndSaveEvent precedes AddRoot", "checkAndSaveEvent can reject an event after having registered it as a root")
		}
		proc := c.Fn(ordT + ".Process")
		chkCalls := proc.CallsTo(ordT + ".checkAndSaveEvent")
		he := proc.CallsTo(ordT + ".handleElection")
		ok := len(chkCalls) == 1 && len(he) == 1
		if ok {
			// the variable that receives the error result (the result of type error, first or last):
			// err, x := checkAndSaveEvent(e) / x, err := checkAndSaveEvent(e)
			ev := c07ErrVarOfCall(proc, chkCalls[0].Call, chk)
			d, _ := proc.MustPassBefore(core.Points(chkCalls), he[0].Pt)
			g, _ := proc.GuardedBetween(chkCalls[0].Pt, he[0].Pt, varNilFact(proc, ev, true))
			ok = ev != nil && d && g
		}
		c.Check(ok, "election runs only for accepted events", "T2+T4", proc.Pos(), "handleElection is reached only on the nil edge of checkAndSaveEvent", "the election can process a root of an event that was rejected")
	})

	c.Clause("C07.drop", func() {
		f := c.Fn("vecengine.Engine.DropNotFlushed")
		// bi reset on every path
		var reset []core.Point
		for _, a := range assignsToField(f, "vecengine.Engine.bi") {
			if core.IsNil(f.Info(), a.RHS) {
				reset = append(reset, a.Pt)
			}
		}
		okBi := len(reset) > 0
		for _, rp := range f.ReturnPoints() {
			if o, _ := f.MustPassBefore(reset, rp); !o {
				okBi = false
			}
		}
		c.Check(okBi, "drop forgets the in-memory branch info", "T7 Pairing", f.Pos(), "bi = nil on every path (it is reloaded from the store)", "branch info changed by a dropped event survives the drop")
		// whenever anything is unflushed: overlay dropped and callback invoked
		drops := f.CallsTo("kvdb.FlushableKVStore.DropNotFlushed")
		// the callback invocation is the call whose callee value is the field Callbacks.OnDropNotFlushed, read
		// in place (vi.callback.OnDropNotFlushed()) or through a single-definition local that holds the field
		// (cb := vi.callback.OnDropNotFlushed; if cb != nil { cb() }); fieldNameOf looks through such locals
		// (not through snapshots of a location the function writes), and so does the nil guard below
		const cbField = "vecengine.Callbacks.OnDropNotFlushed"
		cbs := f.CallsMatching(func(cs *core.CallSite) bool {
			return !cs.IsConv && !cs.InGo && (cs.Name == cbField || fieldNameOf(f, cs.Call.Fun) == cbField)
		})
		c.Need(len(drops) == 1 && len(cbs) == 1, "DropNotFlushed drops the overlay and calls the callback")
		nothing := func(ft core.Fact) bool {
			// NotFlushedPairs() == 0
			lc, k := core.NormLinCmp(f.Info(), ft, func(e ast.Expr) string {
				if isCallTo(f, e, "kvdb.FlushableKVStore.NotFlushedPairs") != nil {
					return "pairs"
				}
				return ""
			})
			return k && lc.Equal(core.ParseLinCmp("pairs == 0"))
		}
		_, skipDrop := core.PathQuery{F: f, From: f.Entry(), Avoid: core.PointSet(drops[0].Pt), AvoidEdge: c04AllAltsMatch(f, nothing), TargetExit: true}.Find()
		nilCB := fieldNilFact(f, cbField, true)
		_, skipCB := core.PathQuery{F: f, From: f.Entry(), Avoid: core.PointSet(cbs[0].Pt), AvoidEdge: c04AllAltsMatch(f, func(ft core.Fact) bool { return nothing(ft) || nilCB(ft) }), TargetExit: true}.Find()
		c.Check(!skipDrop && !skipCB, "unflushed data => overlay dropped and caches notified", "T7 Pairing", f.Pos(), "unless nothing is unflushed, the overlay is dropped and OnDropNotFlushed runs", "unflushed index data can survive DropNotFlushed, or the caches are not told")
		// vecfc side: covered by C05.drop (vector caches) + tmpid
		dn := c.Fn(vfIdx + ".onDropNotFlushed")
		purged := map[string]bool{}
		for _, cs := range dn.CallsTo("utils/simplewlru.Cache.Purge") {
			purged[fieldNameOf(dn, cs.Recv())] = true
		}
		c.Check(purged[vfIdx+".cache.HighestBeforeSeq"] && purged[vfIdx+".cache.LowestAfterSeq"], "vector caches purged on drop", "T7 Pairing", dn.Pos(), "both vector caches are purged", "a vector cache keeps data of the dropped event")
		// every cache field of vecfc.Index is either purged on drop or covered by the temporary-ID argument
		tn := p.LookupType(vfIdx)
		c.Need(tn != nil, "vecfc.Index type")
		st := tn.Type().Underlying().(*types.Struct)
		nCaches := 0
		for i := 0; i < st.NumFields(); i++ {
			if st.Field(i).Name() != "cache" {
				continue
			}
			inner, ok := st.Field(i).Type().Underlying().(*types.Struct)
			if !ok {
				continue
			}
			for j := 0; j < inner.NumFields(); j++ {
				nCaches++
				name := vfIdx + ".cache." + inner.Field(j).Name()
				if purged[name] {
					continue
				}
				if name == vfIdx+".cache.ForklessCause" {
					continue // keyed by event-ID pairs: safe iff temporary IDs never repeat (checked below)
				}
				c.Fail("cache "+inner.Field(j).Name()+" survives the drop", "T7 Pairing", dn.Pos(), "a cache of the index is neither purged on drop nor covered by the temporary-ID argument")
			}
		}
		c.ExpectAtLeast("caches of vecfc.Index", nCaches, 3)
		checkTmpID(c)
	})
}
