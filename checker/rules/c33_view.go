package rules

import (
	"fmt"
	"go/ast"
	"go/types"

	"lachk/core"
)

// c33view is the inlined view of "decode the current iterator key into a record": the decoding may be
// written in the scanning function itself (key := it.Key(); r := RootAndSlot{… key[a:b] …}) or in one
// module helper that receives the key (rr = append(rr, s.parse(it.Key(), f))). The codec clauses are
// decided in D, over the variable that holds the key there.
type c33view struct {
	D    *core.FuncInfo     // the function that holds the decoding (the scanner or the helper)
	Key  *types.Var         // the variable holding the iterator key in D (a local of the scanner / a parameter of the helper)
	Lit  *ast.CompositeLit  // the record literal built from the key
	Call *core.CallSite     // the helper call in the scanner (nil when D is the scanner)
	Args map[*types.Var]int // helper parameters -> argument index at Call
}

func c33recordLit(d *core.FuncInfo) *ast.CompositeLit {
	var lit *ast.CompositeLit
	d.InspectOwn(func(n ast.Node) bool {
		if cl, ok := n.(*ast.CompositeLit); ok && lit == nil {
			if nt, ok := d.Info().TypeOf(cl).(*types.Named); ok && d.P.ObjName(nt.Obj()) == "abft/election.RootAndSlot" {
				lit = cl
				return false
			}
		}
		return true
	})
	return lit
}

// c33decodeView finds where the key of the iterator held in itVar is decoded.
func c33decodeView(g *core.FuncInfo, itVar *types.Var) (*c33view, string) {
	var keyCalls []*core.CallSite
	for _, cs := range g.CallsTo(c33ItKey) {
		if cs.Recv() != nil && varOf(g, cs.Recv()) == itVar {
			keyCalls = append(keyCalls, cs)
		}
	}
	if len(keyCalls) != 1 {
		return nil, fmt.Sprintf("%d reads of the iterator key (one expected)", len(keyCalls))
	}
	kc := keyCalls[0]
	var keyVar *types.Var
	if v := errVarOfCall(g, kc.Call); v != nil {
		if c33singleDef(g, v) == nil {
			return nil, "the key variable is defined more than once"
		}
		keyVar = v
	}
	isKey := func(e ast.Expr) bool {
		e = ast.Unparen(e)
		return e == ast.Expr(kc.Call) || (keyVar != nil && varOf(g, e) == keyVar)
	}
	var helper *core.CallSite
	idx := -1
	for _, cs := range g.Calls() {
		fn, ok := cs.Callee.(*types.Func)
		if !ok {
			continue
		}
		if h := g.P.FuncOf(fn); h == nil || h == g {
			continue
		}
		for i, a := range cs.Call.Args {
			if isKey(a) {
				if helper != nil {
					return nil, "the key is handed to more than one helper"
				}
				helper, idx = cs, i
			}
		}
	}
	if helper == nil {
		if keyVar == nil {
			return nil, "the iterator key is neither held in a variable nor handed to a helper"
		}
		lit := c33recordLit(g)
		if lit == nil {
			return nil, "no election.RootAndSlot literal is built from the key"
		}
		return &c33view{D: g, Key: keyVar, Lit: lit}, ""
	}
	h := g.P.FuncOf(helper.Callee.(*types.Func))
	kp := h.Param(idx)
	if kp == nil || len(assignsToVar(h, kp)) != 0 {
		return nil, "the helper " + short(h.Name) + " does not keep the key in an unassigned parameter"
	}
	if c33recordLit(g) != nil {
		return nil, "records are built both in " + short(g.Name) + " and in " + short(h.Name)
	}
	lit := c33recordLit(h)
	if lit == nil {
		return nil, "the helper " + short(h.Name) + " builds no election.RootAndSlot literal"
	}
	v := &c33view{D: h, Key: kp, Lit: lit, Call: helper, Args: map[*types.Var]int{}}
	for i := range helper.Call.Args {
		if pv := h.Param(i); pv != nil {
			v.Args[pv] = i
		}
	}
	return v, ""
}

// c33yieldsRecord: is e, an expression of the scanner g, the record decoded from the current key — the
// record literal itself (possibly through a local defined once), or the call of the decoding helper,
// every return of which hands back the literal (or a local defined once as the literal and never
// stored through afterwards)?
func c33yieldsRecord(g *core.FuncInfo, view *c33view, e ast.Expr) bool {
	isLitIn := func(d *core.FuncInfo, x ast.Expr) bool {
		x = ast.Unparen(x)
		if rv := varOf(d, x); rv != nil {
			if def := c33singleDef(d, rv); def != nil && def.RHS != nil {
				x = ast.Unparen(def.RHS)
			}
			for _, a := range assignments(d) {
				root, depth := ast.Unparen(a.LHS), 0
				for {
					switch y := root.(type) {
					case *ast.SelectorExpr:
						root, depth = ast.Unparen(y.X), depth+1
						continue
					case *ast.IndexExpr:
						root, depth = ast.Unparen(y.X), depth+1
						continue
					}
					break
				}
				if depth > 0 && varOf(d, root) == rv {
					return false // a field of the decoded record is overwritten
				}
			}
		}
		cl, ok := x.(*ast.CompositeLit)
		return ok && cl == view.Lit
	}
	if view.Call == nil {
		return isLitIn(g, e)
	}
	e = ast.Unparen(e)
	if rv := varOf(g, e); rv != nil {
		if def := c33singleDef(g, rv); def != nil && def.RHS != nil {
			e = ast.Unparen(def.RHS)
		}
	}
	if e != ast.Expr(view.Call.Call) {
		return false
	}
	rets := view.D.ReturnPoints()
	if len(rets) == 0 {
		return false
	}
	for _, rp := range rets {
		r := rp.Node().(*ast.ReturnStmt)
		if len(r.Results) != 1 || !isLitIn(view.D, r.Results[0]) {
			return false
		}
	}
	return true
}
