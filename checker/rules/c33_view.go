package rules

import (
	"fmt"
	"go/ast"
	"go/constant"
	"go/types"
	"strings"

	"lachk/core"
)

// c33view is the inlined view of "decode the current iterator key into a record": the decoding may be
// written in the scanning function itself (key := it.Key(); r := RootAndSlot{… key[a:b] …}) or in one
// module helper that receives the key (rr = append(rr, s.parse(it.Key(), f))). The codec clauses are
// decided in D, over the variable that holds the key there.
type c33view struct {
	D    *core.FuncInfo     // the function that holds the decoding (the scanner or the helper)
	Key  *types.Var         // the variable holding the iterator key in D (a local of the scanner / a parameter of the helper)
	Lit  *ast.CompositeLit  // the record literal built from the key
	Call *core.CallSite     // the helper call in the scanner (nil when D is the scanner)
	Args map[*types.Var]int // helper parameters -> argument index at Call
}

func c33recordLit(d *core.FuncInfo) *ast.CompositeLit {
	var lit *ast.CompositeLit
	d.InspectOwn(func(n ast.Node) bool {
		if cl, ok := n.(*ast.CompositeLit); ok && lit == nil {
			if nt, ok := d.Info().TypeOf(cl).(*types.Named); ok && d.P.ObjName(nt.Obj()) == "abft/election.RootAndSlot" {
				lit = cl
				return false
			}
		}
		return true
	})
	return lit
}

// c33decodeView finds where the key of the iterator held in itVar is decoded.
func c33decodeView(g *core.FuncInfo, itVar *types.Var) (*c33view, string) {
	var keyCalls []*core.CallSite
	for _, cs := range g.CallsTo(c33ItKey) {
		if cs.Recv() != nil && varOf(g, cs.Recv()) == itVar {
			keyCalls = append(keyCalls, cs)
		}
	}
	if len(keyCalls) != 1 {
		return nil, fmt.Sprintf("%d reads of the iterator key (one expected)", len(keyCalls))
	}
	kc := keyCalls[0]
	var keyVar *types.Var
	if v := errVarOfCall(g, kc.Call); v != nil {
		if c33singleDef(g, v) == nil {
			return nil, "the key variable is defined more than once"
		}
		keyVar = v
	}
	isKey := func(e ast.Expr) bool {
		e = ast.Unparen(e)
		return e == ast.Expr(kc.Call) || (keyVar != nil && varOf(g, e) == keyVar)
	}
	var helper *core.CallSite
	idx := -1
	for _, cs := range g.Calls() {
		fn, ok := cs.Callee.(*types.Func)
		if !ok {
			continue
		}
		if h := g.P.FuncOf(fn); h == nil || h == g {
			continue
		}
		for i, a := range cs.Call.Args {
			if isKey(a) {
				if helper != nil {
					return nil, "the key is handed to more than one helper"
				}
				helper, idx = cs, i
			}
		}
	}
	if helper == nil {
		if keyVar == nil {
			return nil, "the iterator key is neither held in a variable nor handed to a helper"
		}
		lit := c33recordLit(g)
		if lit == nil {
			return nil, "no election.RootAndSlot literal is built from the key"
		}
		return &c33view{D: g, Key: keyVar, Lit: lit}, ""
	}
	h := g.P.FuncOf(helper.Callee.(*types.Func))
	kp := h.Param(idx)
	if kp == nil || len(assignsToVar(h, kp)) != 0 {
		return nil, "the helper " + short(h.Name) + " does not keep the key in an unassigned parameter"
	}
	if c33recordLit(g) != nil {
		return nil, "records are built both in " + short(g.Name) + " and in " + short(h.Name)
	}
	lit := c33recordLit(h)
	if lit == nil {
		return nil, "the helper " + short(h.Name) + " builds no election.RootAndSlot literal"
	}
	v := &c33view{D: h, Key: kp, Lit: lit, Call: helper, Args: map[*types.Var]int{}}
	for i := range helper.Call.Args {
		if pv := h.Param(i); pv != nil {
			v.Args[pv] = i
		}
	}
	return v, ""
}

// c33yieldsRecord: is e, an expression of the scanner g, the record decoded from the current key — the
// record literal itself (possibly through a local defined once), or the call of the decoding helper,
// every return of which hands back the literal (or a local defined once as the literal and never
// stored through afterwards)?
func c33yieldsRecord(g *core.FuncInfo, view *c33view, e ast.Expr) bool {
	isLitIn := func(d *core.FuncInfo, x ast.Expr) bool {
		x = ast.Unparen(x)
		if rv := varOf(d, x); rv != nil {
			if def := c33singleDef(d, rv); def != nil && def.RHS != nil {
				x = ast.Unparen(def.RHS)
			}
			for _, a := range assignments(d) {
				root, depth := ast.Unparen(a.LHS), 0
				for {
					switch y := root.(type) {
					case *ast.SelectorExpr:
						root, depth = ast.Unparen(y.X), depth+1
						continue
					case *ast.IndexExpr:
						root, depth = ast.Unparen(y.X), depth+1
						continue
					}
					break
				}
				if depth > 0 && varOf(d, root) == rv {
					return false // a field of the decoded record is overwritten
				}
			}
		}
		cl, ok := x.(*ast.CompositeLit)
		return ok && cl == view.Lit
	}
	if view.Call == nil {
		return isLitIn(g, e)
	}
	e = ast.Unparen(e)
	if rv := varOf(g, e); rv != nil {
		if def := c33singleDef(g, rv); def != nil && def.RHS != nil {
			e = ast.Unparen(def.RHS)
		}
	}
	if e != ast.Expr(view.Call.Call) {
		return false
	}
	rets := view.D.ReturnPoints()
	if len(rets) == 0 {
		return false
	}
	for _, rp := range rets {
		r := rp.Node().(*ast.ReturnStmt)
		if len(r.Results) != 1 || !isLitIn(view.D, r.Results[0]) {
			return false
		}
	}
	return true
}

// ---------------------------------------------------------------------------
// inlined view of the roots-cache operations
//
// A use of cache.FrameRoots may be written in place (`s.cache.FrameRoots.Get(frame)`) or through a
// small accessor method of the store that does nothing else with the cache: one Get/Add/Remove whose
// key (and value) are the accessor's own unassigned parameters. An accessor call is then the cache
// operation itself, with the caller's arguments as key and value; a Get accessor hands back the
// type-asserted list together with the comma-ok flag.

type c33op struct {
	Op     string
	Site   *core.CallSite // the call in the using function (the cache call or the accessor call)
	Key    ast.Expr       // expressions of the using function
	Val    ast.Expr
	ValVar *types.Var // comma-ok variables of a Get in the using function
	OkVar  *types.Var
	Typed  bool // ValVar already holds the asserted list (the accessor asserts the type)
	Helper *core.FuncInfo
}

type c33acc struct {
	op             string
	keyIdx, valIdx int
}

// c33accessor: is h a pure accessor of the roots cache (see above)?
func c33accessor(h *core.FuncInfo) (c33acc, bool) {
	none := c33acc{}
	if h == nil || h.Recv() == nil || h.Obj == nil || len(allLits(h)) != 0 {
		return none, false
	}
	var calls []*core.CallSite
	for _, cs := range h.Calls() {
		if strings.HasPrefix(cs.Name, c33LRU) && cs.Recv() != nil && fieldNameOf(h, cs.Recv()) == c33Cache {
			calls = append(calls, cs)
		}
	}
	if len(calls) != 1 {
		return none, false
	}
	cs := calls[0]
	if cs.InDefer || cs.InGo || h.CanReach(cs.Pt, cs.Pt) {
		return none, false
	}
	// the cache field is mentioned by that call only (a local holding the field would be another mention)
	nMention := 0
	h.InspectOwn(func(n ast.Node) bool {
		if sel, ok := n.(*ast.SelectorExpr); ok {
			if s, ok := h.Info().Selections[sel]; ok {
				if v, ok := s.Obj().(*types.Var); ok && v.IsField() && h.P.FieldName(v) == c33Cache {
					nMention++
				}
			}
		}
		return true
	})
	if nMention != 1 {
		return none, false
	}
	param := func(e ast.Expr) int {
		v := varOf(h, e)
		if v == nil || len(assignsToVar(h, v)) != 0 {
			return -1
		}
		return c24paramIndex(h, v)
	}
	op := cs.Name[len(c33LRU):]
	acc := c33acc{op: op, keyIdx: -1, valIdx: -1}
	if len(cs.Call.Args) >= 1 {
		acc.keyIdx = param(cs.Call.Args[0])
	}
	if acc.keyIdx < 0 {
		return none, false
	}
	always := func() bool {
		_, skip := core.PathQuery{F: h, From: h.Entry(), Avoid: core.PointSet(cs.Pt), TargetExit: true}.Find()
		return !skip
	}
	switch op {
	case "Add":
		if len(cs.Call.Args) != 3 {
			return none, false
		}
		acc.valIdx = param(cs.Call.Args[1])
		if acc.valIdx < 0 || !always() {
			return none, false
		}
		return acc, true
	case "Remove":
		if len(cs.Call.Args) != 1 || !always() {
			return none, false
		}
		return acc, true
	case "Get":
		if len(cs.Call.Args) != 1 {
			return none, false
		}
		val, okv := c33commaOK(h, cs.Call)
		if val == nil || okv == nil || len(assignsToVar(h, val)) != 1 || len(assignsToVar(h, okv)) != 1 {
			return none, false
		}
		rets := h.ReturnPoints()
		if len(rets) == 0 {
			return none, false
		}
		isAsserted := func(e ast.Expr) bool {
			e = ast.Unparen(e)
			if lv := varOf(h, e); lv != nil && lv != val {
				if d := c33singleDef(h, lv); d != nil && d.RHS != nil {
					e = ast.Unparen(d.RHS)
				}
			}
			ta, ok := e.(*ast.TypeAssertExpr)
			return ok && varOf(h, ta.X) == val
		}
		for _, rp := range rets {
			r := rp.Node().(*ast.ReturnStmt)
			if len(r.Results) != 2 {
				return none, false
			}
			hit, _ := h.GuardedBy(rp, c33boolFact(h, okv, true))
			miss, _ := h.GuardedBy(rp, c33boolFact(h, okv, false))
			flag := ast.Unparen(r.Results[1])
			switch cv, isC := core.ConstVal(h.Info(), flag); {
			case isC && cv.Kind() == constant.Bool && constant.BoolVal(cv):
				if !hit {
					return none, false
				}
			case isC && cv.Kind() == constant.Bool:
				if !miss {
					return none, false
				}
			case varOf(h, flag) == okv:
			default:
				return none, false
			}
			if !miss && !isAsserted(r.Results[0]) {
				return none, false
			}
		}
		return acc, true
	}
	return none, false
}

// c33cacheOps lists the cache operations `op` of f, in place or through an accessor called on f's
// own receiver.
func c33cacheOps(f *core.FuncInfo, op string) []c33op {
	var out []c33op
	for _, cs := range f.Calls() {
		if cs.Name == c33LRU+op && cs.Recv() != nil && fieldNameOf(f, cs.Recv()) == c33Cache {
			o := c33op{Op: op, Site: cs}
			if len(cs.Call.Args) >= 1 {
				o.Key = cs.Call.Args[0]
			}
			if op == "Add" && len(cs.Call.Args) >= 2 {
				o.Val = cs.Call.Args[1]
			}
			if op == "Get" {
				o.ValVar, o.OkVar = c33commaOK(f, cs.Call)
			}
			out = append(out, o)
			continue
		}
		fn, ok := cs.Callee.(*types.Func)
		if !ok || cs.InGo || cs.InDefer || f.Recv() == nil || cs.Recv() == nil || varOf(f, cs.Recv()) != f.Recv() {
			continue
		}
		h := f.P.FuncOf(fn)
		if h == nil || h == f {
			continue
		}
		acc, isAcc := c33accessor(h)
		if !isAcc || acc.op != op || acc.keyIdx >= len(cs.Call.Args) || acc.valIdx >= len(cs.Call.Args) {
			continue
		}
		o := c33op{Op: op, Site: cs, Key: cs.Call.Args[acc.keyIdx], Helper: h}
		if acc.valIdx >= 0 {
			o.Val = cs.Call.Args[acc.valIdx]
		}
		if op == "Get" {
			o.ValVar, o.OkVar = c33commaOK(f, cs.Call)
			o.Typed = true
		}
		out = append(out, o)
	}
	return out
}

func c33opPoints(ops []c33op) []core.Point {
	var out []core.Point
	for _, o := range ops {
		out = append(out, o.Site.Pt)
	}
	return out
}
