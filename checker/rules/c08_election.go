package rules

import (
	"go/ast"
	"go/token"
	"go/types"

	"lachk/core"
)

// ---------------------------------------------------------------------------
// C08.election: at every boundary the in-memory election works with the persisted validators.
//
// A restarted instance builds its election from the persisted epoch state (Bootstrap:
// election.New(store.GetValidators(), …)). The running instance is indistinguishable only if, whenever
// a function that owns the election (creates or resets it) persists a new epoch state — directly or in
// a callee — it also (re)sets the election with those validators before it returns successfully, and
// never resets the election with validators that are not (yet) the persisted ones. Decided per owner
// function, with a may-summary for "writes the epoch state" that does not descend into other owners
// (they are checked on their own).

// c08persistedRecord: the validators variable that the epoch-state record handed to SetEpochState holds
// at the call w of f (record projection, for a write that is spelled in place instead of in a helper
// that takes the validators as a parameter): the record is built locally (c09structAt: literal and/or
// field stores) or is a local copy of the stored state (`es := *store.GetEpochState()`) whose Validators
// field is stored exactly once, with a validators variable, on every path to the call, and neither the
// record nor that variable is assigned between the store and the call. nil when this is not decided.
func c08persistedRecord(f *core.FuncInfo, w *core.CallSite, isValidators func(types.Type) bool) *types.Var {
	const fld = "abft.EpochState.Validators"
	if f == nil || w == nil || len(w.Call.Args) != 1 || w.Pt.B == nil {
		return nil
	}
	arg := w.Call.Args[0]
	if fields, _, built := c09structAt(f, arg, w.Pt); built {
		var out *types.Var
		for _, fv := range fields[fld] {
			if fv.Unknown || fv.Zero || fv.E == nil {
				return nil
			}
			v := varOf(f, fv.E)
			if v == nil || !isValidators(v.Type()) || (out != nil && out != v) {
				return nil
			}
			out = v
		}
		return out
	}
	e := ast.Unparen(arg)
	if u, ok := e.(*ast.UnaryExpr); ok && u.Op == token.AND {
		e = ast.Unparen(u.X)
	}
	x := varOfRaw(f, e)
	if x == nil || x.IsField() || f.Body == nil || !(f.Body.Pos() <= x.Pos() && x.Pos() < f.Body.End()) {
		return nil
	}
	var stores []assignment
	for _, a := range assignments(f) {
		sel, ok := ast.Unparen(a.LHS).(*ast.SelectorExpr)
		if !ok || varOfRaw(f, sel.X) != x || fieldNameOf(f, sel) != fld {
			continue
		}
		stores = append(stores, a)
	}
	if len(stores) != 1 {
		return nil
	}
	s := stores[0]
	if s.RHS == nil || s.Tok != token.ASSIGN || s.Pt.B == nil {
		return nil
	}
	v := varOf(f, s.RHS)
	if v == nil || v.IsField() || !isValidators(v.Type()) {
		return nil
	}
	if ok, _ := f.MustPassBefore([]core.Point{s.Pt}, w.Pt); !ok {
		return nil
	}
	for _, y := range []*types.Var{x, v} {
		for _, a := range assignsToVar(f, y) {
			if f.CanReach(s.Pt, a.Pt) && f.CanReach(a.Pt, w.Pt) {
				return nil
			}
		}
	}
	// the record is not written by a nested literal
	for _, l := range allLits(f) {
		for _, a := range assignments(l) {
			root := ast.Unparen(a.LHS)
			for {
				if sx, ok := root.(*ast.SelectorExpr); ok {
					root = ast.Unparen(sx.X)
					continue
				}
				break
			}
			if varOfRaw(l, root) == x {
				return nil
			}
		}
	}
	return v
}

func c08Election(c *core.Ctx) {
	c.Clause("C08.election", func() {
		p := c.P
		const setES = "abft.Store.SetEpochState"
		c.Fn(setES)
		isElec := func(cs *core.CallSite) bool {
			return cs.Name == "abft/election.Election.Reset" || cs.Name == "abft/election.New"
		}
		var all []*core.FuncInfo
		for _, g := range p.FuncsInPkg("abft") {
			all = append(all, g)
			all = append(all, allLits(g)...)
		}
		// election sites of a function: the (re)sets it performs in place, plus calls of a helper on its own
		// receiver that (re)sets the election on every path on which no step failed with validators that
		// are the helper's parameter — bound to the caller's argument (Val is an expression of the caller)
		type elecSite struct {
			Pt   core.Point
			Pos  token.Pos
			Name string
			Val  ast.Expr
			New  bool
		}
		sitesOf := map[*core.FuncInfo][]elecSite{}
		for _, g := range all {
			for _, st := range c09effectSites(g, isElec, 2) {
				in := st.Inner()
				es := elecSite{Pt: st.Outer().Pt, Pos: st.Outer().Pos(), Name: in.Name, New: in.Name == "abft/election.New"}
				if len(st.Chain) == 1 {
					if len(in.Call.Args) > 0 {
						es.Val = in.Call.Args[0]
					}
					sitesOf[g] = append(sitesOf[g], es)
					continue
				}
				if vg, varg := c08arg(st, 0); vg == g && varg != nil {
					es.Val = varg
					sitesOf[g] = append(sitesOf[g], es)
				}
			}
		}
		owner := map[*core.FuncInfo]bool{}
		for _, g := range all {
			if len(sitesOf[g]) > 0 {
				owner[g] = true
			}
		}
		memo := map[*core.FuncInfo]int{}
		var mayWrite func(g *core.FuncInfo, d int) bool
		mayWrite = func(g *core.FuncInfo, d int) bool {
			switch memo[g] {
			case 1:
				return true
			case 2, 3:
				return false
			}
			memo[g] = 3
			ok := false
			for _, cs := range g.Calls() {
				if cs.Name == setES {
					ok = true
					break
				}
				if d <= 0 {
					continue
				}
				if fn, isF := cs.Callee.(*types.Func); isF {
					if h := p.FuncOf(fn); h != nil && h != g && !owner[h] && mayWrite(h, d-1) {
						ok = true
						break
					}
				}
			}
			if !ok {
				for _, l := range g.Lits() {
					if mayWrite(l, d) {
						ok = true
					}
				}
			}
			if ok {
				memo[g] = 1
			} else {
				memo[g] = 2
			}
			return ok
		}
		isValidators := func(t types.Type) bool {
			if pt, ok := t.(*types.Pointer); ok {
				t = pt.Elem()
			}
			nt, ok := t.(*types.Named)
			return ok && p.ObjName(nt.Obj()) == "inter/pos.Validators"
		}
		callers := map[*core.FuncInfo][]*core.FuncInfo{}
		for _, g := range all {
			for _, cs := range g.Calls() {
				if fn, isF := cs.Callee.(*types.Func); isF {
					if h := p.FuncOf(fn); h != nil && h != g {
						callers[h] = append(callers[h], g)
					}
				}
			}
		}
		// the validators variable a call in g persists: an argument of validators type of SetEpochState or
		// of a non-owner callee that may write the epoch state
		persistedIn := func(g *core.FuncInfo, w *core.CallSite) *types.Var {
			isW := w.Name == setES
			if !isW {
				if fn, isF := w.Callee.(*types.Func); isF {
					if h := p.FuncOf(fn); h != nil && h != g && !owner[h] && mayWrite(h, 2) {
						isW = true
					}
				}
			}
			if !isW {
				return nil
			}
			for _, a := range w.Call.Args {
				if v := varOf(g, a); v != nil && isValidators(v.Type()) {
					return v
				}
			}
			if w.Name == setES {
				return c08persistedRecord(g, w, isValidators)
			}
			return nil
		}
		// persistedByCallers: every call of f passes as argument k a variable that the caller has persisted
		// on every path to the call (or, bounded, its own unassigned parameter under the same condition)
		var persistedByCallers func(f *core.FuncInfo, k int, depth int) bool
		persistedByCallers = func(f *core.FuncInfo, k int, depth int) bool {
			n := 0
			seen := map[*core.FuncInfo]bool{}
			for _, cl := range callers[f] {
				if seen[cl] {
					continue
				}
				seen[cl] = true
				for _, cs := range cl.Calls() {
					fn, isF := cs.Callee.(*types.Func)
					if !isF || p.FuncOf(fn) != f {
						continue
					}
					n++
					if k >= len(cs.Call.Args) {
						return false
					}
					av := varOf(cl, cs.Call.Args[k])
					if av == nil {
						return false
					}
					var before []core.Point
					for _, w := range cl.Calls() {
						if persistedIn(cl, w) == av {
							before = append(before, w.Pt)
						}
					}
					okC := len(before) > 0
					if okC {
						okC, _ = cl.MustPassBefore(before, cs.Pt)
						for _, a := range assignsToVar(cl, av) {
							for _, b := range before {
								if cl.CanReach(b, a.Pt) && cl.CanReach(a.Pt, cs.Pt) {
									okC = false // reassigned between the write and the call
								}
							}
						}
					}
					if !okC && depth > 0 && len(assignsToVar(cl, av)) == 0 && c24paramIndex(cl, av) >= 0 {
						okC = persistedByCallers(cl, c24paramIndex(cl, av), depth-1)
					}
					if !okC {
						return false
					}
				}
			}
			return n > 0
		}
		nElec, nNew := 0, 0
		for _, f := range all {
			if !owner[f] {
				continue
			}
			name := short(f.Name)
			elec := sitesOf[f]
			var writes []*core.CallSite
			for _, cs := range f.Calls() {
				if cs.Name == setES {
					writes = append(writes, cs)
					continue
				}
				if fn, isF := cs.Callee.(*types.Func); isF {
					if h := p.FuncOf(fn); h != nil && h != f && !owner[h] && mayWrite(h, 2) {
						writes = append(writes, cs)
					}
				}
			}
			// the validators a write site persists, when it is handed them as a variable
			persisted := func(w *core.CallSite) *types.Var {
				for _, a := range w.Call.Args {
					if v := varOf(f, a); v != nil && isValidators(v.Type()) {
						return v
					}
				}
				if w.Name == setES {
					// the write is spelled in place: the validators are a field of the record handed over
					return c08persistedRecord(f, w, isValidators)
				}
				return nil
			}
			// where the validators argument of an election site is read from the store (the point of the read)
			storeRead := func(src ast.Expr) (core.Point, bool) {
				if src == nil {
					return core.Point{}, false
				}
				e := resolveLocal(f, src)
				var call *ast.CallExpr
				if cl, ok := e.(*ast.CallExpr); ok && calleeName(f, cl) == "abft.Store.GetValidators" {
					call = cl
				}
				if sel, ok := e.(*ast.SelectorExpr); ok && fieldNameOf(f, sel) == "abft.EpochState.Validators" {
					x := ast.Unparen(sel.X)
					if st, isStar := x.(*ast.StarExpr); isStar {
						x = ast.Unparen(st.X)
					}
					if cl, ok := x.(*ast.CallExpr); ok && calleeName(f, cl) == "abft.Store.GetEpochState" {
						call = cl
					}
				}
				if call == nil {
					return core.Point{}, false
				}
				return f.PointOf(call)
			}
			errEdge := f.GuardEdges(func(ft core.Fact) bool {
				cm, ok := core.NormCmp(ft)
				if !ok || cm.R == nil || cm.Op != token.NEQ {
					return false
				}
				l, r := cm.L, cm.R
				if core.IsNil(f.Info(), l) {
					l, r = r, l
				}
				if !core.IsNil(f.Info(), r) {
					return false
				}
				t := f.Info().TypeOf(l)
				return t != nil && types.Identical(t, types.Universe.Lookup("error").Type())
			})
			// the variables handed to a write site are recognised by identity, not looked through
			var keep []*types.Var
			for _, w := range writes {
				if pv := persisted(w); pv != nil {
					keep = append(keep, pv)
				}
			}
			for _, w := range writes {
				pv := persisted(w)
				var agree []core.Point
				for _, r := range elec {
					if r.Val == nil {
						continue
					}
					// the validators handed to the election may be held in a local that is assigned on several
					// branches: every definition that can reach the site on a run through w has to agree
					okAll, n := true, 0
					for _, d := range c08reaching(f, r.Val, r.Pt, keep...) {
						if !c08sameRun(f, d, w.Pt) {
							continue
						}
						n++
						if rp, ok := storeRead(d.E); ok {
							// the read sees what w persisted only if it cannot precede w
							if !(rp == w.Pt || !f.CanReach(rp, w.Pt)) {
								okAll = false
							}
							continue
						}
						v := varOf(f, d.E)
						if v == nil || v != pv {
							okAll = false
							continue
						}
						// not reassigned between the write and the point where the value is taken (either order)
						for _, a := range assignsToVar(f, v) {
							if f.CanReach(w.Pt, a.Pt) && f.CanReach(a.Pt, d.Pt) || f.CanReach(d.Pt, a.Pt) && f.CanReach(a.Pt, w.Pt) {
								okAll = false
							}
						}
					}
					if okAll && n > 0 {
						agree = append(agree, r.Pt)
					}
				}
				wit, found := core.PathQuery{F: f, From: w.Pt, FromAfter: true, Avoid: core.PointSet(agree...), AvoidEdge: errEdge, TargetExit: true}.Find()
				c.Check(!found, name+"|election is reset with the validators persisted by "+short(w.Name), "T3 PostDominates", w.Pos(),
					"after the epoch state is persisted every successful path (re)sets the election with those validators (the persisted variable, or a store read that follows the write)",
					name+" persists a new epoch state ("+short(w.Name)+") and can return without resetting the election with it: the running instance keeps electing with the previous validators while a restarted one builds the election from the persisted ones; path "+f.DescribePath(wit))
			}
			for _, r := range elec {
				if r.New {
					nNew++
				} else {
					nElec++
				}
				if r.Val == nil {
					continue
				}
				for _, d := range c08reaching(f, r.Val, r.Pt, keep...) {
					if _, ok := storeRead(d.E); ok {
						continue // decided from the write's side above
					}
					v := varOf(f, d.E)
					if v == nil {
						c.Undecided(name+"|validators of "+short(r.Name), "provenance", r.Pos, "the validators argument "+exprStr(r.Val)+" (value "+exprStr(d.E)+") is neither read from the store nor a variable")
						continue
					}
					var before []core.Point
					for _, w := range writes {
						if persisted(w) == v {
							before = append(before, w.Pt)
						}
					}
					ok := len(before) > 0
					if !ok && d.Direct && len(assignsToVar(f, v)) == 0 && c24paramIndex(f, v) >= 0 {
						// the validators are the function's own parameter and it persists nothing itself: every
						// caller must have persisted what it passes before the call
						ok = persistedByCallers(f, c24paramIndex(f, v), 2)
						c.Check(ok, name+"|validators given to "+short(r.Name)+" were persisted first", "T2 Dominates (callers)", r.Pos, "every caller stores an epoch state holding the validators it passes before it calls "+name, name+" resets the election with its validators parameter, and some caller passes validators it has not persisted before the call: a restart at the next boundary builds a different election")
						continue
					}
					if ok {
						// the write precedes the point where the value is taken, or lies between it and the site
						ok, _ = f.MustPassBefore(before, d.Pt)
						if !ok && d.Pt != r.Pt {
							ok, _ = f.MustPassBetween(d.Pt, before, r.Pt)
						}
					}
					c.Check(ok, name+"|validators given to "+short(r.Name)+" were persisted first", "T2 Dominates", r.Pos, "the epoch state holding these validators is stored before the election is reset with them", name+" resets the election with validators that are not the persisted ones at that point: a restart at the next boundary builds a different election")
				}
			}
		}
		// a function outside the store that may persist an epoch state without owning the election must be
		// reached only from functions that are judged above (its callers, transitively): an entry point
		// that persists validators and never touches the election leaves the running election on the old set
		for _, g := range all {
			if owner[g] || g.Obj == nil || g.RecvTypeName() == "abft.Store" || !mayWrite(g, 2) {
				continue
			}
			covered := false
			seenC := map[*core.FuncInfo]bool{g: true}
			work := []*core.FuncInfo{g}
			for len(work) > 0 && !covered {
				h := work[0]
				work = work[1:]
				for _, cl := range callers[h] {
					top := cl
					for top.Parent != nil {
						top = top.Parent
					}
					if owner[cl] || owner[top] {
						covered = true
						break
					}
					if !seenC[cl] {
						seenC[cl] = true
						work = append(work, cl)
					}
				}
			}
			c.Check(covered, short(g.Name)+"|persists an epoch state under an owner of the election", "T6 WhoMayCall", g.Pos(), "reached only below a function that (re)sets the election", short(g.Name)+" can persist a new epoch state (validators) but neither it nor any caller resets the election: the running instance keeps electing with the previous validators while a restarted one builds the election from the persisted ones")
		}
		// vacuity only: one site of each role (construction on restart, reset while running)
		c.ExpectAtLeast("election construction sites", nNew, 1)
		c.ExpectAtLeast("election reset sites", nElec, 1)
	})
}
