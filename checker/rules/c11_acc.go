package rules

import (
	"go/ast"
	"go/token"
	"go/types"
	"regexp"

	"lachk/core"
)

var c11InlineSuffix = regexp.MustCompile(`_i[0-9]+$`)

// c11PlainName: the name of a local as written in the source (a local of a looked-through helper carries
// the suffix of its inline in a view).
func c11PlainName(v *types.Var) string {
	return c11InlineSuffix.ReplaceAllString(v.Name(), "")
}

// Accumulation view (C11).
//
// "The running total is total_old + x and a wrap is detected" can be spelled in several ways that are the
// same program:
//
//	before := total; total += x; if total < before { panic }            (check after the store)
//	before := total; r := before + x; if r < before { panic }; total = r  (checked sum, then stored)
//	r := total + x; if r < total { panic }; total = r                     (no snapshot variable at all)
//
// The second and third forms are what an "overflow-checked add" helper looks like once it is looked through
// (inlined view). c11AccOf recognises all of them as one accumulation into the location and names its
// parts; c11CheckWrap decides the wrap check on whichever part holds the sum at the time of the comparison.

// c11Acc is one accumulation L = L_old + x.
type c11Acc struct {
	W         assignment // the store into L
	Addend    ast.Expr   // x (nil for L++)
	Snap      *types.Var // single-definition local standing for L_old in the sum (nil: L itself is read there)
	SnapDef   assignment
	Holder    *types.Var // single-definition local holding the sum before it is stored (nil: summed in the store)
	HolderDef assignment
}

// c11DefOf: the unique defining assignment of a local (no other assignment, none in a function literal).
func c11DefOf(f *core.FuncInfo, v *types.Var) (ast.Expr, assignment) {
	d := c11SingleDef(f, v)
	if d == nil {
		return nil, assignment{}
	}
	for _, l := range allLits(f) {
		if len(assignsToVar(l, v)) > 0 {
			return nil, assignment{}
		}
	}
	return d, assignsToVar(f, v)[0]
}

// c11Unwritten: on no path from `from` to `to` (same iteration) is one of the writes other than `to` executed.
func c11Unwritten(f *core.FuncInfo, from, to core.Point, writes []assignment) bool {
	for _, o := range writes {
		if o.Pt == to {
			continue
		}
		if _, found := (core.PathQuery{F: f, From: from, FromAfter: true, Target: core.PointSet(o.Pt), Avoid: core.PointSet(to)}).Find(); found {
			// o lies between only if `to` is still reachable from o without passing `from` again
			if _, f2 := (core.PathQuery{F: f, From: o.Pt, FromAfter: true, Target: core.PointSet(to), Avoid: core.PointSet(from)}).Find(); f2 {
				return false
			}
		}
	}
	return true
}

// c11AccOf decides whether the store a (whose target satisfies isL) is an accumulation L = L_old + x, where
// the sum may first sit in a single-definition local and L_old may be read through a single-definition
// snapshot local, provided L is not written between the point where L_old is read and the store (writes:
// every write of L or of a variable containing it). nil if a is not of that form.
func c11AccOf(f *core.FuncInfo, a assignment, isL func(ast.Expr) bool, writes []assignment) *c11Acc {
	if x := c11Addend(a, isL); x != nil {
		return &c11Acc{W: a, Addend: x}
	}
	if a.Tok != token.ASSIGN || a.RHS == nil {
		return nil
	}
	acc := &c11Acc{W: a}
	e := ast.Unparen(a.RHS)
	for depth := 0; depth < 3; depth++ {
		v := varOf(f, e)
		if v == nil {
			break
		}
		d, def := c11DefOf(f, v)
		if d == nil {
			return nil
		}
		acc.Holder, acc.HolderDef = v, def
		e = ast.Unparen(d)
	}
	be, ok := e.(*ast.BinaryExpr)
	if !ok || be.Op != token.ADD {
		return nil
	}
	old := func(x ast.Expr) (bool, *types.Var, assignment) {
		if isL(x) {
			return true, nil, assignment{}
		}
		if v := varOf(f, x); v != nil {
			if d, def := c11DefOf(f, v); d != nil && isL(d) {
				return true, v, def
			}
		}
		return false, nil, assignment{}
	}
	if ok, s, def := old(be.X); ok {
		acc.Addend, acc.Snap, acc.SnapDef = be.Y, s, def
	} else if ok, s, def := old(be.Y); ok {
		acc.Addend, acc.Snap, acc.SnapDef = be.X, s, def
	} else {
		return nil
	}
	// the value read as L_old is the value L has when the store executes
	read := a.Pt
	if acc.Holder != nil {
		read = acc.HolderDef.Pt
	}
	if acc.Snap != nil {
		if acc.Holder != nil {
			if ok, _ := precedesLocally(f, []core.Point{acc.SnapDef.Pt}, acc.HolderDef.Pt); !ok {
				return nil
			}
		}
		read = acc.SnapDef.Pt
	}
	if read != a.Pt {
		if ok, _ := precedesLocally(f, []core.Point{read}, a.Pt); !ok {
			return nil
		}
		if acc.Holder != nil {
			if ok, _ := precedesLocally(f, []core.Point{acc.HolderDef.Pt}, a.Pt); !ok {
				return nil
			}
		}
		if !c11Unwritten(f, read, a.Pt, writes) {
			return nil
		}
	}
	return acc
}

// c11CheckWrap: the accumulation total = total_old + x is followed, before the next accumulation, a new
// snapshot or any return, by the edge "old <= sum", where old is a local copied from the total before the
// accumulation (or, while the sum still sits in a local, the not yet overwritten total itself) and sum is
// the total after the store or the local holding the sum before it is stored.
func c11CheckWrap(c *core.Ctx, calc *core.FuncInfo, V *types.Var, acc *c11Acc, writes []assignment) {
	const key = "running sum wrap check"
	w := acc.W
	isTot := func(e ast.Expr) bool { return c11IsPath(calc, e, V, c11FTotal) }
	var best string
	// one attempt: from the point where the sum comes into being, every path to a return, to the next
	// accumulation or to a point where `old`/`sum` stop denoting those values takes the guard edge
	attempt := func(from core.Point, isSum, isOld func(ast.Expr) bool, stale []core.Point, oldName, sumName string) bool {
		namer := func(e ast.Expr) string {
			switch {
			case isSum(e):
				return "total"
			case isOld(e):
				return "before"
			}
			return ""
		}
		want := core.ParseLinCmp("before - total <= 0")
		guard := calc.GuardEdges(func(ft core.Fact) bool {
			lc, ok := core.NormLinCmp(calc.Info(), ft, namer)
			return ok && lc.Equal(want)
		})
		wit, toExit := core.PathQuery{F: calc, From: from, FromAfter: true, AvoidEdge: guard, TargetExit: true}.Find()
		wit2, again := core.PathQuery{F: calc, From: from, FromAfter: true, AvoidEdge: guard, Target: core.PointSet(append([]core.Point{from}, stale...)...)}.Find()
		switch {
		case toExit:
			best = "a wrapped running sum can reach a return without the check " + sumName + " >= " + oldName + ": path " + calc.DescribePath(wit)
			return false
		case again:
			best = "a wrapped running sum can enter the next accumulation without the check " + sumName + " >= " + oldName + ": path " + calc.DescribePath(wit2)
			return false
		}
		c.Pass(key, "T4 GuardedBy (after)", "after the sum "+sumName+" = total + w is formed every path to the next iteration or to a return takes the edge "+oldName+" <= "+sumName+" ("+oldName+" = total before the addition): an unsigned wrap is detected exactly and panics")
		return true
	}
	isVar := func(v *types.Var) func(ast.Expr) bool {
		return func(e ast.Expr) bool { return v != nil && varOf(calc, e) == v }
	}
	// candidate snapshot variables: locals with a single definition "b := total"
	for _, a := range assignments(calc) {
		b := varOf(calc, a.LHS)
		if b == nil || b == V || a.RHS == nil || !isTot(a.RHS) {
			continue
		}
		if len(assignsToVar(calc, b)) != 1 {
			best = "the snapshot variable " + b.Name() + " is assigned more than once"
			continue
		}
		// snapshot precedes the accumulation in the same iteration, with no other write of the total in between
		if ok, _ := precedesLocally(calc, []core.Point{a.Pt}, w.Pt); !ok {
			best = "the snapshot " + b.Name() + " is not taken before every accumulation"
			continue
		}
		if !c11Unwritten(calc, a.Pt, w.Pt, writes) {
			best = "the total is written between the snapshot " + b.Name() + " and the accumulation"
			continue
		}
		// the sum is in the total once it is stored ...
		if attempt(w.Pt, isTot, isVar(b), []core.Point{a.Pt}, c11PlainName(b), "total") {
			return
		}
		// ... and in the local it was computed into from there on
		if acc.Holder != nil {
			if ok, _ := precedesLocally(calc, []core.Point{a.Pt}, acc.HolderDef.Pt); ok {
				if attempt(acc.HolderDef.Pt, isVar(acc.Holder), isVar(b), []core.Point{a.Pt}, c11PlainName(b), c11PlainName(acc.Holder)) {
					return
				}
			}
		}
	}
	// no snapshot variable: sum := total + x is compared with the total itself before it is stored
	if acc.Holder != nil && acc.Snap == nil {
		if attempt(acc.HolderDef.Pt, isVar(acc.Holder), isTot, pointsOfAssign(writes), "total", c11PlainName(acc.Holder)) {
			return
		}
	}
	if best == "" {
		c.Undecided(key, "T4 GuardedBy (after)", w.Stmt.Pos(), "no snapshot of the total before the accumulation was found (wrap-check idiom not recognised): weights summing to 2^32 or more would wrap to a small total that passes the bound check")
		return
	}
	c.Fail(key, "T4 GuardedBy (after)", w.Stmt.Pos(), best+": weights summing to 2^32 or more can wrap to a small total that passes the bound check, and the quorum is then computed from a wrong total")
}
