package rules

import (
	"go/ast"
	"go/token"
	"go/types"
	"math/big"

	"lachk/core"
)

// c24subst rebuilds an integer expression with locals that hold an unchanged value (single definition,
// nothing they read is stored to afterwards: c09snapshot) replaced by their definitions, so that
// `skip := len(p) + len(s); key[skip:]` has the same linear form as `key[len(p)+len(s):]`. Leaves are
// the original nodes (type information stays available for them); only +, -, *, unary +/- and integer
// conversions are rebuilt.
func c24subst(f *core.FuncInfo, e ast.Expr, depth int) ast.Expr {
	e = ast.Unparen(e)
	if depth > 6 {
		return e
	}
	switch x := e.(type) {
	case *ast.Ident:
		if d := c09snapshot(f, x); d != ast.Expr(x) {
			return c24subst(f, d, depth+1)
		}
		// a local holding the result of a pure length helper (`skip := headLen(prefix)`): the helper's
		// body, with the arguments put in, must itself be stable between the definition and the use
		if lhsIdents(f)[x] {
			return e
		}
		v, _ := f.Info().ObjectOf(x).(*types.Var)
		if d := singleDef(f, v); d != nil {
			if call, isCall := ast.Unparen(d).(*ast.CallExpr); isCall {
				if in := c24inlinePure(f, call); in != nil {
					pt, own := c09defPoint(f, v, d)
					at, hasAt := f.PointOf(x)
					if own && c09stable(f, in, pt, at, hasAt) {
						return c24subst(f, in, depth+1)
					}
				}
			}
		}
	case *ast.BinaryExpr:
		switch x.Op {
		case token.ADD, token.SUB, token.MUL:
			l, r := c24subst(f, x.X, depth+1), c24subst(f, x.Y, depth+1)
			if l != ast.Unparen(x.X) || r != ast.Unparen(x.Y) {
				return &ast.BinaryExpr{X: l, OpPos: x.OpPos, Op: x.Op, Y: r}
			}
		}
	case *ast.UnaryExpr:
		if x.Op == token.SUB || x.Op == token.ADD {
			if in := c24subst(f, x.X, depth+1); in != ast.Unparen(x.X) {
				return &ast.UnaryExpr{OpPos: x.OpPos, Op: x.Op, X: in}
			}
		}
	case *ast.CallExpr:
		if tv, ok := f.Info().Types[x.Fun]; ok && tv.IsType() && len(x.Args) == 1 {
			if b, isB := tv.Type.Underlying().(*types.Basic); isB && b.Info()&types.IsInteger != 0 {
				if in := c24subst(f, x.Args[0], depth+1); in != ast.Unparen(x.Args[0]) {
					return &ast.CallExpr{Fun: x.Fun, Lparen: x.Lparen, Args: []ast.Expr{in}, Rparen: x.Rparen}
				}
			}
			return e
		}
		// a pure length helper called in place (`key[headLen(prefix):]`)
		if in := c24inlinePure(f, x); in != nil {
			return c24subst(f, in, depth+1)
		}
	}
	return e
}

// c24inlinePure returns the value of a call of a small pure helper of the same package as an
// expression over the caller's operands: the helper's body is a single `return <expr>` built from its
// parameters, package-level names, literals, + - *, len/cap and integer conversions
// (`func headLen(p []byte) int { return len(p) + len(separator) }`), and the arguments are plain
// identifiers. Leaves are original nodes (of the caller or of the helper), so type information stays
// available; nil when the call is anything else.
func c24inlinePure(f *core.FuncInfo, call *ast.CallExpr) ast.Expr {
	obj, _ := f.P.ResolveCallee(f.Info(), call)
	fn, ok := obj.(*types.Func)
	if !ok {
		return nil
	}
	g := f.P.FuncOf(fn)
	if g == nil || g == f || g.Pkg != f.Pkg || g.Recv() != nil || g.Body == nil || len(g.Body.List) != 1 || g.Type == nil || call.Ellipsis.IsValid() {
		return nil
	}
	ret, ok := g.Body.List[0].(*ast.ReturnStmt)
	if !ok || len(ret.Results) != 1 {
		return nil
	}
	env := map[*types.Var]ast.Expr{}
	n := 0
	if g.Type.Params != nil {
		for _, fl := range g.Type.Params.List {
			if len(fl.Names) == 0 {
				return nil
			}
			for _, nm := range fl.Names {
				pv, _ := g.Info().Defs[nm].(*types.Var)
				if pv == nil || n >= len(call.Args) {
					return nil
				}
				if _, isID := ast.Unparen(call.Args[n]).(*ast.Ident); !isID {
					return nil
				}
				env[pv] = ast.Unparen(call.Args[n])
				n++
			}
		}
	}
	if n != len(call.Args) {
		return nil
	}
	return c24rebuild(g, ret.Results[0], env, 0)
}

func c24rebuild(g *core.FuncInfo, e ast.Expr, env map[*types.Var]ast.Expr, depth int) ast.Expr {
	e = ast.Unparen(e)
	if depth > 8 {
		return nil
	}
	switch x := e.(type) {
	case *ast.BasicLit:
		return x
	case *ast.Ident:
		switch o := g.Info().ObjectOf(x).(type) {
		case *types.Const:
			return x
		case *types.Var:
			if r, ok := env[o]; ok {
				return r
			}
			if o.Pkg() != nil && o.Parent() == o.Pkg().Scope() {
				return x
			}
		}
		return nil
	case *ast.BinaryExpr:
		switch x.Op {
		case token.ADD, token.SUB, token.MUL:
			l, r := c24rebuild(g, x.X, env, depth+1), c24rebuild(g, x.Y, env, depth+1)
			if l == nil || r == nil {
				return nil
			}
			return &ast.BinaryExpr{X: l, OpPos: x.OpPos, Op: x.Op, Y: r}
		}
	case *ast.UnaryExpr:
		if x.Op == token.SUB || x.Op == token.ADD {
			if in := c24rebuild(g, x.X, env, depth+1); in != nil {
				return &ast.UnaryExpr{OpPos: x.OpPos, Op: x.Op, X: in}
			}
		}
	case *ast.CallExpr:
		if len(x.Args) != 1 || x.Ellipsis.IsValid() {
			return nil
		}
		okFun := false
		if tv, ok := g.Info().Types[x.Fun]; ok && tv.IsType() {
			if b, isB := tv.Type.Underlying().(*types.Basic); isB && b.Info()&types.IsInteger != 0 {
				okFun = true
			}
		} else if b, isB := g.ObjOf(x.Fun).(*types.Builtin); isB && (b.Name() == "len" || b.Name() == "cap") {
			okFun = true
		}
		if !okFun {
			return nil
		}
		if in := c24rebuild(g, x.Args[0], env, depth+1); in != nil {
			return &ast.CallExpr{Fun: x.Fun, Lparen: x.Lparen, Args: []ast.Expr{in}, Rparen: x.Rparen}
		}
	}
	return nil
}

// c24linOrder normalises an ordered integer fact (<, <=, >, >= in any orientation, with negation) to
// L - R (+1) <= 0 after c24subst; ok=false for equalities and non-integer comparisons.
func c24linOrder(f *core.FuncInfo, ft core.Fact, namer core.AtomNamer) (core.LinCmp, bool) {
	cm, ok := core.NormCmp(ft)
	if !ok || cm.R == nil || (cm.Op != token.LSS && cm.Op != token.LEQ) {
		return core.LinCmp{}, false
	}
	isInt := func(e ast.Expr) bool {
		t := f.Info().TypeOf(e)
		if t == nil {
			return false
		}
		b, isB := t.Underlying().(*types.Basic)
		return isB && b.Info()&types.IsInteger != 0
	}
	if !isInt(cm.L) && !isInt(cm.R) {
		return core.LinCmp{}, false
	}
	diff := &ast.BinaryExpr{X: c24subst(f, cm.L, 0), Op: token.SUB, Y: c24subst(f, cm.R, 0)}
	lin := core.Linearize(f.Info(), diff, namer)
	if cm.Op == token.LSS {
		lin.C.Add(lin.C, big.NewInt(1))
	}
	return core.LinCmp{Form: lin, Op: "<="}, true
}
