package rules

import (
	"go/ast"
	"go/token"
	"go/types"
	"math/big"

	"lachk/core"
)

// c24subst rebuilds an integer expression with locals that hold an unchanged value (single definition,
// nothing they read is stored to afterwards: c09snapshot) replaced by their definitions, so that
// `skip := len(p) + len(s); key[skip:]` has the same linear form as `key[len(p)+len(s):]`. Leaves are
// the original nodes (type information stays available for them); only +, -, *, unary +/- and integer
// conversions are rebuilt.
func c24subst(f *core.FuncInfo, e ast.Expr, depth int) ast.Expr {
	e = ast.Unparen(e)
	if depth > 6 {
		return e
	}
	switch x := e.(type) {
	case *ast.Ident:
		if d := c09snapshot(f, x); d != ast.Expr(x) {
			return c24subst(f, d, depth+1)
		}
	case *ast.BinaryExpr:
		switch x.Op {
		case token.ADD, token.SUB, token.MUL:
			l, r := c24subst(f, x.X, depth+1), c24subst(f, x.Y, depth+1)
			if l != ast.Unparen(x.X) || r != ast.Unparen(x.Y) {
				return &ast.BinaryExpr{X: l, OpPos: x.OpPos, Op: x.Op, Y: r}
			}
		}
	case *ast.UnaryExpr:
		if x.Op == token.SUB || x.Op == token.ADD {
			if in := c24subst(f, x.X, depth+1); in != ast.Unparen(x.X) {
				return &ast.UnaryExpr{OpPos: x.OpPos, Op: x.Op, X: in}
			}
		}
	case *ast.CallExpr:
		if tv, ok := f.Info().Types[x.Fun]; ok && tv.IsType() && len(x.Args) == 1 {
			if b, isB := tv.Type.Underlying().(*types.Basic); isB && b.Info()&types.IsInteger != 0 {
				if in := c24subst(f, x.Args[0], depth+1); in != ast.Unparen(x.Args[0]) {
					return &ast.CallExpr{Fun: x.Fun, Lparen: x.Lparen, Args: []ast.Expr{in}, Rparen: x.Rparen}
				}
			}
		}
	}
	return e
}

// c24linOrder normalises an ordered integer fact (<, <=, >, >= in any orientation, with negation) to
// L - R (+1) <= 0 after c24subst; ok=false for equalities and non-integer comparisons.
func c24linOrder(f *core.FuncInfo, ft core.Fact, namer core.AtomNamer) (core.LinCmp, bool) {
	cm, ok := core.NormCmp(ft)
	if !ok || cm.R == nil || (cm.Op != token.LSS && cm.Op != token.LEQ) {
		return core.LinCmp{}, false
	}
	isInt := func(e ast.Expr) bool {
		t := f.Info().TypeOf(e)
		if t == nil {
			return false
		}
		b, isB := t.Underlying().(*types.Basic)
		return isB && b.Info()&types.IsInteger != 0
	}
	if !isInt(cm.L) && !isInt(cm.R) {
		return core.LinCmp{}, false
	}
	diff := &ast.BinaryExpr{X: c24subst(f, cm.L, 0), Op: token.SUB, Y: c24subst(f, cm.R, 0)}
	lin := core.Linearize(f.Info(), diff, namer)
	if cm.Op == token.LSS {
		lin.C.Add(lin.C, big.NewInt(1))
	}
	return core.LinCmp{Form: lin, Op: "<="}, true
}
