package rules

import (
	"go/ast"
	"go/token"
	"go/types"

	"lachk/core"
)

// C23.flushable.presence — the memory overlay and its batch agree with their readers on how "present" and
// "absent" are represented ("Empty values are distinct from absent keys"; Has agrees with Get).
//
// The readers decide by a comparison with nil (C22.tombstone decides that they do): flushableReader.Has returns
// `entry != nil` on the interface value held by the overlay tree, Get returns (nil, nil) for a nil entry,
// cacheBatch.Write and cacheBatch.Replay turn a batch entry with a nil value into a delete. A writer therefore
// has to keep this representation invariant:
//
//	(tree)  a value stored into an overlay tree is the untyped nil (the tombstone), or a value handed through
//	        unchanged from another tree read (interface typed: a tombstone stays the untyped nil), or a []byte
//	        that is certainly non-nil. A []byte that may be nil becomes, once converted to the tree's interface{}
//	        element, a typed nil: Has reports the key present (interface != nil) while Get returns nil.
//	(batch) the value of a batch entry is the nil literal (a delete), or a slice that is non-nil whenever the
//	        caller's value is non-nil — in particular when that value is empty. append(nil-slice, value...) is
//	        nil for an empty value: the put is written and replayed as a delete.
//
// Non-nil-ness is decided by c23NilEval.nonNil on the typed AST and the CFG: literals and make are non-nil; CopyBytes /
// bytes.Clone / a conversion / a re-slice keep the nil-ness of their operand; append keeps the non-nil-ness of its base
// and yields nil for a nil base and an empty source; a variable or field is non-nil behind an edge implying
// `x != nil`, or when every definition is; a single-value type assertion of a non-nil interface read from a
// tree is non-nil (the invariant itself); a comma-ok assertion yields the nil slice for a tombstone; a parameter
// of an exported kvdb.Writer method is non-nil by the property's quantifier; a parameter of an unexported
// function is non-nil when the argument is at every call site of the package (bounded depth); a straight
// helper (every exit returns an expression) is evaluated with its parameters bound.
func c23PresenceClause(c *core.Ctx) {
	c.Clause("C23.flushable.presence", func() {
		p := c.P
		const pkg = "kvdb/flushable"
		kvV := c.Fld(pkg + ".kv.v")
		kvT := p.LookupType(pkg + ".kv")
		c.Need(kvT != nil, "type "+pkg+".kv")
		ev := &c23NilEval{c: c, pkg: pkg, writer: c23Iface(c, "Writer")}
		nTree, nBatch := 0, 0
		for _, top := range p.FuncsInPkg(pkg) {
			for _, f := range append([]*core.FuncInfo{top}, allLits(top)...) {
				who := short(top.Name)
				// (tree) every store into an overlay tree
				for _, cs := range f.CallsTo(rbtP + "Tree.Put") {
					if len(cs.Call.Args) != 2 {
						continue
					}
					val := cs.Call.Args[1]
					v, why := ev.stored(f, val, cs.Pt, 2)
					nTree++
					switch v {
					case c23True:
						c.Pass(who+"|overlay entry is the untyped nil or a non-nil value", "T16c representation agreement", why)
					case c23False:
						c.Fail(who+"|overlay entry is the untyped nil or a non-nil value", "T16c representation agreement", cs.Pos(),
							"a []byte that can be nil is stored into the overlay tree ("+why+"): converted to the tree's interface{} element it is a typed nil, not the tombstone — Has (entry != nil) reports the key present while Get returns nil, e.g. Delete(k) then Has(k) on this store or on its snapshot returns true")
					default:
						c.Undecided(who+"|overlay entry is the untyped nil or a non-nil value", "T16c representation agreement", cs.Pos(),
							"cannot decide that the value stored into the overlay tree is the untyped nil, an entry handed through unchanged, or a non-nil []byte ("+why+")")
					}
				}
				// (batch) every batch entry
				check := func(e ast.Expr, at core.Point) {
					nBatch++
					pos := f.Pos()
					if e != nil {
						pos = e.Pos()
					}
					v, why := ev.batchValue(f, e, at, 2)
					switch v {
					case c23True:
						c.Pass(who+"|batch entry value is nil only for a delete", "T16c representation agreement", why)
					case c23False:
						c.Fail(who+"|batch entry value is nil only for a delete", "T16c representation agreement", pos,
							"the value kept in the batch entry can be nil although the caller's value is not ("+why+"): Write and Replay read a nil value as a delete, so batch.Put(k, []byte{}) removes k (Has=false, and a Delete reaches the parent) while a direct Put and the LevelDB/Pebble batches keep k with an empty value")
					default:
						c.Undecided(who+"|batch entry value is nil only for a delete", "T16c representation agreement", pos,
							"cannot decide that the value kept in the batch entry is non-nil for every non-nil (possibly empty) value ("+why+")")
					}
				}
				f.InspectOwn(func(n ast.Node) bool {
					cl, ok := n.(*ast.CompositeLit)
					if !ok {
						return true
					}
					t := f.Info().TypeOf(cl)
					if t == nil || !types.Identical(t, kvT.Type()) {
						return true
					}
					at, _ := f.PointOf(cl)
					st := kvT.Type().Underlying().(*types.Struct)
					var velt ast.Expr
					for i, el := range cl.Elts {
						if kv, isKV := el.(*ast.KeyValueExpr); isKV {
							if id, isID := kv.Key.(*ast.Ident); isID {
								if fv, isV := f.Info().ObjectOf(id).(*types.Var); isV && p.FieldName(fv) == kvV {
									velt = kv.Value
								}
							}
						} else if i < st.NumFields() && p.FieldName(st.Field(i)) == kvV {
							velt = el
						}
					}
					check(velt, at)
					return true
				})
				for _, a := range assignsToField(f, kvV) {
					if a.RHS == nil {
						c.Undecided(who+"|batch entry value is nil only for a delete", "T16c representation agreement", a.Stmt.Pos(), "the batch entry's value is written by a multi-value assignment")
						continue
					}
					check(a.RHS, a.Pt)
				}
			}
		}
		// vacuity guards (the rule saw the overlay's and the batch's writers at all), not counts of copies
		c.ExpectAtLeast("stores into an overlay tree", nTree, 1)
		c.ExpectAtLeast("batch entries", nBatch, 1)
	})
}

// c23NilEval decides nil-ness of byte-slice expressions of one package.
type c23NilEval struct {
	c      *core.Ctx
	pkg    string
	writer *types.Interface
	busy   map[*types.Var]bool
}

func c23And(a, b int8) int8 {
	switch {
	case a == c23False || b == c23False:
		return c23False
	case a == c23True && b == c23True:
		return c23True
	}
	return c23Unknown
}

// stored: verdict on an expression stored as the value of an overlay tree entry (see the clause's comment).
func (ev *c23NilEval) stored(f *core.FuncInfo, e ast.Expr, at core.Point, depth int) (int8, string) {
	e = ast.Unparen(e)
	if core.IsNil(f.Info(), e) {
		return c23True, "the untyped nil: the tombstone"
	}
	t := f.Info().TypeOf(e)
	if t == nil {
		return c23Unknown, "untyped expression " + exprStr(e)
	}
	if !types.IsInterface(t) {
		return ev.nonNil(f, e, at, depth, nil)
	}
	// interface typed: handed through from a tree read, or a local/parameter every definition of which is fine
	if ev.treeRead(f, e) {
		return c23True, "an overlay entry handed through unchanged (a tombstone stays the untyped nil)"
	}
	v := varOfRaw(f, e)
	if v == nil {
		return c23Unknown, "interface value " + exprStr(e) + " of unknown origin"
	}
	if ev.busy[v] {
		return c23True, "" // a cycle through the variable adds no other value
	}
	if ev.busy == nil {
		ev.busy = map[*types.Var]bool{}
	}
	ev.busy[v] = true
	defer delete(ev.busy, v)
	if i := c23ParamIndex(f, v); i >= 0 {
		return ev.atCallers(f, i, depth, func(g *core.FuncInfo, a ast.Expr, pt core.Point) (int8, string) { return ev.stored(g, a, pt, depth-1) })
	}
	defs := c23DefsOf(f, v)
	if len(defs) == 0 {
		return c23Unknown, "no definition of " + v.Name() + " found"
	}
	res, why := c23True, "every definition of "+v.Name()+" is the untyped nil, an entry handed through, or a non-nil value"
	for _, d := range defs {
		var r int8
		var w string
		switch {
		case d.zero:
			r, w = c23True, "" // var x interface{}: the untyped nil
		case d.rhs == nil:
			r, w = c23Unknown, v.Name()+" is defined by a range or multi-value statement"
		case d.multi:
			// val, ok := tree.Get(key): the first result is the entry
			if d.index == 0 && ev.treeRead(f, d.rhs) {
				r = c23True
			} else {
				r, w = c23Unknown, v.Name()+" is one of several results of "+exprStr(d.rhs)
			}
		default:
			r, w = ev.stored(f, d.rhs, d.pt, depth)
		}
		if r != c23True {
			res, why = c23And(res, r), w
			if r == c23False {
				return res, why
			}
		}
	}
	return res, why
}

// batchValue: verdict on the value element of a batch entry: the nil literal (or an omitted element) is a delete;
// a parameter of an unexported function (a shared `add(k, v)` of Put and Delete) is judged at every call; anything
// else has to be non-nil.
func (ev *c23NilEval) batchValue(f *core.FuncInfo, e ast.Expr, at core.Point, depth int) (int8, string) {
	if e == nil || core.IsNil(f.Info(), ast.Unparen(e)) {
		return c23True, "the entry's value is the nil literal: a delete"
	}
	if v := varOfRaw(f, e); v != nil && f.Obj != nil && !f.Obj.Exported() && !c23Reassigned(f, v) {
		if i := c23ParamIndex(f, v); i >= 0 {
			return ev.atCallers(f, i, depth, func(g *core.FuncInfo, a ast.Expr, pt core.Point) (int8, string) {
				return ev.batchValue(g, a, pt, depth-1)
			})
		}
	}
	return ev.nonNil(f, e, at, depth, nil)
}

// treeRead: e (looking through single-definition locals) reads an entry of a red-black tree: Iterator.Value(),
// Tree.Get(k) (first result), node.Value.
func (ev *c23NilEval) treeRead(f *core.FuncInfo, e ast.Expr) bool {
	r := ast.Unparen(resolveLocal(f, e))
	if call, ok := r.(*ast.CallExpr); ok {
		switch calleeName(f, call) {
		case rbtP + "Iterator.Value", rbtP + "Tree.Get":
			return true
		}
		return false
	}
	return fieldNameOf(f, r) == rbtP+"Node.Value"
}

type c23Def struct {
	rhs   ast.Expr
	pt    core.Point
	zero  bool // var x T without a value
	multi bool // one of several results of rhs
	index int  // position among the left-hand sides
}

// c23DefsOf lists the definitions of a local variable in f's own body.
func c23DefsOf(f *core.FuncInfo, v *types.Var) []c23Def {
	var out []c23Def
	for _, a := range assignments(f) {
		if varOfRaw(f, a.LHS) != v {
			continue
		}
		d := c23Def{rhs: a.RHS, pt: a.Pt}
		switch s := a.Stmt.(type) {
		case *ast.ValueSpec:
			d.zero = len(s.Values) == 0
			if len(s.Values) == 1 && len(s.Names) > 1 {
				d.multi = true
			}
			for i, id := range s.Names {
				if ast.Expr(id) == a.LHS {
					d.index = i
				}
			}
		case *ast.AssignStmt:
			if len(s.Lhs) != len(s.Rhs) {
				d.multi = true
			}
			for i, l := range s.Lhs {
				if l == a.LHS {
					d.index = i
				}
			}
		default:
			d.rhs = nil // range / inc-dec
		}
		out = append(out, d)
	}
	return out
}

// c23ParamIndex: the position of v among f's parameters (-1 if it is none).
func c23ParamIndex(f *core.FuncInfo, v *types.Var) int {
	if f.Obj == nil {
		return -1
	}
	sig, _ := f.Obj.Type().(*types.Signature)
	if sig == nil {
		return -1
	}
	for i := 0; i < sig.Params().Len(); i++ {
		if f.Param(i) == v {
			return i
		}
	}
	return -1
}

// atCallers evaluates argument i of every call of the unexported function f in its package.
func (ev *c23NilEval) atCallers(f *core.FuncInfo, i, depth int, eval func(g *core.FuncInfo, a ast.Expr, pt core.Point) (int8, string)) (int8, string) {
	if depth <= 0 || f.Obj == nil || f.Obj.Exported() {
		return c23Unknown, "parameter " + f.Param(i).Name() + " of " + short(f.Name) + " is not followed to its callers"
	}
	sig, _ := f.Obj.Type().(*types.Signature)
	if sig == nil || sig.Variadic() {
		return c23Unknown, "variadic " + short(f.Name)
	}
	nCalls, nUses := 0, 0
	res, why := c23True, ""
	for _, top := range ev.c.P.FuncsInPkg(ev.pkg) {
		for _, g := range append([]*core.FuncInfo{top}, allLits(top)...) {
			for _, cs := range g.Calls() {
				if cs.Callee != types.Object(f.Obj) || i >= len(cs.Call.Args) {
					continue
				}
				nCalls++
				r, w := eval(g, cs.Call.Args[i], cs.Pt)
				if r != c23True {
					res = c23And(res, r)
					why = "argument " + exprStr(cs.Call.Args[i]) + " of " + short(f.Name) + " in " + short(top.Name) + ": " + w
				}
			}
		}
		top.InspectAll(func(n ast.Node) bool {
			if id, ok := n.(*ast.Ident); ok && top.Info().Uses[id] == types.Object(f.Obj) {
				nUses++
			}
			return true
		})
	}
	if nCalls == 0 || nUses != nCalls {
		return c23Unknown, short(f.Name) + " has no call in its package or is used as a value"
	}
	if res == c23True {
		why = "every call of " + short(f.Name) + " passes an admissible " + f.Param(i).Name()
	}
	return res, why
}

// writerParam: f is an exported method, of a type implementing kvdb.Writer, named like a Writer method: its
// key and value parameters are non-nil by the property's quantifier.
func (ev *c23NilEval) writerParam(f *core.FuncInfo) bool {
	if f.Obj == nil || !f.Obj.Exported() || f.Recv() == nil {
		return false
	}
	if !c23Implements(f.Recv().Type(), ev.writer) {
		return false
	}
	for i := 0; i < ev.writer.NumMethods(); i++ {
		if ev.writer.Method(i).Name() == f.Obj.Name() {
			return true
		}
	}
	return false
}

// c23SameNonNilFact matches "x != nil" where x is spelled like e (for pure observers: it.Value(), node.Value).
func c23SameNonNilFact(f *core.FuncInfo, e ast.Expr) func(core.Fact) bool {
	e = ast.Unparen(e)
	want := types.ExprString(e)
	wantVar := varOfRaw(f, e)
	return func(ft core.Fact) bool {
		cm, ok := core.NormCmp(ft)
		if !ok || cm.R == nil || cm.Op != token.NEQ {
			return false
		}
		l, r := cm.L, cm.R
		if core.IsNil(f.Info(), l) {
			l, r = r, l
		}
		if !core.IsNil(f.Info(), r) {
			return false
		}
		l = ast.Unparen(l)
		if wantVar != nil {
			return varOfRaw(f, l) == wantVar
		}
		return types.ExprString(l) == want
	}
}

// nonNil: is the slice expression e certainly non-nil at the point at of f (c23True), possibly nil (c23False,
// with the reason), or undecided? env holds verdicts for the parameters of a helper being evaluated inline.
func (ev *c23NilEval) nonNil(f *core.FuncInfo, e ast.Expr, at core.Point, depth int, env map[*types.Var]int8) (int8, string) {
	e = ast.Unparen(e)
	if e == nil {
		return c23Unknown, "no expression"
	}
	if core.IsNil(f.Info(), e) {
		return c23False, "nil"
	}
	if at.Valid() {
		if g, _ := f.GuardedBy(at, c23SameNonNilFact(f, e)); g {
			return c23True, exprStr(e) + " is used behind " + exprStr(e) + " != nil"
		}
	}
	switch x := e.(type) {
	case *ast.Ident:
		v, _ := f.Info().ObjectOf(x).(*types.Var)
		if v == nil {
			return c23Unknown, exprStr(e) + " is not a variable"
		}
		if r, ok := env[v]; ok {
			return r, "argument bound to " + v.Name()
		}
		if i := c23ParamIndex(f, v); i >= 0 {
			if ev.writerParam(f) {
				return c23True, v.Name() + " is a parameter of the exported " + short(f.Name) + " (keys and values are non-nil by the property's quantifier)"
			}
			return ev.atCallers(f, i, depth, func(g *core.FuncInfo, a ast.Expr, pt core.Point) (int8, string) {
				return ev.nonNil(g, a, pt, depth-1, nil)
			})
		}
		if ev.busy[v] {
			return c23True, ""
		}
		if ev.busy == nil {
			ev.busy = map[*types.Var]bool{}
		}
		ev.busy[v] = true
		defer delete(ev.busy, v)
		defs := c23DefsOf(f, v)
		if len(defs) == 0 {
			return c23Unknown, "no definition of " + v.Name() + " found in " + short(f.Name)
		}
		res, why := c23True, "every definition of "+v.Name()+" is non-nil"
		for _, d := range defs {
			var r int8
			var w string
			switch {
			case d.zero:
				r, w = c23False, "var "+v.Name()+" starts as the nil slice"
			case d.rhs == nil:
				r, w = c23Unknown, v.Name()+" is defined by a range or inc/dec statement"
			case d.multi:
				if ta, ok := ast.Unparen(d.rhs).(*ast.TypeAssertExpr); ok && d.index == 0 && ta.Type != nil {
					r, w = c23False, v.Name()+", _ := "+exprStr(d.rhs)+" is the nil slice when the entry is the nil tombstone"
					if g, _ := f.GuardedBy(d.pt, c23SameNonNilFact(f, ta.X)); g {
						r, w = c23True, ""
					}
				} else {
					r, w = c23Unknown, v.Name()+" is one of several results of "+exprStr(d.rhs)
				}
			default:
				r, w = ev.nonNil(f, d.rhs, d.pt, depth, env)
			}
			if r != c23True {
				res, why = c23And(res, r), w
				if r == c23False {
					return res, why
				}
			}
		}
		return res, why
	case *ast.SelectorExpr:
		if fn := fieldNameOf(f, x); fn != "" {
			if g, _ := f.GuardedBy(at, fieldNilFact(f, fn, false)); g {
				return c23True, exprStr(e) + " is used behind a != nil test of the field"
			}
			return c23Unknown, "field " + exprStr(e) + " is not tested against nil before this use"
		}
		return c23Unknown, exprStr(e)
	case *ast.CompositeLit:
		return c23True, "a slice literal is non-nil"
	case *ast.SliceExpr:
		r, w := ev.nonNil(f, x.X, at, depth, env)
		return r, "re-slice of " + exprStr(x.X) + ": " + w
	case *ast.TypeAssertExpr:
		// a non-nil interface read from the tree holds a non-nil []byte (the invariant under proof)
		if g, _ := f.GuardedBy(at, c23SameNonNilFact(f, x.X)); g {
			return c23True, exprStr(x.X) + " is asserted behind " + exprStr(x.X) + " != nil"
		}
		return c23Unknown, exprStr(x.X) + " is asserted without a preceding != nil test"
	case *ast.CallExpr:
		if tv, ok := f.Info().Types[x.Fun]; ok && tv.IsType() {
			if len(x.Args) != 1 {
				return c23Unknown, exprStr(e)
			}
			if bt, ok := f.Info().TypeOf(x.Args[0]).Underlying().(*types.Basic); ok && bt.Info()&types.IsString != 0 {
				return c23Unknown, "conversion of a string"
			}
			r, w := ev.nonNil(f, x.Args[0], at, depth, env)
			return r, w
		}
		switch calleeName(f, x) {
		case "builtin.make":
			return c23True, "make returns a non-nil slice"
		case "builtin.append":
			if len(x.Args) == 0 {
				return c23Unknown, exprStr(e)
			}
			b, w := ev.nonNil(f, x.Args[0], at, depth, env)
			switch b {
			case c23True:
				return c23True, "appended to a non-nil slice"
			case c23False:
				return c23False, exprStr(e) + " appends to a nil slice (" + w + "): the result is nil when nothing is appended, i.e. for an empty value"
			}
			return c23Unknown, "base of " + exprStr(e) + ": " + w
		case c23Copy, "bytes.Clone":
			if len(x.Args) != 1 {
				return c23Unknown, exprStr(e)
			}
			r, w := ev.nonNil(f, x.Args[0], at, depth, env)
			if r == c23True {
				w = "a copy that keeps non-nil-ness, of a non-nil slice: " + w
			}
			return r, w
		}
		// a straight helper of the module: every exit returns one expression; evaluate it with the parameters bound
		if depth <= 0 {
			return c23Unknown, "call " + exprStr(e) + " not followed"
		}
		obj, _ := f.P.ResolveCallee(f.Info(), x)
		fn, _ := obj.(*types.Func)
		g := f.P.FuncOf(fn)
		if g == nil || g == f {
			return c23Unknown, "result of " + exprStr(e) + " is not known"
		}
		sig, _ := fn.Type().(*types.Signature)
		if sig == nil || sig.Variadic() || sig.Results().Len() != 1 {
			return c23Unknown, "result of " + exprStr(e) + " is not known"
		}
		genv := map[*types.Var]int8{}
		for i, a := range x.Args {
			pv := g.Param(i)
			if pv == nil || c23Reassigned(g, pv) {
				continue
			}
			if _, isSlice := pv.Type().Underlying().(*types.Slice); !isSlice {
				continue
			}
			genv[pv], _ = ev.nonNil(f, a, at, depth-1, env)
		}
		rps := g.ReturnPoints()
		if len(rps) == 0 {
			return c23Unknown, "result of " + exprStr(e) + " is not known"
		}
		res, why := c23True, "every result of "+short(g.Name)+" is non-nil for these arguments"
		for _, rp := range rps {
			r := rp.Node().(*ast.ReturnStmt)
			if len(r.Results) != 1 {
				return c23Unknown, short(g.Name) + " has named results"
			}
			rr, w := ev.nonNil(g, r.Results[0], rp, depth-1, genv)
			if rr != c23True {
				res, why = c23And(res, rr), "in "+short(g.Name)+": "+w
				if rr == c23False {
					return res, why
				}
			}
		}
		return res, why
	}
	return c23Unknown, exprStr(e)
}
