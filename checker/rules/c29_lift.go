package rules

import (
	"go/ast"
	"go/token"
	"go/types"

	"lachk/core"
)

// Obligations of the weighted LRU that relate two statements ("a growth is followed by normalize()",
// "an update of an existing entry is preceded by MoveToFront") are decided per operation, not per
// function: when the first statement lives in an unexported helper that does not discharge the
// obligation itself, the obligation is owed at every call site of the helper instead (recursively,
// bounded depth). So Add may keep its two branches in place or delegate them to replaceValue /
// insertFront and call normalize() once after either.

const c29Pkg = "utils/simplewlru"

// c29CallSitesOf lists the call sites of g in the package (own bodies and literals).
func c29CallSitesOf(g *core.FuncInfo) []*core.CallSite {
	var out []*core.CallSite
	for _, h := range g.P.FuncsInPkg(c29Pkg) {
		for _, cs := range h.Calls() {
			if fn, ok := cs.Callee.(*types.Func); ok && g.P.FuncOf(fn) == g {
				out = append(out, cs)
			}
		}
	}
	return out
}

// c29IsAPI: the function is an entry point of the cache (exported, or not called from the package).
func c29IsAPI(g *core.FuncInfo) bool {
	return g.Obj == nil || g.Obj.Exported() || len(c29CallSitesOf(g)) == 0
}

// c29Grow is a point of a function after which the cache may exceed its bounds: a growth of the total
// weight, an insertion into the list, a change of a bound, or a call of a helper that does one of these
// without normalizing afterwards. Leaves counts the underlying statements.
type c29Grow struct {
	Pt     core.Point
	Pos    token.Pos
	What   string
	Leaves int
}

func c29NormalizeSites(f *core.FuncInfo) []core.Point {
	// a helper that always normalizes counts as normalize()
	return f.SitesMust(func(cs *core.CallSite) bool { return cs.Name == lruT+".normalize" && !cs.InDefer }, 2)
}

func c29GrowthSites(f, norm *core.FuncInfo, depth int) []c29Grow {
	var out []c29Grow
	for _, a := range assignments(f) {
		fn := fieldNameOf(f, a.LHS)
		switch {
		case fn == lruT+".weight" && a.Tok == token.ADD_ASSIGN, fn == lruT+".maxWeight", fn == lruT+".maxSize":
			out = append(out, c29Grow{a.Pt, a.Stmt.Pos(), short(fn) + " change", 1})
		}
	}
	for _, cs := range f.Calls() {
		if cs.Name == "container/list.List.PushFront" && fieldNameOf(f, cs.Recv()) == c29ListF {
			out = append(out, c29Grow{cs.Pt, cs.Pos(), "PushFront", 1})
			continue
		}
		if depth <= 0 || cs.InGo {
			continue
		}
		fn, ok := cs.Callee.(*types.Func)
		if !ok {
			continue
		}
		g := f.P.FuncOf(fn)
		if g == nil || g == f || g == norm {
			continue
		}
		if open := c29OpenGrowth(g, norm, depth-1); len(open) > 0 {
			n := 0
			for _, o := range open {
				n += o.Leaves
			}
			out = append(out, c29Grow{cs.Pt, cs.Pos(), "call of " + short(g.Name) + " (" + open[0].What + ")", n})
		}
	}
	return out
}

// c29OpenGrowth: the growth sites of f that can reach a return of f without normalize().
func c29OpenGrowth(f, norm *core.FuncInfo, depth int) []c29Grow {
	calls := c29NormalizeSites(f)
	var open []c29Grow
	for _, s := range c29GrowthSites(f, norm, depth) {
		if ok, _ := f.MustPassAfter(s.Pt, calls); !ok {
			open = append(open, s)
		}
	}
	return open
}

// c29PrecededBy: whenever the point pt of g executes, one of sites(·) has executed before it in the same
// operation: in g itself on every path from its entry, or — when g is a helper — before every call of g.
func c29PrecededBy(g *core.FuncInfo, pt core.Point, sites func(h *core.FuncInfo) []core.Point, depth int) (bool, []core.Point) {
	ok, wit := g.MustPassBefore(sites(g), pt)
	if ok {
		return true, nil
	}
	if depth <= 0 || c29IsAPI(g) {
		return false, wit
	}
	for _, cs := range c29CallSitesOf(g) {
		if cs.InGo || cs.InDefer {
			return false, wit
		}
		if ok, _ := c29PrecededBy(cs.F, cs.Pt, sites, depth-1); !ok {
			return false, wit
		}
	}
	return true, nil
}

// c29FollowedBy: whenever pt of g executes, one of sites(·) executes after it before the operation
// returns: in g on every path to its return, or after every call of g.
func c29FollowedBy(g *core.FuncInfo, pt core.Point, sites func(h *core.FuncInfo) []core.Point, depth int) (bool, []core.Point) {
	ok, wit := g.MustPassAfter(pt, sites(g))
	if ok {
		return true, nil
	}
	if depth <= 0 || c29IsAPI(g) {
		return false, wit
	}
	for _, cs := range c29CallSitesOf(g) {
		if cs.InGo || cs.InDefer {
			return false, wit
		}
		if ok, _ := c29FollowedBy(cs.F, cs.Pt, sites, depth-1); !ok {
			return false, wit
		}
	}
	return true, nil
}

// c29MoveToFrontSites: points of h at which an element is certainly moved to the front of the eviction
// list (in place or in a helper that always does).
func c29MoveToFrontSites(h *core.FuncInfo) []core.Point {
	return h.SitesMust(func(cs *core.CallSite) bool {
		return cs.Name == "container/list.List.MoveToFront" && !cs.InDefer && fieldNameOf(cs.F, cs.Recv()) == c29ListF
	}, 2)
}

// c29WeightSites: points of h at which the total weight is certainly adjusted with the given operator.
func c29WeightSites(tok token.Token) func(h *core.FuncInfo) []core.Point {
	return func(h *core.FuncInfo) []core.Point {
		return c30MustPoints(h, 1, func(g *core.FuncInfo) []core.Point {
			var out []core.Point
			for _, w := range assignsToField(g, lruT+".weight") {
				if w.Tok == tok {
					out = append(out, w.Pt)
				}
			}
			return out
		})
	}
}

// c29BoundAtom names the quantities of the two bounds wherever the comparison is written (normalize
// itself or a predicate helper): c.weight, c.maxWeight, c.maxSize, and the list length.
func c29BoundAtom(sc *c30Scope, e ast.Expr) string {
	switch fieldNameOf(sc.F, e) {
	case lruT + ".weight":
		return "weight"
	case lruT + ".maxWeight":
		return "maxWeight"
	case lruT + ".maxSize":
		return "maxSize"
	}
	if call := isCallTo(sc.F, e, "container/list.List.Len"); call != nil {
		if sel, ok := ast.Unparen(call.Fun).(*ast.SelectorExpr); ok && fieldNameOf(sc.F, sel.X) == c29ListF {
			return "len"
		}
		return ""
	}
	if isCallTo(sc.F, e, lruT+".Len") != nil {
		return "len"
	}
	return ""
}
