package rules

import (
	"fmt"
	"go/ast"
	"strings"

	"lachk/core"
)

// C28.transient: a container that accessors read without the component's mutex (a ReadFree field of the
// lock table: an internally synchronised cache, whose single read-only calls are linearizable on their
// own) shows every intermediate state of an operation to those accessors — the mutex does not hide them.
// Such an operation must therefore not put a key into the container and take the same key out again
// before it returns: between the two calls a lock-free reader sees an entry that is present neither
// before nor after the operation, i.e. in no sequential history (IsBuffered(e) true / Total() counting e
// for an event that is processed at once and never buffered).
//
// Decided on the inlined view of every exported operation of the owner type: the keyed insertions
// (Add / ContainsOrAdd / PeekOrAdd of the cache API) and keyed removals (Remove) it can execute, in place
// or in the helpers and closures it calls, with the key named independently of the function it is
// written in (root variable of the operation + field path + getter, parameters bound to the caller's
// arguments). An insertion followed on some path of the operation by a removal of the same key is
// reported. Removals that do not name a key (RemoveOldest: eviction of the least recently used entry)
// are not matched.

var c28KeyedInserts = map[string]bool{"utils/wlru.Cache.Add": true, "utils/wlru.Cache.ContainsOrAdd": true, "utils/wlru.Cache.PeekOrAdd": true}
var c28KeyedRemovals = map[string]bool{"utils/wlru.Cache.Remove": true}

type c28KeyedSite struct {
	c30Site
	insert bool
	key    string
	keySrc string
}

// c28KeyOf names the key expression of a cache call independently of the function it is written in:
// a location (root variable of the operation + field path), optionally followed by a getter call on it
// (e.event.ID()). A single-definition local holding the key is looked through. "" = not nameable.
func c28KeyOf(sc *c30Scope, e ast.Expr) string {
	e = ast.Unparen(e)
	if v := varOfRaw(sc.F, e); v != nil {
		if _, bound := sc.Bind[v]; !bound {
			if d := singleDef(sc.F, v); d != nil {
				e = ast.Unparen(d)
			}
		}
	}
	if call, ok := e.(*ast.CallExpr); ok {
		sel, isSel := ast.Unparen(call.Fun).(*ast.SelectorExpr)
		if !isSel || len(call.Args) != 0 {
			return ""
		}
		if acc, ok := sc.access(sel.X); ok && acc.Root != nil {
			return fmt.Sprintf("%p/%s/%s()", acc.Root, strings.Join(acc.Path, "/"), calleeName(sc.F, call))
		}
		return ""
	}
	if acc, ok := sc.access(e); ok && acc.Root != nil {
		return fmt.Sprintf("%p/%s", acc.Root, strings.Join(acc.Path, "/"))
	}
	return ""
}

// c28CanFollow: can the site b execute after the site a in one run of the operation? The two call
// chains share a prefix; at the first level where they differ both points lie in the same function, and
// b's point must be reachable from a's.
func c28CanFollow(a, b c30Site) bool {
	for i := 0; i < len(a.Hops) && i < len(b.Hops); i++ {
		ha, hb := a.Hops[i], b.Hops[i]
		if ha.Sc.F != hb.Sc.F {
			return false
		}
		if ha.Pt == hb.Pt {
			continue
		}
		return ha.Sc.F.CanReach(ha.Pt, hb.Pt)
	}
	return false
}

func c28Transient(c *core.Ctx) {
	c.Clause("C28.transient", func() {
		p := c.P
		spec := bufferLockSpec(p)
		res := c28RunLockset(p, spec)
		nReaders, nIns, nRem := 0, 0, 0
		for fld := range spec.ReadFree {
			c.Fld(fld)
			owner := fld[:strings.LastIndex(fld, ".")]
			// accessors that read the container without the mutex
			var readers []string
			seen := map[*core.FuncInfo]bool{}
			for _, a := range res.Accesses {
				if a.Field == fld && !a.Write && a.Held == core.LNone && a.F.Obj != nil && a.F.Obj.Exported() && !seen[a.F] {
					seen[a.F] = true
					readers = append(readers, short(a.F.Name))
				}
			}
			nReaders += len(readers)
			if len(readers) == 0 {
				c.Pass(short(fld), "linearizability (no transient state visible to lock-free readers)", "no exported accessor reads the container without the mutex: intermediate states are hidden by the critical section")
				continue
			}
			for _, op := range p.MethodsOf(owner) {
				if !op.Obj.Exported() {
					continue
				}
				var sites []c28KeyedSite
				for _, s := range c30ViewSites(&c30Scope{F: op}, 3, func(sc *c30Scope) []c30Site {
					var out []c30Site
					for _, cs := range sc.F.Calls() {
						if (c28KeyedInserts[cs.Name] || c28KeyedRemovals[cs.Name]) && !cs.InGo && len(cs.Call.Args) > 0 && fieldNameOf(sc.F, cs.Recv()) == fld {
							out = append(out, c30Site{Hops: []c30Hop{{sc, cs.Pt}}, Pos: cs.Pos()})
						}
					}
					return out
				}) {
					last := s.Hops[len(s.Hops)-1]
					for _, cs := range last.Sc.F.Calls() {
						if cs.Pt == last.Pt && cs.Pos() == s.Pos {
							sites = append(sites, c28KeyedSite{s, c28KeyedInserts[cs.Name], c28KeyOf(last.Sc, cs.Call.Args[0]), exprStr(cs.Call.Args[0])})
						}
					}
				}
				bad := ""
				var badSite c28KeyedSite
				for _, in := range sites {
					if !in.insert {
						nRem++
						continue
					}
					nIns++
					for _, rm := range sites {
						if rm.insert || bad != "" || in.key == "" || in.key != rm.key || !c28CanFollow(in.c30Site, rm.c30Site) {
							continue
						}
						bad = fmt.Sprintf("%s inserts the key `%s` into %s (%s) and can remove the same key again before it returns (%s): %s read the container without the mutex and see the entry in between, although it is present neither before nor after the operation",
							short(op.Name), in.keySrc, short(fld), p.Pos(in.Pos), p.Pos(rm.Pos), strings.Join(readers, ", "))
						badSite = rm
					}
				}
				if len(sites) == 0 {
					continue
				}
				construct := short(op.Name) + "|" + short(fld)
				if bad != "" {
					c.Fail(construct, "linearizability (no transient state visible to lock-free readers)", badSite.Pos, bad+": no sequential history explains what the reader saw")
				} else {
					c.Pass(construct, "linearizability (no transient state visible to lock-free readers)", fmt.Sprintf("%d keyed insert/remove sites in the operation's view; no key is inserted and removed again within the operation", len(sites)))
				}
			}
		}
		// vacuity: one instance of each role
		c.ExpectAtLeast("exported accessors reading a container without the mutex", nReaders, 1)
		c.ExpectAtLeast("keyed insertions into such a container", nIns, 1)
		c.ExpectAtLeast("keyed removals from such a container", nRem, 1)
	})
}
