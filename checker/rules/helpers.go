package rules

import (
	"go/ast"
	"go/token"
	"go/types"
	"strings"

	"lachk/core"
)

// mentionsCall: does expression/node n (nested literals excluded) contain a call to one of names?
func mentionsCall(f *core.FuncInfo, n ast.Node, names ...string) bool {
	found := false
	ast.Inspect(n, func(m ast.Node) bool {
		if found {
			return false
		}
		if _, ok := m.(*ast.FuncLit); ok {
			return false
		}
		if call, ok := m.(*ast.CallExpr); ok {
			obj, _ := f.P.ResolveCallee(f.Info(), call)
			nm := f.P.ObjName(obj)
			for _, want := range names {
				if nm == want {
					found = true
				}
			}
		}
		return true
	})
	return found
}

// mentionsObj: does n reference the object?
func mentionsObj(f *core.FuncInfo, n ast.Node, obj types.Object) bool {
	if obj == nil || n == nil {
		return false
	}
	found := false
	ast.Inspect(n, func(m ast.Node) bool {
		if id, ok := m.(*ast.Ident); ok {
			if f.Info().ObjectOf(id) == obj {
				found = true
			}
		}
		return !found
	})
	return found
}

// mentionsField: does n contain a selector of the named field?
func mentionsField(f *core.FuncInfo, n ast.Node, field string) bool {
	found := false
	if n == nil {
		return false
	}
	ast.Inspect(n, func(m ast.Node) bool {
		if sel, ok := m.(*ast.SelectorExpr); ok {
			if fieldNameOf(f, sel) == field {
				found = true
			}
		}
		return !found
	})
	return found
}

// singleDef returns the defining expression of a local variable that has exactly one plain definition
// (`x := expr`, `var x = expr`, or a single `x = expr` after `var x T`) in the function where it is
// declared (searching enclosing functions for captured variables). Parameters, receivers, named
// results, range variables, multi-value definitions and variables assigned more than once have none.
func singleDef(f *core.FuncInfo, v *types.Var) ast.Expr {
	if v == nil || v.IsField() || v.Pkg() == nil || v.Parent() == v.Pkg().Scope() {
		return nil
	}
	for g := f; g != nil; g = g.Parent {
		if !(g.Body.Pos() <= v.Pos() && v.Pos() < g.Body.End()) {
			continue
		}
		var rhs ast.Expr
		n := 0
		for _, a := range assignments(g) {
			if varOfRaw(g, a.LHS) != v {
				// a store through the variable (v.f = …, v[i] = …, *v = …) makes it a mutable object of
				// its own, not an alias of its defining expression
				root := ast.Unparen(a.LHS)
				depth := 0
				for {
					switch x := root.(type) {
					case *ast.SelectorExpr:
						root, depth = ast.Unparen(x.X), depth+1
						continue
					case *ast.IndexExpr:
						root, depth = ast.Unparen(x.X), depth+1
						continue
					case *ast.StarExpr:
						root, depth = ast.Unparen(x.X), depth+1
						continue
					}
					break
				}
				if depth > 0 && varOfRaw(g, root) == v {
					return nil
				}
				continue
			}
			if a.RHS == nil {
				if _, isSpec := a.Stmt.(*ast.ValueSpec); isSpec {
					continue // var x T (zero value), followed by one assignment
				}
				return nil // range / inc-dec / multi-value
			}
			if as, ok := a.Stmt.(*ast.AssignStmt); ok && (len(as.Lhs) != len(as.Rhs) || (as.Tok != token.DEFINE && as.Tok != token.ASSIGN)) {
				return nil
			}
			n++
			rhs = a.RHS
		}
		// assignments made inside nested literals also count as definitions
		for _, l := range allLits(g) {
			for _, a := range assignments(l) {
				if varOfRaw(l, a.LHS) == v {
					return nil
				}
			}
		}
		if n == 1 {
			return rhs
		}
		return nil
	}
	return nil
}

// resolveLocal follows single-definition locals: `k := f.x.y; use(k)` resolves k to f.x.y.
func resolveLocal(f *core.FuncInfo, e ast.Expr) ast.Expr {
	for depth := 0; depth < 5; depth++ {
		e = ast.Unparen(e)
		id, ok := e.(*ast.Ident)
		if !ok {
			return e
		}
		if lhsIdents(f)[id] {
			return e // the identifier is being assigned here, not read
		}
		v, _ := f.Info().ObjectOf(id).(*types.Var)
		d := singleDef(f, v)
		if d == nil {
			return e
		}
		// a local that holds a memory read (field / element) is a snapshot, not an alias, when that
		// location is written anywhere in the function: do not look through it
		if readsWrittenLocation(f, d) {
			return e
		}
		e = d
	}
	return e
}

// readsWrittenLocation: d reads a field that some assignment in the enclosing declared function
// (including its literals) writes.
func readsWrittenLocation(f *core.FuncInfo, d ast.Expr) bool {
	fields := map[string]bool{}
	ast.Inspect(d, func(n ast.Node) bool {
		if _, ok := n.(*ast.FuncLit); ok {
			return false
		}
		if sel, ok := n.(*ast.SelectorExpr); ok {
			if s, ok := f.Info().Selections[sel]; ok {
				if v, ok := s.Obj().(*types.Var); ok && v.IsField() {
					fields[f.P.FieldName(v)] = true
				}
			}
		}
		return true
	})
	if len(fields) == 0 {
		return false
	}
	top := f
	for top.Parent != nil {
		top = top.Parent
	}
	all := append([]*core.FuncInfo{top}, allLits(top)...)
	for _, g := range all {
		for _, a := range assignments(g) {
			lhs := ast.Unparen(a.LHS)
			for {
				switch x := lhs.(type) {
				case *ast.IndexExpr:
					lhs = ast.Unparen(x.X)
					continue
				case *ast.StarExpr:
					lhs = ast.Unparen(x.X)
					continue
				}
				break
			}
			if sel, ok := lhs.(*ast.SelectorExpr); ok {
				if s, ok := g.Info().Selections[sel]; ok {
					if v, ok := s.Obj().(*types.Var); ok && v.IsField() && fields[g.P.FieldName(v)] {
						return true
					}
				}
			}
		}
	}
	return false
}

func varOfRaw(f *core.FuncInfo, e ast.Expr) *types.Var {
	id, ok := ast.Unparen(e).(*ast.Ident)
	if !ok {
		return nil
	}
	v, _ := f.Info().ObjectOf(id).(*types.Var)
	return v
}

// fieldNameOf returns the canonical field name a selector denotes ("" if it is not a field).
// Single-definition locals are looked through.
func fieldNameOf(f *core.FuncInfo, e ast.Expr) string {
	if e == nil {
		return ""
	}
	e = resolveLocal(f, e)
	sel, ok := ast.Unparen(e).(*ast.SelectorExpr)
	if !ok {
		return ""
	}
	if s, ok := f.Info().Selections[sel]; ok {
		if v, ok := s.Obj().(*types.Var); ok && v.IsField() {
			return f.P.FieldName(v)
		}
	}
	return ""
}

// fieldPath renders a chain of field selections as the list of canonical field names, outermost last:
// s.maxProcessing.Num -> [DataSemaphore.maxProcessing, Metric.Num]; the root expression is returned too.
func fieldPath(f *core.FuncInfo, e ast.Expr) (root ast.Expr, path []string) {
	if e == nil {
		return nil, nil
	}
	e = ast.Unparen(e)
	for {
		// look through a single-definition local only when it stands for a field selection
		r := resolveLocal(f, e)
		sel, ok := r.(*ast.SelectorExpr)
		if !ok {
			break
		}
		fn := fieldNameOf(f, sel)
		if fn == "" {
			break
		}
		path = append([]string{fn}, path...)
		e = ast.Unparen(sel.X)
	}
	return e, path
}

// calleeName of a call expression in f.
func calleeName(f *core.FuncInfo, call *ast.CallExpr) string {
	obj, _ := f.P.ResolveCallee(f.Info(), call)
	return f.P.ObjName(obj)
}

// isCallTo: is e (after parens) a call to one of names? returns the call.
func isCallTo(f *core.FuncInfo, e ast.Expr, names ...string) *ast.CallExpr {
	if e == nil {
		return nil
	}
	call, ok := resolveLocal(f, e).(*ast.CallExpr)
	if !ok {
		return nil
	}
	nm := calleeName(f, call)
	for _, n := range names {
		if nm == n {
			return call
		}
	}
	return nil
}

// varOf returns the variable object an identifier expression denotes.
func varOf(f *core.FuncInfo, e ast.Expr) *types.Var {
	if e == nil {
		return nil
	}
	id, ok := ast.Unparen(e).(*ast.Ident)
	if !ok {
		return nil
	}
	v, _ := f.Info().ObjectOf(id).(*types.Var)
	return v
}

// assignment is one definition of a variable or field.
type assignment struct {
	Stmt ast.Node
	LHS  ast.Expr
	RHS  ast.Expr // nil for multi-value / range / incdec
	Tok  token.Token
	Pt   core.Point
}

// assignments lists every assignment statement target in f's own body.
func assignments(f *core.FuncInfo) []assignment {
	var out []assignment
	f.InspectOwn(func(n ast.Node) bool {
		switch x := n.(type) {
		case *ast.AssignStmt:
			for i, l := range x.Lhs {
				a := assignment{Stmt: x, LHS: l, Tok: x.Tok}
				if len(x.Lhs) == len(x.Rhs) {
					a.RHS = x.Rhs[i]
				} else if len(x.Rhs) == 1 {
					a.RHS = x.Rhs[0]
				}
				if pt, ok := f.PointOf(x); ok {
					a.Pt = pt
				}
				out = append(out, a)
			}
		case *ast.IncDecStmt:
			a := assignment{Stmt: x, LHS: x.X, Tok: x.Tok}
			if pt, ok := f.PointOf(x); ok {
				a.Pt = pt
			}
			out = append(out, a)
		case *ast.ValueSpec:
			for i, id := range x.Names {
				a := assignment{Stmt: x, LHS: id, Tok: token.DEFINE}
				if i < len(x.Values) {
					a.RHS = x.Values[i]
				}
				if pt, ok := f.PointOf(x); ok {
					a.Pt = pt
				}
				out = append(out, a)
			}
		case *ast.RangeStmt:
			for _, e := range []ast.Expr{x.Key, x.Value} {
				if e != nil {
					a := assignment{Stmt: x, LHS: e, Tok: x.Tok}
					if pt, ok := f.PointOf(e); ok {
						a.Pt = pt
					}
					out = append(out, a)
				}
			}
		}
		return true
	})
	return out
}

// assignsToField lists assignments whose target is (a path ending in) the named field.
func assignsToField(f *core.FuncInfo, field string) []assignment {
	var out []assignment
	for _, a := range assignments(f) {
		if fieldNameOf(f, a.LHS) == field {
			out = append(out, a)
		}
	}
	return out
}

// assignsToVar lists assignments to the variable.
func assignsToVar(f *core.FuncInfo, v *types.Var) []assignment {
	var out []assignment
	for _, a := range assignments(f) {
		if varOf(f, a.LHS) == v {
			out = append(out, a)
		}
	}
	return out
}

func pointsOfAssign(as []assignment) []core.Point {
	var out []core.Point
	for _, a := range as {
		out = append(out, a.Pt)
	}
	return out
}

// exprStr renders an expression compactly.
func exprStr(e ast.Expr) string {
	if e == nil {
		return "<nil>"
	}
	return types.ExprString(e)
}

// condPoints lists the CFG points holding a branch condition that satisfies pred.
func condPoints(f *core.FuncInfo, pred func(ast.Expr) bool) []core.Point {
	var out []core.Point
	for _, b := range f.CFG().Blocks {
		if !b.Live {
			continue
		}
		if c := f.BranchCond(b); c != nil && pred(c) {
			out = append(out, core.Point{B: b, I: len(b.Nodes) - 1})
		}
	}
	return out
}

// returnsConst lists return statements whose i-th result is the constant boolean/identifier value v ("true"/"false"/"nil").
func returnsWith(f *core.FuncInfo, idx int, pred func(ast.Expr) bool) []core.Point {
	var out []core.Point
	for _, pt := range f.ReturnPoints() {
		r := pt.Node().(*ast.ReturnStmt)
		if idx < len(r.Results) && pred(r.Results[idx]) {
			out = append(out, pt)
		}
	}
	return out
}

func isIdentNamed(e ast.Expr, name string) bool {
	id, ok := ast.Unparen(e).(*ast.Ident)
	return ok && id.Name == name
}

func hasSuffix(s string, suf ...string) bool {
	for _, x := range suf {
		if strings.HasSuffix(s, x) {
			return true
		}
	}
	return false
}

// litArg returns the FuncInfo of the function literal passed as argument i of call (nil if not a literal).
func litArg(f *core.FuncInfo, call *ast.CallExpr, i int) *core.FuncInfo {
	if i >= len(call.Args) {
		return nil
	}
	lit, ok := ast.Unparen(call.Args[i]).(*ast.FuncLit)
	if !ok {
		return nil
	}
	return f.P.LitInfo(lit)
}

// posOf returns a representative position for a point.
func posOf(pt core.Point) token.Pos {
	if n := pt.Node(); n != nil {
		return n.Pos()
	}
	if pt.B != nil && len(pt.B.Nodes) > 0 {
		return pt.B.Nodes[len(pt.B.Nodes)-1].Pos()
	}
	return token.NoPos
}

// precedesLocally: every path from entry to x passes one of ys, and (when x lies on a cycle)
// every path from x back to x passes one of ys again — i.e. ys happens before x in the same iteration.
func precedesLocally(f *core.FuncInfo, ys []core.Point, x core.Point) (bool, []core.Point) {
	if ok, p := f.MustPassBefore(ys, x); !ok {
		return false, p
	}
	if f.CanReach(x, x) {
		if ok, p := f.MustPassBetween(x, ys, x); !ok {
			return false, p
		}
	}
	return true, nil
}

// followsLocally: every path from x to a return (and back to x, when on a cycle) passes one of ys.
func followsLocally(f *core.FuncInfo, x core.Point, ys []core.Point) (bool, []core.Point) {
	if ok, p := f.MustPassAfter(x, ys); !ok {
		return false, p
	}
	if f.CanReach(x, x) {
		if ok, p := f.MustPassBetween(x, ys, x); !ok {
			return false, p
		}
	}
	return true, nil
}

// pairedWith: ys occurs before or after x on every path through x (same iteration for loops).
func pairedWith(f *core.FuncInfo, x core.Point, ys []core.Point) (bool, []core.Point) {
	if len(ys) == 0 {
		return false, nil
	}
	if ok, _ := precedesLocally(f, ys, x); ok {
		return true, nil
	}
	return followsLocally(f, x, ys)
}

// nilGuardEdges: edges implying that the given field is nil (then a nil-guarded call owes nothing).
func fieldNilFact(f *core.FuncInfo, field string, wantNil bool) func(core.Fact) bool {
	return func(ft core.Fact) bool {
		cm, ok := core.NormCmp(ft)
		if !ok || cm.R == nil {
			return false
		}
		l, r := cm.L, cm.R
		if core.IsNil(f.Info(), l) {
			l, r = r, l
		}
		if !core.IsNil(f.Info(), r) || fieldNameOf(f, l) != field {
			return false
		}
		if wantNil {
			return cm.Op == token.EQL
		}
		return cm.Op == token.NEQ
	}
}
