package rules

import (
	"fmt"
	"go/ast"
	"go/token"
	"go/types"

	"lachk/core"
)

// Inlined view of a function (generic; candidates for promotion to core: c06View, c06LoopsAround).
//
// c06View(f, leaf) returns a FuncInfo whose body is f's body with the calls of helper functions replaced
// by the helpers' bodies, so that the intra-procedural queries of the rules (paths, guards, loops,
// single-definition look-through) decide the same facts whether a block is written out in f or lives in
// a helper / method extracted from it. Which helpers: declared functions and methods of f's own package,
// called statically exactly once in the view, that (transitively, bounded) contain a call accepted by
// `leaf` (the calls the rule talks about; leaf calls themselves are never expanded). Depth is bounded;
// recursion, variadic and generic callees, callees with defer/go or bare returns are left as calls.
//
// Construction (nothing of the original AST is modified; changed statements are shallow copies, the
// type information lives in a private copy of the package's types.Info):
//   - h(args) as a statement, `x, y := h(args)` and `return h(args)` take the body in place; a `return e`
//     of the helper becomes `x, y = e…` followed by a jump behind the body (a labelled `switch { default: … }`
//     that is left by `break L`), a tail call keeps the helper's returns;
//   - a helper that is a single `return expr` is substituted as that expression wherever it is called
//     (conditions included); so is a boolean predicate written as a chain of guards
//     `if c1 { return false }; if c2 { return true }; return e`, which is the expression `!c1 && (c2 || e)`
//     (exprFunc), so that the branch facts of its atoms are those of the written-out condition;
//   - a call nested in the operands of a statement (`self.Set(to, other.h(from))`) is hoisted: a fresh
//     result variable declared before the statement receives the helper's results;
//   - a parameter (or receiver) whose argument is a plain variable and that the helper never assigns is
//     the caller's variable itself (the identifiers of the helper's body are re-bound in the private
//     Info); every other parameter is bound by `param := arg` before the body, which the rules look
//     through like any single-definition local.
//
// Calls in `else if` / loop conditions are only substituted when no statement has to be hoisted.
// When nothing can be expanded the function itself is returned.
type c06Inliner struct {
	top    *core.FuncInfo
	p      *core.Prog
	info   *types.Info
	leaf   func(*core.CallSite) bool
	cnt    map[*core.FuncInfo]int
	stack  map[*core.FuncInfo]bool
	labels map[string]bool
	resLen []int
	cond   bool // rewriting a branch condition
	n      int
	lo, hi token.Pos
}

type c06ViewKey struct {
	f    *core.FuncInfo
	kind string
}

var c06ViewCache = map[c06ViewKey]*core.FuncInfo{}

func c06View(f *core.FuncInfo, kind string, leaf func(*core.CallSite) bool) *core.FuncInfo {
	if f == nil || f.Decl == nil || f.Obj == nil {
		return f
	}
	key := c06ViewKey{f, kind}
	if v, ok := c06ViewCache[key]; ok {
		return v
	}
	in := &c06Inliner{top: f, p: f.P, leaf: leaf, cnt: map[*core.FuncInfo]int{}, stack: map[*core.FuncInfo]bool{f: true}, labels: map[string]bool{}}
	in.count(f, 4)
	src := f.Info()
	info := *src
	info.Defs = make(map[*ast.Ident]types.Object, len(src.Defs))
	for k, v := range src.Defs {
		info.Defs[k] = v
	}
	info.Uses = make(map[*ast.Ident]types.Object, len(src.Uses))
	for k, v := range src.Uses {
		info.Uses[k] = v
	}
	info.Types = make(map[ast.Expr]types.TypeAndValue, len(src.Types))
	for k, v := range src.Types {
		info.Types[k] = v
	}
	in.info = &info
	in.lo, in.hi = f.Decl.Pos(), f.Decl.End()
	in.noteLabels(f)
	sig, _ := f.Obj.Type().(*types.Signature)
	in.resLen = []int{sig.Results().Len()}
	list, changed := in.stmts(f.Body.List, 3)
	if !changed {
		c06ViewCache[key] = f
		return f
	}
	body := &ast.BlockStmt{Lbrace: f.Body.Lbrace, List: list, Rbrace: f.Body.Rbrace}
	if in.lo < body.Lbrace {
		body.Lbrace = in.lo
	}
	if in.hi > body.Rbrace {
		body.Rbrace = in.hi
	}
	decl := *f.Decl
	decl.Body = body
	pk := *f.Pkg
	pk.TypesInfo = in.info
	v := &core.FuncInfo{P: f.P, Pkg: &pk, Obj: f.Obj, Decl: &decl, Name: f.Name, Body: body, Type: f.Type}
	c06ViewCache[key] = v
	return v
}

// count the static calls of same-package functions in the closure of g.
func (in *c06Inliner) count(g *core.FuncInfo, d int) {
	var fs []*core.FuncInfo
	fs = append(fs, g)
	fs = append(fs, allLits(g)...)
	for _, h := range fs {
		for _, cs := range h.Calls() {
			fn, ok := cs.Callee.(*types.Func)
			if !ok {
				continue
			}
			ci := in.p.FuncOf(fn)
			if ci == nil || ci.Pkg.PkgPath != in.top.Pkg.PkgPath {
				continue
			}
			in.cnt[ci]++
			if in.cnt[ci] == 1 && d > 0 {
				in.count(ci, d-1)
			}
		}
	}
}

func (in *c06Inliner) noteLabels(g *core.FuncInfo) {
	g.InspectAll(func(n ast.Node) bool {
		if l, ok := n.(*ast.LabeledStmt); ok {
			in.labels[l.Label.Name] = true
		}
		return true
	})
}

// eligible: the callee to expand for this call, or nil.
func (in *c06Inliner) eligible(call *ast.CallExpr, d int) *core.FuncInfo {
	if d <= 0 {
		return nil
	}
	obj, conv := in.p.ResolveCallee(in.info, call)
	if conv {
		return nil
	}
	fn, ok := obj.(*types.Func)
	if !ok {
		return nil
	}
	g := in.p.FuncOf(fn)
	if g == nil || g.Decl == nil || g.Obj == nil || g.Pkg.PkgPath != in.top.Pkg.PkgPath || in.stack[g] || in.cnt[g] != 1 {
		return nil
	}
	sig, _ := g.Obj.Type().(*types.Signature)
	if sig == nil || sig.Variadic() || sig.TypeParams() != nil || sig.RecvTypeParams() != nil || len(call.Args) != sig.Params().Len() {
		return nil
	}
	if in.leaf(&core.CallSite{F: in.top, Call: call, Callee: fn, Name: in.p.ObjName(fn)}) {
		return nil
	}
	if len(g.SitesMay(in.leaf, 2)) == 0 {
		return nil
	}
	if sig.Recv() != nil {
		sel, isSel := ast.Unparen(call.Fun).(*ast.SelectorExpr)
		if !isSel {
			return nil
		}
		if s := in.info.Selections[sel]; s == nil || s.Kind() != types.MethodVal {
			return nil
		}
	}
	ok = true
	g.InspectOwn(func(n ast.Node) bool {
		switch x := n.(type) {
		case *ast.DeferStmt, *ast.GoStmt:
			ok = false
		case *ast.ReturnStmt:
			if len(x.Results) != sig.Results().Len() {
				ok = false
			}
		case *ast.LabeledStmt:
			if in.labels[x.Label.Name] {
				ok = false
			}
		}
		return ok
	})
	if !ok {
		return nil
	}
	return g
}

// c06ExprFunc: the result expression of a helper whose body is a single `return expr`.
func c06ExprFunc(g *core.FuncInfo) ast.Expr {
	if len(g.Body.List) != 1 {
		return nil
	}
	r, ok := g.Body.List[0].(*ast.ReturnStmt)
	if !ok || len(r.Results) != 1 {
		return nil
	}
	return r.Results[0]
}

// c06GuardChains caches the boolean expression of predicate helpers written as a chain of guards.
var c06GuardChains = map[*core.FuncInfo]ast.Expr{}

// exprFunc: the result expression of a helper that is a single `return expr`, or of a boolean predicate
// written as a chain of guards `if c1 { return false }; if c2 { return true }; return e`, which denotes
// the expression `!c1 && (c2 || e)` (same evaluation order and short-circuiting as the statements). The
// synthesised operators are typed bool in the private Info; their operands are the helper's own nodes.
func (in *c06Inliner) exprFunc(g *core.FuncInfo) ast.Expr {
	if e := c06ExprFunc(g); e != nil {
		return e
	}
	if e, ok := c06GuardChains[g]; ok {
		if e != nil {
			in.typeChain(e)
		}
		return e
	}
	c06GuardChains[g] = nil
	sig, _ := g.Obj.Type().(*types.Signature)
	if sig == nil || sig.Results().Len() != 1 || !types.Identical(sig.Results().At(0).Type().Underlying(), types.Typ[types.Bool]) {
		return nil
	}
	n := len(g.Body.List)
	if n < 2 || n > 6 {
		return nil
	}
	last, ok := g.Body.List[n-1].(*ast.ReturnStmt)
	if !ok || len(last.Results) != 1 {
		return nil
	}
	e := ast.Expr(&ast.ParenExpr{Lparen: last.Pos(), X: last.Results[0], Rparen: last.End()})
	for i := n - 2; i >= 0; i-- {
		is, isIf := g.Body.List[i].(*ast.IfStmt)
		if !isIf || is.Init != nil || is.Else != nil || len(is.Body.List) != 1 {
			return nil
		}
		r, isRet := is.Body.List[0].(*ast.ReturnStmt)
		if !isRet || len(r.Results) != 1 {
			return nil
		}
		v, isConst := core.ConstVal(g.Info(), r.Results[0])
		if !isConst {
			return nil
		}
		cond := &ast.ParenExpr{Lparen: is.Cond.Pos(), X: is.Cond, Rparen: is.Cond.End()}
		switch v.String() {
		case "true":
			e = &ast.ParenExpr{Lparen: is.Pos(), X: &ast.BinaryExpr{X: cond, OpPos: is.Pos(), Op: token.LOR, Y: e}, Rparen: is.End()}
		case "false":
			e = &ast.ParenExpr{Lparen: is.Pos(), X: &ast.BinaryExpr{X: &ast.UnaryExpr{OpPos: is.Pos(), Op: token.NOT, X: cond}, OpPos: is.Pos(), Op: token.LAND, Y: e}, Rparen: is.End()}
		default:
			return nil
		}
	}
	c06GuardChains[g] = e
	in.typeChain(e)
	return e
}

// typeChain records the type bool for the operators synthesised by exprFunc.
func (in *c06Inliner) typeChain(e ast.Expr) {
	if _, known := in.info.Types[e]; known {
		return
	}
	in.info.Types[e] = types.TypeAndValue{Type: types.Typ[types.Bool]}
	switch x := e.(type) {
	case *ast.ParenExpr:
		in.typeChain(x.X)
	case *ast.UnaryExpr:
		in.typeChain(x.X)
	case *ast.BinaryExpr:
		if x.Op == token.LAND || x.Op == token.LOR {
			in.typeChain(x.X)
			in.typeChain(x.Y)
		}
	}
}

func (in *c06Inliner) ident(name string, pos token.Pos, obj types.Object) *ast.Ident {
	id := &ast.Ident{NamePos: pos, Name: name}
	if obj != nil {
		in.info.Defs[id] = obj
		in.info.Types[id] = types.TypeAndValue{Type: obj.Type()}
	}
	return id
}

func (in *c06Inliner) copyType(from, to ast.Expr) {
	if tv, ok := in.info.Types[from]; ok {
		in.info.Types[to] = tv
	}
}

type c06Binding struct {
	param *types.Var
	arg   ast.Expr
}

// bindings pairs the named receiver and parameters of g with the argument expressions of the call.
func (in *c06Inliner) bindings(call *ast.CallExpr, g *core.FuncInfo, args []ast.Expr) []c06Binding {
	var out []c06Binding
	if rv := g.Recv(); rv != nil && rv.Name() != "_" {
		if sel, ok := ast.Unparen(call.Fun).(*ast.SelectorExpr); ok {
			out = append(out, c06Binding{rv, sel.X})
		}
	}
	k := 0
	for _, fl := range g.Type.Params.List {
		if len(fl.Names) == 0 {
			k++
			continue
		}
		for _, nm := range fl.Names {
			if pv, _ := g.Info().Defs[nm].(*types.Var); pv != nil && nm.Name != "_" && k < len(args) {
				out = append(out, c06Binding{pv, args[k]})
			}
			k++
		}
	}
	return out
}

// plainArg: the argument is a variable that can stand for the parameter itself.
func (in *c06Inliner) plainArg(g *core.FuncInfo, b c06Binding) *types.Var {
	id, ok := ast.Unparen(b.arg).(*ast.Ident)
	if !ok {
		return nil
	}
	v, _ := in.info.ObjectOf(id).(*types.Var)
	if v == nil || v.IsField() {
		return nil
	}
	for _, h := range append([]*core.FuncInfo{g}, allLits(g)...) {
		for _, a := range assignments(h) {
			if varOfRaw(h, a.LHS) == b.param {
				return nil
			}
		}
	}
	return v
}

func (in *c06Inliner) allPlain(g *core.FuncInfo, bs []c06Binding) bool {
	for _, b := range bs {
		if in.plainArg(g, b) == nil {
			return false
		}
	}
	return true
}

// bind re-binds or defines the parameters; the returned statements are the `param := arg` definitions.
func (in *c06Inliner) bind(call *ast.CallExpr, g *core.FuncInfo, bs []c06Binding) []ast.Stmt {
	var out []ast.Stmt
	for _, b := range bs {
		if v := in.plainArg(g, b); v != nil {
			pv := b.param
			ast.Inspect(g.Body, func(n ast.Node) bool {
				if id, ok := n.(*ast.Ident); ok && in.info.Uses[id] == types.Object(pv) {
					in.info.Uses[id] = v
				}
				return true
			})
			continue
		}
		out = append(out, &ast.AssignStmt{Lhs: []ast.Expr{in.ident(b.param.Name(), call.Pos(), b.param)}, TokPos: call.Pos(), Tok: token.DEFINE, Rhs: []ast.Expr{b.arg}})
	}
	return out
}

// what happens with the results of an expanded helper
type c06Sink struct {
	tail bool         // the helper's returns are the caller's returns
	vars []*types.Var // otherwise: the variables that receive the results (nil entry: discarded); empty: no results used
}

// args rewrites the argument expressions of a call.
func (in *c06Inliner) args(call *ast.CallExpr, hoist *[]ast.Stmt, d int) []ast.Expr {
	out := make([]ast.Expr, len(call.Args))
	for i, a := range call.Args {
		out[i] = in.expr(a, hoist, d)
	}
	return out
}

// inlineCall expands g at the call; the statements replace the statement that held the call.
func (in *c06Inliner) inlineCall(call *ast.CallExpr, g *core.FuncInfo, args []ast.Expr, sink c06Sink, d int) []ast.Stmt {
	in.stack[g] = true
	defer delete(in.stack, g)
	in.noteLabels(g)
	if g.Decl.Pos() < in.lo {
		in.lo = g.Decl.Pos()
	}
	if g.Decl.End() > in.hi {
		in.hi = g.Decl.End()
	}
	out := in.bind(call, g, in.bindings(call, g, args))
	sig, _ := g.Obj.Type().(*types.Signature)
	in.resLen = append(in.resLen, sig.Results().Len())
	body, _ := in.stmts(g.Body.List, d-1)
	in.resLen = in.resLen[:len(in.resLen)-1]
	if sink.tail {
		return append(out, &ast.BlockStmt{Lbrace: call.Pos(), List: body, Rbrace: call.End()})
	}
	in.n++
	label := fmt.Sprintf("c06inl%d", in.n)
	body, used := in.returns(body, sink, label, true)
	if !used {
		return append(out, &ast.BlockStmt{Lbrace: call.Pos(), List: body, Rbrace: call.End()})
	}
	sw := &ast.SwitchStmt{Switch: call.Pos(), Body: &ast.BlockStmt{Lbrace: call.Pos(), Rbrace: call.End(),
		List: []ast.Stmt{&ast.CaseClause{Case: call.Pos(), Colon: call.Pos(), Body: body}}}}
	return append(out, &ast.LabeledStmt{Label: &ast.Ident{NamePos: call.Pos(), Name: label}, Colon: call.Pos(), Stmt: sw})
}

// returns replaces the return statements of an expanded body by the result assignments and a jump behind
// the body (not needed for a return that is the body's last statement).
func (in *c06Inliner) returns(list []ast.Stmt, sink c06Sink, label string, top bool) ([]ast.Stmt, bool) {
	var out []ast.Stmt
	used, changed := false, false
	for i, s := range list {
		if r, ok := s.(*ast.ReturnStmt); ok {
			changed = true
			if len(sink.vars) == len(r.Results) && len(r.Results) > 0 {
				as := &ast.AssignStmt{TokPos: r.Pos(), Tok: token.ASSIGN, Rhs: r.Results}
				for _, v := range sink.vars {
					if v == nil {
						as.Lhs = append(as.Lhs, &ast.Ident{NamePos: r.Pos(), Name: "_"})
					} else {
						as.Lhs = append(as.Lhs, in.ident(v.Name(), r.Pos(), v))
					}
				}
				out = append(out, as)
			} else {
				for _, e := range r.Results {
					if _, isCall := ast.Unparen(e).(*ast.CallExpr); isCall {
						out = append(out, &ast.ExprStmt{X: e})
					}
				}
			}
			if !(top && i == len(list)-1) {
				out = append(out, &ast.BranchStmt{TokPos: r.Pos(), Tok: token.BREAK, Label: &ast.Ident{NamePos: r.Pos(), Name: label}})
				used = true
			}
			continue
		}
		t, ch := c06Rebuild(s, func(l []ast.Stmt) ([]ast.Stmt, bool) {
			l2, u := in.returns(l, sink, label, false)
			if u {
				used = true
			}
			return l2, c06ListChanged(l, l2)
		})
		if ch {
			changed = true
		}
		out = append(out, t)
	}
	if !changed {
		return list, used
	}
	return out, used
}

func c06ListChanged(a, b []ast.Stmt) bool {
	if len(a) != len(b) {
		return true
	}
	for i := range a {
		if a[i] != b[i] {
			return true
		}
	}
	return false
}

// c06Rebuild applies sub to every statement list nested in s and returns a shallow copy of s with the
// new lists when one of them changed.
func c06Rebuild(s ast.Stmt, sub func([]ast.Stmt) ([]ast.Stmt, bool)) (ast.Stmt, bool) {
	block := func(b *ast.BlockStmt) (*ast.BlockStmt, bool) {
		if b == nil {
			return nil, false
		}
		l, ch := sub(b.List)
		if !ch {
			return b, false
		}
		c := *b
		c.List = l
		return &c, true
	}
	clauses := func(b *ast.BlockStmt) (*ast.BlockStmt, bool) {
		if b == nil {
			return nil, false
		}
		c := *b
		c.List = make([]ast.Stmt, len(b.List))
		changed := false
		for i, cl := range b.List {
			c.List[i] = cl
			switch x := cl.(type) {
			case *ast.CaseClause:
				if l, ch := sub(x.Body); ch {
					cc := *x
					cc.Body = l
					c.List[i] = &cc
					changed = true
				}
			case *ast.CommClause:
				if l, ch := sub(x.Body); ch {
					cc := *x
					cc.Body = l
					c.List[i] = &cc
					changed = true
				}
			}
		}
		if !changed {
			return b, false
		}
		return &c, true
	}
	switch x := s.(type) {
	case *ast.BlockStmt:
		if b, ch := block(x); ch {
			return b, true
		}
	case *ast.IfStmt:
		c := *x
		b, ch1 := block(x.Body)
		c.Body = b
		ch2 := false
		if x.Else != nil {
			c.Else, ch2 = c06Rebuild(x.Else, sub)
		}
		if ch1 || ch2 {
			return &c, true
		}
	case *ast.ForStmt:
		if b, ch := block(x.Body); ch {
			c := *x
			c.Body = b
			return &c, true
		}
	case *ast.RangeStmt:
		if b, ch := block(x.Body); ch {
			c := *x
			c.Body = b
			return &c, true
		}
	case *ast.LabeledStmt:
		if t, ch := c06Rebuild(x.Stmt, sub); ch {
			c := *x
			c.Stmt = t
			return &c, true
		}
	case *ast.SwitchStmt:
		if b, ch := clauses(x.Body); ch {
			c := *x
			c.Body = b
			return &c, true
		}
	case *ast.TypeSwitchStmt:
		if b, ch := clauses(x.Body); ch {
			c := *x
			c.Body = b
			return &c, true
		}
	case *ast.SelectStmt:
		if b, ch := clauses(x.Body); ch {
			c := *x
			c.Body = b
			return &c, true
		}
	}
	return s, false
}

// expr rewrites an expression: calls of expandable helpers are substituted (single-return helpers) or
// hoisted into a fresh result variable (hoist != nil only).
func (in *c06Inliner) expr(e ast.Expr, hoist *[]ast.Stmt, d int) ast.Expr {
	switch x := e.(type) {
	case *ast.ParenExpr:
		if y := in.expr(x.X, hoist, d); y != x.X {
			c := *x
			c.X = y
			in.copyType(x, &c)
			return &c
		}
	case *ast.UnaryExpr:
		if x.Op == token.AND || x.Op == token.ARROW {
			return e
		}
		if y := in.expr(x.X, hoist, d); y != x.X {
			c := *x
			c.X = y
			in.copyType(x, &c)
			return &c
		}
	case *ast.BinaryExpr:
		l, r := in.expr(x.X, hoist, d), in.expr(x.Y, hoist, d)
		if l != x.X || r != x.Y {
			c := *x
			c.X, c.Y = l, r
			in.copyType(x, &c)
			return &c
		}
	case *ast.CallExpr:
		args := in.args(x, hoist, d)
		if g := in.eligible(x, d); g != nil {
			bs := in.bindings(x, g, args)
			sig, _ := g.Obj.Type().(*types.Signature)
			if ret := in.exprFunc(g); ret != nil {
				if hoist != nil || in.allPlain(g, bs) {
					binds := in.bind(x, g, bs)
					if hoist != nil {
						*hoist = append(*hoist, binds...)
					}
					in.stack[g] = true
					in.noteLabels(g)
					if g.Decl.Pos() < in.lo {
						in.lo = g.Decl.Pos()
					}
					if g.Decl.End() > in.hi {
						in.hi = g.Decl.End()
					}
					r := in.expr(ret, hoist, d-1)
					delete(in.stack, g)
					in.cnt[g]++ // expanded: never a second time
					p := &ast.ParenExpr{Lparen: x.Pos(), X: r, Rparen: x.End()}
					in.copyType(x, p)
					return p
				}
			} else if hoist != nil && !in.cond && sig.Results().Len() == 1 {
				in.n++
				v := types.NewVar(x.Pos(), in.top.Pkg.Types, fmt.Sprintf("c06res%d", in.n), sig.Results().At(0).Type())
				id := in.ident(v.Name(), x.Pos(), v)
				*hoist = append(*hoist, &ast.DeclStmt{Decl: &ast.GenDecl{TokPos: x.Pos(), Tok: token.VAR, Specs: []ast.Spec{&ast.ValueSpec{Names: []*ast.Ident{id}}}}})
				*hoist = append(*hoist, in.inlineCall(x, g, args, c06Sink{vars: []*types.Var{v}}, d)...)
				in.cnt[g]++
				return in.ident(v.Name(), x.Pos(), v)
			}
		}
		for i := range args {
			if args[i] != x.Args[i] {
				c := *x
				c.Args = args
				in.copyType(x, &c)
				return &c
			}
		}
	}
	return e
}

func (in *c06Inliner) stmts(list []ast.Stmt, d int) ([]ast.Stmt, bool) {
	var out []ast.Stmt
	changed := false
	for _, s := range list {
		r := in.stmt(s, false, d)
		if len(r) != 1 || r[0] != s {
			changed = true
		}
		out = append(out, r...)
	}
	if !changed {
		return list, false
	}
	return out, true
}

func (in *c06Inliner) block(b *ast.BlockStmt, d int) *ast.BlockStmt {
	if b == nil {
		return nil
	}
	l, ch := in.stmts(b.List, d)
	if !ch {
		return b
	}
	c := *b
	c.List = l
	return &c
}

func (in *c06Inliner) clauses(b *ast.BlockStmt, d int) *ast.BlockStmt {
	r, _ := c06Rebuild(&ast.SwitchStmt{Body: b}, func(l []ast.Stmt) ([]ast.Stmt, bool) { return in.stmts(l, d) })
	return r.(*ast.SwitchStmt).Body
}

// stmt returns the statements that replace s (s itself when nothing changes); hoisted statements come
// first, the rewritten statement last.
func (in *c06Inliner) stmt(s ast.Stmt, elseIf bool, d int) []ast.Stmt {
	same := []ast.Stmt{s}
	var hoist []ast.Stmt
	switch x := s.(type) {
	case *ast.ExprStmt:
		if call, ok := ast.Unparen(x.X).(*ast.CallExpr); ok {
			if g := in.eligible(call, d); g != nil {
				args := in.args(call, &hoist, d)
				out := append(hoist, in.inlineCall(call, g, args, c06Sink{}, d)...)
				in.cnt[g]++
				return out
			}
		}
		if y := in.expr(x.X, &hoist, d); y != x.X {
			c := *x
			c.X = y
			return append(hoist, &c)
		}
	case *ast.AssignStmt:
		if len(x.Rhs) == 1 && (x.Tok == token.DEFINE || x.Tok == token.ASSIGN) {
			if call, ok := ast.Unparen(x.Rhs[0]).(*ast.CallExpr); ok {
				if g := in.eligible(call, d); g != nil && c06ExprFunc(g) == nil {
					sig, _ := g.Obj.Type().(*types.Signature)
					vars := make([]*types.Var, 0, len(x.Lhs))
					okL := len(x.Lhs) == sig.Results().Len()
					for _, l := range x.Lhs {
						id, isID := l.(*ast.Ident)
						if !isID {
							okL = false
							break
						}
						v, _ := in.info.ObjectOf(id).(*types.Var)
						if v == nil && id.Name != "_" {
							okL = false
							break
						}
						vars = append(vars, v)
					}
					if okL {
						args := in.args(call, &hoist, d)
						out := append(hoist, in.inlineCall(call, g, args, c06Sink{vars: vars}, d)...)
						in.cnt[g]++
						return out
					}
				}
			}
		}
		rhs := make([]ast.Expr, len(x.Rhs))
		ch := false
		for i, r := range x.Rhs {
			rhs[i] = in.expr(r, &hoist, d)
			if rhs[i] != r {
				ch = true
			}
		}
		if ch {
			c := *x
			c.Rhs = rhs
			return append(hoist, &c)
		}
	case *ast.ReturnStmt:
		if len(x.Results) == 1 {
			if call, ok := ast.Unparen(x.Results[0]).(*ast.CallExpr); ok {
				if g := in.eligible(call, d); g != nil && c06ExprFunc(g) == nil {
					sig, _ := g.Obj.Type().(*types.Signature)
					if sig.Results().Len() == in.resLen[len(in.resLen)-1] {
						args := in.args(call, &hoist, d)
						out := append(hoist, in.inlineCall(call, g, args, c06Sink{tail: true}, d)...)
						in.cnt[g]++
						return out
					}
				}
			}
		}
		res := make([]ast.Expr, len(x.Results))
		ch := false
		for i, r := range x.Results {
			res[i] = in.expr(r, &hoist, d)
			if res[i] != r {
				ch = true
			}
		}
		if ch {
			c := *x
			c.Results = res
			return append(hoist, &c)
		}
	case *ast.DeclStmt:
		gd, ok := x.Decl.(*ast.GenDecl)
		if !ok || gd.Tok != token.VAR {
			return same
		}
		ch := false
		specs := make([]ast.Spec, len(gd.Specs))
		for i, sp := range gd.Specs {
			specs[i] = sp
			vs, isVS := sp.(*ast.ValueSpec)
			if !isVS {
				continue
			}
			vals := make([]ast.Expr, len(vs.Values))
			chv := false
			for j, v := range vs.Values {
				vals[j] = in.expr(v, &hoist, d)
				if vals[j] != v {
					chv = true
				}
			}
			if chv {
				c := *vs
				c.Values = vals
				specs[i] = &c
				ch = true
			}
		}
		if ch {
			g2 := *gd
			g2.Specs = specs
			c := *x
			c.Decl = &g2
			return append(hoist, &c)
		}
	case *ast.BlockStmt:
		if b := in.block(x, d); b != x {
			return []ast.Stmt{b}
		}
	case *ast.IfStmt:
		c := *x
		ch := false
		var pre []ast.Stmt
		if x.Init != nil && !elseIf {
			if r := in.stmt(x.Init, false, d); len(r) != 1 || r[0] != x.Init {
				pre, c.Init, ch = r, nil, true
			}
		}
		hp := &hoist
		if elseIf {
			hp = nil
		}
		// a predicate helper with several returns stays a call in a condition (its answer would become a
		// flag variable, which hides the branch facts); single-return predicates are substituted
		in.cond = true
		y := in.expr(x.Cond, hp, d)
		in.cond = false
		if y != x.Cond {
			c.Cond, ch = y, true
		}
		if b := in.block(x.Body, d); b != x.Body {
			c.Body, ch = b, true
		}
		switch e := x.Else.(type) {
		case *ast.IfStmt:
			if r := in.stmt(e, true, d); len(r) == 1 && r[0] != ast.Stmt(e) {
				c.Else, ch = r[0], true
			}
		case *ast.BlockStmt:
			if b := in.block(e, d); b != e {
				c.Else, ch = b, true
			}
		}
		if ch {
			return append(append(pre, hoist...), &c)
		}
	case *ast.ForStmt:
		c := *x
		ch := false
		if x.Cond != nil {
			if y := in.expr(x.Cond, nil, d); y != x.Cond {
				c.Cond, ch = y, true
			}
		}
		if b := in.block(x.Body, d); b != x.Body {
			c.Body, ch = b, true
		}
		if ch {
			return []ast.Stmt{&c}
		}
	case *ast.RangeStmt:
		c := *x
		ch := false
		if y := in.expr(x.X, &hoist, d); y != x.X {
			c.X, ch = y, true
		}
		if b := in.block(x.Body, d); b != x.Body {
			c.Body, ch = b, true
		}
		if ch {
			return append(hoist, &c)
		}
	case *ast.LabeledStmt:
		r := in.stmt(x.Stmt, false, d)
		if len(r) == 1 && r[0] == x.Stmt {
			return same
		}
		c := *x
		switch r[len(r)-1].(type) {
		case *ast.ForStmt, *ast.RangeStmt, *ast.SwitchStmt, *ast.TypeSwitchStmt, *ast.SelectStmt:
			c.Stmt = r[len(r)-1]
			return append(r[:len(r)-1:len(r)-1], &c)
		}
		if len(r) == 1 {
			c.Stmt = r[0]
		} else {
			c.Stmt = &ast.BlockStmt{Lbrace: x.Pos(), List: r, Rbrace: x.End()}
		}
		return []ast.Stmt{&c}
	case *ast.SwitchStmt:
		if b := in.clauses(x.Body, d); b != x.Body {
			c := *x
			c.Body = b
			return []ast.Stmt{&c}
		}
	case *ast.TypeSwitchStmt:
		if b := in.clauses(x.Body, d); b != x.Body {
			c := *x
			c.Body = b
			return []ast.Stmt{&c}
		}
	case *ast.SelectStmt:
		if b := in.clauses(x.Body, d); b != x.Body {
			c := *x
			c.Body = b
			return []ast.Stmt{&c}
		}
	}
	return same
}

// c06LoopsAround lists the loops of f's own body that contain the node, outermost first (by the
// syntax tree, so that it also works in an inlined view, where source positions do not nest).
func c06LoopsAround(f *core.FuncInfo, n ast.Node) []ast.Stmt {
	var out, stack []ast.Stmt
	var nodes []ast.Node
	found := false
	ast.Inspect(f.Body, func(m ast.Node) bool {
		if found {
			return false
		}
		if m == nil {
			last := nodes[len(nodes)-1]
			nodes = nodes[:len(nodes)-1]
			switch last.(type) {
			case *ast.ForStmt, *ast.RangeStmt:
				stack = stack[:len(stack)-1]
			}
			return true
		}
		if _, isLit := m.(*ast.FuncLit); isLit && m != n {
			return false
		}
		if m == n {
			out = append([]ast.Stmt(nil), stack...)
			found = true
			return false
		}
		nodes = append(nodes, m)
		switch s := m.(type) {
		case *ast.ForStmt, *ast.RangeStmt:
			stack = append(stack, s.(ast.Stmt))
		}
		return true
	})
	return out
}

// c06Loop: the innermost loop around the node (nil if none).
func c06Loop(f *core.FuncInfo, n ast.Node) ast.Stmt {
	if l := c06LoopsAround(f, n); len(l) > 0 {
		return l[len(l)-1]
	}
	return nil
}
