package rules

import (
	"go/ast"
	"go/token"
	"go/types"

	"lachk/core"
)

// c17FieldSet is one place where a struct field receives a value: `x.f = v`, or the element for f in a
// composite literal of the struct type (keyed or positional).
type c17FieldSet struct {
	RHS ast.Expr
	Pt  core.Point
	Pos token.Pos
}

// c17FieldSets lists the places inside the lexical range [lo, hi) of f where the field gets a value.
func c17FieldSets(f *core.FuncInfo, field string, lo, hi token.Pos) []c17FieldSet {
	var out []c17FieldSet
	for _, a := range assignments(f) {
		if a.Stmt.Pos() < lo || a.Stmt.Pos() >= hi || a.RHS == nil || a.Tok != token.ASSIGN && a.Tok != token.DEFINE {
			continue
		}
		if sel, ok := ast.Unparen(a.LHS).(*ast.SelectorExpr); ok && fieldNameOf(f, sel) == field {
			out = append(out, c17FieldSet{RHS: a.RHS, Pt: a.Pt, Pos: a.Stmt.Pos()})
		}
	}
	f.InspectOwn(func(n ast.Node) bool {
		lit, ok := n.(*ast.CompositeLit)
		if !ok || lit.Pos() < lo || lit.Pos() >= hi {
			return true
		}
		tv, ok := f.Info().Types[lit]
		if !ok || tv.Type == nil {
			return true
		}
		st, ok := tv.Type.Underlying().(*types.Struct)
		if !ok {
			return true
		}
		for i, el := range lit.Elts {
			var fv *types.Var
			val := el
			if kv, isKV := el.(*ast.KeyValueExpr); isKV {
				if id, isID := kv.Key.(*ast.Ident); isID {
					fv, _ = f.Info().ObjectOf(id).(*types.Var)
				}
				val = kv.Value
			} else if i < st.NumFields() {
				fv = st.Field(i)
			}
			if fv != nil && fv.IsField() && f.P.FieldName(fv) == field {
				if pt, ok := f.PointOf(lit); ok {
					out = append(out, c17FieldSet{RHS: val, Pt: pt, Pos: lit.Pos()})
				}
			}
		}
		return true
	})
	return out
}

// c17HandedBack: the frame is a helper that does not queue a response itself but every call of it is
// followed, in the calling frame, by a place that may queue one. Its return points then stand for the
// send: what the helper put into the response is what the caller queues.
func c17HandedBack(sc *c17Scope, fr *c17Frame, sends func(*c17Frame) []core.Point) []core.Point {
	if fr.Root || fr.End != nil || len(fr.Callers) == 0 {
		return nil
	}
	for _, cl := range fr.Callers {
		if cl.Detached {
			return nil
		}
		later := false
		for _, sp := range sc.MaySites(cl.Parent, sends) {
			if cl.Parent.reaches(cl.Site.Pt, sp) {
				later = true
			}
		}
		if !later {
			return nil
		}
	}
	return fr.F.ReturnPoints()
}

// c17ResetPerRound decides that the flag variable the session's done latch (and the response's Done
// mark) is copied from speaks about the current chunk only: when the copy lies on a cycle of its
// function, every way round passes a fresh definition of the variable made in the function's own body
// (not inside a callback literal, not in terms of its own previous value). A variable that is local to a
// helper called once per chunk is fresh by construction. A parameter is followed to the argument of
// every call. Returns the verdict and a description of the offending round.
func c17ResetPerRound(sc *c17Scope, fr *c17Frame, v *types.Var, at core.Point, depth int) (bool, string) {
	f := fr.F
	if v == nil || depth <= 0 {
		return true, ""
	}
	if i := c18ParamIndex(f, v); i >= 0 {
		if len(assignsToVar(f, v)) > 0 || fr.Root || fr.End != nil {
			return true, ""
		}
		for _, cl := range fr.Callers {
			if cl.Detached || i >= len(cl.Site.Call.Args) {
				continue
			}
			pf := cl.Parent.F
			w := c17ValueSource(pf, cl.Site.Call.Args[i], cl.Site.Pt, nil, 4)
			if ok, why := c17ResetPerRound(sc, cl.Parent, w, cl.Site.Pt, depth-1); !ok {
				return false, why
			}
		}
		return true, ""
	}
	if !(f.Body.Pos() <= v.Pos() && v.Pos() < f.Body.End()) {
		return true, "" // not a local of this function: nothing to decide here
	}
	if !fr.reaches(at, at) {
		return true, ""
	}
	var fresh []core.Point
	for _, a := range assignsToVar(f, v) {
		if a.Tok != token.ASSIGN && a.Tok != token.DEFINE {
			continue
		}
		if a.RHS != nil && mentionsObj(f, a.RHS, v) {
			continue
		}
		if _, isRange := a.Stmt.(*ast.RangeStmt); isRange {
			continue
		}
		fresh = append(fresh, a.Pt)
	}
	if wit, again := fr.round(at, core.PointSet(fresh...), nil); again {
		return false, "in " + short(f.Name) + " the flag '" + v.Name() + "' keeps its value from the previous chunk: " + f.DescribePath(wit)
	}
	return true, ""
}

// c17ValueSource follows a value back to the local variable it was copied from: a variable stands for
// itself (pure aliases looked through); a read of one of the tracked fields stands for the value last
// stored into it, when one store of that field precedes the read on every path (in the same iteration)
// — then the stored expression is followed in turn.
func c17ValueSource(f *core.FuncInfo, e ast.Expr, at core.Point, sets map[string][]c17FieldSet, depth int) *types.Var {
	if e == nil || depth <= 0 {
		return nil
	}
	e = core.StripConv(f.Info(), e)
	if v := varOf(f, e); v != nil {
		if w := canonVar(f, v); w != v || singleDef(f, v) == nil {
			return w
		}
		// a single-definition local holding a field read: follow the definition at the point where it is made
		d := singleDef(f, v)
		for _, a := range assignsToVar(f, v) {
			if a.RHS == d {
				if w := c17ValueSource(f, d, a.Pt, sets, depth-1); w != nil {
					return w
				}
			}
		}
		return v
	}
	sel, ok := ast.Unparen(e).(*ast.SelectorExpr)
	if !ok {
		return nil
	}
	name := ""
	if s, ok := f.Info().Selections[sel]; ok {
		if v, ok := s.Obj().(*types.Var); ok && v.IsField() {
			name = f.P.FieldName(v)
		}
	}
	fs, tracked := sets[name]
	if !tracked || len(fs) == 0 {
		return nil
	}
	// the store that reaches the read: with several stores, the one that precedes locally and is not
	// followed by another store before the read
	for _, s := range fs {
		if s.Pt == at {
			continue
		}
		if ok, _ := precedesLocally(f, []core.Point{s.Pt}, at); !ok {
			continue
		}
		var others []core.Point
		for _, o := range fs {
			if o.Pt != s.Pt {
				others = append(others, o.Pt)
			}
		}
		clobbered := false
		for _, o := range others {
			// a path s -> o -> at that does not pass s again
			_, in := core.PathQuery{F: f, From: s.Pt, FromAfter: true, Target: core.PointSet(o), Avoid: core.PointSet(s.Pt)}.Find()
			if !in {
				continue
			}
			if _, out := (core.PathQuery{F: f, From: o, FromAfter: true, Target: core.PointSet(at), Avoid: core.PointSet(s.Pt)}).Find(); out {
				clobbered = true
			}
		}
		if !clobbered {
			return c17ValueSource(f, s.RHS, s.Pt, sets, depth-1)
		}
	}
	return nil
}
