package rules

import (
	"go/ast"
	"go/token"
	"go/types"
	"math/big"

	"golang.org/x/tools/go/cfg"

	"lachk/core"
)

// c06Scan describes where the pairwise overlap test lives: in fillEventVectors itself (the hit is the
// setForkDetected call) or in a boolean helper called from there (the hits are its `return true`s).
type c06Scan struct {
	g        *core.FuncInfo
	onBefore func(ast.Expr) bool // the expression denotes the event's HighestBefore vector (in g)
	isN      func(ast.Expr) bool // the expression denotes the examined validator index (in g)
	isBr     func(ast.Expr) bool // the expression denotes the examined validator's branch list handed to g (may be nil)
	hits     []core.Point
	hitNode  ast.Node // the first hit (its enclosing loops are the pair loops)
	hitPos   token.Pos
}

// c06PairScan decides the pair loops, the overlap test and its two-sidedness inside sc.g.
func c06PairScan(c *core.Ctx, sc c06Scan) {
	const byCr = "vecengine.BranchesInfo.BranchIDByCreators"
	g := sc.g
	res := func(e ast.Expr) ast.Expr { return resolveLocal(g, e) }
	loops := c06LoopsAround(g, sc.hitNode)
	c.Need(len(loops) >= 2, "the overlap test sits in two nested loops over the validator's branches")
	lA, lB := loops[len(loops)-2], loops[len(loops)-1]
	itA, okA := core.IterationOf(g, lA, res)
	itB, okB := core.IterationOf(g, lB, res)
	c.Need(okA && okB && itA.Head != nil && itB.Head != nil && len(itB.Head.Succs) > 0, "the pair loops are recognisable iterations")
	branches := func(e ast.Expr) bool {
		if sc.isBr != nil && sc.isBr(e) {
			return true
		}
		ix, isIx := res(e).(*ast.IndexExpr)
		if !isIx {
			return false
		}
		_, pth := fieldPath(g, ix.X)
		return len(pth) >= 1 && pth[len(pth)-1] == byCr && sc.isN(ix.Index)
	}
	// the overlap test is symmetric, so the inner loop may also start right after the outer index (unordered pairs)
	bFull := itB.FromZero
	if fs, isFor := lB.(*ast.ForStmt); !bFull && isFor && itA.Counted && itA.Index != nil {
		if as, isAs := fs.Init.(*ast.AssignStmt); isAs && len(as.Rhs) == 1 {
			lin := core.Linearize(g.Info(), as.Rhs[0], func(e ast.Expr) string {
				if v := varOf(g, res(e)); v != nil && v == itA.Index {
					return "i"
				}
				return ""
			})
			one := big.NewInt(1)
			bFull = len(lin.Coef) == 1 && lin.Coef["i"] != nil && lin.Coef["i"].Cmp(one) == 0 && lin.C.Cmp(one) == 0
		}
	}
	c.Check(itA.FromZero && bFull && itA.Coll != nil && itB.Coll != nil && branches(itA.Coll) && branches(itB.Coll), "every pair of the validator's branches is examined", "loop abstraction", lA.Pos(), "both loops range over BranchIDByCreators[n]", "the pair loops do not range over all branches of the validator: overlapping branches can go unnoticed")
	role := func(e ast.Expr) string {
		switch {
		case itA.IsElem(e, res):
			return "A"
		case itB.IsElem(e, res):
			return "B"
		}
		return ""
	}
	namer := func(e ast.Expr) string {
		call, isCall := res(e).(*ast.CallExpr)
		if !isCall || len(call.Args) != 1 {
			return ""
		}
		sel, isSel := call.Fun.(*ast.SelectorExpr)
		if !isSel || !sc.onBefore(sel.X) || role(call.Args[0]) == "" {
			return ""
		}
		switch {
		case methodNamed(calleeName(g, call), "MinSeq"):
			return "min." + role(call.Args[0])
		case methodNamed(calleeName(g, call), "Seq"):
			return "seq." + role(call.Args[0])
		}
		return ""
	}
	f1 := c06LinFact(g, namer, "min.A - seq.B <= 0")
	f2 := c06LinFact(g, namer, "min.B - seq.A <= 0")
	neg := func(m func(core.Fact) bool) func(core.Fact) bool {
		return func(ft core.Fact) bool { return m(core.Fact{Expr: ft.Expr, Truth: !ft.Truth}) }
	}
	body := c06Body(itB)
	for _, hit := range sc.hits {
		g1, w1 := g.GuardedBetween(body, hit, f1)
		g2, w2 := g.GuardedBetween(body, hit, f2)
		wit := w1
		if g1 {
			wit = w2
		}
		c.Check(g1 && g2, "a fork is marked only when the two branches' sequence ranges overlap", "T8 + T4", posOf(hit), "MinSeq(a) <= Seq(b) && MinSeq(b) <= Seq(a)", "a fork can be marked for branches whose sequence ranges do not overlap (false fork report), or the overlap test is not the closed-interval test: "+g.DescribePath(wit))
	}
	// two-sided: a pair passes to the next pair unmarked only for the listed reasons
	same := func(ft core.Fact) bool {
		cm, ok := core.NormCmp(ft)
		if !ok || cm.R == nil || cm.Op != token.EQL {
			return false
		}
		l, r := role(cm.L), role(cm.R)
		return l != "" && r != "" && l != r
	}
	empty := c06CallFact(g, "IsEmpty", true, func(call *ast.CallExpr, recv ast.Expr) bool {
		return sc.onBefore(recv) && len(call.Args) == 1 && role(call.Args[0]) != ""
	})
	nf1, nf2 := neg(f1), neg(f2)
	excused := g.EdgesImplying(func(ft core.Fact) bool { return same(ft) || empty(ft) || nf1(ft) || nf2(ft) })
	path, found := core.PathQuery{F: g, From: body, Avoid: core.PointSet(sc.hits...), AvoidEdge: excused, TargetBlock: func(b *cfg.Block) bool { return b == itB.Head }}.Find()
	c.Check(!found, "overlapping branches are always marked", "T4 two-sided", sc.hitPos, "a pair goes unmarked only if a == b, a branch is empty, or a range bound fails", "two distinct non-empty branches with overlapping ranges can pass without the fork being marked: "+g.DescribePath(path))
	c.ExpectAtLeast("overlap comparisons", len(edgesWithFact(g, f1))+len(edgesWithFact(g, f2)), 2)
}

func c06Detect(c *core.Ctx) {
	// the inlined view: the scan may be written out in fillEventVectors or live in a method called from
	// there (with the overlap test in a predicate function)
	f := c06View(c.Fn("vecengine.Engine.fillEventVectors"), "engine", c06LeafEngine)
	res := func(e ast.Expr) ast.Expr { return resolveLocal(f, e) }
	collects := f.CallsMatching(func(cs *core.CallSite) bool { return methodNamed(cs.Name, "CollectFrom") })
	c.Need(len(collects) >= 1, "fillEventVectors collects the parents' vectors")
	before := collects[0].Recv()
	onBefore := func(recv ast.Expr) bool { return c06SameLoc(f, recv, before) }
	validatorsLen := func(e ast.Expr) bool {
		call, isCall := res(core.StripConv(f.Info(), res(e))).(*ast.CallExpr)
		if !isCall || calleeName(f, call) != "inter/pos.Validators.Len" {
			return false
		}
		root, _ := fieldPath(f, call.Fun.(*ast.SelectorExpr).X)
		return varOf(f, res(root)) == f.Recv()
	}
	nPair := 0
	for _, site := range f.CallsTo("vecengine.Engine.setForkDetected") {
		if len(site.Call.Args) != 2 || !onBefore(site.Call.Args[0]) {
			continue
		}
		loops := c06LoopsAround(f, site.Call)
		if len(loops) == 0 {
			continue
		}
		// form 1: the pair loops are written out here; form 2: the site is guarded by a boolean helper
		var nLoop ast.Stmt
		var itN *core.Iteration
		var sc c06Scan
		var scanPts []core.Point  // helper form: the call of the helper
		var scanHead *cfg.Block   // direct form: head of the outer pair loop
		var helper *core.CallSite // helper form
		if len(loops) >= 3 {
			nLoop = loops[len(loops)-3]
		} else {
			nLoop = loops[len(loops)-1]
		}
		it, okN := core.IterationOf(f, nLoop, res)
		if !okN || it.Head == nil || len(it.Head.Succs) == 0 || it.Index == nil {
			if len(loops) >= 3 {
				c.Undecided("validator loop of the fork scan", "loop abstraction", nLoop.Pos(), "the loop around the pair test is not a recognisable iteration over the validators")
			}
			continue
		}
		itN = it
		isN := func(e ast.Expr) bool {
			return varOf(f, res(core.StripConv(f.Info(), res(e)))) == itN.Index
		}
		if len(loops) >= 3 {
			sc = c06Scan{g: f, onBefore: onBefore, isN: isN, hits: []core.Point{site.Pt}, hitNode: site.Call, hitPos: site.Pos()}
			if itA, okA := core.IterationOf(f, loops[len(loops)-2], res); okA {
				scanHead = itA.Head
			}
		} else {
			// look for a guarding call H(…before…, …n…) == true of a module function with a bool result
			for _, cs := range f.Calls() {
				h := f.P.Func(cs.Name)
				if h == nil || h.Obj == nil || c06Loop(f, cs.Call) != nLoop {
					continue
				}
				h = c06View(h, "engine", c06LeafEngine)
				sig, _ := h.Obj.Type().(*types.Signature)
				if sig == nil || sig.Results().Len() != 1 || !types.Identical(sig.Results().At(0).Type().Underlying(), types.Typ[types.Bool]) {
					continue
				}
				// the helper is given the vector and either the validator index or that validator's branch list
				var pBefore, pN, pBr *types.Var
				for i, a := range cs.Call.Args {
					if i >= sig.Params().Len() {
						break
					}
					if onBefore(a) {
						pBefore = h.Param(i)
					} else if isN(a) {
						pN = h.Param(i)
					} else if ix, isIx := res(a).(*ast.IndexExpr); isIx && isN(ix.Index) {
						if _, pth := fieldPath(f, ix.X); len(pth) >= 1 && pth[len(pth)-1] == "vecengine.BranchesInfo.BranchIDByCreators" {
							pBr = h.Param(i)
						}
					}
				}
				if pBr != nil && len(assignsToVar(h, pBr)) > 0 {
					pBr = nil // the list parameter is replaced inside the helper
				}
				if pBefore == nil || (pN == nil && pBr == nil) {
					continue
				}
				call := cs.Call
				isH := func(ft core.Fact) bool {
					return ft.Truth && ast.Unparen(resolveLocal(f, ft.Expr)) == ast.Expr(call)
				}
				if gd, _ := f.GuardedBetween(c06Body(itN), site.Pt, isH); !gd {
					continue
				}
				var hits []core.Point
				okRets := true
				for _, rp := range h.ReturnPoints() {
					r, isRet := rp.Node().(*ast.ReturnStmt)
					if !isRet || len(r.Results) != 1 {
						okRets = false
						continue
					}
					v, isConst := core.ConstVal(h.Info(), r.Results[0])
					if !isConst {
						okRets = false
						continue
					}
					if v.String() == "true" {
						hits = append(hits, rp)
					}
				}
				// a guarding predicate without pair loops (e.g. "some branch of n is already marked") is not the
				// pair scan: the site it guards is the propagation site
				if len(hits) == 0 || len(c06LoopsAround(h, hits[0].Node())) < 2 {
					continue
				}
				helper = cs
				scanPts = []core.Point{cs.Pt}
				c.Check(okRets, "the overlap helper answers with constants", "T12", h.Pos(), "every return of "+short(h.Name)+" is true or false", "the helper that guards the fork mark returns something this rule cannot read")
				sc = c06Scan{g: h, hitNode: hits[0].Node(),
					onBefore: func(e ast.Expr) bool { return varOf(h, resolveLocal(h, e)) == pBefore },
					isN: func(e ast.Expr) bool {
						return pN != nil && varOf(h, resolveLocal(h, core.StripConv(h.Info(), resolveLocal(h, e)))) == pN
					},
					isBr: func(e ast.Expr) bool { return pBr != nil && varOf(h, resolveLocal(h, e)) == pBr },
					hits: hits, hitPos: posOf(hits[0])}
				// two-sided in the caller: a positive answer always leads to the mark
				for _, e := range edgesWithFact(f, isH) {
					path, found := core.PathQuery{F: f, From: blockEntry(e.B.Succs[e.Succ]), Avoid: core.PointSet(site.Pt), TargetExit: true, TargetBlock: func(b *cfg.Block) bool { return b == itN.Head }}.Find()
					c.Check(!found, "a detected overlap is always marked", "T4 two-sided", site.Pos(), "the helper's true edge always reaches setForkDetected", "the overlap helper can answer true without the fork being marked: "+f.DescribePath(path))
				}
				break
			}
			if helper == nil {
				continue // the propagation site (one loop over the branches): not a necessary condition of the merged view
			}
		}
		nPair++
		c.Check(itN.Counted && itN.FromZero && itN.Bound != nil && validatorsLen(itN.Bound), "every validator is examined", "loop abstraction", nLoop.Pos(), "for n := 0; n < validators.Len(); n++", "the fork scan does not cover every validator index")
		c06PairScan(c, sc)
		// the marked creator is the examined one
		c.Check(isN(site.Call.Args[1]), "the fork is marked for the examined validator", "provenance", site.Pos(), "setForkDetected(before, n)", "the fork is marked for another validator than the one whose branches overlap")
		// every validator that is not already marked gets the pair scan
		marked := c06CallFact(f, "IsForkDetected", true, func(call *ast.CallExpr, recv ast.Expr) bool {
			return onBefore(recv) && len(call.Args) == 1 && isN(call.Args[0])
		})
		markedEdge := f.EdgesImplying(marked)
		intoScan := func(b *cfg.Block, s int) bool { return scanHead != nil && b.Succs[s] == scanHead }
		path, found := core.PathQuery{F: f, From: c06Body(itN), Avoid: core.PointSet(scanPts...), AvoidEdge: func(b *cfg.Block, s int) bool {
			return intoScan(b, s) || markedEdge(b, s)
		}, TargetBlock: func(b *cfg.Block) bool { return b == itN.Head }}.Find()
		c.Check(!found && (scanHead != nil || len(scanPts) > 0), "only already marked validators are exempt from the pair scan", "T4", nLoop.Pos(), "skip only on before.IsForkDetected(n)", "a validator can be skipped by the pair scan although no fork is marked for it: "+f.DescribePath(path))
		// the scan runs whenever the index has a fork
		noFork := c06CallFact(f, "AtLeastOneFork", false, func(_ *ast.CallExpr, _ ast.Expr) bool { return true })
		nfEdge := f.EdgesImplying(noFork)
		nHead := itN.Head
		for _, st := range f.CallsMatching(func(cs *core.CallSite) bool { return methodNamed(cs.Name, "SetHighestBefore") }) {
			path, found = core.PathQuery{F: f, From: f.Entry(), Target: core.PointSet(st.Pt), AvoidEdge: func(b *cfg.Block, s int) bool {
				return b.Succs[s] == nHead || nfEdge(b, s)
			}}.Find()
			c.Check(!found, "the pair scan runs before the vector is stored whenever a fork exists", "T2 dominance", st.Pos(), "skipped only on !AtLeastOneFork()", "the vector can be stored without the fork scan although the index has forks: "+f.DescribePath(path))
		}
	}
	c.ExpectAtLeast("pairwise fork detection sites", nPair, 1)
}
