package rules

import (
	"fmt"
	"go/ast"
	"go/constant"
	"go/token"
	"go/types"
	"math/big"
	"sort"
	"strings"

	"golang.org/x/tools/go/cfg"

	"lachk/core"
)

const (
	c12Elem    = c11Pkg + ".validator"
	c12Arr     = c11Pkg + ".validators"
	c12FID     = c12Elem + ".ID"
	c12FWeight = c12Elem + ".Weight"
	c12B       = c11Pkg + ".ValidatorsBuilder"
	c12Big     = c11Pkg + ".ValidatorsBigBuilder"
	c12Rlp     = "github.com/ethereum/go-ethereum/rlp"
)

func init() {
	register("C12", "other", "T13 TotalOrder comparator (exhaustive abstract evaluation over the order type of the two keys, atoms via NormCmp), T10-iii MapOrder, T14-style codec type agreement, T6 WhoMayWrite + alias rule over the module, T15 ConstRelation, T4 GuardedBy",
		"Decides the shape the canonical form depends on. Comparator: validators.Less is evaluated abstractly on all 9 order types of (Weight_i ? Weight_j, ID_i ? ID_j) and equals 'Weight descending, then ID ascending'; Swap exchanges the two elements (its straight-line body is executed on the symbolic state vv[i]=I, vv[j]=J), Len is len; the tie-break field ID of every sorted element is the key of the ranged map (unique). sortedArray puts one element {ID: key, Weight: value} per map entry into a slice that holds nothing else (append to an empty slice, or stores at a counter that starts at 0 and advances by one per iteration into a slice of exactly len(values) slots; no early exit, none skipped), sorts with that comparator before every return, and the slice has no other use before the sort. Function bodies are read as written or through their inlined views (helpers and local closures looked through, see c11_view.go); stores of delegates are attributed to their callers (c11_deleg.go). calcCaches iterates over sortedArray() from the first element, in one pass or one pass per cache field (range, or a loop counted by one up to len of a local holding it; index and element bound by the loop header only) and stores ids[i], weights[i], indexes[id]=i for the loop index and the element of that iteration (range value, C[i], or a local holding C[i]) on every iteration. Constructors may give fields in the literal (keyed or positional) or by single stores through the fresh, non-escaping local that holds the object. Only non-zero pairs: ValidatorsBuilder.Set stores only on the edge weight != 0 and deletes otherwise; newValidators fills a fresh map through Set and stores that map. RLP: EncodeRLP encodes sortedArray(); DecodeRLP decodes a slice with the identical element type, feeds every element to a fresh builder and replaces the receiver by the built set only after a successful decode. Immutability: T6 on all fields of Validators and cache (module-wide for literals and whole-struct stores), Copy/Build return newValidators(...) (fresh objects), and the alias rule: over all packages of the module, every value derived from cache.ids/weights/indexes or Validators.values - through the accessors that return them uncopied (discovered, not listed: IDs, SortedIDs, SortedWeights, Idxs), local variables, struct fields, parameters of module functions (flow-insensitive propagation on the typed AST to a fixpoint; accessor method values, interfaces exposing an accessor, containers and foreign callees are undecided) - is only ranged, indexed for reading, measured, compared with nil or copied from; an element store, append, sort, delete, copy-into or address-of is a violation, an unclassified use is undecided. Big builder: one shift variable, never assigned after its first use, is the second argument of every Rsh applied to each ranged stake; shift is 0 or bits-B on the edge bits > B (shift = max(0, BitLen(total)-B)); T15: 2^B-1 <= K < 2^(B+1)-1 for the limit K of calcCaches, so the scaled total fits (Build cannot reach the overflow panic) and the shift is the smallest that guarantees it; a common floor-shift is monotone, so stake order is kept. Not decided: equality of the decoded and the original set as a runtime fact (follows from the above modulo the RLP library, trusted); behaviour for negative big stakes (Set only drops nil and zero; outside the quantifier).",
		[]string{"go-ethereum rlp encodes/decodes a slice of struct{ID,Weight} faithfully and in order", "sort.Sort yields a permutation sorted by the given strict total order", "math/big contracts (BitLen, Rsh, Uint64, Add)", "big stakes are non-negative"},
		runC12)
}

// ---------------------------------------------------------------------------
// comparator: exhaustive abstract evaluation

type c12Atom struct {
	field string
	side  int // 0: element i, 1: element j
}

type c12Cmp struct {
	f      *core.FuncInfo
	recv   *types.Var
	pi, pj *types.Var
	cs     map[string]int // field -> sign(elem_i.field - elem_j.field)
	err    string
	env    map[*types.Var]bool // boolean locals assigned so far on the walked path (result variables)
}

func (k *c12Cmp) elemSide(e ast.Expr, depth int) (int, bool) {
	e = ast.Unparen(e)
	// a pointer to the element denotes the same element (p := &vv[i]; p.Weight, (*p).Weight): Less does not
	// store through anything (checked by run), so the pointee is the element at entry
	for {
		if u, ok := e.(*ast.UnaryExpr); ok && u.Op == token.AND {
			e = ast.Unparen(u.X)
			continue
		}
		if s, ok := e.(*ast.StarExpr); ok {
			e = ast.Unparen(s.X)
			continue
		}
		break
	}
	if ix, ok := e.(*ast.IndexExpr); ok && varOf(k.f, ix.X) == k.recv {
		switch varOf(k.f, ix.Index) {
		case k.pi:
			return 0, true
		case k.pj:
			return 1, true
		}
		return 0, false
	}
	if v := varOf(k.f, e); v != nil && v != k.recv && depth < 3 {
		if d := c11SingleDef(k.f, v); d != nil {
			return k.elemSide(d, depth+1)
		}
	}
	return 0, false
}

func (k *c12Cmp) atom(e ast.Expr) (c12Atom, bool) {
	sel, ok := ast.Unparen(e).(*ast.SelectorExpr)
	if !ok {
		return c12Atom{}, false
	}
	fn := fieldNameOf(k.f, sel)
	if fn == "" {
		return c12Atom{}, false
	}
	side, ok := k.elemSide(sel.X, 0)
	if !ok {
		return c12Atom{}, false
	}
	return c12Atom{fn, side}, true
}

func (k *c12Cmp) eval(e ast.Expr) bool {
	e = ast.Unparen(e)
	if v, ok := core.ConstVal(k.f.Info(), e); ok && v.Kind() == constant.Bool {
		return constant.BoolVal(v)
	}
	switch x := e.(type) {
	case *ast.Ident:
		if v := varOf(k.f, x); v != nil {
			if val, ok := k.env[v]; ok {
				return val
			}
		}
	case *ast.UnaryExpr:
		if x.Op == token.NOT {
			return !k.eval(x.X)
		}
	case *ast.BinaryExpr:
		switch x.Op {
		case token.LAND:
			return k.eval(x.X) && k.eval(x.Y)
		case token.LOR:
			return k.eval(x.X) || k.eval(x.Y)
		}
		cm, ok := core.NormCmp(core.Fact{Expr: x, Truth: true})
		if ok && cm.R != nil {
			l, okl := k.atom(cm.L)
			r, okr := k.atom(cm.R)
			if okl && okr && l.field == r.field && l.side != r.side {
				s, known := k.cs[l.field]
				if !known {
					k.err = "comparison on a field outside the key set: " + l.field
					return false
				}
				if l.side == 1 {
					s = -s
				}
				switch cm.Op {
				case token.EQL:
					return s == 0
				case token.NEQ:
					return s != 0
				case token.LSS:
					return s < 0
				case token.LEQ:
					return s <= 0
				}
			}
		}
	}
	if k.err == "" {
		k.err = "condition not over the two elements' key fields: " + exprStr(e)
	}
	return false
}

// setBool records the value of a boolean local: rhs evaluated in the current case (nil: the zero value).
// A right-hand side that cannot be evaluated leaves the variable unknown (an error only if it is read).
func (k *c12Cmp) setBool(v *types.Var, rhs ast.Expr) {
	if v == nil {
		return
	}
	if b, ok := v.Type().Underlying().(*types.Basic); !ok || b.Kind() != types.Bool {
		return
	}
	if rhs == nil {
		k.env[v] = false
		return
	}
	saved := k.err
	val := k.eval(rhs)
	if k.err != saved {
		k.err = saved
		delete(k.env, v)
		return
	}
	k.env[v] = val
}

// run walks the CFG under the current case and returns the comparator's result.
func (k *c12Cmp) run() bool {
	k.env = map[*types.Var]bool{}
	b := k.f.CFG().Blocks[0]
	for steps := 0; steps < 256 && k.err == ""; steps++ {
		for _, n := range b.Nodes {
			switch s := n.(type) {
			case *ast.ReturnStmt:
				if len(s.Results) != 1 {
					k.err = "return without a single result"
					return false
				}
				return k.eval(s.Results[0])
			case *ast.AssignStmt:
				for _, l := range s.Lhs {
					if v := varOf(k.f, l); v == nil || v == k.recv || v == k.pi || v == k.pj {
						k.err = "assignment to something other than a local variable"
						return false
					}
				}
				// a boolean local (result variable) takes the value its right-hand side has now
				if (s.Tok == token.ASSIGN || s.Tok == token.DEFINE) && len(s.Lhs) == len(s.Rhs) {
					for i, l := range s.Lhs {
						k.setBool(varOf(k.f, l), s.Rhs[i])
					}
				}
			case *ast.ValueSpec:
				// var x T [= e] (go/cfg lists the specs of a declaration statement)
				for i, nm := range s.Names {
					v, _ := k.f.Info().Defs[nm].(*types.Var)
					switch {
					case len(s.Values) == 0:
						k.setBool(v, nil)
					case len(s.Values) == len(s.Names):
						k.setBool(v, s.Values[i])
					}
				}
			case *ast.DeclStmt, ast.Expr:
			default:
				k.err = fmt.Sprintf("statement kind %T in a comparator", n)
				return false
			}
		}
		switch {
		case k.f.BranchCond(b) != nil:
			if k.eval(k.f.BranchCond(b)) {
				b = b.Succs[0]
			} else {
				b = b.Succs[1]
			}
		case len(b.Succs) == 1:
			b = b.Succs[0]
		default:
			k.err = "control flow other than if/return"
			return false
		}
	}
	if k.err == "" {
		k.err = "comparator does not terminate within the step bound"
	}
	return false
}

// c12SwapExchanges executes the body of Swap(i, j) symbolically. The two slots vv[i], vv[j] start as I and
// J; a local holds I or J once it has been assigned (the zero value is not modelled, so for i == j every
// value in play is the same element and any accepted sequence is the identity). Only straight-line
// (parallel) assignments between the two slots and locals are understood. ok iff the final state is
// vv[i]=J, vv[j]=I and nothing else was stored.
func c12SwapExchanges(sw *core.FuncInfo) (bool, string) {
	sr, si, sj := sw.Recv(), sw.Param(0), sw.Param(1)
	if sr == nil || si == nil || sj == nil {
		return false, "unnamed receiver or index parameters"
	}
	if len(assignsToVar(sw, sr))+len(assignsToVar(sw, si))+len(assignsToVar(sw, sj)) != 0 {
		return false, "receiver or indices are reassigned"
	}
	if len(sw.Lits()) > 0 {
		return false, "function literal in Swap"
	}
	slot := func(e ast.Expr) int {
		x, ok := ast.Unparen(e).(*ast.IndexExpr)
		if !ok || varOf(sw, x.X) != sr {
			return -1
		}
		switch varOf(sw, x.Index) {
		case si:
			return 0
		case sj:
			return 1
		}
		return -1
	}
	slots := [2]string{"I", "J"}
	env := map[*types.Var]string{}
	eval := func(e ast.Expr) (string, bool) {
		if s := slot(e); s >= 0 {
			return slots[s], true
		}
		if v := varOf(sw, e); v != nil && v != sr && v != si && v != sj {
			val, ok := env[v]
			return val, ok
		}
		return "", false
	}
	store := func(l ast.Expr, val string) bool {
		if s := slot(l); s >= 0 {
			slots[s] = val
			return true
		}
		if id, ok := ast.Unparen(l).(*ast.Ident); ok && id.Name == "_" {
			return true
		}
		v := varOf(sw, l)
		if v == nil || v == sr || v == si || v == sj || v.IsField() || v.Parent() == nil || v.Parent() == v.Pkg().Scope() {
			return false
		}
		env[v] = val
		return true
	}
	move := func(lhs, rhs []ast.Expr) (bool, string) {
		vals := make([]string, len(rhs))
		for k, r := range rhs {
			v, ok := eval(r)
			if !ok {
				return false, "the value " + exprStr(r) + " is not one of the two elements"
			}
			vals[k] = v
		}
		for k, l := range lhs {
			if !store(l, vals[k]) {
				return false, "store to " + exprStr(l) + ", which is neither of the two slots nor a local"
			}
		}
		return true, ""
	}
	for n, st := range sw.Body.List {
		switch s := st.(type) {
		case *ast.AssignStmt:
			if (s.Tok != token.ASSIGN && s.Tok != token.DEFINE) || len(s.Lhs) != len(s.Rhs) {
				return false, "assignment form not understood"
			}
			if ok, why := move(s.Lhs, s.Rhs); !ok {
				return false, why
			}
		case *ast.DeclStmt:
			gd, ok := s.Decl.(*ast.GenDecl)
			if !ok || gd.Tok != token.VAR {
				return false, "declaration not understood"
			}
			for _, sp := range gd.Specs {
				vs, ok := sp.(*ast.ValueSpec)
				if !ok {
					return false, "declaration not understood"
				}
				if len(vs.Values) == 0 {
					continue // unset until assigned
				}
				if len(vs.Values) != len(vs.Names) {
					return false, "declaration not understood"
				}
				lhs := make([]ast.Expr, len(vs.Names))
				for k, id := range vs.Names {
					lhs[k] = id
				}
				if ok, why := move(lhs, vs.Values); !ok {
					return false, why
				}
			}
		case *ast.EmptyStmt:
		case *ast.ReturnStmt:
			if n != len(sw.Body.List)-1 {
				return false, "return before the end"
			}
		default:
			return false, fmt.Sprintf("statement kind %T", st)
		}
	}
	if slots == [2]string{"J", "I"} {
		return true, ""
	}
	return false, "the body leaves vv[i]=" + slots[0] + ", vv[j]=" + slots[1]
}

func c12First(xs []string, n int) string {
	if len(xs) <= n {
		return strings.Join(xs, "; ")
	}
	return strings.Join(xs[:n], "; ") + fmt.Sprintf("; and %d more order types", len(xs)-n)
}

func c12Sign(s int) string {
	switch {
	case s < 0:
		return "<"
	case s > 0:
		return ">"
	}
	return "=="
}

// ---------------------------------------------------------------------------
// loops

// c12EveryIteration: no path from the entry of the loop body back to the loop head (or out of the loop)
// avoids all of pts.
func c12EveryIteration(f *core.FuncInfo, loop ast.Stmt, pts []core.Point) bool {
	head, done := f.LoopOf(loop)
	if head == nil || done == nil || len(head.Succs) == 0 || len(pts) == 0 {
		return false
	}
	body := head.Succs[0]
	set := core.PointSet(pts...)
	if len(body.Nodes) > 0 && set(core.Point{B: body, I: 0}) {
		return true
	}
	_, skip := core.PathQuery{F: f, From: core.Point{B: body, I: 0}, Target: func(pt core.Point) bool { return pt.B == head || pt.B == done }, Avoid: set}.Find()
	if len(body.Nodes) == 0 {
		// empty first block: start "after" a virtual point
		return !skip
	}
	return !skip
}

// c12FillCounter: the store st (slice[n] = x inside loop) uses a local counter n that is 0 before the loop and
// is advanced by exactly one in every iteration, after the store; so the k-th iteration stores at slot k.
func c12FillCounter(f *core.FuncInfo, loop ast.Stmt, st assignment, n *types.Var) bool {
	if n == nil || n.IsField() || enclosingLoop(f, st.Stmt.Pos()) != loop {
		return false
	}
	for _, l := range allLits(f) {
		if len(assignsToVar(l, n)) > 0 {
			return false
		}
	}
	var incs []assignment
	inits := 0
	for _, a := range assignsToVar(f, n) {
		inLoop := enclosingLoop(f, a.Stmt.Pos())
		_, isIncDec := a.Stmt.(*ast.IncDecStmt)
		switch {
		case inLoop == nil && a.RHS != nil && (a.Tok == token.DEFINE || a.Tok == token.ASSIGN) && core.IsConstInt(f.Info(), a.RHS, 0):
			inits++
		case inLoop == nil && a.RHS == nil && a.Tok == token.DEFINE:
			if _, isSpec := a.Stmt.(*ast.ValueSpec); !isSpec {
				return false
			}
			inits++ // var n int
		case inLoop == loop && isIncDec && a.Tok == token.INC:
			incs = append(incs, a)
		case inLoop == loop && a.Tok == token.ADD_ASSIGN && a.RHS != nil && core.IsConstInt(f.Info(), a.RHS, 1):
			incs = append(incs, a)
		default:
			return false
		}
	}
	if inits == 0 || len(incs) != 1 {
		return false
	}
	// every assignment outside the loop sets n to 0 (its declaration included), so n is 0 when the loop starts
	if ok, _ := precedesLocally(f, []core.Point{st.Pt}, incs[0].Pt); !ok {
		return false
	}
	return c12EveryIteration(f, loop, []core.Point{incs[0].Pt})
}

func c12NoReturnInside(f *core.FuncInfo, loop ast.Stmt) bool {
	ok := true
	ast.Inspect(loop, func(n ast.Node) bool {
		switch n.(type) {
		case *ast.FuncLit:
			return false
		case *ast.ReturnStmt:
			ok = false
		}
		return true
	})
	return ok
}

// c12RangeOver finds the range statements of f whose operand satisfies pred.
func c12RangeOver(f *core.FuncInfo, pred func(ast.Expr) bool) []*ast.RangeStmt {
	var out []*ast.RangeStmt
	f.InspectOwn(func(n ast.Node) bool {
		if r, ok := n.(*ast.RangeStmt); ok && pred(r.X) {
			out = append(out, r)
		}
		return true
	})
	return out
}

// c12EmptyBuilder: d creates a fresh empty ValidatorsBuilder map: NewBuilder() (checked to return one in
// C12.nonzero), make(...), or an empty composite literal.
func c12EmptyBuilder(f *core.FuncInfo, d ast.Expr) bool {
	if d == nil {
		return false
	}
	if isCallTo(f, d, "builtin.make", c11Pkg+".NewBuilder") != nil {
		return true
	}
	if l, ok := ast.Unparen(resolveLocal(f, d)).(*ast.CompositeLit); ok && len(l.Elts) == 0 {
		if tv, ok := f.Info().Types[l]; ok {
			_, isMap := tv.Type.Underlying().(*types.Map)
			return isMap
		}
	}
	return false
}

// c12ZeroBig: e creates a fresh big.Int with value 0: new(big.Int), big.NewInt(0) or &big.Int{}.
func c12ZeroBig(f *core.FuncInfo, e ast.Expr) bool {
	if isCallTo(f, e, "builtin.new") != nil {
		return true
	}
	if call := isCallTo(f, e, "math/big.NewInt"); call != nil && len(call.Args) == 1 {
		return core.IsConstInt(f.Info(), call.Args[0], 0)
	}
	if u, ok := ast.Unparen(e).(*ast.UnaryExpr); ok && u.Op == token.AND {
		if l, ok := ast.Unparen(u.X).(*ast.CompositeLit); ok && len(l.Elts) == 0 {
			return true
		}
	}
	return false
}

func c12MethodCallOn(f *core.FuncInfo, e ast.Expr, name string, recvIs func(ast.Expr) bool) *ast.CallExpr {
	call := isCallTo(f, e, name)
	if call == nil {
		return nil
	}
	sel, ok := ast.Unparen(call.Fun).(*ast.SelectorExpr)
	if !ok || !recvIs(sel.X) {
		return nil
	}
	return call
}

// ---------------------------------------------------------------------------

func runC12(c *core.Ctx) {
	p := c.P

	c11Clause(c, "C12.comparator", func(c *core.Ctx) {
		less := c11Fn(c, c12Arr+".Less")
		k := &c12Cmp{f: less, recv: less.Recv(), pi: less.Param(0), pj: less.Param(1)}
		c.Need(k.recv != nil && k.pi != nil && k.pj != nil, "Less has a named receiver and two named index parameters")
		c.Fld(c12FID)
		c.Fld(c12FWeight)
		c.Check(len(assignsToVar(less, k.pi))+len(assignsToVar(less, k.pj))+len(assignsToVar(less, k.recv)) == 0, "Less does not reassign its operands", "T13", less.Pos(), "receiver and indices are read-only in Less", "Less reassigns its receiver or indices")
		var bad []string
		n := 0
		for _, w := range []int{-1, 0, 1} {
			for _, id := range []int{-1, 0, 1} {
				k.cs = map[string]int{c12FWeight: w, c12FID: id}
				k.err = ""
				got := k.run()
				if k.err != "" {
					c.Undecided("Less = (Weight desc, ID asc)", "T13 TotalOrder", less.Pos(), "comparator not evaluable: "+k.err)
					return
				}
				n++
				want := w > 0 || (w == 0 && id < 0)
				if got != want {
					bad = append(bad, fmt.Sprintf("Weight_i %s Weight_j, ID_i %s ID_j: Less yields %v, the canonical order requires %v", c12Sign(w), c12Sign(id), got, want))
				}
			}
		}
		c.Check(len(bad) == 0, "Less = (Weight desc, ID asc)", "T13 TotalOrder", less.Pos(),
			fmt.Sprintf("on all %d order types of the two keys Less(i,j) = Weight_i > Weight_j || (Weight_i == Weight_j && ID_i < ID_j): a strict lexicographic order, total because IDs are unique", n),
			"the sort comparator is not 'weight descending, ties by ascending ID' ("+c12First(bad, 2)+"): canonical order, index mapping and the encoded form change or depend on map iteration order")
		// Swap and Len
		sw := c11Fn(c, c12Arr+".Swap")
		okSw, whySw := c12SwapExchanges(sw)
		if okSw {
			c.Pass("Swap exchanges elements i and j", "T13 (sort.Interface)", "executing Swap's straight-line body on the symbolic state vv[i]=I, vv[j]=J ends in vv[i]=J, vv[j]=I and stores nothing else")
		} else {
			c.Undecided("Swap exchanges elements i and j", "T13 (sort.Interface)", sw.Pos(), "Swap is not shown to exchange exactly the elements i and j ("+whySw+"): sort.Sort may not produce a sorted permutation")
		}
		ln := c11Fn(c, c12Arr+".Len")
		okLen := len(ln.ReturnPoints()) > 0
		for _, rp := range ln.ReturnPoints() {
			r := rp.Node().(*ast.ReturnStmt)
			call := (*ast.CallExpr)(nil)
			if len(r.Results) == 1 {
				call = isCallTo(ln, r.Results[0], "builtin.len")
			}
			okLen = okLen && call != nil && len(call.Args) == 1 && varOf(ln, call.Args[0]) == ln.Recv() && ln.Recv() != nil
		}
		c.Check(okLen, "Len is len(receiver)", "T13 (sort.Interface)", ln.Pos(), "Len returns len(vv)", "Len does not return the slice length: part of the array stays unsorted")
	})

	c11Clause(c, "C12.sorted", func(c *core.Ctx) {
		f := c11Fn(c, c11V+".sortedArray")
		// the values map of the set the function works on: receiver.values of a method, or what a parameter
		// holding the set or its values map gives (c11_anchor.go; the callers bind it to the set's own values)
		env := c12EnvOf(f)
		c.Need(len(env) > 0, "sortedArray has a receiver or parameter carrying the validator set or its values map")
		isVals := func(e ast.Expr) bool { return c12Origin(f, e, env, 0) == "values" }
		loops := c12RangeOver(f, isVals)
		c.Need(len(loops) == 1, "sortedArray ranges once over the values map")
		loop := loops[0]
		if tv, ok := f.Info().Types[loop.X]; ok {
			_, isMap := tv.Type.Underlying().(*types.Map)
			c.Need(isMap, "values is a map")
		}
		kv, vv := varOf(f, loop.Key), varOf(f, loop.Value)
		// the returned slice
		var A *types.Var
		rps := f.ReturnPoints()
		c.Need(len(rps) > 0, "sortedArray returns")
		for _, rp := range rps {
			r := rp.Node().(*ast.ReturnStmt)
			c.Need(len(r.Results) == 1, "sortedArray returns one value")
			v := varOf(f, r.Results[0])
			c.Need(v != nil && (A == nil || A == v), "sortedArray returns one local slice variable")
			A = v
		}
		accounted := map[*ast.Ident]bool{}
		markIdent := func(e ast.Expr) {
			if id, ok := ast.Unparen(e).(*ast.Ident); ok {
				accounted[id] = true
			}
		}
		for _, rp := range rps {
			markIdent(rp.Node().(*ast.ReturnStmt).Results[0])
		}
		// the slice is filled either by append (starting empty) or by storing at a counter that starts at 0
		// and is advanced by one after each store (starting with exactly len(values) slots)
		elemOK := func(arg ast.Expr) bool {
			// the element may be built in a single-definition local first (item := validator{...})
			lit, ok := ast.Unparen(resolveLocal(f, arg)).(*ast.CompositeLit)
			if !ok {
				return false
			}
			fields := c11LitFields(f, lit)
			if fields == nil || kv == nil || vv == nil || varOf(f, resolveLocal(f, fields[c12FID])) != kv || varOf(f, resolveLocal(f, fields[c12FWeight])) != vv {
				return false
			}
			// built outside the loop: not the pair of the current iteration
			return enclosingLoop(f, lit.Pos()) == ast.Stmt(loop)
		}
		var appends []assignment // every statement that puts an element into the slice
		var makes []*ast.CallExpr
		okElem := true
		nAppend, nStore := 0, 0
		for _, a := range assignsToVar(f, A) {
			markIdent(a.LHS)
			if call := isCallTo(f, a.RHS, "builtin.append"); call != nil && len(call.Args) >= 1 && varOf(f, call.Args[0]) == A {
				markIdent(call.Args[0])
				appends = append(appends, a)
				nAppend++
				if len(call.Args) != 2 || call.Ellipsis.IsValid() || !elemOK(call.Args[1]) {
					okElem = false
				}
				continue
			}
			if mk := isCallTo(f, a.RHS, "builtin.make"); mk != nil {
				makes = append(makes, mk)
				continue
			}
			if _, isSpec := a.Stmt.(*ast.ValueSpec); isSpec && a.RHS == nil {
				continue // var res validators: nil slice
			}
			okElem = false
		}
		for _, a := range assignments(f) {
			ix, ok := ast.Unparen(a.LHS).(*ast.IndexExpr)
			if !ok || varOf(f, ix.X) != A {
				continue
			}
			markIdent(ix.X)
			appends = append(appends, a)
			nStore++
			if a.Tok != token.ASSIGN || a.RHS == nil || !elemOK(a.RHS) || !c12FillCounter(f, loop, a, varOf(f, ix.Index)) {
				okElem = false
			}
		}
		c.Need(len(appends) >= 1, "sortedArray appends to (or fills) the returned slice")
		switch {
		case nAppend > 0 && nStore > 0:
			okElem = false
		case nAppend > 0:
			// appended elements follow whatever the slice already holds: it must start with length 0
			for _, mk := range makes {
				if len(mk.Args) < 2 || !core.IsConstInt(f.Info(), mk.Args[1], 0) {
					okElem = false
				}
			}
		default:
			// one store per map entry at 0..n-1: the slice must have exactly len(values) slots
			if len(makes) != 1 || nStore != 1 {
				okElem = false
			} else {
				mk := makes[0]
				ln := (*ast.CallExpr)(nil)
				if len(mk.Args) >= 2 {
					ln = isCallTo(f, mk.Args[1], "builtin.len")
				}
				if ln == nil || len(ln.Args) != 1 || !isVals(ln.Args[0]) {
					okElem = false
				}
			}
		}
		c.Check(okElem && len(assignsToVar(f, kv))+len(assignsToVar(f, vv)) == 2, "element = {ID: map key, Weight: map value}", "T13 (unique tie-break)", loop.Pos(),
			"the slice starts empty (or with exactly len(values) slots filled at 0..n-1) and each element carries the ranged map's key as ID (unique by construction) and its value as Weight",
			"the elements are not exactly {ID: key, Weight: value} of the ranged map (or the slice holds other elements besides them): IDs need not be unique, the comparator is not total and the order depends on map iteration")
		inLoop := true
		for _, a := range appends {
			if enclosingLoop(f, a.Stmt.Pos()) != ast.Stmt(loop) {
				inLoop = false
			}
		}
		_, complete := loopDone(f, loop)
		c.Check(inLoop && complete && c12NoReturnInside(f, loop) && c12EveryIteration(f, loop, pointsOfAssign(appends)), "one element per map entry", "T10-iii MapOrder", loop.Pos(),
			"the range over values has no early exit and appends on every iteration", "the range over values can stop early or skip an entry: the canonical array depends on map iteration order / omits validators")
		// sort before every return, after every append
		var sorts []*core.CallSite
		for _, cs := range f.Calls() {
			if !strings.HasPrefix(cs.Name, "sort.") || len(cs.Call.Args) == 0 {
				continue
			}
			arg := core.StripConv(f.Info(), cs.Call.Args[0])
			if varOf(f, arg) != A {
				continue
			}
			markIdent(arg)
			switch cs.Name {
			case "sort.Sort", "sort.Stable":
				tv := f.Info().Types[cs.Call.Args[0]]
				if c11NamedOf(tv.Type) == c12Arr {
					sorts = append(sorts, cs)
				} else {
					c.Undecided("sorted with validators.Less", "T10-iii MapOrder", cs.Pos(), "the slice is sorted through a type other than "+c12Arr+": comparator not identified")
				}
			default:
				c.Undecided("sorted with validators.Less", "T10-iii MapOrder", cs.Pos(), cs.Name+" with an inline comparator is not analysed")
			}
		}
		okSort := len(sorts) > 0
		wit := ""
		for _, rp := range rps {
			if ok, w := f.MustPassBefore(core.Points(sorts), rp); !ok {
				okSort, wit = false, f.DescribePath(w)
			}
		}
		for _, a := range appends {
			if ok, w := f.MustPassAfter(a.Pt, core.Points(sorts)); !ok {
				okSort, wit = false, f.DescribePath(w)
			}
		}
		c.Check(okSort, "sorted before it is returned", "T10-iii MapOrder", f.Pos(), "every return is preceded by sort.Sort(array) with the checked comparator, after the last append",
			"the array collected in map iteration order can be returned unsorted (path "+wit+"): order, indices and encoding become nondeterministic")
		// no other use of the slice
		okUse := true
		f.InspectOwn(func(n ast.Node) bool {
			if call, ok := n.(*ast.CallExpr); ok {
				if nm := calleeName(f, call); (nm == "builtin.len" || nm == "builtin.cap") && len(call.Args) == 1 {
					markIdent(call.Args[0])
				}
			}
			return true
		})
		f.InspectOwn(func(n ast.Node) bool {
			if id, ok := n.(*ast.Ident); ok && f.Info().ObjectOf(id) == types.Object(A) && !accounted[id] {
				okUse = false
			}
			return true
		})
		if _, hit := c11LitEffect(f, nil, map[*types.Var]bool{A: true}, true); hit {
			okUse = false // a function literal that is not looked through has the slice
		}
		c.Check(okUse, "slice not used before the sort", "T10-iii MapOrder", f.Pos(), "the slice is only appended to, sorted, measured and returned", "the slice under construction is read or escapes in map iteration order")
	})

	c11Clause(c, "C12.cache", func(c *core.Ctx) {
		calc := c11Fn(c, c11V+".calcCaches")
		V, _, _, _ := c11FindLimit(calc)
		c.Need(V != nil, "calcCaches returns one local cache variable")
		// what calcCaches works on comes in through its receiver or parameters (the set, its values map or
		// their sorted array: c11_anchor.go)
		env := c12EnvOf(calc)
		c.Need(len(env) > 0, "calcCaches has a receiver or parameter carrying the validator set, its values or its sorted array")
		// the loop over the canonical array, written as a range or as a counted loop over a local holding it
		its := c11Iterations(calc, func(coll ast.Expr) bool {
			return coll != nil && c12Origin(calc, coll, env, 0) == "sorted"
		})
		// a port that is not the receiver of a method of the set itself is an assumption about the callers:
		// calcCaches runs only for the constructor, which binds every port to the values of the object it
		// builds (method form: the object itself)
		{
			nvf := c11Fn(c, c11NVAnchor)
			okCallers := true
			for _, s := range c11DelegOf(c.P).callers[c.P.Func(c11ActualName(c.P, c11CalcAnchor))] {
				if !c12RunsOnlyFor(c.P, s.from, c11NVAnchor, c11DelegDepth) {
					okCallers = false
				}
			}
			okBind, why := c12CacheBound(nvf)
			if !okCallers {
				why = "calcCaches is also called outside the constructor"
			}
			c.Check(okCallers && okBind, "calcCaches works on the set's own values", "provenance (ports bound at the call sites)", calc.Pos(),
				"calcCaches is called by the constructor only, with operands derived from the values of the object under construction",
				"the caches are not computed from the values of the set they are stored in ("+why+"): order, indexes, weights and total describe another map")
		}
		// one pass, or several (a loop split into one pass per cache field): sortedArray() is deterministic,
		// so every pass meets the same elements at the same indices
		c.Need(len(its) >= 1, "calcCaches iterates over receiver.sortedArray() from the first element, index and element bound by the loop header only")
		for _, it := range its {
			c.Need(it.Index != nil, "the loop over sortedArray() has an index variable")
		}
		if pos, hit := c11LitEffect(calc, map[string]bool{c11FIDs: true, c11FWeights: true, c11FIndexes: true}, map[*types.Var]bool{V: true}, false); hit {
			c.Fail("no effect hidden in a function literal", "T6 (closures)", pos, "a function literal of calcCaches that is not looked through writes the cache: ids, weights and indexes need not describe the canonical order")
		}
		type want struct {
			name, field   string
			idxFld, valID bool   // the index (resp. the value) is the element's ID rather than the loop index
			valField      string // the value is this field of the element ("" when the value is the loop index)
		}
		ws := []want{
			{name: "ids[i] = element.ID", field: c11FIDs, valField: c12FID},
			{name: "weights[i] = element.Weight", field: c11FWeights, valField: c12FWeight},
			{name: "indexes[element.ID] = i", field: c11FIndexes, idxFld: true},
		}
		for _, w := range ws {
			ok := true
			pts := map[*c11Iter][]core.Point{}
			n := 0
			for _, a := range assignments(calc) {
				ix, isIx := ast.Unparen(a.LHS).(*ast.IndexExpr)
				if !isIx || !c11IsPath(calc, ix.X, V, w.field) {
					continue
				}
				n++
				var it *c11Iter
				for _, cand := range its {
					if cand.Stmt == enclosingLoop(calc, a.Stmt.Pos()) {
						it = cand
					}
				}
				if it == nil || a.Tok != token.ASSIGN || a.RHS == nil {
					ok = false
					continue
				}
				var okIdx, okVal bool
				if w.idxFld {
					okIdx, okVal = it.isElemField(ix.Index, c12FID), it.isIndex(a.RHS)
				} else {
					okIdx, okVal = it.isIndex(ix.Index), it.isElemField(a.RHS, w.valField)
				}
				if !okIdx || !okVal {
					ok = false
				}
				pts[it] = append(pts[it], a.Pt)
			}
			covered := false
			for it, ps := range pts {
				if it.Complete && c12NoReturnInside(calc, it.Stmt) && c12EveryIteration(calc, it.Stmt, ps) {
					covered = true
				}
			}
			c.Check(ok && n > 0 && covered, w.name, "T7 Pairing (canonical position)", its[0].Stmt.Pos(), "stored for every element of sortedArray() at its canonical position",
				"the cache entry "+w.name+" is not written for every element at the loop index: SortedIDs/SortedWeights/Idxs/GetIdx disagree with the canonical order")
		}
	})

	c11Clause(c, "C12.nonzero", func(c *core.Ctx) {
		set := c11Fn(c, c12B+".Set")
		recv, idP, wP := set.Recv(), set.Param(0), set.Param(1)
		c.Need(recv != nil && idP != nil && wP != nil, "Set(id, weight) has named receiver and parameters")
		namer := func(e ast.Expr) string {
			if varOf(set, e) == wP {
				return "w"
			}
			return ""
		}
		nz := core.ParseLinCmp("w != 0")
		var stores, dels []core.Point
		okShape := len(assignsToVar(set, wP))+len(assignsToVar(set, idP))+len(assignsToVar(set, recv)) == 0
		for _, st := range c11Stores(set) {
			root, _ := c11Chain(set, st.Target)
			if varOf(set, root) != recv {
				continue
			}
			pt, _ := set.PointOf(st.Target)
			switch st.Kind {
			case "assign":
				ix, ok := ast.Unparen(st.Target).(*ast.IndexExpr)
				if !ok || varOf(set, ix.Index) != idP {
					okShape = false
				}
				stores = append(stores, pt)
			case "delete":
				dels = append(dels, pt)
			default:
				okShape = false
			}
		}
		for _, a := range assignments(set) {
			if ix, ok := ast.Unparen(a.LHS).(*ast.IndexExpr); ok && varOf(set, ix.X) == recv {
				if a.Tok != token.ASSIGN || varOf(set, a.RHS) != wP {
					okShape = false
				}
			}
		}
		for _, cs := range set.CallsTo("builtin.delete") {
			if len(cs.Call.Args) == 2 && varOf(set, cs.Call.Args[0]) == recv && varOf(set, cs.Call.Args[1]) != idP {
				okShape = false
			}
		}
		okG := len(stores) > 0
		for _, s := range stores {
			if ok, _ := set.GuardedBy(s, func(ft core.Fact) bool {
				lc, ok := core.NormLinCmp(set.Info(), ft, namer)
				return ok && lc.Equal(nz)
			}); !ok {
				okG = false
			}
		}
		if _, hit := c11LitEffect(set, nil, map[*types.Var]bool{recv: true}, false); hit {
			okShape = false // a function literal that is not looked through stores into the builder
		}
		c.Check(okG && okShape, "Set stores only non-zero weights", "T4 GuardedBy", set.Pos(), "vv[id] = weight happens only on the edge weight != 0",
			"a zero weight can be stored: the set then contains a zero-weight member (Len, order and encoding depend on zero pairs)")
		okD := len(dels) > 0
		for _, rp := range set.ReturnPoints() {
			if ok, _ := set.MustPassBefore(append(append([]core.Point(nil), stores...), dels...), rp); !ok {
				okD = false
			}
		}
		if len(set.ReturnPoints()) == 0 {
			// implicit return at the end of the body: every path to a block without successors
			_, found := core.PathQuery{F: set, From: set.Entry(), Avoid: core.PointSet(append(append([]core.Point(nil), stores...), dels...)...), Target: func(pt core.Point) bool {
				return len(pt.B.Succs) == 0 && pt.I == len(pt.B.Nodes)-1
			}}.Find()
			okD = okD && !found
		}
		c.Check(okD, "Set(id, 0) deletes", "T5 ExactlyOneOf", set.Pos(), "every path through Set either stores the non-zero weight or deletes the entry", "Set with weight 0 can leave an earlier non-zero entry in place (overwriting with zero does not remove the validator)")

		nv := c11Fn(c, c11Pkg+".newValidators")
		par := nv.Param(0)
		obj := c11Constructed(nv, c11V)
		c.Need(par != nil && obj != nil, "newValidators(values) builds one Validators object whose fields are each initialised once")
		kvs := obj.Fields
		// the map may reach the object through a chain of plain copies (values: m; m := tmp)
		M := canonVar(nv, varOf(nv, kvs[c11FVValues]))
		fresh := false
		if M != nil && M != par {
			if d := c11SingleDef(nv, M); d != nil {
				fresh = c12EmptyBuilder(nv, d)
			}
		}
		c.Check(fresh, "newValidators stores a fresh map", "T6 (no alias of the builder)", obj.Pos, "values is a map created inside newValidators, not the caller's builder",
			"the Validators object shares the caller's builder map: a later builder.Set changes the read-only set without recomputing order, total and quorum")
		nb := c11Fn(c, c11Pkg+".NewBuilder")
		okNB := len(nb.ReturnPoints()) > 0
		for _, rp := range nb.ReturnPoints() {
			r := rp.Node().(*ast.ReturnStmt)
			okR := false
			if len(r.Results) == 1 {
				e := ast.Unparen(resolveLocal(nb, r.Results[0]))
				if l, ok := e.(*ast.CompositeLit); ok && len(l.Elts) == 0 {
					okR = true
				} else if isCallTo(nb, e, "builtin.make") != nil {
					okR = true
				}
			}
			okNB = okNB && okR
		}
		c.Check(okNB, "NewBuilder returns a fresh empty map", "T16 initial state", nb.Pos(), "every builder starts as an empty map of its own", "NewBuilder does not return a fresh empty map: sets built or decoded through it contain foreign pairs or share state")
		loops := c12RangeOver(nv, func(e ast.Expr) bool { return varOf(nv, e) == par })
		okFill := len(loops) == 1 && M != nil
		if okFill {
			loop := loops[0]
			kv, vv := varOf(nv, loop.Key), varOf(nv, loop.Value)
			var pts []core.Point
			for _, cs := range nv.CallsTo(c12B + ".Set") {
				if varOf(nv, cs.Recv()) == M && len(cs.Call.Args) == 2 && varOf(nv, cs.Call.Args[0]) == kv && varOf(nv, cs.Call.Args[1]) == vv && kv != nil && vv != nil &&
					enclosingLoop(nv, cs.Pos()) == ast.Stmt(loop) {
					pts = append(pts, cs.Pt)
				}
			}
			_, complete := loopDone(nv, loop)
			okFill = complete && c12NoReturnInside(nv, loop) && c12EveryIteration(nv, loop, pts)
			// the copy loop completes before the caches are computed from the map (the map is a reference:
			// whether the object literal is written before or after the loop does not matter)
			if okFill {
				if done, _ := loopDone(nv, loop); done != nil {
					calcs := nv.CallsTo(c11ActualName(c.P, c11CalcAnchor))
					if len(calcs) == 0 {
						okFill = false
					}
					// (the sorted array, when the constructor itself asks for it, is taken from the complete map too)
					if sa := c11ActualName(c.P, c12SAAnchor); sa != "" {
						calcs = append(calcs, nv.CallsTo(sa)...)
					}
					for _, cs := range calcs {
						if b, _ := mustPassBlockBefore(nv, done, cs.Pt); !b {
							okFill = false
						}
					}
				}
			}
			for _, st := range c11Stores(nv) {
				if root, _ := c11Chain(nv, st.Target); varOf(nv, root) == M && M != nil {
					if _, plain := ast.Unparen(st.Target).(*ast.Ident); !plain {
						okFill = false
					}
				}
			}
		}
		c.Check(okFill, "newValidators copies every pair through Set", "T10-i MapOrder / T7", nv.Pos(), "every (id, weight) of the argument is passed to Set on the fresh map (zero weights dropped), nothing else is stored",
			"the private copy is not filled by Set for every pair: zero-weight entries written directly into a builder map reach the set, or pairs are lost")
	})

	c11Clause(c, "C12.rlp", func(c *core.Ctx) {
		sa := c11Fn(c, c11V+".sortedArray")
		enc := c11Fn(c, c11V+".EncodeRLP")
		dec := c11Fn(c, c11V+".DecodeRLP")
		okE := len(enc.ReturnPoints()) > 0
		for _, rp := range enc.ReturnPoints() {
			r := rp.Node().(*ast.ReturnStmt)
			okR := false
			if len(r.Results) == 1 {
				if call := isCallTo(enc, r.Results[0], c12Rlp+".Encode"); call != nil && len(call.Args) == 2 {
					src := call.Args[1]
					if v := varOf(enc, src); v != nil {
						if d := c11SingleDef(enc, v); d != nil {
							src = d
						}
					}
					// sortedArray of the receiver (method form) or of the receiver's values (function form)
					okR = varOf(enc, call.Args[0]) == enc.Param(0) && enc.Param(0) != nil && enc.Recv() != nil &&
						len(assignsToVar(enc, enc.Recv())) == 0 &&
						c12Origin(enc, src, c12Env{enc.Recv(): "obj"}, 0) == "sorted"
				}
			}
			okE = okE && okR
		}
		c.Check(okE, "EncodeRLP encodes sortedArray()", "T14 CodecPair", enc.Pos(), "the encoding is rlp.Encode(w, receiver.sortedArray()): the canonical array",
			"EncodeRLP does not encode the canonical sorted array: equal sets can encode differently")
		// element type of the encoded value
		sig := sa.Obj.Type().(*types.Signature)
		c.Need(sig.Results().Len() == 1, "sortedArray has one result")
		encSl, _ := sig.Results().At(0).Type().Underlying().(*types.Slice)
		c.Need(encSl != nil, "sortedArray returns a slice")
		// decoder
		decs := dec.CallsTo(c12Rlp + ".Stream.Decode")
		c.Need(len(decs) == 1 && len(decs[0].Call.Args) == 1, "DecodeRLP calls Stream.Decode once")
		d := decs[0]
		var arr *types.Var
		if u, ok := ast.Unparen(d.Call.Args[0]).(*ast.UnaryExpr); ok && u.Op == token.AND {
			arr = varOf(dec, u.X)
		}
		c.Need(arr != nil, "Decode(&local)")
		decSl, _ := arr.Type().Underlying().(*types.Slice)
		c.Check(decSl != nil && types.Identical(decSl.Elem(), encSl.Elem()), "decoded element type = encoded element type", "T14 CodecPair", d.Pos(),
			"DecodeRLP decodes a slice of "+c12Elem+", the element type EncodeRLP writes", "encoder and decoder disagree on the element type: a round trip changes or rejects the set")
		// builder fed with every element, then built and assigned
		var whole []assignment
		for _, a := range assignments(dec) {
			if st, ok := ast.Unparen(a.LHS).(*ast.StarExpr); ok && varOf(dec, st.X) == dec.Recv() && dec.Recv() != nil {
				whole = append(whole, a)
			}
		}
		c.Need(len(whole) == 1 && whole[0].RHS != nil, "DecodeRLP assigns *receiver once")
		w := whole[0]
		var B *types.Var
		if st, ok := ast.Unparen(w.RHS).(*ast.StarExpr); ok {
			if call := isCallTo(dec, st.X, c12B+".Build"); call != nil {
				if sel, ok := ast.Unparen(call.Fun).(*ast.SelectorExpr); ok {
					B = varOf(dec, sel.X)
				}
			}
		}
		okB := B != nil
		if okB {
			def := c11SingleDef(dec, B)
			okB = c12EmptyBuilder(dec, def)
		}
		okFeed := false
		if okB {
			// the decoded slice is walked from its first element (range or counted loop), the element being
			// the range value, arr[k], or a local holding arr[k]
			its := c11Iterations(dec, func(coll ast.Expr) bool { return coll != nil && varOf(dec, coll) == arr })
			if len(its) == 1 {
				it := its[0]
				var pts []core.Point
				for _, cs := range dec.CallsTo(c12B + ".Set") {
					if varOf(dec, cs.Recv()) != B || len(cs.Call.Args) != 2 {
						continue
					}
					// both arguments are fields of the element of the current iteration, hence of the same element
					if it.isElemField(cs.Call.Args[0], c12FID) && it.isElemField(cs.Call.Args[1], c12FWeight) {
						pts = append(pts, cs.Pt)
					}
				}
				okFeed = it.everyIteration(pts)
				if okFeed && it.Done != nil {
					if b, _ := mustPassBlockBefore(dec, it.Done, w.Pt); !b {
						okFeed = false
					}
				}
			}
		}
		c.Check(okB && okFeed, "DecodeRLP rebuilds from every decoded element", "T14 CodecPair", w.Stmt.Pos(), "*receiver = *builder.Build() for a fresh builder that received Set(e.ID, e.Weight) for every decoded element",
			"the decoded set is not built from all decoded (ID, Weight) pairs through a fresh builder: decoding yields a different set")
		c.Check(afterSuccess(dec, d, w.Pt), "receiver replaced only after a successful decode", "T4 GuardedBy", w.Stmt.Pos(), "the assignment is reached only on the err == nil edge of Stream.Decode",
			"the receiver can be overwritten although decoding failed")
		okNil := true
		nNil := 0
		for _, rp := range returnsWith(dec, 0, func(e ast.Expr) bool { return core.IsNil(dec.Info(), e) }) {
			nNil++
			if ok, _ := dec.MustPassBefore([]core.Point{w.Pt}, rp); !ok {
				okNil = false
			}
		}
		c.Check(okNil && nNil > 0, "success only after the receiver was replaced", "T2 Dominates", dec.Pos(), "DecodeRLP returns nil only after *receiver was assigned", "DecodeRLP can report success without having set the receiver")
	})

	// Copy and Build hand out fresh objects (decided on the functions as written or on their inlined views)
	freshOK := map[string]bool{}
	c11Clause(c, "C12.immutable", func(c *core.Ctx) {
		for _, nm := range []string{c11V + ".Copy", c12B + ".Build"} {
			f := c11Fn(c, nm)
			ok := len(f.ReturnPoints()) > 0
			for _, rp := range f.ReturnPoints() {
				r := rp.Node().(*ast.ReturnStmt)
				ok = ok && len(r.Results) == 1 && isCallTo(f, r.Results[0], c11Pkg+".newValidators") != nil
			}
			c.Check(ok, short(nm)+" returns newValidators(...)", "T6 (fresh object)", f.Pos(), "the result is a new object with its own values map and cache", short(nm)+" does not return a freshly constructed object: callers that mutate the result's builder change a shared set")
			freshOK[nm] = ok
		}
	})
	c.Clause("C12.immutable", func() {
		n := c11Writers(c,
			[]string{c11FVValues, c11FVCache, c11FIndexes, c11FWeights, c11FIDs, c11FTotal},
			[]string{c11V, c11Cache}, c11ValidatorOwnersOf(c.P))
		c.ExpectAtLeast("writers of Validators/cache state", n, c11MinValidatorWriters)
		// fresh constructors
		fresh := map[*types.Func]bool{}
		nvObj := p.LookupFunc(c11Pkg + ".newValidators")
		c.Need(nvObj != nil, "newValidators")
		fresh[nvObj] = true
		for nm, ok := range freshOK {
			if fn := p.LookupFunc(nm); ok && fn != nil {
				fresh[fn] = true
			}
		}
		c12AliasRule(c, fresh)
	})

	c11Clause(c, "C12.big", func(c *core.Ctx) {
		f := c11Fn(c, c12Big+".Build")
		recv := f.Recv()
		c.Need(recv != nil, "Build has a named receiver")
		loops := c12RangeOver(f, func(e ast.Expr) bool { return varOf(f, e) == recv })
		c.Need(len(loops) == 1 && loops[0].Key != nil && loops[0].Value != nil, "Build ranges once over the stakes (key, value)")
		loop := loops[0]
		kv, sv := varOf(f, loop.Key), varOf(f, loop.Value)
		rsh := f.CallsTo("math/big.Int.Rsh")
		c.Need(len(rsh) >= 1, "Build scales with big.Int.Rsh")
		var shift *types.Var
		okR := true
		for _, r := range rsh {
			if len(r.Call.Args) != 2 || varOf(f, r.Call.Args[0]) != sv || sv == nil || enclosingLoop(f, r.Pos()) != ast.Stmt(loop) {
				okR = false
				continue
			}
			s := varOf(f, r.Call.Args[1])
			if s == nil || (shift != nil && s != shift) {
				okR = false
			}
			shift = s
		}
		c.Need(shift != nil, "the shift amount is a variable")
		for _, a := range assignsToVar(f, shift) {
			for _, r := range rsh {
				if a.Pt.Valid() && (f.CanReach(r.Pt, a.Pt) || enclosingLoop(f, a.Stmt.Pos()) != nil) {
					okR = false
				}
			}
		}
		c.Check(okR && len(assignsToVar(f, sv)) == 1, "one common shift for every stake", "provenance (same variable)", loop.Pos(), "every ranged stake is shifted right by the same variable, which is not assigned inside or after the loop",
			"stakes are scaled by different amounts (or something other than the ranged stake is scaled): the weight order of stakes is not preserved")
		// the scaled stake reaches Set(key, Weight(x.Uint64())) on every iteration
		var sets []core.Point
		var B *types.Var
		for _, cs := range f.CallsTo(c12B + ".Set") {
			if len(cs.Call.Args) != 2 || varOf(f, cs.Call.Args[0]) != kv || kv == nil {
				continue
			}
			u := isCallTo(f, core.StripConv(f.Info(), cs.Call.Args[1]), "math/big.Int.Uint64")
			if u == nil {
				continue
			}
			src := ast.Unparen(u.Fun).(*ast.SelectorExpr).X
			if v := varOf(f, src); v != nil {
				if d := c11SingleDef(f, v); d != nil {
					src = d
				}
			}
			isRsh := false
			for _, r := range rsh {
				if ast.Unparen(src) == ast.Expr(r.Call) {
					isRsh = true
				}
			}
			if isRsh {
				sets = append(sets, cs.Pt)
				B = varOf(f, cs.Recv())
			}
		}
		done, complete := loopDone(f, loop)
		okS := B != nil && complete && c12NoReturnInside(f, loop) && c12EveryIteration(f, loop, sets)
		if okS {
			def := c11SingleDef(f, B)
			okS = c12EmptyBuilder(f, def)
		}
		okRet := okS && len(f.ReturnPoints()) > 0
		for _, rp := range f.ReturnPoints() {
			r := rp.Node().(*ast.ReturnStmt)
			okRet = okRet && len(r.Results) == 1 && c12MethodCallOn(f, r.Results[0], c12B+".Build", func(x ast.Expr) bool { return varOf(f, x) == B }) != nil
			if okRet {
				b, _ := mustPassBlockBefore(f, done, rp)
				okRet = b
			}
		}
		c.Check(okS && okRet, "every scaled stake is Set, then Build", "T7 / T2 (loop exit)", loop.Pos(), "each iteration passes (id, Weight(Rsh(stake, shift).Uint64())) to a fresh builder; Build() is returned after the complete loop",
			"a stake is skipped, stored unscaled, or the result is built before all stakes were added")

		// shift = max(0, bits - B)
		var bitsV *types.Var
		var Bc *big.Int
		var zeroInit, diffs []assignment
		okForm := true
		for _, a := range assignsToVar(f, shift) {
			if a.RHS == nil {
				if _, isSpec := a.Stmt.(*ast.ValueSpec); isSpec {
					zeroInit = append(zeroInit, a) // var shift uint
					continue
				}
				okForm = false
				continue
			}
			if a.Tok != token.DEFINE && a.Tok != token.ASSIGN {
				okForm = false
				continue
			}
			if core.IsConstInt(f.Info(), a.RHS, 0) {
				zeroInit = append(zeroInit, a)
				continue
			}
			lin := core.Linearize(f.Info(), a.RHS, func(e ast.Expr) string {
				if v := varOf(f, e); v != nil && v != shift {
					return "var:" + v.Name()
				}
				return ""
			})
			if len(lin.Coef) != 1 {
				okForm = false
				continue
			}
			for kname, co := range lin.Coef {
				v := varOf(f, lin.Atom[kname])
				if v == nil || co.Cmp(c11One) != 0 || (bitsV != nil && v != bitsV) {
					okForm = false
					continue
				}
				bitsV = v
			}
			nb := new(big.Int).Neg(lin.C)
			if Bc != nil && Bc.Cmp(nb) != 0 {
				okForm = false
			}
			Bc = nb
			diffs = append(diffs, a)
		}
		if !okForm || bitsV == nil || Bc == nil || len(zeroInit) == 0 || len(diffs) == 0 {
			c.Undecided("shift = max(0, bits - B)", "T4 GuardedBy + NormLinCmp", f.Pos(), "the assignments of the shift variable are not {0, bits - B} for one variable bits and one constant B")
			return
		}
		bitsNamer := func(e ast.Expr) string {
			if varOf(f, e) == bitsV {
				return "bits"
			}
			return ""
		}
		// lowerBound(fact) = g if fact is bits >= g; upperBound(fact) = u if fact is bits <= u
		bound := func(ft core.Fact) (lo, hi *big.Int) {
			lc, ok := core.NormLinCmp(f.Info(), ft, bitsNamer)
			if !ok || lc.Op != "<=" || len(lc.Form.Coef) != 1 {
				return nil, nil
			}
			co := lc.Form.Coef["bits"]
			switch {
			case co == nil:
			case co.Cmp(c11One) == 0: // bits + C <= 0
				return nil, new(big.Int).Neg(lc.Form.C)
			case co.Cmp(big.NewInt(-1)) == 0: // -bits + C <= 0
				return new(big.Int).Set(lc.Form.C), nil
			}
			return nil, nil
		}
		bPlus1 := new(big.Int).Add(Bc, c11One)
		okGuard := true
		for _, a := range diffs {
			ok, _ := f.GuardedBy(a.Pt, func(ft core.Fact) bool {
				lo, _ := bound(ft)
				return lo != nil && lo.Cmp(Bc) >= 0
			})
			okGuard = okGuard && ok
		}
		// whenever bits > B the difference is assigned: no path from entry to a use that avoids the
		// assignment and every edge implying bits <= B
		smallEdge := f.GuardEdges(func(ft core.Fact) bool {
			_, hi := bound(ft)
			return hi != nil && hi.Cmp(Bc) <= 0
		})
		okAlways := true
		for _, r := range rsh {
			if _, found := (core.PathQuery{F: f, From: f.Entry(), Target: core.PointSet(r.Pt), Avoid: core.PointSet(pointsOfAssign(diffs)...), AvoidEdge: smallEdge}).Find(); found {
				okAlways = false
			}
		}
		// the zero initialisation is not overwritten by anything else and precedes the guarded assignment
		for _, z := range zeroInit {
			for _, d := range diffs {
				if z.Pt.Valid() && f.CanReach(d.Pt, z.Pt) {
					okAlways = false
				}
			}
		}
		_ = bPlus1
		c.Check(okGuard && okAlways, "shift = max(0, bits - B)", "T4 GuardedBy + NormLinCmp", diffs[0].Stmt.Pos(),
			fmt.Sprintf("shift is 0, and is set to bits-%s exactly on the paths where bits > %s (never negative before the unsigned conversion)", Bc, Bc),
			fmt.Sprintf("shift is not max(0, bits-%s): for some total the stakes are scaled too little (Build reaches the overflow panic) or the difference is negative and converts to a huge shift (all weights become 0)", Bc))
		// bits = receiver.TotalWeight().BitLen()
		okBits := false
		if d := c11SingleDef(f, bitsV); d != nil {
			if bl := isCallTo(f, d, "math/big.Int.BitLen"); bl != nil {
				if sel, ok := ast.Unparen(bl.Fun).(*ast.SelectorExpr); ok {
					okBits = c12MethodCallOn(f, sel.X, c12Big+".TotalWeight", func(x ast.Expr) bool { return varOf(f, x) == recv }) != nil
				}
			}
		}
		c.Check(okBits, "bits = BitLen(total stake)", "provenance", f.Pos(), "bits is receiver.TotalWeight().BitLen()", "the bit length is not taken from the total of all stakes: the scaled total is not bounded")
		tw := c11Fn(c, c12Big+".TotalWeight")
		okTW := false
		if twl := c12RangeOver(tw, func(e ast.Expr) bool { return varOf(tw, e) == tw.Recv() && tw.Recv() != nil }); len(twl) == 1 && twl[0].Value != nil {
			wv := varOf(tw, twl[0].Value)
			var pts []core.Point
			var R *types.Var
			for _, cs := range tw.CallsTo("math/big.Int.Add") {
				if len(cs.Call.Args) != 2 || enclosingLoop(tw, cs.Pos()) != ast.Stmt(twl[0]) {
					continue
				}
				r := varOf(tw, cs.Recv())
				a0, a1 := varOf(tw, cs.Call.Args[0]), varOf(tw, cs.Call.Args[1])
				if r != nil && wv != nil && ((a0 == r && a1 == wv) || (a0 == wv && a1 == r)) {
					pts = append(pts, cs.Pt)
					R = r
				}
			}
			_, complete := loopDone(tw, twl[0])
			okTW = R != nil && complete && c12NoReturnInside(tw, twl[0]) && c12EveryIteration(tw, twl[0], pts)
			for _, rp := range tw.ReturnPoints() {
				r := rp.Node().(*ast.ReturnStmt)
				okTW = okTW && len(r.Results) == 1 && varOf(tw, r.Results[0]) == R
			}
			if okTW {
				init := false
				for _, a := range assignsToVar(tw, R) {
					if a.RHS != nil && c12ZeroBig(tw, a.RHS) && enclosingLoop(tw, a.Stmt.Pos()) == nil {
						init = true
					} else if a.RHS == nil || c12MethodCallOn(tw, a.RHS, "math/big.Int.Add", func(x ast.Expr) bool { return varOf(tw, x) == R }) == nil {
						okTW = false
					}
				}
				okTW = okTW && init
			}
		}
		c.Check(okTW, "TotalWeight sums every stake", "T10-ii MapOrder (commutative accumulation)", tw.Pos(), "res starts as new(big.Int) and res.Add(res, w) runs for every ranged stake", "the big total is not the sum of all stakes: BitLen underestimates and the scaled total can exceed the limit")

		// T15 against the limit of calcCaches
		calc := c11Fn(c, c11V+".calcCaches")
		_, K, _, why := c11FindLimit(calc)
		if K == nil {
			c.Undecided("2^B-1 <= K < 2^(B+1)-1", "T15 ConstRelation", calc.Pos(), "limit of calcCaches not found: "+why)
			return
		}
		if !Bc.IsUint64() || Bc.Uint64() > 4096 {
			c.Fail("2^B-1 <= K < 2^(B+1)-1", "T15 ConstRelation", diffs[0].Stmt.Pos(), "bit constant out of range: "+Bc.String())
			return
		}
		one := constant.MakeInt64(1)
		top := constant.BinaryOp(constant.Shift(one, token.SHL, uint(Bc.Uint64())), token.SUB, one)
		top2 := constant.BinaryOp(constant.Shift(one, token.SHL, uint(Bc.Uint64())+1), token.SUB, one)
		c.Check(constant.Compare(top, token.LEQ, K), "2^B-1 <= K", "T15 ConstRelation", diffs[0].Stmt.Pos(),
			fmt.Sprintf("a scaled total has at most B=%s bits, so it is at most %s <= %s (the limit in calcCaches): Build cannot reach the overflow panic; each scaled stake also fits Weight", Bc, top.ExactString(), K.ExactString()),
			fmt.Sprintf("the bit constant B=%s in the big builder allows scaled totals up to %s, above the limit %s of calcCaches: Build panics for such stakes (e.g. one stake of 2^%s-1)", Bc, top.ExactString(), K.ExactString(), Bc))
		c.Check(constant.Compare(K, token.LSS, top2), "K < 2^(B+1)-1", "T15 ConstRelation", diffs[0].Stmt.Pos(),
			fmt.Sprintf("one bit less of scaling could exceed the limit %s: the shift is just enough", K.ExactString()),
			fmt.Sprintf("the limit %s would admit totals of B+1 bits: stakes are scaled down more than necessary (precision lost needlessly)", K.ExactString()))
	})
}

// ---------------------------------------------------------------------------
// alias rule

type c12Finding struct {
	fn     *core.FuncInfo
	what   string
	status core.Status
	detail string
	pos    token.Pos
	uses   int
}

type c12Alias struct {
	c        *core.Ctx
	p        *core.Prog
	vars     map[*types.Var]string  // tainted variables/fields/parameters -> origin
	sources  map[*types.Func]string // functions whose result aliases a cache slice/map
	fresh    map[*types.Func]bool
	exempt   map[string]bool // "func|field": owner pairs allowed to store through the field
	changed  bool
	findings map[string]*c12Finding
	order    []string
	cur      ast.Expr // the aliased expression being classified
}

func c12AliasRule(c *core.Ctx, fresh map[*types.Func]bool) {
	a := &c12Alias{c: c, p: c.P, vars: map[*types.Var]string{}, sources: map[*types.Func]string{}, fresh: fresh, exempt: map[string]bool{}}
	for _, fld := range []string{c11FIDs, c11FWeights, c11FIndexes, c11FVValues} {
		v := c.P.Field(fld)
		c.Need(v != nil, "field "+fld)
		a.vars[v] = short(fld)
	}
	for _, o := range c11ValidatorOwnersOf(c.P) {
		a.exempt[o.Func+"|"+o.What] = true
	}
	for round := 0; round < 12; round++ {
		a.changed = false
		a.findings = map[string]*c12Finding{}
		a.order = nil
		for _, f := range c.P.Funcs() {
			a.scan(f)
		}
		if !a.changed {
			break
		}
	}
	if a.changed {
		c.Undecided("fixpoint", "alias rule", token.NoPos, "alias propagation did not reach a fixpoint")
	}
	sort.Strings(a.order)
	nCalls, nFieldsOut := 0, 0
	for _, k := range a.order {
		fd := a.findings[k]
		construct := short(fd.fn.Name) + ": " + fd.what
		if strings.HasPrefix(fd.what, "result of ") {
			nCalls += fd.uses
		}
		switch fd.status {
		case core.Discharged:
			c.Pass(construct, "alias rule (read-only use)", fmt.Sprintf("%d use(s), all read-only (range / index read / len / nil test / copy source / hand-over to a tracked variable)", fd.uses))
		case core.Violated:
			c.Fail(construct, "alias rule (read-only use)", fd.pos, fd.detail+": the slice/map is the validator set's own cache, so the 'read-only' set changes under every holder (canonical order, indices, weights or total no longer match)")
		default:
			c.Undecided(construct, "alias rule (read-only use)", fd.pos, fd.detail)
		}
	}
	var accessors []string
	for fn := range a.sources {
		accessors = append(accessors, short(core.FuncName(fn)))
	}
	// dynamic dispatch: an interface of the module through which an accessor could be called
	if vt := c.P.LookupType(c11V); vt != nil {
		ptr := types.NewPointer(vt.Type())
		for _, pk := range c.P.All {
			sc := pk.Types.Scope()
			for _, nm := range sc.Names() {
				tn, ok := sc.Lookup(nm).(*types.TypeName)
				if !ok {
					continue
				}
				iface, ok := tn.Type().Underlying().(*types.Interface)
				if !ok || iface.NumMethods() == 0 || !types.Implements(ptr, iface) {
					continue
				}
				for fn := range a.sources {
					for i := 0; i < iface.NumMethods(); i++ {
						if iface.Method(i).Name() == fn.Name() {
							c.Undecided("interface "+core.RelPkg(pk.PkgPath)+"."+tn.Name()+" exposes "+fn.Name(), "alias rule (dynamic dispatch)", tn.Pos(), "the accessor can be called through this interface; such calls are not tracked")
						}
					}
				}
			}
		}
	}
	sort.Strings(accessors)
	for v := range a.vars {
		if v.IsField() && v.Pkg() != nil && core.RelPkg(v.Pkg().Path()) != c11Pkg {
			nFieldsOut++
		}
	}
	c.Note("C12 alias rule: uncopied accessors %v; %d tracked variables/fields/parameters, %d of them struct fields in other packages", accessors, len(a.vars), nFieldsOut)
	// vacuity guards only: the rule found an accessor handing out the cache, a call site of one, and it
	// followed an alias into a field of another package. How many there are is not part of the property
	// (every use found is an obligation of its own above; a caller that stops asking for a slice it only
	// took the length of, or an accessor that starts copying, removes obligations, it breaks nothing).
	c.ExpectAtLeast("accessors returning a cache slice/map uncopied", len(a.sources), 1)
	c.ExpectAtLeast("call sites of those accessors in the module", nCalls, 1)
	c.ExpectAtLeast("struct fields of other packages holding such an alias", nFieldsOut, 1)
}

func (a *c12Alias) record(f *core.FuncInfo, what string, st core.Status, pos token.Pos, detail string) {
	k := f.Name + "|" + what
	fd := a.findings[k]
	if fd == nil {
		fd = &c12Finding{fn: f, what: what, status: core.Discharged}
		a.findings[k] = fd
		a.order = append(a.order, k)
	}
	fd.uses++
	rank := func(s core.Status) int {
		switch s {
		case core.Violated:
			return 2
		case core.Undecided:
			return 1
		}
		return 0
	}
	if rank(st) > rank(fd.status) {
		fd.status, fd.detail, fd.pos = st, detail, pos
	}
}

func (a *c12Alias) taintVar(v *types.Var, origin string) bool {
	if v == nil {
		return false
	}
	if _, ok := a.vars[v]; ok {
		return true
	}
	switch t := v.Type().Underlying().(type) {
	case *types.Slice:
		if _, ok := t.Elem().Underlying().(*types.Basic); !ok {
			return false
		}
	case *types.Map:
		if _, ok := t.Elem().Underlying().(*types.Basic); !ok {
			return false
		}
	default:
		return false
	}
	a.vars[v] = origin
	a.changed = true
	return true
}

// origin says whether expression n (in f) denotes an aliased slice/map and names where it comes from.
func (a *c12Alias) origin(f *core.FuncInfo, n ast.Node, parent ast.Node) (string, string) {
	switch x := n.(type) {
	case *ast.CallExpr:
		obj, _ := a.p.ResolveCallee(f.Info(), x)
		if fn, ok := obj.(*types.Func); ok {
			if _, ok := a.sources[fn.Origin()]; ok {
				return "result of " + short(core.FuncName(fn)), ""
			}
		}
	case *ast.SelectorExpr:
		if sel, ok := f.Info().Selections[x]; ok {
			if v, ok := sel.Obj().(*types.Var); ok {
				if _, t := a.vars[v]; t {
					root, _ := c11Chain(f, x)
					if call, ok := ast.Unparen(root).(*ast.CallExpr); ok {
						if obj, _ := a.p.ResolveCallee(f.Info(), call); obj != nil {
							if fn, ok := obj.(*types.Func); ok && a.fresh[fn] {
								return "", ""
							}
						}
					}
					return "field " + short(a.p.FieldName(v)), a.p.FieldName(v)
				}
			}
		}
	case *ast.Ident:
		v, ok := f.Info().Uses[x].(*types.Var)
		if !ok {
			return "", ""
		}
		if _, t := a.vars[v]; !t {
			return "", ""
		}
		switch p := parent.(type) {
		case *ast.SelectorExpr:
			if p.Sel == x {
				return "", ""
			}
		case *ast.KeyValueExpr:
			if p.Key == ast.Expr(x) && v.IsField() {
				return "", ""
			}
		}
		if v.IsField() {
			return "field " + short(a.p.FieldName(v)), a.p.FieldName(v)
		}
		return "variable " + v.Name(), ""
	}
	return "", ""
}

func (a *c12Alias) scan(f *core.FuncInfo) {
	var stack []ast.Node
	ast.Inspect(f.Body, func(n ast.Node) bool {
		if n == nil {
			stack = stack[:len(stack)-1]
			return true
		}
		if _, isLit := n.(*ast.FuncLit); isLit && len(stack) > 0 {
			return false // own FuncInfo
		}
		var parent ast.Node
		if len(stack) > 0 {
			parent = stack[len(stack)-1]
		}
		if id, ok := n.(*ast.Ident); ok {
			// an accessor used as a method/function value escapes the call-site analysis
			if fn, ok := f.Info().Uses[id].(*types.Func); ok {
				if _, src := a.sources[fn.Origin()]; src {
					var callee ast.Expr = id
					up := len(stack) - 1
					if sel, ok := parent.(*ast.SelectorExpr); ok && sel.Sel == id {
						callee = sel
						up--
					}
					for up >= 0 {
						if pe, ok := stack[up].(*ast.ParenExpr); ok {
							callee = pe
							up--
							continue
						}
						break
					}
					called := false
					if up >= 0 {
						if call, ok := stack[up].(*ast.CallExpr); ok && call.Fun == callee {
							called = true
						}
					}
					if !called {
						a.record(f, "value of "+short(core.FuncName(fn)), core.Undecided, id.Pos(), short(core.FuncName(fn))+" is used as a function value in "+f.Name+": calls through the value are not tracked")
					}
				}
			}
		}
		if e, ok := n.(ast.Expr); ok {
			if what, fld := a.origin(f, n, parent); what != "" {
				st, detail := a.classify(f, e, stack, what, fld)
				a.record(f, what, st, e.Pos(), detail)
			}
		}
		stack = append(stack, n)
		return true
	})
}

func (a *c12Alias) mutation(f *core.FuncInfo, fld, detail string) (core.Status, string) {
	if fld != "" {
		// the store is an effect of the functions it is attributed to: f itself, or - when f is a delegate
		// (a private helper that is only ever called) and the field is reached through one of its
		// parameters - its callers, transitively (see c11_deleg.go)
		var r *types.Var
		if a.cur != nil {
			root, _ := c11Chain(f, a.cur)
			r = varOf(f, root)
		}
		ok := true
		for _, at := range c11DelegOf(a.p).attributed(f, r, c11DelegDepth) {
			if !a.exempt[at.F.Name+"|"+fld] {
				ok = false
			}
		}
		if ok {
			return core.Discharged, ""
		}
	}
	return core.Violated, detail
}

// classify decides how the aliased expression e is used, climbing through its ancestors.
func (a *c12Alias) classify(f *core.FuncInfo, e ast.Expr, parents []ast.Node, what, fld string) (core.Status, string) {
	info := f.Info()
	var cur ast.Node = e
	a.cur = e
	und := func(s string) (core.Status, string) {
		return core.Undecided, what + " in " + f.Name + ": " + s + " (use not classified as read-only)"
	}
	for i := len(parents) - 1; i >= 0; i-- {
		switch p := parents[i].(type) {
		case *ast.ParenExpr:
			cur = p
			continue
		case *ast.RangeStmt:
			if p.X == cur {
				return core.Discharged, ""
			}
			return und("bound as a range variable")
		case *ast.IndexExpr:
			if p.X != cur {
				return core.Discharged, ""
			}
			return a.classifyElem(f, p, parents[:i], what, fld)
		case *ast.SliceExpr:
			if p.X == cur {
				cur = p
				continue
			}
			return core.Discharged, ""
		case *ast.SelectorExpr:
			return und("selector on the alias")
		case *ast.BinaryExpr:
			if p.Op == token.EQL || p.Op == token.NEQ {
				return core.Discharged, ""
			}
			return und("operand of " + p.Op.String())
		case *ast.ExprStmt:
			return core.Discharged, ""
		case *ast.UnaryExpr:
			if p.Op == token.AND {
				return a.mutation(f, fld, what+" has its address taken in "+f.Name)
			}
			return und("operand of " + p.Op.String())
		case *ast.CallExpr:
			if tv, ok := info.Types[p.Fun]; ok && tv.IsType() {
				cur = p
				continue
			}
			k := -1
			for j, arg := range p.Args {
				if arg == cur {
					k = j
				}
			}
			if k < 0 {
				return und("callee position of a call")
			}
			obj, _ := a.p.ResolveCallee(info, p)
			name := a.p.ObjName(obj)
			switch {
			case name == "builtin.len" || name == "builtin.cap":
				return core.Discharged, ""
			case name == "builtin.copy":
				if k == 1 {
					return core.Discharged, ""
				}
				return a.mutation(f, fld, what+" is the destination of copy() in "+f.Name)
			case name == "builtin.append":
				if k == 0 {
					return a.mutation(f, fld, what+" is appended to in "+f.Name+" (writes into the shared backing array when capacity allows, and yields a second owner)")
				}
				if p.Ellipsis.IsValid() && k == len(p.Args)-1 {
					return core.Discharged, ""
				}
				return und("appended as an element")
			case name == "builtin.delete" || name == "builtin.clear":
				return a.mutation(f, fld, what+" is passed to "+strings.TrimPrefix(name, "builtin.")+"() in "+f.Name)
			case strings.HasPrefix(name, "sort.") || strings.HasPrefix(name, "slices.Sort") || name == "slices.Reverse":
				if strings.Contains(name, "Search") || strings.Contains(name, "IsSorted") || strings.Contains(name, "AreSorted") {
					return core.Discharged, ""
				}
				return a.mutation(f, fld, what+" is sorted in place by "+name+" in "+f.Name)
			case strings.HasPrefix(name, "fmt.") || name == "reflect.DeepEqual":
				return core.Discharged, ""
			}
			if lit, ok := ast.Unparen(p.Fun).(*ast.FuncLit); ok {
				if callee := a.p.LitInfo(lit); callee != nil {
					if sig, ok := info.Types[lit].Type.(*types.Signature); ok && !(sig.Variadic() && k >= sig.Params().Len()-1) {
						if pv := callee.Param(k); pv == nil || a.taintVar(pv, what) {
							return core.Discharged, ""
						}
					}
				}
			}
			if name == "" {
				name = "a function value"
			}
			if fn, ok := obj.(*types.Func); ok {
				if callee := a.p.FuncOf(fn); callee != nil {
					sig := fn.Type().(*types.Signature)
					if sig.Variadic() && k >= sig.Params().Len()-1 {
						return und("passed in a variadic position of " + name)
					}
					pv := callee.Param(k)
					if pv == nil {
						return core.Discharged, "" // unnamed parameter: unused
					}
					if !a.taintVar(pv, what) {
						return und("passed to " + name + " as a parameter of a type that is not tracked")
					}
					return core.Discharged, ""
				}
			}
			return und("passed to " + name + ", whose effect on its argument is not known")
		case *ast.AssignStmt:
			for _, l := range p.Lhs {
				if l == cur {
					return core.Discharged, "" // the variable is rebound, nothing is written through it
				}
			}
			if len(p.Lhs) != len(p.Rhs) || (p.Tok != token.ASSIGN && p.Tok != token.DEFINE) {
				return und("multi-value or compound assignment")
			}
			for j, r := range p.Rhs {
				if r != cur {
					continue
				}
				lhs := ast.Unparen(p.Lhs[j])
				if id, ok := lhs.(*ast.Ident); ok {
					if id.Name == "_" {
						return core.Discharged, ""
					}
					if v, ok := info.ObjectOf(id).(*types.Var); ok && a.taintVar(v, what) {
						return core.Discharged, ""
					}
					return und("assigned to " + id.Name)
				}
				if sel, ok := lhs.(*ast.SelectorExpr); ok {
					if s, ok := info.Selections[sel]; ok {
						if v, ok := s.Obj().(*types.Var); ok && v.IsField() && a.taintVar(v, what) {
							return core.Discharged, ""
						}
					}
				}
				return und("stored into " + exprStr(lhs))
			}
			return und("assignment")
		case *ast.ValueSpec:
			for j, r := range p.Values {
				if r == cur && len(p.Names) == len(p.Values) {
					if p.Names[j].Name == "_" {
						return core.Discharged, ""
					}
					if v, ok := info.ObjectOf(p.Names[j]).(*types.Var); ok && a.taintVar(v, what) {
						return core.Discharged, ""
					}
				}
			}
			return und("variable declaration")
		case *ast.KeyValueExpr:
			if p.Value != cur || i == 0 {
				return und("key of a composite literal")
			}
			lit, ok := parents[i-1].(*ast.CompositeLit)
			if !ok {
				return und("key-value outside a literal")
			}
			if tv, ok := info.Types[lit]; ok {
				if _, isStruct := tv.Type.Underlying().(*types.Struct); isStruct {
					if id, ok := p.Key.(*ast.Ident); ok {
						if v, ok := info.ObjectOf(id).(*types.Var); ok && v.IsField() && a.taintVar(v, what) {
							return core.Discharged, ""
						}
					}
				}
			}
			return und("stored into a composite literal")
		case *ast.CompositeLit:
			return und("element of a composite literal")
		case *ast.ReturnStmt:
			if f.Obj == nil {
				return und("returned from a function literal")
			}
			if _, ok := a.sources[f.Obj]; !ok {
				a.sources[f.Obj] = what
				a.changed = true
			}
			return core.Discharged, ""
		default:
			return und(fmt.Sprintf("used in %T", p))
		}
	}
	return und("no enclosing statement")
}

// classifyElem: the alias is indexed (ix); decide whether the element is read or written.
func (a *c12Alias) classifyElem(f *core.FuncInfo, ix *ast.IndexExpr, parents []ast.Node, what, fld string) (core.Status, string) {
	var cur ast.Node = ix
	for i := len(parents) - 1; i >= 0; i-- {
		switch p := parents[i].(type) {
		case *ast.ParenExpr:
			cur = p
			continue
		case *ast.AssignStmt:
			for _, l := range p.Lhs {
				if l == cur {
					return a.mutation(f, fld, "an element of "+what+" is assigned in "+f.Name)
				}
			}
		case *ast.IncDecStmt:
			if p.X == cur {
				return a.mutation(f, fld, "an element of "+what+" is incremented/decremented in "+f.Name)
			}
		case *ast.UnaryExpr:
			if p.Op == token.AND && p.X == cur {
				return a.mutation(f, fld, "the address of an element of "+what+" is taken in "+f.Name)
			}
		case *ast.RangeStmt:
			if p.Key == cur || p.Value == cur {
				return a.mutation(f, fld, "an element of "+what+" is a range target in "+f.Name)
			}
		}
		break
	}
	if tv, ok := f.Info().Types[ix]; ok {
		if _, basic := tv.Type.Underlying().(*types.Basic); !basic {
			if tup, isTup := tv.Type.(*types.Tuple); !isTup || tup.Len() != 2 {
				return core.Undecided, "an element of " + what + " read in " + f.Name + " is not a scalar: the element may itself be an alias"
			}
		}
	}
	return core.Discharged, ""
}

var _ = cfg.KindInvalid
