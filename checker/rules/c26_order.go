package rules

import (
	"go/ast"
	"go/token"
	"go/types"

	"lachk/core"
)

// c26SortOrders tightens the discharge "the slice filled in map order is sorted afterwards" of T10: a
// sort hides the map iteration order only if its comparison is a total order on the collected
// elements. With a comparison of a projection (length, one field, …) the elements that compare equal
// stay in the order in which the map range produced them, and that order differs between two
// constructions from the same routing tables.
//
// For every slice of g that is appended to inside a range over a map and then passed to a sort:
//
//	sort.Strings / Ints / Float64s         total on the values (equal values are interchangeable)
//	sort.Slice / SliceStable(s, less)      every return of less either compares the whole elements
//	                                       s[i], s[j] of an ordered basic type with < or >, or compares a
//	                                       projection and is reached only over an edge on which the two
//	                                       projections differ (tie-break chain); at least one return is of
//	                                       the first kind
//
// Other forms (sort.Sort with a Less method, a named comparison function) are undecided.
func c26SortOrders(c *core.Ctx, g *core.FuncInfo) int {
	// slices appended to inside a map range
	var collected []*types.Var
	for _, mr := range core.MapRanges(g) {
		ast.Inspect(mr.Stmt.Body, func(n ast.Node) bool {
			if _, isLit := n.(*ast.FuncLit); isLit {
				return false
			}
			as, ok := n.(*ast.AssignStmt)
			if !ok || len(as.Lhs) != len(as.Rhs) {
				return true
			}
			for i, l := range as.Lhs {
				call, isCall := ast.Unparen(as.Rhs[i]).(*ast.CallExpr)
				if !isCall || calleeName(g, call) != "builtin.append" || len(call.Args) == 0 {
					continue
				}
				v := varOf(g, l)
				if v == nil || varOf(g, call.Args[0]) != v || (v.Pos() >= mr.Stmt.Pos() && v.Pos() < mr.Stmt.End()) {
					continue
				}
				dup := false
				for _, w := range collected {
					dup = dup || w == v
				}
				if !dup {
					collected = append(collected, v)
				}
			}
			return true
		})
	}
	n := 0
	for _, v := range collected {
		for _, cs := range g.Calls() {
			if len(cs.Call.Args) == 0 || !mentionsObj(g, cs.Call.Args[0], v) {
				continue
			}
			key := short(g.Name) + "|order of " + v.Name() + " is total"
			switch cs.Name {
			case "sort.Strings", "sort.Ints", "sort.Float64s":
				n++
				c.Pass(key, "T10 MapOrder (sorted)", "sorted by value: equal values are interchangeable")
			case "sort.Slice", "sort.SliceStable":
				n++
				less := litArg(g, cs.Call, 1)
				if less == nil || varOf(g, cs.Call.Args[0]) != v {
					c.Undecided(key, "T10 MapOrder (sorted)", cs.Pos(), "the slice filled in map iteration order is sorted with a comparison this rule cannot read (not a function literal over the slice itself)")
					continue
				}
				total, decided, why := c26LessIsTotal(less, v)
				switch {
				case !decided:
					c.Undecided(key, "T10 MapOrder (sorted)", cs.Pos(), "cannot decide whether the comparison is a total order on the collected elements: "+why)
				default:
					c.Check(total, key, "T10 MapOrder (sorted)", cs.Pos(), "the comparison orders any two distinct elements",
						"the slice is filled in map iteration order and sorted with a comparison that is not a total order ("+why+"): elements that compare equal keep the map order, so e.g. two patterns of the same rank are tried in a different order by two producers built from the same tables")
				}
			case "sort.Sort", "sort.Stable":
				n++
				c.Undecided(key, "T10 MapOrder (sorted)", cs.Pos(), "the slice filled in map iteration order is sorted through a sort.Interface; whether its Less is a total order is not decided")
			}
		}
	}
	return n
}

// c26LessIsTotal classifies the comparison function of sort.Slice over the slice variable v.
func c26LessIsTotal(less *core.FuncInfo, v *types.Var) (total, decided bool, why string) {
	pi, pj := less.Param(0), less.Param(1)
	if pi == nil || pj == nil {
		return false, false, "the comparison does not name its two index parameters"
	}
	resolve := func(e ast.Expr) ast.Expr { return resolveLocal(less, e) }
	// which element does e denote: 1 for v[i], 2 for v[j], 0 otherwise
	elem := func(e ast.Expr) int {
		ix, ok := resolve(e).(*ast.IndexExpr)
		if !ok || varOf(less, ix.X) != v {
			return 0
		}
		switch varOf(less, ix.Index) {
		case pi:
			return 1
		case pj:
			return 2
		}
		return 0
	}
	ordered := false
	if sl, ok := v.Type().Underlying().(*types.Slice); ok {
		if b, isBasic := sl.Elem().Underlying().(*types.Basic); isBasic && b.Info()&(types.IsString|types.IsInteger) != 0 {
			ordered = true
		}
	}
	// the same expression up to the exchange of the two elements
	rename := func(e ast.Expr, swap bool) string {
		var render func(x ast.Expr) string
		render = func(x ast.Expr) string {
			x = resolve(x)
			if k := elem(x); k != 0 {
				if swap {
					k = 3 - k
				}
				return []string{"", "·a", "·b"}[k]
			}
			switch y := x.(type) {
			case *ast.SelectorExpr:
				return render(y.X) + "." + y.Sel.Name
			case *ast.CallExpr:
				s := types.ExprString(y.Fun) + "("
				for _, a := range y.Args {
					s += render(a) + ","
				}
				return s + ")"
			case *ast.ParenExpr:
				return render(y.X)
			}
			return types.ExprString(x)
		}
		return render(e)
	}
	nWhole, nRet := 0, 0
	for _, rp := range less.ReturnPoints() {
		r := rp.Node().(*ast.ReturnStmt)
		if len(r.Results) != 1 {
			return false, false, "a return of the comparison has no explicit result"
		}
		nRet++
		cm, ok := core.NormCmp(core.Fact{Expr: resolve(r.Results[0]), Truth: true})
		if !ok || cm.R == nil || cm.Op != token.LSS {
			if _, isConst := core.ConstVal(less.Info(), r.Results[0]); isConst {
				return false, true, "the comparison returns a constant on some path"
			}
			return false, false, "a result of the comparison is not a strict order test (<, >)"
		}
		l, rr := elem(cm.L), elem(cm.R)
		if l != 0 && rr != 0 && l != rr {
			if !ordered {
				return false, false, "the elements are compared as a whole but are not strings or integers"
			}
			nWhole++
			continue
		}
		// a projection: must be the same projection of both elements …
		if rename(cm.L, false) != rename(cm.R, true) || rename(cm.L, false) == rename(cm.L, true) {
			return false, false, "a result compares two different expressions"
		}
		// … and be reached only where the two projections differ
		pl, pr := rename(cm.L, false), rename(cm.R, false)
		differ := func(ft core.Fact) bool {
			d, k := core.NormCmp(ft)
			if !k || d.R == nil || d.Op != token.NEQ {
				return false
			}
			a, b := rename(d.L, false), rename(d.R, false)
			return (a == pl && b == pr) || (a == pr && b == pl)
		}
		if guarded, _ := less.GuardedBy(rp, differ); !guarded {
			return false, true, "it compares only " + exprStr(cm.L) + " with " + exprStr(cm.R) + " and leaves elements of equal rank unordered"
		}
	}
	if nRet == 0 {
		return false, false, "the comparison has no return"
	}
	if nWhole == 0 {
		return false, true, "no path compares the elements themselves"
	}
	return true, true, ""
}
