package rules

import (
	"go/types"

	"lachk/core"
)

const cpPkg = "kvdb/cachedproducer"

// c27Opener is a function of the caching-producer package that performs a caching open, with the
// parameter that carries the name being opened.
type c27Opener struct {
	f    *core.FuncInfo
	name *types.Var
}

// c27UnderlyingOpen: a call of the wrapped producer's OpenDB, i.e. of the interface method (the
// wrappers' own OpenDB methods are concrete and are not matched).
func c27UnderlyingOpen(cs *core.CallSite) bool {
	fn, ok := cs.Callee.(*types.Func)
	if !ok || fn.Name() != "OpenDB" {
		return false
	}
	sig, _ := fn.Type().(*types.Signature)
	return sig != nil && sig.Recv() != nil && types.IsInterface(sig.Recv().Type())
}

// c27Openers locates the caching open by what it does, not by its name (it may be a plain function
// taking the state, a method of the state, or a method of a producer): the declared functions of the
// package that call the wrapped producer's OpenDB (in their own body or in a closure of theirs). When
// such a function holds no update of the reference counter within the reach of the summaries (the
// bare open was split off into a helper), the functions of the package calling it stand for it, if
// they hold one (bounded depth). Nothing is returned when the package opens no wrapped database.
func c27Openers(p *core.Prog, counted *c27Effect) []c27Opener {
	var declared []*core.FuncInfo
	for _, f := range p.Funcs() {
		if core.RelPkg(f.Pkg.PkgPath) == cpPkg && f.Obj != nil && f.Body != nil {
			declared = append(declared, f)
		}
	}
	opens := func(f *core.FuncInfo) []*core.CallSite {
		var out []*core.CallSite
		for _, g := range append([]*core.FuncInfo{f}, allLits(f)...) {
			out = append(out, g.CallsMatching(c27UnderlyingOpen)...)
		}
		return out
	}
	counts := func(f *core.FuncInfo) bool {
		s, bad := counted.sites(f, 2)
		return len(s) > 0 || bad != ""
	}
	callers := func(h *core.FuncInfo) []*core.FuncInfo {
		var out []*core.FuncInfo
		for _, g := range declared {
			if g == h {
				continue
			}
			for _, cs := range g.Calls() {
				if fn, ok := cs.Callee.(*types.Func); ok && fn == h.Obj {
					out = append(out, g)
					break
				}
			}
		}
		return out
	}
	var cur []*core.FuncInfo
	for _, f := range declared {
		if len(opens(f)) > 0 {
			cur = append(cur, f)
		}
	}
	for depth := 0; depth < 2; depth++ {
		var next []*core.FuncInfo
		seen := map[*core.FuncInfo]bool{}
		changed := false
		add := func(f *core.FuncInfo) {
			if !seen[f] {
				seen[f] = true
				next = append(next, f)
			}
		}
		for _, f := range cur {
			if counts(f) {
				add(f)
				continue
			}
			up := false
			for _, g := range callers(f) {
				if counts(g) {
					add(g)
					up, changed = true, true
				}
			}
			if !up {
				add(f)
			}
		}
		cur = next
		if !changed {
			break
		}
	}
	var out []c27Opener
	for _, f := range cur {
		out = append(out, c27Opener{f, c27NameParam(f, opens(f))})
	}
	return out
}

// c27NameParam: the parameter of f that carries the name being opened — the one handed (possibly
// through single-definition locals) to the wrapped producer's OpenDB; when that call is not written in
// f's own body, the only string parameter of f.
func c27NameParam(f *core.FuncInfo, opens []*core.CallSite) *types.Var {
	isParam := func(v *types.Var) bool {
		if v == nil {
			return false
		}
		for i := 0; i < 16; i++ {
			if f.Param(i) == v {
				return true
			}
		}
		return false
	}
	for _, cs := range f.CallsMatching(c27UnderlyingOpen) {
		if len(cs.Call.Args) == 1 {
			if v := varOf(f, resolveLocal(f, cs.Call.Args[0])); isParam(v) {
				return v
			}
		}
	}
	var only *types.Var
	n := 0
	for i := 0; i < 16; i++ {
		v := f.Param(i)
		if v == nil {
			continue
		}
		if b, ok := v.Type().Underlying().(*types.Basic); ok && b.Kind() == types.String {
			only = v
			n++
		}
	}
	if n == 1 {
		return only
	}
	return nil
}
