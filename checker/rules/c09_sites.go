package rules

import (
	"go/ast"
	"go/token"
	"go/types"

	"golang.org/x/tools/go/cfg"

	"lachk/core"
)

// ---------------------------------------------------------------------------
// effect sites seen through helpers that can fail (c09 prefix; shared by C08 and C09)

// c09errEdges: the edges of g on which some error-typed value is known to be non-nil ("a step failed").
func c09errEdges(g *core.FuncInfo) func(*cfg.Block, int) bool {
	return g.GuardEdges(func(ft core.Fact) bool {
		cm, ok := core.NormCmp(ft)
		if !ok || cm.R == nil || cm.Op != token.NEQ {
			return false
		}
		l, r := cm.L, cm.R
		if core.IsNil(g.Info(), l) {
			l, r = r, l
		}
		if !core.IsNil(g.Info(), r) {
			return false
		}
		t := g.Info().TypeOf(l)
		return t != nil && types.Identical(t, types.Universe.Lookup("error").Type())
	})
}

// c09effectSites lists the occurrences of an effect that cannot fail itself (a call accepted by pred:
// an election Reset, a setter) in f: in place, or in a helper called on f's own receiver that performs
// it exactly once, not in a loop, on every path through the helper on which no step failed (no
// `err != nil` edge taken). Chain[0] is the call in f.
func c09effectSites(f *core.FuncInfo, pred func(*core.CallSite) bool, depth int) []c08site {
	return c09sitesUnless(f, pred, func(g *core.FuncInfo) func(*cfg.Block, int) bool { return c09errEdges(g) }, depth)
}

// c09siteAfterSuccess: is the effect r performed only after the (fallible) effect s succeeded? The
// two chains are followed while they enter the same helper call; in the function where they part, the
// call leading to r must be reached only after the call leading to s returned a nil error (s found by
// c08sitesOf: its helpers hand the effect's error on, so "the helper succeeded" means "s succeeded").
func c09siteAfterSuccess(s, r c08site) bool {
	i := 0
	for i < len(s.Chain)-1 && i < len(r.Chain)-1 && s.Chain[i] == r.Chain[i] {
		i++
	}
	a, b := s.Chain[i], r.Chain[i]
	if a == b || a.F != b.F {
		return false
	}
	return c08after(a.F, a, b.Pt)
}

// c09returnsError: does the callee of the call site return an error as its last result?
func c09returnsError(cs *core.CallSite) bool {
	fn, ok := cs.Callee.(*types.Func)
	if !ok {
		return false
	}
	sig, ok := fn.Type().(*types.Signature)
	if !ok || sig.Results().Len() == 0 {
		return false
	}
	return types.Identical(sig.Results().At(sig.Results().Len()-1).Type(), types.Universe.Lookup("error").Type())
}

// c09mustPassSitesBefore: does every path from f's entry to `to` perform one of the effects? A site in
// a helper that returns an error counts only on the paths that continue on the `err == nil` edge of
// that call (a failed helper may have stopped before the effect); when its error is not held in a
// variable the site does not count at all.
func c09mustPassSitesBefore(f *core.FuncInfo, sites []c08site, to core.Point) (bool, []core.Point) {
	var avoid []core.Point
	var edges []func(*cfg.Block, int) bool
	for _, s := range sites {
		out := s.Outer()
		if len(s.Chain) == 1 || !c09returnsError(out) {
			avoid = append(avoid, out.Pt)
			continue
		}
		ev := errVarOfCall(f, out.Call)
		if ev == nil || len(assignsToVar(f, ev)) != 1 {
			continue
		}
		edges = append(edges, f.GuardEdges(varNilFact(f, ev, true)))
	}
	if core.PointSet(avoid...)(to) {
		return true, nil
	}
	wit, found := core.PathQuery{F: f, From: f.Entry(), Target: core.PointSet(to), Avoid: core.PointSet(avoid...), AvoidEdge: func(b *cfg.Block, s int) bool {
		for _, e := range edges {
			if e(b, s) {
				return true
			}
		}
		return false
	}}.Find()
	return !found, wit
}

// c09sealHost: the function that performs the seal for onFrameDecided, located by its effect — it
// persists the new epoch state (calls Store.SetEpochState): onFrameDecided itself when the seal is
// spelled in place (no calls returned), otherwise the one module function called from onFrameDecided
// (not in go/defer) that does, together with its calls in onFrameDecided. nil when there is none or
// more than one candidate.
func c09sealHost(od *core.FuncInfo) (*core.FuncInfo, []*core.CallSite) {
	const setES = "abft.Store.SetEpochState"
	if od == nil {
		return nil, nil
	}
	if len(od.CallsTo(setES)) > 0 {
		return od, nil
	}
	var host *core.FuncInfo
	var calls []*core.CallSite
	for _, cs := range od.Calls() {
		if cs.InGo || cs.InDefer {
			continue
		}
		fn, ok := cs.Callee.(*types.Func)
		if !ok {
			continue
		}
		g := od.P.FuncOf(fn)
		if g == nil || g == od || len(g.CallsTo(setES)) == 0 {
			continue
		}
		if host != nil && host != g {
			return nil, nil
		}
		host = g
		calls = append(calls, cs)
	}
	return host, calls
}

// c09isValidators: (a pointer to) the validators type.
func c09isValidators(p *core.Prog, t types.Type) bool {
	if pt, ok := t.(*types.Pointer); ok {
		t = pt.Elem()
	}
	nt, ok := t.(*types.Named)
	return ok && p.ObjName(nt.Obj()) == "inter/pos.Validators"
}

// c09sealVar: the variable of onFrameDecided that receives the validators returned by the
// ApplyAtropos callback — the callback may be invoked in place, through a local holding the field, or
// in a helper that invokes it unless it is not set and returns its result (nil otherwise).
func c09sealVar(od *core.FuncInfo) *types.Var {
	for _, s := range c09callbackSites(od, "abft.OrdererCallbacks.ApplyAtropos") {
		okChain := true
		for k := 1; k < len(s.Chain) && okChain; k++ {
			g, call := s.Chain[k].F, s.Chain[k].Call
			rets := g.ReturnPoints()
			okChain = len(rets) > 0
			for _, rp := range rets {
				r := rp.Node().(*ast.ReturnStmt)
				if len(r.Results) != 1 {
					okChain = false
					break
				}
				e := ast.Unparen(r.Results[0])
				if core.IsNil(g.Info(), e) {
					continue
				}
				if lv := varOf(g, e); lv != nil {
					if d := c33singleDef(g, lv); d != nil && d.RHS != nil {
						e = ast.Unparen(d.RHS)
					}
				}
				if e != ast.Expr(call) {
					okChain = false
				}
			}
		}
		if !okChain {
			continue
		}
		outer := s.Outer().Call
		for _, a := range assignments(od) {
			if a.RHS != nil && ast.Unparen(a.RHS) == ast.Expr(outer) {
				if as, isAs := a.Stmt.(*ast.AssignStmt); isAs && len(as.Lhs) != len(as.Rhs) {
					continue
				}
				return varOf(od, a.LHS)
			}
		}
	}
	return nil
}
