package rules

// C15 — two views that make the clauses independent of how Enqueue's state and process()'s inputs are
// packaged:
//
//   - c15Resolve looks through single-definition locals AND through fields of a record that is built by a
//     composite literal in the same function and whose field is never assigned afterwards (anywhere in the
//     package): `b := &batch{events: events}; … b.events` stands for `events`. The arguments of Enqueue
//     may so be grouped in a small struct shared by the two tasks.
//   - c15ProcSig says where process() gets the checked event and the check's error from: two parameters
//     (a dag.Event and an error), or one parameter holding the check result record (its e and err members).

import (
	"go/ast"
	"go/token"
	"go/types"

	"lachk/core"
)

var c15FrozenCache = map[string]bool{}

// c15FieldFrozen: the field (canonical name) is only ever set by composite literals: no assignment,
// step or address-of targets it in the package that declares it, and it cannot be reached from outside
// (the field or its struct type is unexported).
func c15FieldFrozen(p *core.Prog, fv *types.Var, owner types.Type) bool {
	if fv == nil || !fv.IsField() || fv.Pkg() == nil {
		return false
	}
	name := p.FieldName(fv)
	if r, ok := c15FrozenCache[name]; ok {
		return r
	}
	res := true
	if fv.Exported() {
		if pt, ok := owner.(*types.Pointer); ok {
			owner = pt.Elem()
		}
		n, ok := owner.(*types.Named)
		if !ok || n.Obj().Exported() {
			res = false
		}
	}
	if res {
		for _, g := range c15PkgFuncs(p, core.RelPkg(fv.Pkg().Path())) {
			for _, a := range assignments(g) {
				if sel, ok := ast.Unparen(a.LHS).(*ast.SelectorExpr); ok {
					if s, ok := g.Info().Selections[sel]; ok && s.Obj() == types.Object(fv) {
						res = false
					}
				}
			}
			g.InspectOwn(func(n ast.Node) bool {
				if u, ok := n.(*ast.UnaryExpr); ok && u.Op == token.AND {
					if sel, ok := ast.Unparen(u.X).(*ast.SelectorExpr); ok {
						if s, ok := g.Info().Selections[sel]; ok && s.Obj() == types.Object(fv) {
							res = false
						}
					}
				}
				return true
			})
		}
	}
	c15FrozenCache[name] = res
	return res
}

// c15NeverReassigned: the variable keeps the value it was declared with: a parameter that is never
// assigned, or a local with a single definition.
func c15NeverReassigned(f *core.FuncInfo, v *types.Var) bool {
	if v == nil || v.IsField() {
		return false
	}
	defs := c15DefsOf(f, v)
	if len(defs) == 0 {
		return true
	}
	rhs, _ := c15SingleDef(f, v)
	return rhs != nil
}

// c15Resolve follows single-definition locals and frozen fields of locally built records.
func c15Resolve(f *core.FuncInfo, e ast.Expr) ast.Expr {
	for i := 0; i < 8 && e != nil; i++ {
		e = ast.Unparen(c15Through(f, e))
		sel, ok := e.(*ast.SelectorExpr)
		if !ok {
			return e
		}
		s, ok := f.Info().Selections[sel]
		if !ok || s.Kind() != types.FieldVal || len(s.Index()) != 1 {
			return e
		}
		fv, _ := s.Obj().(*types.Var)
		rec := c15Resolve(f, sel.X)
		flds, cl, ok := c15StructFields(f, rec)
		if !ok || fv == nil {
			return e
		}
		val := flds[f.P.FieldName(fv)]
		if val == nil || !c15FieldFrozen(f.P, fv, f.Info().Types[cl].Type) {
			return e
		}
		// the value read later is the value the literal was built with only when that is a constant or
		// a variable that is never assigned again
		val = ast.Unparen(val)
		if tv, ok := f.Info().Types[val]; ok && tv.Value != nil {
			return val
		}
		if v := varOf(f, val); v == nil || !c15NeverReassigned(f, v) {
			return e
		}
		e = val
	}
	return e
}

// c15IntShape gives the width in bytes and signedness of a basic integer type. int, uint and uintptr
// count as 4 bytes wide: that is all the language guarantees (and what they are on 386).
func c15IntShape(t types.Type) (size int, signed, ok bool) {
	if t == nil {
		return 0, false, false
	}
	b, isB := t.Underlying().(*types.Basic)
	if !isB || b.Info()&types.IsInteger == 0 {
		return 0, false, false
	}
	switch b.Kind() {
	case types.Int8:
		return 1, true, true
	case types.Int16:
		return 2, true, true
	case types.Int32, types.Int:
		return 4, true, true
	case types.Int64:
		return 8, true, true
	case types.Uint8:
		return 1, false, true
	case types.Uint16:
		return 2, false, true
	case types.Uint32, types.Uint, types.Uintptr:
		return 4, false, true
	case types.Uint64:
		return 8, false, true
	}
	return 0, false, false
}

// c15LossyConv finds, in the expression e of f (single-definition locals looked through), an integer
// conversion of a non-constant operand that does not preserve every value of the operand's type: to a
// narrower type, from unsigned to a signed type that is not wider, or from signed to unsigned.
func c15LossyConv(f *core.FuncInfo, e ast.Expr, depth int) ast.Expr {
	if e == nil || depth > 6 {
		return nil
	}
	info := f.Info()
	var found ast.Expr
	ast.Inspect(e, func(n ast.Node) bool {
		if found != nil {
			return false
		}
		switch x := n.(type) {
		case *ast.FuncLit:
			return false
		case *ast.Ident:
			if rhs, _ := c15SingleDef(f, varOf(f, x)); rhs != nil {
				found = c15LossyConv(f, rhs, depth+1)
			}
		case *ast.CallExpr:
			tv, isT := info.Types[x.Fun]
			if !isT || !tv.IsType() || len(x.Args) != 1 {
				return true
			}
			if av, ok := info.Types[x.Args[0]]; ok && av.Value != nil {
				return false // a constant: the compiler rejects a value that does not fit
			}
			ds, dSigned, ok1 := c15IntShape(tv.Type)
			ss, sSigned, ok2 := c15IntShape(info.TypeOf(x.Args[0]))
			if !ok1 || !ok2 {
				return true
			}
			switch {
			case ds < ss, !sSigned && dSigned && ds <= ss, sSigned && !dSigned:
				found = x
			}
		}
		return true
	})
	return found
}

// c15ProcSig: how process() receives the checked event and the check's error.
type c15ProcSig struct {
	proc                  *core.FuncInfo
	ev, err, res          *types.Var
	evIdx, errIdx, resIdx int
}

const (
	c15ResT   = c15Pkg + ".checkRes"
	c15ResEv  = c15ResT + ".e"
	c15ResErr = c15ResT + ".err"
)

// c15SigOf reads the signature of (the view of) process(). ok is false when it has neither form.
func c15SigOf(proc *core.FuncInfo) (*c15ProcSig, bool) {
	s := &c15ProcSig{proc: proc, evIdx: -1, errIdx: -1, resIdx: -1}
	if proc == nil || proc.Type == nil || proc.Type.Params == nil {
		return s, false
	}
	k := 0
	for _, fl := range proc.Type.Params.List {
		n := len(fl.Names)
		if n == 0 {
			n = 1
		}
		for j := 0; j < n; j++ {
			v := proc.Param(k)
			if v != nil {
				switch {
				case c15TypeName(v.Type()) == "inter/dag.Event":
					if s.ev != nil {
						return s, false
					}
					s.ev, s.evIdx = v, k
				case v.Type().String() == "error":
					if s.err != nil {
						return s, false
					}
					s.err, s.errIdx = v, k
				case c15IsResultPtr(v.Type()):
					if s.res != nil {
						return s, false
					}
					s.res, s.resIdx = v, k
				}
			}
			k++
		}
	}
	switch {
	case s.ev != nil && s.err != nil && s.res == nil:
		return s, true
	case s.res != nil && s.ev == nil && s.err == nil:
		// the record is read, never replaced; its members are only set when it is built
		if len(c15DefsOf(proc, s.res)) != 0 {
			return s, false
		}
		st, ok := s.res.Type().(*types.Pointer).Elem().Underlying().(*types.Struct)
		if !ok {
			return s, false
		}
		for i := 0; i < st.NumFields(); i++ {
			switch proc.P.FieldName(st.Field(i)) {
			case c15ResEv, c15ResErr:
				if !c15FieldFrozen(proc.P, st.Field(i), s.res.Type()) {
					return s, false
				}
			}
		}
		return s, true
	}
	return s, false
}

func (s *c15ProcSig) member(e ast.Expr, direct *types.Var, field string) bool {
	if e == nil {
		return false
	}
	f := s.proc
	if direct != nil {
		return varOf(f, c15Through(f, e)) == direct
	}
	if s.res == nil {
		return false
	}
	root, path := fieldPath(f, e)
	return len(path) == 1 && path[0] == field && varOf(f, c15Through(f, root)) == s.res
}

// isEv: e (an expression of process) denotes the event process() was called for.
func (s *c15ProcSig) isEv(e ast.Expr) bool { return s.member(e, s.ev, c15ResEv) }

// isErr: e denotes the error of that event's parentless check.
func (s *c15ProcSig) isErr(e ast.Expr) bool { return s.member(e, s.err, c15ResErr) }

// errNilFact matches "<the check's error> == nil" (wantNil) or "!= nil".
func (s *c15ProcSig) errNilFact(wantNil bool) func(core.Fact) bool {
	f := s.proc
	return func(ft core.Fact) bool {
		cm, ok := core.NormCmp(ft)
		if !ok || cm.R == nil {
			return false
		}
		l, r := cm.L, cm.R
		if core.IsNil(f.Info(), l) {
			l, r = r, l
		}
		if !core.IsNil(f.Info(), r) || !s.isErr(l) {
			return false
		}
		return (cm.Op == token.EQL) == wantNil
	}
}

// handed: the check result record whose event and error the call of process() in f passes on (one record
// argument, or the e and err members of the same record). nil when the call does not have that form.
func (s *c15ProcSig) handed(f *core.FuncInfo, call *ast.CallExpr) ast.Expr {
	if s.resIdx >= 0 {
		if s.resIdx >= len(call.Args) {
			return nil
		}
		return ast.Unparen(call.Args[s.resIdx])
	}
	if s.evIdx < 0 || s.errIdx < 0 || s.evIdx >= len(call.Args) || s.errIdx >= len(call.Args) {
		return nil
	}
	r1, p1 := fieldPath(f, call.Args[s.evIdx])
	r2, p2 := fieldPath(f, call.Args[s.errIdx])
	if len(p1) != 1 || p1[0] != c15ResEv || len(p2) != 1 || p2[0] != c15ResErr || !c15SameRoot(f, r1, r2) {
		return nil
	}
	return ast.Unparen(r1)
}
