package rules

import (
	"go/ast"
	"go/types"

	"lachk/core"
)

const vfIdx = "vecfc.Index"

func init() {
	register("C05", "other", "T7 Pairing (cache write = table write), T6 WhoMayWrite, T2 (cache purge on reset/drop), T21 InjectiveEncoding (shared with C04)",
		"Decides only the clause 'the answer does not depend on which queries were made before or on the indexing history': the forkless-cause pair cache is read and written under the same ordered key (a, b) and caches exactly the computed result; Reset purges all three caches; the two vector caches are purged whenever unflushed index data is dropped and the pair cache cannot be hit by a recycled temporary ID (C04.tmpid); the vector caches are written only by the set/get accessors, each write paired with the table write/read of the same value, so a cached vector always equals the stored one; the engine writes its loaded branch table (per-branch last sequence numbers, fork assignment) back on every path before the vectors are flushed, so re-reading the table after a drop or restart cannot change how later events are filed; the search for forks not seen by parents compares every pair of a creator's branches and either of its two iterations ends before exhaustion only behind the true edge of the overlap test (so the verdict does not depend on the order in which the branches were created); and, of the definition's first conjunct, the operand provenance of the fork test: in the inlined view of ForklessCause a test GetHighestBefore(a).Get(GetEventBranchID(b)).IsForkDetected() exists and no branch lookup is made for an event other than b (C05.bfork). Statements of the accessors may sit in helpers that receive table and cache through a grouping struct or as parameters, and the cached value may be produced by a bound callback (struct projection and helper/callback results are read back symbolically). Equality of the index answer with the graph definition of forkless cause (a value-level fact over all DAGs) is not decided.",
		[]string{"simplewlru.Cache is a faithful cache (C29)", "the table store is an ordered map (C23)"},
		runC05)
}

func runC05(c *core.Ctx) {
	p := c.P
	fcCache := vfIdx + ".cache.ForklessCause"
	hbCache := vfIdx + ".cache.HighestBeforeSeq"
	laCache := vfIdx + ".cache.LowestAfterSeq"

	c.Clause("C05.key", func() {
		f := c.Fn(vfIdx + ".ForklessCause")
		a, b := f.Param(0), f.Param(1)
		// the key expression (a local holding it is looked through) is a two-field struct literal. Its
		// elements are matched to the fields BY FIELD OBJECT (a positional element takes the field of its
		// position, a keyed one the field it names), so neither the declaration order of the fields nor the
		// order/keyedness of the literal matters. keyOf returns which parameter each field receives.
		keyOf := func(e ast.Expr) (map[*types.Var]*types.Var, types.Type) {
			cl, ok := resolveLocal(f, e).(*ast.CompositeLit)
			if !ok || len(cl.Elts) != 2 {
				return nil, nil
			}
			tv := f.Info().TypeOf(cl)
			if tv == nil {
				return nil, nil
			}
			st, _ := tv.Underlying().(*types.Struct)
			if st == nil || st.NumFields() != 2 {
				return nil, nil
			}
			m := map[*types.Var]*types.Var{}
			for i, el := range cl.Elts {
				fld, val := st.Field(i), el
				if kv, keyed := el.(*ast.KeyValueExpr); keyed {
					id, isID := kv.Key.(*ast.Ident)
					if !isID {
						return nil, nil
					}
					fld = nil
					for j := 0; j < 2; j++ {
						if st.Field(j).Name() == id.Name {
							fld = st.Field(j)
						}
					}
					val = kv.Value
				}
				pv := canonVar(f, varOf(f, val))
				if fld == nil || pv == nil {
					return nil, nil
				}
				if _, dup := m[fld]; dup {
					return nil, nil
				}
				m[fld] = pv
			}
			return m, tv
		}
		// the ordered pair: the two fields receive a and b, one each (so (a, b) and (b, a) are different
		// keys), and the read side and the write side give the SAME field the SAME parameter
		keysAgree := func(g, w ast.Expr) bool {
			mg, tg := keyOf(g)
			mw, tw := keyOf(w)
			if len(mg) != 2 || len(mw) != 2 || tg == nil || tw == nil || !types.Identical(tg, tw) {
				return false
			}
			seenA, seenB := false, false
			for fld, pv := range mg {
				if mw[fld] != pv {
					return false
				}
				seenA = seenA || pv == a
				seenB = seenB || pv == b
			}
			return seenA && seenB && a != b
		}
		gets := f.CallsMatching(func(cs *core.CallSite) bool {
			return cs.Name == "utils/simplewlru.Cache.Get" && fieldNameOf(f, cs.Recv()) == fcCache
		})
		adds := f.CallsMatching(func(cs *core.CallSite) bool {
			return cs.Name == "utils/simplewlru.Cache.Add" && fieldNameOf(f, cs.Recv()) == fcCache
		})
		c.Need(len(gets) == 1 && len(adds) == 1, "ForklessCause reads and fills its pair cache once each")
		c.Check(keysAgree(gets[0].Call.Args[0], adds[0].Call.Args[0]), "pair cache is keyed by the ordered pair (a, b) on both sides", "T14 key agreement", f.Pos(), "Get and Add use kv{a, b}", "the pair cache is read and written under different keys (a query can return the answer of another pair)")
		// the cached value is the computed result for the same pair
		rv := varOf(f, adds[0].Call.Args[1])
		okV := false
		if rv != nil {
			for _, as := range assignsToVar(f, rv) {
				if call := isCallTo(f, as.RHS, vfIdx+".forklessCause"); call != nil && as.RHS != nil && len(call.Args) == 2 && canonVar(f, varOf(f, call.Args[0])) == a && canonVar(f, varOf(f, call.Args[1])) == b {
					okV = true
				}
			}
		}
		c.Check(okV, "cached value is forklessCause(a, b)", "provenance", adds[0].Pos(), "the value stored is the result computed for the same pair, and it is what is returned", "the pair cache stores something other than forklessCause(a, b)")
		// who else touches the pair cache: only ForklessCause, initCaches, Reset(purge)
		for _, g := range p.FuncsInPkg("vecfc") {
			all := append([]*core.FuncInfo{g}, allLits(g)...)
			for _, h := range all {
				for _, cs := range h.Calls() {
					if cs.Recv() != nil && fieldNameOf(h, cs.Recv()) == fcCache && cs.Name == "utils/simplewlru.Cache.Add" && h != f {
						c.Fail("pair cache filled in "+short(h.Name), "T6 WhoMayWrite", cs.Pos(), "the pair cache is filled outside ForklessCause")
					}
				}
			}
		}
	})

	c.Clause("C05.reset", func() {
		f := c.Fn(vfIdx + ".Reset")
		purged := map[string]bool{}
		reach := core.ReachableFuncs(p, []*core.FuncInfo{f}, false)
		for _, g := range reach {
			if core.RelPkg(g.Pkg.PkgPath) != "vecfc" {
				continue
			}
			for _, cs := range g.CallsTo("utils/simplewlru.Cache.Purge") {
				purged[fieldNameOf(g, cs.Recv())] = true
			}
		}
		for _, cf := range []string{fcCache, hbCache, laCache} {
			c.Check(purged[cf], "Reset purges "+short(cf), "T2", f.Pos(), "reachable Purge of this cache", "Reset keeps entries of "+short(cf)+" from the previous epoch/database")
		}
	})

	c.Clause("C05.drop", func() {
		f := c.Fn(vfIdx + ".onDropNotFlushed")
		purged := map[string]bool{}
		for _, cs := range f.CallsTo("utils/simplewlru.Cache.Purge") {
			purged[fieldNameOf(f, cs.Recv())] = true
		}
		for _, cf := range []string{hbCache, laCache} {
			c.Check(purged[cf], "drop purges "+short(cf), "T7 Pairing", f.Pos(), "the vector cache is purged with the dropped index data", "vectors of a dropped (built or rejected) event stay cached in "+short(cf))
		}
		// the callback is installed
		cb := c.Fn(vfIdx + ".GetEngineCallbacks")
		okCB := false
		cb.InspectOwn(func(n ast.Node) bool {
			if kv, ok := n.(*ast.KeyValueExpr); ok {
				if id, ok := kv.Key.(*ast.Ident); ok {
					if v, ok := cb.Info().ObjectOf(id).(*types.Var); ok && p.FieldName(v) == "vecengine.Callbacks.OnDropNotFlushed" {
						if sel, ok := ast.Unparen(kv.Value).(*ast.SelectorExpr); ok {
							if fn, ok := cb.Info().Uses[sel.Sel].(*types.Func); ok && core.FuncName(fn) == vfIdx+".onDropNotFlushed" {
								okCB = true
							}
						}
					}
				}
			}
			return true
		})
		c.Check(okCB, "drop callback is wired to the engine", "provenance", cb.Pos(), "Callbacks.OnDropNotFlushed = vi.onDropNotFlushed", "the engine's drop does not reach the vector caches")
		checkTmpID(c)
	})

	c.Clause("C05.who", func() { c05Who(c) })

	c.Clause("C05.branches", func() { c05Branches(c) })

	c.Clause("C05.bfork", func() { c05BFork(c) })
}
