package rules

import (
	"go/ast"
	"go/types"
	"strings"

	"golang.org/x/tools/go/cfg"

	"lachk/core"
)

// c03Persist: the cheater list is read off fork markers, and a fork that no parent has seen is found
// through the engine's fork bookkeeping (BranchesInfo: last sequence number per branch, branches per
// creator). Consensus drops the in-memory copy after every event (DropNotFlushed) and reloads it from
// the store, so every change made to it while an event is added must reach the store with the next
// Flush. Otherwise the reloaded bookkeeping forgets an event (e.g. a validator's first one), a second
// event with the same sequence number is not recognised as a fork, and the forker is missing from the
// cheater lists.
//
// Decided on Engine.Flush and on the writers of BranchesInfo fields in package vecengine:
//
//   - Flush stores the BranchesInfo on every path on which it is loaded (vi.bi != nil); the store is the
//     write of the BranchesInfo table, made in Flush or in helpers that always make it;
//   - if Flush may also skip the store when a boolean field of the engine is false (a dirty flag), then
//     every assignment to a BranchesInfo field lies, in its function, on paths that all set that flag;
//   - any other reason to skip the store cannot be related to the mutations and is reported.
func c03Persist(c *core.Ctx) {
	p := c.P
	c.Clause("C03.persist", func() {
		fl := c.Fn("vecengine.Engine.Flush")
		const tableF = "vecengine.Engine.table.BranchesInfo"
		const biF = "vecengine.Engine.bi"
		const key = "fork bookkeeping changed while adding an event is stored by Flush"
		const rule = "T3 PostDominates (store) + T4 (dirty flag set on every mutating path)"
		const bad = "consensus reloads the BranchesInfo from the store after every event; a change that Flush does not store is forgotten, a later event with an already used sequence number is then not recognised as a fork and its creator is missing from the cheater lists"
		isStore := func(cs *core.CallSite) bool {
			if cs.Name == kvPut && c01RecvField(cs) == tableF {
				return true
			}
			for _, a := range cs.Call.Args {
				if _, pth := fieldPath(cs.F, a); len(pth) > 0 && pth[len(pth)-1] == tableF {
					return true // the table is handed to a generic writer
				}
			}
			return false
		}
		stores := fl.SitesMust(isStore, 3)
		if len(stores) == 0 {
			c.Fail(key, rule, fl.Pos(), "Engine.Flush has no call that always writes the BranchesInfo table: "+bad)
			return
		}
		notLoaded := fieldNilFact(fl, biF, true)
		// (one matcher for both reasons: the false edge of `bi != nil && flag` implies "not loaded or flag
		// false", i.e. each of its alternatives carries one of the two facts)
		skip := func(extra func(core.Fact) bool) ([]core.Point, bool) {
			var avoid func(*cfg.Block, int) bool = fl.GuardEdges(func(ft core.Fact) bool {
				return notLoaded(ft) || (extra != nil && extra(ft))
			})
			return core.PathQuery{F: fl, From: fl.Entry(), Avoid: core.PointSet(stores...), AvoidEdge: avoid, TargetExit: true}.Find()
		}
		if core.PointSet(stores...)(fl.Entry()) {
			c.Pass(key, rule, "Flush begins with the store of the BranchesInfo")
			return
		}
		wit, canSkip := skip(nil)
		if !canSkip {
			c.Pass(key, rule, "Flush writes the BranchesInfo table on every path on which the BranchesInfo is loaded")
			return
		}
		// a dirty flag: a boolean field of the engine whose 'false' edges account for every skipping path
		flagIs := func(field string, want bool) func(core.Fact) bool {
			return c01FactThrough(fl, func(ft core.Fact) bool {
				e, truth, ok := c01BoolOperand(fl.Info(), ft)
				return ok && truth == want && fieldNameOf(fl, e) == field
			})
		}
		seen := map[string]bool{}
		var cands []string
		fl.InspectOwn(func(n ast.Node) bool {
			if sel, ok := n.(*ast.SelectorExpr); ok {
				if nm := fieldNameOf(fl, sel); strings.HasPrefix(nm, "vecengine.Engine.") && !seen[nm] {
					if b, isB := fl.Info().TypeOf(sel).Underlying().(*types.Basic); isB && b.Info()&types.IsBoolean != 0 {
						seen[nm] = true
						cands = append(cands, nm)
					}
				}
			}
			return true
		})
		flag := ""
		for _, nm := range cands {
			if _, still := skip(flagIs(nm, false)); !still && flag == "" {
				flag = nm
			}
		}
		if flag == "" {
			c.Fail(key, rule, fl.Pos(), "Engine.Flush can return without storing a loaded BranchesInfo ("+fl.DescribePath(wit)+"), for a reason that is not tied to its mutations: "+bad)
			return
		}
		// every mutation of the bookkeeping raises the flag
		n := 0
		ok := true
		for _, g := range p.FuncsInPkg("vecengine") {
			for _, h := range append([]*core.FuncInfo{g}, allLits(g)...) {
				var sets []core.Point
				for _, a := range assignsToField(h, flag) {
					if cv, isC := core.ConstVal(h.Info(), a.RHS); a.RHS != nil && isC && cv.String() == "true" {
						sets = append(sets, a.Pt)
					}
				}
				for _, a := range assignments(h) {
					lhs := ast.Unparen(a.LHS)
					for {
						switch x := lhs.(type) {
						case *ast.IndexExpr:
							lhs = ast.Unparen(x.X)
							continue
						case *ast.StarExpr:
							lhs = ast.Unparen(x.X)
							continue
						}
						break
					}
					sel, isSel := lhs.(*ast.SelectorExpr)
					if !isSel {
						continue
					}
					nm := ""
					if s, has := h.Info().Selections[sel]; has {
						if fv, isV := s.Obj().(*types.Var); isV && fv.IsField() {
							nm = p.FieldName(fv)
						}
					}
					if !strings.HasPrefix(nm, "vecengine.BranchesInfo.") {
						continue
					}
					n++
					raised := false
					if len(sets) > 0 {
						if o, _ := h.MustPassAfter(a.Pt, sets); o {
							raised = true
						} else if o, _ := h.MustPassBefore(sets, a.Pt); o {
							raised = true
						}
					}
					if !raised {
						ok = false
						c.Fail(key, rule, a.Stmt.Pos(), short(h.Name)+" changes "+strings.TrimPrefix(nm, "vecengine.")+" on a path that does not set "+strings.TrimPrefix(flag, "vecengine.")+", and Flush stores the BranchesInfo only when that flag is set: "+bad)
					}
				}
			}
		}
		if ok {
			c.Check(n > 0, key, rule, fl.Pos(), "Flush stores the BranchesInfo when "+strings.TrimPrefix(flag, "vecengine.")+" is set, and every assignment to a BranchesInfo field lies on paths that set it", "no assignment to a BranchesInfo field found in package vecengine: the dirty-flag obligation would be vacuous")
		}
	})
}
