package rules

import (
	"go/ast"
	"go/constant"
	"go/token"
	"go/types"

	"lachk/core"
)

// Views: evaluating a branch fact "through" a named predicate helper.
//
// A decision-table rule asks whether an edge implies a fact about values that play a role in the
// analysed function (the mark read from a database, the expected flush ID, …). A maintainer may give a
// test a name — `if isDirtyMark(mark)` — and then the edge only carries the fact "isDirtyMark(mark) is
// true". A view binds the helper's parameters to the roles of the arguments, and the fact is decided
// from the helper's own code: the call has truth T only if one of the returns that can yield T was
// reached, and each such return implies the wanted fact either by its result expression or by the
// edges every path to it takes.

// c25View is a function together with the roles its expressions play.
type c25View struct {
	G    *core.FuncInfo
	Role func(e ast.Expr) string // "" when the expression plays no role
}

// c25CalleeView builds the view of the module function called by `call` in v.G (nil when the callee is
// not a declared function of the module).
func c25CalleeView(v c25View, call *ast.CallExpr) *c25View {
	fn, _ := v.G.ObjOf(call.Fun).(*types.Func)
	if fn == nil {
		return nil
	}
	h := v.G.P.FuncOf(fn)
	if h == nil || h == v.G {
		return nil
	}
	sig, _ := fn.Type().(*types.Signature)
	roles := map[*types.Var]string{}
	for i, a := range call.Args {
		if sig != nil && sig.Variadic() && i >= sig.Params().Len()-1 {
			break
		}
		if pv := h.Param(i); pv != nil {
			if r := v.Role(a); r != "" {
				roles[pv] = r
			}
		}
	}
	// a parameter that the helper assigns loses its role
	for pv := range roles {
		if len(assignsToVar(h, pv)) > 0 {
			delete(roles, pv)
		}
	}
	return &c25View{G: h, Role: func(e ast.Expr) string {
		x := varOf(h, e)
		if x == nil {
			return ""
		}
		if r := roles[x]; r != "" {
			return r
		}
		return roles[canonVar(h, x)]
	}}
}

// c25Lift turns a matcher written against a view into a matcher of v.G's facts that also sees through
// calls of boolean module functions (bounded depth): `pred(args)` having truth T matches when every way
// the callee can return T implies a fact that matches in the callee's view.
func c25Lift(v c25View, base func(c25View, core.Fact) bool, depth int) func(core.Fact) bool {
	return func(ft core.Fact) bool {
		if base(v, ft) {
			return true
		}
		if depth <= 0 {
			return false
		}
		cm, ok := core.NormCmp(ft)
		if !ok {
			return false
		}
		var e ast.Expr
		truth := cm.Op == token.EQL
		switch {
		case cm.R == nil:
			e = cm.L
		case c25IsBoolConst(v.G.Info(), cm.R) != 0 && (cm.Op == token.EQL || cm.Op == token.NEQ):
			// pred(x) == true / pred(x) != false
			e = cm.L
			if c25IsBoolConst(v.G.Info(), cm.R) < 0 {
				truth = !truth
			}
		default:
			return false
		}
		call, ok := resolveLocal(v.G, e).(*ast.CallExpr)
		if !ok {
			return false
		}
		hv := c25CalleeView(v, call)
		if hv == nil {
			return false
		}
		return c25ResultImplies(hv.G, truth, c25Lift(*hv, base, depth-1))
	}
}

// c25IsBoolConst: +1 for the constant true, -1 for false, 0 otherwise.
func c25IsBoolConst(info *types.Info, e ast.Expr) int {
	cv, ok := core.ConstVal(info, e)
	if !ok || cv.Kind() != constant.Bool {
		return 0
	}
	if constant.BoolVal(cv) {
		return 1
	}
	return -1
}

// c25ResultImplies: whenever the boolean function h returns `truth`, a fact accepted by match holds.
// Decided per return statement: a return of the opposite constant cannot produce the value; any other
// return must imply the fact through its result expression (every alternative of "expr has this truth"
// contains a matching fact) or through the edges that every path to it takes.
func c25ResultImplies(h *core.FuncInfo, truth bool, match func(core.Fact) bool) bool {
	sig, _ := h.Obj.Type().(*types.Signature)
	if sig == nil || sig.Results().Len() != 1 {
		return false
	}
	if b, ok := sig.Results().At(0).Type().Underlying().(*types.Basic); !ok || b.Kind() != types.Bool {
		return false
	}
	produced := false
	for _, rp := range h.ReturnPoints() {
		r, _ := rp.Node().(*ast.ReturnStmt)
		if r == nil || len(r.Results) != 1 {
			return false // named result / bare return: not decided
		}
		e := r.Results[0]
		if k := c25IsBoolConst(h.Info(), e); k != 0 {
			if (k > 0) != truth {
				continue
			}
		} else if c25AltsImply(core.Disjuncts(resolveLocal(h, e), truth), match) {
			produced = true
			continue
		}
		if g, _ := h.GuardedBy(rp, match); !g {
			return false
		}
		produced = true
	}
	return produced
}

// c25AltsImply: every alternative (a conjunction of facts) contains a matching fact.
func c25AltsImply(alts [][]core.Fact, match func(core.Fact) bool) bool {
	if len(alts) == 0 {
		return false
	}
	for _, alt := range alts {
		hit := false
		for _, ft := range alt {
			if match(ft) {
				hit = true
				break
			}
		}
		if !hit {
			return false
		}
	}
	return true
}

// c25RoleNil matches "<role> == nil" (wantNil) / "<role> != nil" in the view.
func c25RoleNil(role string, wantNil bool) func(c25View, core.Fact) bool {
	return func(v c25View, ft core.Fact) bool {
		x, isNil, ok := c22NilCmp(v.G.Info(), ft)
		return ok && v.Role(x) == role && isNil == wantNil
	}
}
