package rules

import (
	"go/ast"
	"go/token"
	"go/types"
	"strings"

	"lachk/core"
)

// c04CounterRestarts is the part of the shared temporary-ID clause (C04.tmpid, used by C05.drop and
// C07.drop as well) that looks beyond sample(): "the counter increases on every call" makes temporary
// IDs unique only while nobody moves the counter back. Every statement outside the increment that
// gives the counter (or the uniqueID holding it) a new value, or mutates the big.Int in place, is a
// restart; after a restart a later Build gets the temporary ID of an earlier, abandoned Build again.
// That is harmless only when no answer computed for the earlier holder of the ID can still be cached:
// the restart must be paired, on every path through it, with an effect that always purges the
// forkless-cause pair cache — a direct Purge, a module function that always performs it (effect
// summary, bounded depth), or a call through the DagIndexer interface every module implementation of
// which always performs it. Constructors are not restarts: a composite literal builds a new object.
// c04FreshObject: x is a local whose only definition is a composite literal, its address, or new(T) — the
// object was created by the function itself (a constructor filling in fields one by one).
func c04FreshObject(f *core.FuncInfo, x ast.Expr) bool {
	if x == nil {
		return false
	}
	if _, isID := ast.Unparen(x).(*ast.Ident); !isID {
		return false
	}
	v := varOf(f, x)
	if v == nil {
		return false
	}
	// (singleDef refuses variables that are stored through, which is exactly the case here)
	defs := assignsToVar(f, v) // declared in the body: not a parameter, receiver or captured variable
	if len(defs) != 1 || defs[0].RHS == nil || !(f.Body.Pos() <= v.Pos() && v.Pos() < f.Body.End()) {
		return false
	}
	if as, ok := defs[0].Stmt.(*ast.AssignStmt); ok && len(as.Lhs) != len(as.Rhs) {
		return false
	}
	d := ast.Unparen(defs[0].RHS)
	if u, ok := d.(*ast.UnaryExpr); ok && u.Op == token.AND {
		d = ast.Unparen(u.X)
	}
	switch y := d.(type) {
	case *ast.CompositeLit:
		return true
	case *ast.CallExpr:
		if b, ok := f.ObjOf(y.Fun).(*types.Builtin); ok && b.Name() == "new" {
			return true
		}
	}
	return false
}

func c04CounterRestarts(c *core.Ctx, smp *core.FuncInfo, purgedOnDrop bool) {
	p := c.P
	const (
		ctrF    = "abft.uniqueID.counter"
		holderF = ilT + ".uniqueDirtyID"
		fcCache = "vecfc.Index.cache.ForklessCause"
	)
	construct := "temporary-ID counter is never restarted while cached answers survive"
	rule := "T6 WhoMayWrite + T7 Pairing (restart => purge, effect summaries)"

	// big.Int methods that leave the receiver unchanged
	readOnly := map[string]bool{"Bytes": true, "FillBytes": true, "Cmp": true, "CmpAbs": true, "String": true, "Text": true, "Uint64": true, "Int64": true,
		"IsUint64": true, "IsInt64": true, "BitLen": true, "Sign": true, "Bit": true, "Bits": true, "TrailingZeroBits": true, "Append": true, "Format": true,
		"MarshalText": true, "MarshalJSON": true, "GobEncode": true, "ProbablyPrime": true, "Float64": true}

	// does the pair cache get purged whenever g returns?
	purgeDirect := func(cs *core.CallSite) bool {
		return cs.Name == "utils/simplewlru.Cache.Purge" && fieldNameOf(cs.F, cs.Recv()) == fcCache
	}
	alwaysPurges := func(g *core.FuncInfo) (bool, []core.Point) {
		pts := g.SitesMust(purgeDirect, 3)
		if len(pts) == 0 {
			return false, nil
		}
		path, skip := core.PathQuery{F: g, From: g.Entry(), Avoid: core.PointSet(pts...), TargetExit: true}.Find()
		return !skip, path
	}
	// module implementations of the DagIndexer interface's Reset
	var impls []*core.FuncInfo
	if tn := p.LookupType("abft.DagIndexer"); tn != nil {
		if iface, ok := tn.Type().Underlying().(*types.Interface); ok {
			// every named type of the module whose (pointer) method set satisfies the interface; its Reset may
			// be promoted from an embedded index (utils/adapters.VectorToDagIndexer embeds *vecfc.Index)
			seen := map[*core.FuncInfo]bool{}
			for _, pk := range p.All {
				sc := pk.Types.Scope()
				for _, nm := range sc.Names() {
					tn2, isType := sc.Lookup(nm).(*types.TypeName)
					if !isType || tn2.IsAlias() {
						continue
					}
					if _, isIface := tn2.Type().Underlying().(*types.Interface); isIface {
						continue
					}
					var recv types.Type = types.NewPointer(tn2.Type())
					if !types.Implements(recv, iface) {
						continue
					}
					sel := types.NewMethodSet(recv).Lookup(pk.Types, "Reset")
					if sel == nil {
						continue
					}
					fn, _ := sel.Obj().(*types.Func)
					g := p.FuncOf(fn)
					if g == nil || g.Body == nil {
						// an implementation the rule cannot look into: no purge can be assumed
						impls = append(impls, nil)
						continue
					}
					if !seen[g] {
						seen[g] = true
						impls = append(impls, g)
					}
				}
			}
		}
	}
	whyNotPurged := ""
	implsPurge := len(impls) > 0
	for _, g := range impls {
		if g == nil {
			implsPurge = false
			whyNotPurged = "an implementation of DagIndexer.Reset has no source in the module"
			continue
		}
		if ok, wit := alwaysPurges(g); !ok {
			implsPurge = false
			whyNotPurged = short(g.Name) + " (" + p.Pos(g.Pos()) + ") does not purge the forkless-cause pair cache on every path"
			if len(wit) > 0 {
				whyNotPurged += " (" + g.DescribePath(wit) + ")"
			}
		}
	}
	purges := func(cs *core.CallSite) bool {
		if purgeDirect(cs) {
			return true
		}
		return cs.Name == "abft.DagIndexer.Reset" && implsPurge
	}

	type restart struct {
		f   *core.FuncInfo
		pt  core.Point
		pos token.Pos
		how string
	}
	var restarts []restart
	for _, g := range p.FuncsInPkg("abft") {
		for _, h := range append([]*core.FuncInfo{g}, allLits(g)...) {
			for _, a := range assignments(h) {
				fn := fieldNameOf(h, a.LHS)
				if fn != ctrF && fn != holderF {
					continue
				}
				if h == smp && fn == ctrF {
					// the increment itself: counter = counter.Add(counter, 1), counter++ …
					if a.Tok == token.INC {
						continue
					}
					if call := isCallTo(h, a.RHS, "math/big.Int.Add"); call != nil && a.RHS != nil {
						if sel, ok := ast.Unparen(call.Fun).(*ast.SelectorExpr); ok && fieldNameOf(h, sel.X) == ctrF {
							continue
						}
					}
				}
				if root, _ := fieldPath(h, a.LHS); c04FreshObject(h, root) {
					continue // construction: the object whose field is set was created in this function
				}
				restarts = append(restarts, restart{h, a.Pt, a.Stmt.Pos(), "assigns " + short(fn)})
			}
			if h == smp {
				continue
			}
			for _, cs := range h.Calls() {
				if !strings.HasPrefix(cs.Name, "math/big.Int.") || cs.Recv() == nil || fieldNameOf(h, cs.Recv()) != ctrF {
					continue
				}
				if m := cs.Name[strings.LastIndex(cs.Name, ".")+1:]; !readOnly[m] {
					restarts = append(restarts, restart{h, cs.Pt, cs.Pos(), "calls counter." + m})
				}
			}
		}
	}
	ok, pos, why := true, smp.Pos(), ""
	for _, r := range restarts {
		if paired, _ := pairedWith(r.f, r.pt, r.f.SitesMust(purges, 3)); paired {
			continue
		}
		if ok {
			ok, pos = false, r.pos
			why = short(r.f.Name) + " " + r.how + " outside the increment of sample(), so a later Build gets the temporary ID of an earlier, abandoned Build again, and the restart is not paired with a purge of the forkless-cause pair cache"
			if whyNotPurged != "" {
				why += ": " + whyNotPurged
			}
			why += "; the cached (a,b) answers of the abandoned build then decide the frame of the new one, so a merely built event leaves a trace and Build depends on its history"
		}
	}
	switch {
	case ok && len(restarts) == 0:
		c.Pass(construct, rule, "the counter and the uniqueID holding it are written only by the increment in sample() (and by constructors)")
	case ok:
		c.Pass(construct, rule, "every restart of the counter is paired with an unconditional purge of the forkless-cause pair cache")
	case purgedOnDrop:
		c.Pass(construct, rule+" (alternative: purge)", "the forkless-cause pair cache is purged with the dropped index data, so a repeated ID cannot hit a stale entry")
	default:
		c.Fail(construct, rule, pos, why)
	}
}
