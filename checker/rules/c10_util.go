package rules

// C10 — shape-independent views used by the C10 clauses: loops as iterations (range / counted / key-only
// range with C[i]), statements that may live in a helper of the same package (argument substitution),
// and higher-order helpers ("for each … call fn"). Candidates for promotion to core.

import (
	"go/ast"
	"go/token"
	"go/types"

	"golang.org/x/tools/go/cfg"

	"lachk/core"
)

// c10Resolver looks through single-definition locals of f.
func c10Resolver(f *core.FuncInfo) func(ast.Expr) ast.Expr {
	return func(e ast.Expr) ast.Expr { return c15Through(f, e) }
}

// c10Iter views a for/range statement of f as an iteration over a collection (nil for other loops).
// Besides the forms core.IterationOf knows, the counted loop whose bound is defined next to the index
// (`for i, n := 0, len(C); i < n; i++`) is accepted.
func c10Iter(f *core.FuncInfo, loop ast.Stmt) *core.Iteration {
	if loop == nil {
		return nil
	}
	if it, ok := core.IterationOf(f, loop, c10Resolver(f)); ok {
		return it
	}
	fs, ok := loop.(*ast.ForStmt)
	if !ok || fs.Cond == nil {
		return nil
	}
	as, ok := fs.Init.(*ast.AssignStmt)
	if !ok || as.Tok != token.DEFINE || len(as.Lhs) != len(as.Rhs) || len(as.Lhs) < 2 {
		return nil
	}
	cm, ok := core.NormCmp(core.Fact{Expr: fs.Cond, Truth: true})
	if !ok || cm.R == nil {
		return nil
	}
	iv := varOf(f, cm.L)
	for i, l := range as.Lhs {
		if iv == nil || varOf(f, l) != iv {
			continue
		}
		// the same loop with only the index in its init clause; the other variables defined there are
		// single-definition locals the resolver looks through
		cp := *fs
		cp.Init = &ast.AssignStmt{Lhs: []ast.Expr{l}, TokPos: as.TokPos, Tok: as.Tok, Rhs: []ast.Expr{as.Rhs[i]}}
		it, ok := core.IterationOf(f, &cp, c10Resolver(f))
		if !ok {
			return nil
		}
		it.Stmt = loop
		it.Head, it.Done = f.LoopOf(loop)
		it.Complete = false
		if it.Head != nil && it.Done != nil {
			n := 0
			for _, b := range f.CFG().Blocks {
				if !b.Live {
					continue
				}
				for _, sc := range b.Succs {
					if sc == it.Done {
						n++
						if b != it.Head {
							n += 100
						}
					}
				}
			}
			it.Complete = n == 1
		}
		return it
	}
	return nil
}

// c10InLoop: the point belongs to the (natural) loop of the statement: the loop head dominates it and
// it can get back to the head without leaving — decided on the CFG, so a statement that an inlined
// view brought in from a helper is located correctly (its source position is outside the loop's text).
func c10InLoop(f *core.FuncInfo, loop ast.Stmt, pt core.Point) bool {
	head, _ := f.LoopOf(loop)
	if head == nil || !pt.Valid() {
		return false
	}
	if pt.B == head {
		return true
	}
	if ok, _ := mustPassBlockBefore(f, head, pt); !ok {
		return false
	}
	latch := map[*cfg.Block]bool{}
	for _, b := range f.CFG().Blocks {
		if !b.Live || b == head {
			continue
		}
		for _, sc := range b.Succs {
			if sc == head {
				if ok, _ := mustPassBlockBefore(f, head, blockEntry(b)); ok {
					latch[b] = true
				}
			}
		}
	}
	if latch[pt.B] {
		return true
	}
	_, found := core.PathQuery{F: f, From: pt, FromAfter: true, TargetBlock: func(b *cfg.Block) bool { return latch[b] },
		AvoidEdge: func(b *cfg.Block, s int) bool { return b.Succs[s] == head }}.Find()
	return found
}

// c10LoopOfPoint returns the innermost for/range statement of f's own body whose loop contains pt.
func c10LoopOfPoint(f *core.FuncInfo, pt core.Point) ast.Stmt {
	var in []ast.Stmt
	f.InspectOwn(func(n ast.Node) bool {
		switch s := n.(type) {
		case *ast.ForStmt, *ast.RangeStmt:
			if c10InLoop(f, s.(ast.Stmt), pt) {
				in = append(in, s.(ast.Stmt))
			}
		}
		return true
	})
	var best ast.Stmt
	bestDepth := -1
	for _, l := range in {
		head, _ := f.LoopOf(l)
		depth := 0
		for _, o := range in {
			if o != l && c10InLoop(f, o, blockEntry(head)) {
				depth++
			}
		}
		if depth > bestDepth {
			best, bestDepth = l, depth
		}
	}
	return best
}

// c10Forward: the iteration visits the whole collection front to back (range over a slice value, or
// an index running from 0 in steps of one below len(collection)), and is left only through its head.
func c10Forward(it *core.Iteration) bool {
	if it == nil || !it.Complete || it.Coll == nil {
		return false
	}
	if it.Counted {
		return it.FromZero && it.Index != nil
	}
	return true
}

// c10IsElem: e denotes the element of the current iteration (range value, C[i], or a
// single-definition local holding one of them).
func c10IsElem(f *core.FuncInfo, it *core.Iteration, e ast.Expr) bool {
	if it == nil || e == nil {
		return false
	}
	return it.IsElem(e, c10Resolver(f))
}

// c10ElemPath: e is the field chain <element>.path of the current iteration's element.
func c10ElemPath(f *core.FuncInfo, it *core.Iteration, e ast.Expr, path []string) bool {
	if it == nil || e == nil {
		return false
	}
	root, p := fieldPath(f, c15Through(f, e))
	if len(p) != len(path) {
		return false
	}
	for i := range p {
		if p[i] != path[i] {
			return false
		}
	}
	return c10IsElem(f, it, root)
}

// c10LoopAt returns the innermost loop of f's own body around the point, as a statement and as an iteration.
func c10LoopAt(f *core.FuncInfo, pt core.Point) (ast.Stmt, *core.Iteration) {
	loop := c10LoopOfPoint(f, pt)
	return loop, c10Iter(f, loop)
}

// c10ParamIndex returns the position of v among g's parameters (-1 if it is none of them).
func c10ParamIndex(g *core.FuncInfo, v *types.Var) int {
	if v == nil {
		return -1
	}
	for i := 0; i < 12; i++ {
		if g.Param(i) == v {
			return i
		}
	}
	return -1
}

// c10ArgOf translates an expression of helper g that is (a copy of) one of g's parameters, never
// reassigned in g, into the argument the call passes for it. nil if e is anything else.
func c10ArgOf(g *core.FuncInfo, call *ast.CallExpr, e ast.Expr) ast.Expr {
	if e == nil {
		return nil
	}
	v := varOf(g, c15Through(g, e))
	i := c10ParamIndex(g, v)
	if i < 0 || i >= len(call.Args) || len(c15DefsOf(g, v)) != 0 {
		return nil
	}
	return call.Args[i]
}

// c10ModuleCallee returns the source function a call site invokes statically (nil for interface
// methods, function values and functions outside the module).
func c10ModuleCallee(cs *core.CallSite) *core.FuncInfo {
	fn, ok := cs.Callee.(*types.Func)
	if !ok {
		return nil
	}
	return cs.F.P.FuncOf(fn)
}

// c10SameReceiver: the helper g is a method invoked on the caller's own receiver.
func c10SameReceiver(caller *core.FuncInfo, cs *core.CallSite, g *core.FuncInfo) bool {
	return g.Recv() != nil && caller.Recv() != nil && cs.Recv() != nil && varOf(caller, c15Through(caller, cs.Recv())) == caller.Recv()
}

// c10OnEveryPath: every returning path of g passes pt.
func c10OnEveryPath(g *core.FuncInfo, pt core.Point) bool {
	for _, rp := range g.ReturnPoints() {
		if ok, _ := g.MustPassBefore([]core.Point{pt}, rp); !ok {
			return false
		}
	}
	_, skip := core.PathQuery{F: g, From: g.Entry(), Avoid: core.PointSet(pt), TargetExit: true}.Find()
	return !skip
}

// c10CalledOnlyFrom: every reference to the function g in the module is a call made inside `from`
// (its own body or its literals), and there is at least one.
func c10CalledOnlyFrom(p *core.Prog, g, from *core.FuncInfo) bool {
	if g.Obj == nil {
		return false
	}
	calls := 0
	scope := p.Funcs()
	if !g.Obj.Exported() {
		scope = c15PkgFuncs(p, core.RelPkg(g.Pkg.PkgPath)) // an unexported function can only be called in its package
	}
	for _, f := range scope {
		for _, cs := range f.Calls() {
			if fn, ok := cs.Callee.(*types.Func); ok && (fn == g.Obj || fn.Origin() == g.Obj) {
				if c10Orig(c15Root(f)) != c10Orig(from) {
					return false
				}
				calls++
			}
		}
	}
	uses := 0
	for _, pk := range p.All {
		if pk.TypesInfo == nil {
			continue
		}
		for _, o := range pk.TypesInfo.Uses {
			if o == types.Object(g.Obj) {
				uses++
			}
		}
	}
	return calls > 0 && uses == calls
}

// c10Store is a store into el.votes as ProcessRoot sees it: made directly, or by a helper method of the
// election that performs it on every path, with the helper's parameters replaced by the arguments.
type c10Store struct {
	Pt             core.Point // in ProcessRoot: the store, or the call of the helper
	Pos            token.Pos
	From, For, Val ast.Expr       // voteID.fromRoot, voteID.forValidator and the stored value, in ProcessRoot's terms
	Via            *core.FuncInfo // the helper (nil when direct)
	Node           ast.Node       // the statement / call in ProcessRoot
	Undecided      string         // non-empty: a store exists but its shape is not understood
}

// c10VoteStores finds the stores into Election.votes that ProcessRoot performs.
func c10VoteStores(pr *core.FuncInfo) []c10Store {
	isVotes := func(f *core.FuncInfo) func(ast.Expr) bool {
		return func(m ast.Expr) bool { return fieldNameOf(f, m) == c10VotesF }
	}
	keyOf := func(f *core.FuncInfo, a assignment) (from, forV ast.Expr, ok bool) {
		key := ast.Unparen(a.LHS).(*ast.IndexExpr).Index
		flds, _, ok := c15StructFields(f, c15Through(f, key))
		if !ok {
			return nil, nil, false
		}
		return flds[c10Pkg+".voteID.fromRoot"], flds[c10Pkg+".voteID.forValidator"], true
	}
	var out []c10Store
	for _, a := range c10IndexStores(pr, isVotes(pr)) {
		st := c10Store{Pt: a.Pt, Pos: a.Stmt.Pos(), Val: a.RHS, Node: a.Stmt}
		var ok bool
		if st.From, st.For, ok = keyOf(pr, a); !ok {
			st.Undecided = "the key of the el.votes store is not a voteID literal"
		}
		out = append(out, st)
	}
	for _, cs := range pr.Calls() {
		g := c10ModuleCallee(cs)
		if g == nil || g == pr || core.RelPkg(g.Pkg.PkgPath) != c10Pkg {
			continue
		}
		stores := c10IndexStores(g, isVotes(g))
		if len(stores) == 0 {
			continue
		}
		st := c10Store{Pt: cs.Pt, Pos: cs.Pos(), Via: g, Node: cs.Call}
		switch {
		case len(stores) != 1:
			st.Undecided = short(g.Name) + " stores into el.votes more than once"
		case !c10SameReceiver(pr, cs, g) || !c15SamePath(g, ast.Unparen(stores[0].LHS).(*ast.IndexExpr).X, g.Recv(), []string{c10VotesF}):
			st.Undecided = short(g.Name) + " does not store into the votes of the election ProcessRoot works on"
		case !c10OnEveryPath(g, stores[0].Pt):
			st.Undecided = short(g.Name) + " does not store the vote on every path"
		default:
			from, forV, ok := keyOf(g, stores[0])
			if ok {
				st.From, st.For, st.Val = c10ArgOf(g, cs.Call, from), c10ArgOf(g, cs.Call, forV), c10ArgOf(g, cs.Call, stores[0].RHS)
			}
			if !ok || st.From == nil || st.For == nil || st.Val == nil {
				st.Undecided = "the key and value " + short(g.Name) + " stores are not its own parameters"
			}
		}
		out = append(out, st)
	}
	return out
}
