package rules

import (
	"fmt"
	"go/ast"
	"go/token"
	"go/types"
	"strings"

	"lachk/core"
)

const mdP = "kvdb/multidb."

func init() {
	register("C26", "other", "T10 MapOrder, T11 Determinism effects, T2 Dominates (conflict loop before recording), T8 DecisionTable (field coverage in verification)",
		"Decides the structural conditions of deterministic, isolating routing: nothing reachable from NewProducer/RouteOf/OpenDB/Verify in the multidb and fmtfilter packages draws randomness or time, and no map is ranged over in a way that lets the iteration order reach the result — in particular the pattern routes, which RouteOf tries first-match, must not be kept in map iteration order; a request is recorded (WriteTablesList) only after the complete conflict loop, in which a request recorded with a different table and a table that is a prefix of / prefixed by a recorded table both lead only to errors, and the conflict test is the symmetric prefix test; OpenDB hands out a store only after handleRoute returned nil and wraps it with the routed table; verification compares type, name and table of every recorded request with its current route. The behaviour of Sscanf-based pattern matching itself is not decided.",
		[]string{"fmt.Sscanf/Sprintf are deterministic", "producers of the individual database types are opaque"},
		runC26)
}

func runC26(c *core.Ctx) {
	p := c.P

	c.Clause("C26.det", func() {
		roots := []*core.FuncInfo{c.Fn(mdP + "NewProducer"), c.Fn(mdP + "Producer.RouteOf"), c.Fn(mdP + "Producer.OpenDB"), c.Fn(mdP + "Producer.Verify"), c.Fn("utils/fmtfilter.CompileFilter")}
		reach := core.ReachableFuncs(p, roots, false)
		n, nRanges := 0, 0
		for _, f := range reach {
			pkg := core.RelPkg(f.Pkg.PkgPath)
			if pkg != "kvdb/multidb" && pkg != "utils/fmtfilter" {
				continue
			}
			all := append([]*core.FuncInfo{f}, allLits(f)...)
			for _, g := range all {
				n++
				eff := core.NondetEffects(g)
				c.Check(len(eff) == 0, short(g.Name)+"|no randomness/time/goroutines", "T11 Determinism effects", g.Pos(), "no call into math/rand or time, no go/select", "non-deterministic effect on the routing path: "+strings.Join(eff, "; "))
				for _, mr := range core.MapRanges(g) {
					nRanges++
					key := short(g.Name) + "|range over " + exprStr(mr.Stmt.X)
					c.Check(!mr.Sensitive(), key, "T10 MapOrder", mr.Stmt.Pos(), "the map iteration order cannot reach the result",
						"order-sensitive range over a map: "+strings.Join(mr.Reasons, "; ")+" — routing then differs between two producers built from the same tables (e.g. overlapping patterns \"a-%d\" and \"a-%s\" are tried in map order)")
				}
			}
		}
		c.ExpectAtLeast("functions on the routing path", n, 8)
		c.ExpectAtLeast("map ranges on the routing path", nRanges, 2)
		// the pattern list is consumed first-match: its only writer besides the constructor literal must be sorted (covered above);
		// nobody else writes it
		for _, f := range p.FuncsInPkg("kvdb/multidb") {
			for _, a := range assignsToField(f, mdP+"Producer.routingFmt") {
				c.Fail("routingFmt written in "+short(f.Name), "T6 WhoMayWrite", a.Stmt.Pos(), "the pattern list is modified after construction")
			}
		}
	})

	c.Clause("C26.route", func() {
		f := c.Fn(mdP + "Producer.RouteOf")
		// exact table first, patterns only on the !ok edge, first match wins (loop condition contains !ok)
		var okVar *types.Var
		for _, a := range assignments(f) {
			if as, isAs := a.Stmt.(*ast.AssignStmt); isAs && len(as.Lhs) == 2 && len(as.Rhs) == 1 {
				if ix, k := ast.Unparen(as.Rhs[0]).(*ast.IndexExpr); k && fieldNameOf(f, ix.X) == mdP+"Producer.routingTable" {
					okVar = varOf(f, as.Lhs[1])
				}
			}
		}
		c.Need(okVar != nil, "dest, ok := routingTable[req]")
		tries := f.CallsTo(mdP + "scanfRoute.Name")
		c.ExpectAtLeast("pattern attempts in RouteOf", len(tries), 1)
		for _, t := range tries {
			ok, wit := f.GuardedBy(t.Pt, func(ft core.Fact) bool {
				cm, k := core.NormCmp(ft)
				return k && cm.R == nil && cm.Op == token.NEQ && varOf(f, cm.L) == okVar
			})
			if ok && f.CanReach(t.Pt, t.Pt) {
				ok, wit = f.GuardedBetween(t.Pt, t.Pt, func(ft core.Fact) bool {
					cm, k := core.NormCmp(ft)
					return k && cm.R == nil && cm.Op == token.NEQ && varOf(f, cm.L) == okVar
				})
			}
			c.Check(ok, "exact route wins, first matching pattern wins", "T4 GuardedBy", t.Pos(), "a pattern is tried only while no route has been found", "a pattern can override an exact or earlier match: "+f.DescribePath(wit))
		}
	})

	c.Clause("C26.conflict", func() {
		f := c.Fn(mdP + "Producer.handleRoute")
		req, route := f.Param(1), f.Param(2)
		writes := f.CallsTo(mdP + "WriteTablesList")
		c.Need(len(writes) == 1, "handleRoute records with one WriteTablesList")
		var loop *ast.RangeStmt
		f.InspectOwn(func(n ast.Node) bool {
			if rs, ok := n.(*ast.RangeStmt); ok && loop == nil {
				loop = rs
			}
			return true
		})
		c.Need(loop != nil, "handleRoute scans the recorded requests")
		done, complete := loopDone(f, loop)
		ok, _ := mustPassBlockBefore(f, done, writes[0].Pt)
		c.Check(ok && complete, "request recorded only after the complete conflict scan", "T2 Dominates (loop exit)", writes[0].Pos(), "WriteTablesList is dominated by the exit of the loop over all recorded requests", "a request can be recorded before every existing record was checked for conflicts")
		// the scanned list is what ReadTablesList returned from this database
		lv := varOf(f, loop.X)
		okSrc := false
		if lv != nil {
			for _, a := range assignsToVar(f, lv) {
				if a.RHS != nil && isCallTo(f, a.RHS, mdP+"ReadTablesList") != nil {
					okSrc = true
				}
			}
		}
		c.Check(okSrc, "scan covers the database's recorded requests", "provenance", loop.Pos(), "the loop ranges over ReadTablesList(db, key)", "the conflict scan does not range over the recorded requests")
		old := varOf(f, loop.Value)
		errRet := func(r *ast.ReturnStmt) bool { return len(r.Results) == 1 && !core.IsNil(f.Info(), r.Results[0]) }
		// conflict => error
		edges := edgesWithFact(f, func(ft core.Fact) bool {
			if !ft.Truth {
				return false
			}
			call := isCallTo(f, ft.Expr, mdP+"tablesConflicting")
			if call == nil || len(call.Args) != 2 {
				return false
			}
			isOld := func(e ast.Expr) bool {
				r, pth := fieldPath(f, e)
				return len(pth) == 1 && pth[0] == mdP+"TableRecord.Table" && varOf(f, r) == old
			}
			isNew := func(e ast.Expr) bool {
				r, pth := fieldPath(f, e)
				return len(pth) == 1 && pth[0] == mdP+"Route.Table" && varOf(f, r) == route
			}
			return (isOld(call.Args[0]) && isNew(call.Args[1])) || (isNew(call.Args[0]) && isOld(call.Args[1]))
		})
		_ = edges
		// the early "same request, same table" acceptance is itself a rejecting-free exit: treat it as
		// rejecting for this row (it is checked separately below)
		sameEarly := func(r *ast.ReturnStmt) bool {
			if errRet(r) {
				return true
			}
			return enclosingLoop(f, r.Pos()) != nil
		}
		isConflict := func(ft core.Fact) bool {
			if !ft.Truth {
				return false
			}
			call := isCallTo(f, ft.Expr, mdP+"tablesConflicting")
			if call == nil || len(call.Args) != 2 {
				return false
			}
			isOld := func(e ast.Expr) bool {
				r, pth := fieldPath(f, e)
				return len(pth) == 1 && pth[0] == mdP+"TableRecord.Table" && varOf(f, r) == old
			}
			isNew := func(e ast.Expr) bool {
				r, pth := fieldPath(f, e)
				return len(pth) == 1 && pth[0] == mdP+"Route.Table" && varOf(f, r) == route
			}
			return (isOld(call.Args[0]) && isNew(call.Args[1])) || (isNew(call.Args[0]) && isOld(call.Args[1]))
		}
		okC, why := rejectedWhen(f, isConflict, sameEarly)
		c.Check(okC, "overlapping table => refused", "T8 DecisionTable", f.Pos(), "tablesConflicting(old.Table, route.Table) leads only to error returns, and every recorded request passes that test before the scan moves on", "a request whose table overlaps a recorded table can be accepted: "+why)
		// the only nil return inside the loop requires same req and same table
		sameReq := func(ft core.Fact) bool {
			cm, k := core.NormCmp(ft)
			if !k || cm.R == nil || cm.Op != token.EQL {
				return false
			}
			is := func(a, b ast.Expr) bool {
				r, pth := fieldPath(f, a)
				return len(pth) == 1 && pth[0] == mdP+"TableRecord.Req" && varOf(f, r) == old && varOf(f, b) == req
			}
			return is(cm.L, cm.R) || is(cm.R, cm.L)
		}
		sameTable := func(ft core.Fact) bool {
			cm, k := core.NormCmp(ft)
			if !k || cm.R == nil || cm.Op != token.EQL {
				return false
			}
			is := func(a, b ast.Expr) bool {
				r, pth := fieldPath(f, a)
				r2, p2 := fieldPath(f, b)
				return len(pth) == 1 && pth[0] == mdP+"TableRecord.Table" && varOf(f, r) == old && len(p2) == 1 && p2[0] == mdP+"Route.Table" && varOf(f, r2) == route
			}
			return is(cm.L, cm.R) || is(cm.R, cm.L)
		}
		nNil := 0
		for _, rp := range returnsWith(f, 0, func(e ast.Expr) bool { return core.IsNil(f.Info(), e) }) {
			if enclosingLoop(f, posOf(rp)) == nil {
				continue
			}
			nNil++
			o1, _ := f.GuardedBy(rp, sameReq)
			o2, _ := f.GuardedBy(rp, sameTable)
			c.Check(o1 && o2, "re-opening accepted only for the same request and table", "T4 GuardedBy", posOf(rp), "the early nil return needs old.Req == req and old.Table == route.Table", "a request can be accepted early although request or table differ from the record")
		}
		// same req, different table => error
		diffEdges := 0
		for _, b := range f.CFG().Blocks {
			cond := f.BranchCond(b)
			if cond == nil || !b.Live {
				continue
			}
			facts := f.EdgeFacts(b, 0)
			hasReq, hasDiff := false, false
			for _, ft := range facts {
				if sameReq(ft) {
					hasReq = true
				}
				if sameTable(core.Fact{Expr: ft.Expr, Truth: !ft.Truth}) {
					hasDiff = true
				}
			}
			if hasReq && hasDiff {
				diffEdges++
				o, _ := edgeLeadsOnlyTo(f, b, 0, errRet)
				c.Check(o, "re-assigning a request's table => refused", "T8 DecisionTable", cond.Pos(), "same request with a different table leads only to error returns", "a request can be re-routed to a different table of the same database")
			}
		}
		c.ExpectAtLeast("same-request/different-table tests", diffEdges, 1)
		// tablesConflicting is the symmetric prefix test
		tc := c.Fn(mdP + "tablesConflicting")
		a, b := tc.Param(0), tc.Param(1)
		okSym := false
		for _, rp := range tc.ReturnPoints() {
			r := rp.Node().(*ast.ReturnStmt)
			if len(r.Results) != 1 {
				continue
			}
			be, isB := ast.Unparen(r.Results[0]).(*ast.BinaryExpr)
			if !isB || be.Op != token.LOR {
				continue
			}
			x, y := isCallTo(tc, be.X, "strings.HasPrefix"), isCallTo(tc, be.Y, "strings.HasPrefix")
			if x != nil && y != nil {
				ab := varOf(tc, x.Args[0]) == a && varOf(tc, x.Args[1]) == b && varOf(tc, y.Args[0]) == b && varOf(tc, y.Args[1]) == a
				ba := varOf(tc, x.Args[0]) == b && varOf(tc, x.Args[1]) == a && varOf(tc, y.Args[0]) == a && varOf(tc, y.Args[1]) == b
				okSym = ab || ba
			}
		}
		c.Check(okSym, "conflict test is the symmetric prefix test", "T13/T8", tc.Pos(), "HasPrefix(a,b) || HasPrefix(b,a)", "tablesConflicting is not the symmetric prefix test: nested key spaces can be handed out")
	})

	c.Clause("C26.open", func() {
		f := c.Fn(mdP + "Producer.OpenDB")
		hr := f.CallsTo(mdP + "Producer.handleRoute")
		c.Need(len(hr) == 1, "OpenDB calls handleRoute once")
		rv := varOf(f, hr[0].Call.Args[2])
		okR := false
		if rv != nil {
			for _, a := range assignsToVar(f, rv) {
				if call := isCallTo(f, a.RHS, mdP+"Producer.RouteOf"); call != nil && a.RHS != nil && varOf(f, call.Args[0]) == f.Param(0) {
					okR = true
				}
			}
		}
		c.Check(okR && varOf(f, hr[0].Call.Args[1]) == f.Param(0), "route checked is the route of the request", "provenance", hr[0].Pos(), "handleRoute(db, req, RouteOf(req))", "handleRoute is given a different request or route")
		n := 0
		for _, rp := range returnsWith(f, 0, func(e ast.Expr) bool { return !core.IsNil(f.Info(), e) }) {
			n++
			c.Check(afterSuccess(f, hr[0], rp), "store handed out only after the route was accepted", "T2+T4", posOf(rp), "a store is returned only after handleRoute returned nil", "a store can be returned although its table conflicts with another request")
		}
		c.ExpectAtLeast("store-returning exits of OpenDB", n, 1)
		// table wrapping with the routed table
		okT := false
		for _, cs := range f.CallsTo("kvdb/table.New") {
			if len(cs.Call.Args) == 2 {
				inner := core.StripConv(f.Info(), cs.Call.Args[1])
				r, pth := fieldPath(f, inner)
				if len(pth) == 1 && pth[0] == mdP+"Route.Table" && varOf(f, r) == rv {
					okT = true
				}
			}
		}
		c.Check(okT, "store is confined to the routed table", "provenance", f.Pos(), "table.New(db, []byte(route.Table))", "the returned store is not wrapped with the routed table prefix")
	})

	c.Clause("C26.verify", func() {
		f := c.Fn(mdP + "Producer.verifyRecords")
		errRet := func(r *ast.ReturnStmt) bool { return len(r.Results) == 1 && !core.IsNil(f.Info(), r.Results[0]) }
		type cmp struct{ name, oldF, newF string }
		want := []cmp{
			{"type", mdP + "DBLocator.Type", mdP + "Route.Type"},
			{"name", mdP + "DBLocator.Name", mdP + "Route.Name"},
			{"table", mdP + "TableRecord.Table", mdP + "Route.Table"},
		}
		// the route compared is RouteOf(old.Req)
		var newRoute *types.Var
		for _, a := range assignments(f) {
			if call := isCallTo(f, a.RHS, mdP+"Producer.RouteOf"); call != nil && a.RHS != nil {
				if _, pth := fieldPath(f, call.Args[0]); len(pth) == 1 && pth[0] == mdP+"TableRecord.Req" {
					newRoute = varOf(f, a.LHS)
				}
			}
		}
		c.Need(newRoute != nil, "newRoute := RouteOf(old.Req)")
		for _, w := range want {
			ok, why := rejectedWhen(f, func(ft core.Fact) bool {
				cm, k := core.NormCmp(ft)
				if !k || cm.R == nil || cm.Op != token.NEQ {
					return false
				}
				is := func(x, y ast.Expr) bool {
					_, p1 := fieldPath(f, x)
					r2, p2 := fieldPath(f, y)
					return len(p1) == 1 && p1[0] == w.oldF && len(p2) == 1 && p2[0] == w.newF && varOf(f, r2) == newRoute
				}
				return is(cm.L, cm.R) || is(cm.R, cm.L)
			}, errRet)
			c.Check(ok, "changed "+w.name+" => verification fails", "T8 field coverage", f.Pos(), "a differing "+w.name+" leads only to error returns and every record passes that test", "verification does not fail when the "+w.name+" of a recorded request changed: "+why)
		}
		// loops are complete (every record of every database is checked)
		n := 0
		f.InspectOwn(func(nd ast.Node) bool {
			if rs, ok := nd.(*ast.RangeStmt); ok {
				n++
				_, complete := loopDone(f, rs)
				c.Check(complete, fmt.Sprintf("verification loop %d is complete", n), "T2 (loop)", rs.Pos(), "left only by returning an error or when exhausted", "verification can stop early without an error")
			}
			return true
		})
		c.ExpectAtLeast("verification loops", n, 2)
	})
}

func allLits(f *core.FuncInfo) []*core.FuncInfo {
	var out []*core.FuncInfo
	for _, l := range f.Lits() {
		out = append(out, l)
		out = append(out, allLits(l)...)
	}
	return out
}
