package rules

import (
	"go/ast"
	"strings"

	"lachk/core"
)

const mdP = "kvdb/multidb."

func init() {
	register("C26", "other", "T10 MapOrder, T11 Determinism effects, T2 Dominates (conflict loop before recording), T8 DecisionTable (scenario form: feasible paths under a valuation of the semantic atoms; field coverage in verification)",
		"Decides the structural conditions of deterministic, isolating routing: nothing reachable from NewProducer/RouteOf/OpenDB/Verify in the multidb and fmtfilter packages draws randomness or time, and no map is ranged over in a way that lets the iteration order reach the result — in particular the pattern routes, which RouteOf tries first-match, must not be kept in map iteration order (a slice collected in map order counts as ordered only if it is sorted by a total order of its elements); in RouteOf, or in the function it calls to make the search, a pattern is tried only after the exact table had no entry, and after a pattern matched no further pattern is tried for the same request; every producer field or package variable that RouteOf (or a function it enters) consults is written only during construction, or is a cache of RouteOf's own results whose entries are stored and looked up under the unmodified request and hold what RouteOf returns (so the route of a request does not depend on the requests routed before it); a request is recorded (WriteTablesList) only after the complete scan over the recorded requests, in which — for every element, however the tests are nested or spelled — a recorded table that is a prefix of / prefixed by the routed table of another request, and the same request with a different table, leave the iteration only through error returns, while the same request with the same table is never refused; the conflict test returns true whenever one table is a prefix of the other; OpenDB hands out a store only after handleRoute returned nil and wraps it with the routed table; verification compares type, name and table of every recorded request with its current route (the comparison of one record may live in a helper whose error is then propagated for every element). The behaviour of Sscanf-based pattern matching itself is not decided.",
		[]string{"fmt.Sscanf/Sprintf are deterministic", "producers of the individual database types are opaque"},
		runC26)
}

func runC26(c *core.Ctx) {
	p := c.P

	c.Clause("C26.det", func() {
		roots := []*core.FuncInfo{c.Fn(mdP + "NewProducer"), c.Fn(mdP + "Producer.RouteOf"), c.Fn(mdP + "Producer.OpenDB"), c.Fn(mdP + "Producer.Verify"), c.Fn("utils/fmtfilter.CompileFilter")}
		reach := core.ReachableFuncs(p, roots, false)
		n, nRanges, nSorts := 0, 0, 0
		for _, f := range reach {
			pkg := core.RelPkg(f.Pkg.PkgPath)
			if pkg != "kvdb/multidb" && pkg != "utils/fmtfilter" {
				continue
			}
			all := append([]*core.FuncInfo{f}, allLits(f)...)
			for _, g := range all {
				n++
				eff := core.NondetEffects(g)
				c.Check(len(eff) == 0, short(g.Name)+"|no randomness/time/goroutines", "T11 Determinism effects", g.Pos(), "no call into math/rand or time, no go/select", "non-deterministic effect on the routing path: "+strings.Join(eff, "; "))
				for _, mr := range core.MapRanges(g) {
					nRanges++
					key := short(g.Name) + "|range over " + exprStr(mr.Stmt.X)
					c.Check(!mr.Sensitive(), key, "T10 MapOrder", mr.Stmt.Pos(), "the map iteration order cannot reach the result",
						"order-sensitive range over a map: "+strings.Join(mr.Reasons, "; ")+" — routing then differs between two producers built from the same tables (e.g. overlapping patterns \"a-%d\" and \"a-%s\" are tried in map order)")
				}
				// a slice collected in map order is only as deterministic as the order it is sorted by
				nSorts += c26SortOrders(c, g)
			}
		}
		c.ExpectAtLeast("functions on the routing path", n, 8)
		c.ExpectAtLeast("map ranges on the routing path", nRanges, 2)
		c.ExpectAtLeast("sorts of slices collected in map order", nSorts, 1)
		// the pattern list is consumed first-match: it is built by the constructor (whose map ranges are
		// covered above, whether it fills a local that goes into the literal or the field itself);
		// nobody else writes it
		ctor := c.Fn(mdP + "NewProducer")
		for _, f := range p.FuncsInPkg("kvdb/multidb") {
			if f == ctor {
				continue
			}
			for _, a := range assignsToField(f, mdP+"Producer.routingFmt") {
				c.Fail("routingFmt written in "+short(f.Name), "T6 WhoMayWrite", a.Stmt.Pos(), "the pattern list is modified after construction")
			}
		}
	})

	c.Clause("C26.route", func() {
		c26Route(c, c.Fn(mdP+"Producer.RouteOf"))
	})

	c.Clause("C26.route.state", func() {
		c26RouteState(c, c.Fn(mdP+"Producer.RouteOf"), c.Fn(mdP+"NewProducer"))
	})

	c.Clause("C26.conflict", func() {
		c26Conflict(c, c.Fn(mdP+"Producer.handleRoute"))
	})

	c.Clause("C26.open", func() {
		f := c.Fn(mdP + "Producer.OpenDB")
		hr := f.CallsTo(mdP + "Producer.handleRoute")
		c.Need(len(hr) == 1 && len(hr[0].Call.Args) == 3, "OpenDB calls handleRoute once")
		// the route handed to handleRoute is RouteOf(req) — directly or through a local
		isRouteOfReq := func(e ast.Expr) bool {
			call := isCallTo(f, e, mdP+"Producer.RouteOf")
			return call != nil && len(call.Args) == 1 && varOf(f, resolveLocal(f, call.Args[0])) == f.Param(0)
		}
		c.Check(isRouteOfReq(hr[0].Call.Args[2]) && varOf(f, resolveLocal(f, hr[0].Call.Args[1])) == f.Param(0), "route checked is the route of the request", "provenance", hr[0].Pos(), "handleRoute(db, req, RouteOf(req))", "handleRoute is given a different request or route")
		n := 0
		for _, rp := range returnsWith(f, 0, func(e ast.Expr) bool { return !core.IsNil(f.Info(), e) }) {
			n++
			c.Check(afterSuccess(f, hr[0], rp), "store handed out only after the route was accepted", "T2+T4", posOf(rp), "a store is returned only after handleRoute returned nil", "a store can be returned although its table conflicts with another request")
		}
		c.ExpectAtLeast("store-returning exits of OpenDB", n, 1)
		// table wrapping with the routed table
		okT := false
		for _, cs := range f.CallsTo("kvdb/table.New") {
			if len(cs.Call.Args) == 2 {
				inner := core.StripConv(f.Info(), cs.Call.Args[1])
				r, pth := fieldPath(f, inner)
				if len(pth) == 1 && pth[0] == mdP+"Route.Table" && isRouteOfReq(r) {
					okT = true
				}
			}
		}
		c.Check(okT, "store is confined to the routed table", "provenance", f.Pos(), "table.New(db, []byte(route.Table))", "the returned store is not wrapped with the routed table prefix")
	})

	c.Clause("C26.verify", func() {
		c26Verify(c, c.Fn(mdP+"Producer.verifyRecords"))
	})
}

func allLits(f *core.FuncInfo) []*core.FuncInfo {
	var out []*core.FuncInfo
	for _, l := range f.Lits() {
		out = append(out, l)
		out = append(out, allLits(l)...)
	}
	return out
}
