package rules

import (
	"go/ast"
	"go/constant"
	"go/token"
	"go/types"
	"strings"

	"lachk/core"
)

// Persistence of the branch table (clause C06.persist).
//
// The fork half of the merged view rests on the branch table: an event whose sequence number does not
// continue its creator's branch gets a branch of its own (fillGlobalBranchID compares with
// BranchIDLastSeq and appends to BranchIDByCreators), and a fork is reported when the ranges of two
// branches of one creator overlap. The table is changed in place while an event is indexed, forgotten by
// DropNotFlushed (consensus calls it after every event) and decoded again from the store. Every change
// must therefore reach the store with the next Flush: a change that is not stored is undone by the
// reload, the creator's next event with an already used sequence number continues the old branch, no
// pair of branches overlaps and the merged clock reports a sequence where it must report a fork.
//
// Decided (on the inlined view of Engine.Flush, and on all stores to BranchesInfo fields in vecengine):
//
//   - Flush hands the live table (an expression ending in Engine.bi) to a function that always reaches a
//     key-value Put, on every path on which the table is loaded (bi != nil);
//   - when Flush may also skip the store on one truth value of a boolean field (a dirty / clean flag),
//     every store to a field of a branch table that is not freshly built in the same function lies on
//     paths that all give the flag the other value - in the same function, or (the store lives in a
//     helper that does not know the flag) around every call of that function, bounded depth; and the
//     flag is given the skipping value only after the table was stored or together with dropping it;
//   - any other reason to skip the store is reported.
func c06Persist(c *core.Ctx) {
	const (
		key1 = "changes of the branch table are stored by Flush"
		key2 = "the flag that lets Flush skip the branch table is raised by every change"
		key3 = "the flag that lets Flush skip the branch table is lowered only with a store or a drop"
		rule = "T3 post-dominance (store) + T4 (flag raised on every changing path)"
		bad  = "the branch table is dropped after every event (DropNotFlushed) and decoded again from the store, so a change that Flush does not store is forgotten: a later event of the creator with an already used sequence number is put on the old branch, no two branches overlap, and the merged clock reports a sequence number instead of the fork"
	)
	p := c.P
	c.Fld(c06BiFld)
	isPut := func(cs *core.CallSite) bool { return cs.Name == kvPut }
	alwaysPuts := map[*core.FuncInfo]int{}
	writesTable := func(cs *core.CallSite) bool {
		fn, _ := cs.Callee.(*types.Func)
		g := p.FuncOf(fn)
		if g == nil || g.Body == nil || cs.F == nil {
			return false
		}
		handed := false
		ops := append([]ast.Expr(nil), cs.Call.Args...)
		if sel, ok := ast.Unparen(cs.Call.Fun).(*ast.SelectorExpr); ok {
			ops = append(ops, sel.X)
		}
		for _, a := range ops {
			if _, pth := fieldPath(cs.F, a); len(pth) > 0 && pth[len(pth)-1] == c06BiFld {
				handed = true
			}
		}
		if !handed {
			return false
		}
		if alwaysPuts[g] == 0 {
			alwaysPuts[g] = 2
			if puts := g.SitesMust(isPut, 4); len(puts) > 0 {
				if ok, _ := g.MustPassAfter(g.Entry(), puts); ok || core.PointSet(puts...)(g.Entry()) {
					alwaysPuts[g] = 1
				}
			}
		}
		return alwaysPuts[g] == 1
	}
	fl := c06View(c.Fn("vecengine.Engine.Flush"), "persist", writesTable)
	storesIn := func(h *core.FuncInfo) []core.Point { return h.SitesMust(writesTable, 3) }
	stores := storesIn(fl)
	if len(stores) == 0 {
		c.Fail(key1, rule, fl.Pos(), "Engine.Flush has no call that always writes the live branch table (Engine.bi) to the store: "+bad)
		return
	}
	notLoaded := fieldNilFact(fl, c06BiFld, true)
	skip := func(extra func(core.Fact) bool) ([]core.Point, bool) {
		if core.PointSet(stores...)(fl.Entry()) {
			return nil, false
		}
		avoid := fl.EdgesImplying(func(ft core.Fact) bool { return notLoaded(ft) || (extra != nil && extra(ft)) })
		return core.PathQuery{F: fl, From: fl.Entry(), Avoid: core.PointSet(stores...), AvoidEdge: avoid, TargetExit: true}.Find()
	}
	wit, canSkip := skip(nil)
	if !canSkip {
		c.Pass(key1, rule, "Flush writes the branch table on every path on which it is loaded")
		return
	}
	// a flag: a boolean field one truth value of which accounts for every skipping path
	flagIs := func(field string, want bool) func(core.Fact) bool {
		return func(ft core.Fact) bool {
			e, truth, ok := c06BoolFact(fl.Info(), ft)
			return ok && truth == want && fieldNameOf(fl, e) == field
		}
	}
	seen := map[string]bool{}
	var cands []string
	ast.Inspect(fl.Body, func(n ast.Node) bool {
		if _, isLit := n.(*ast.FuncLit); isLit {
			return false
		}
		if sel, ok := n.(*ast.SelectorExpr); ok {
			if nm := fieldNameOf(fl, sel); nm != "" && !seen[nm] && fl.Info().TypeOf(sel) != nil {
				if b, isB := fl.Info().TypeOf(sel).Underlying().(*types.Basic); isB && b.Info()&types.IsBoolean != 0 {
					seen[nm] = true
					cands = append(cands, nm)
				}
			}
		}
		return true
	})
	flag, skipOn := "", false
	for _, nm := range cands {
		for _, v := range []bool{false, true} {
			if _, still := skip(flagIs(nm, v)); !still && flag == "" {
				flag, skipOn = nm, v
			}
		}
	}
	if flag == "" {
		c.Fail(key1, rule, fl.Pos(), "Engine.Flush can return without storing a loaded branch table ("+fl.DescribePath(wit)+") for a reason that is not tied to its changes: "+bad)
		return
	}
	c.Pass(key1, rule, "Flush writes the loaded branch table unless "+short(flag)+" is "+c06BoolStr(skipOn))

	// callers (for stores that live in helpers which do not know the flag)
	callers := map[*core.FuncInfo][]*core.CallSite{}
	var vecFuncs []*core.FuncInfo
	for _, h := range p.Funcs() {
		for _, cs := range h.Calls() {
			if fn, ok := cs.Callee.(*types.Func); ok {
				if t := p.FuncOf(fn); t != nil {
					callers[t] = append(callers[t], cs)
				}
			}
		}
		if core.RelPkg(h.Pkg.PkgPath) == "vecengine" {
			vecFuncs = append(vecFuncs, h)
		}
	}
	constAssign := func(h *core.FuncInfo, a assignment) (bool, bool) {
		if a.RHS == nil {
			return false, false
		}
		cv, isC := core.ConstVal(h.Info(), a.RHS)
		if !isC || cv.Kind() != constant.Bool {
			return false, false
		}
		return constant.BoolVal(cv), true
	}
	// the points of h at which the flag certainly receives the value v: assignments, and calls of module
	// functions every returning path of which makes such an assignment
	var setsFlag func(h *core.FuncInfo, v bool, depth int) []core.Point
	setsFlag = func(h *core.FuncInfo, v bool, depth int) []core.Point {
		var out []core.Point
		for _, a := range assignsToField(h, flag) {
			if b, ok := constAssign(h, a); ok && b == v {
				out = append(out, a.Pt)
			}
		}
		if depth <= 0 {
			return out
		}
		for _, cs := range h.Calls() {
			fn, _ := cs.Callee.(*types.Func)
			g := p.FuncOf(fn)
			if g == nil || g == h || g.Body == nil {
				continue
			}
			if in := setsFlag(g, v, depth-1); len(in) > 0 {
				if ok, _ := g.MustPassAfter(g.Entry(), in); ok || core.PointSet(in...)(g.Entry()) {
					out = append(out, cs.Pt)
				}
			}
		}
		return out
	}
	var raised func(h *core.FuncInfo, pt core.Point, depth int) (bool, string)
	raised = func(h *core.FuncInfo, pt core.Point, depth int) (bool, string) {
		if sets := setsFlag(h, !skipOn, 2); len(sets) > 0 {
			if ok, _ := h.MustPassAfter(pt, sets); ok {
				return true, ""
			}
			if ok, _ := h.MustPassBefore(sets, pt); ok {
				return true, ""
			}
			return false, short(h.Name)
		}
		top := h
		for top.Parent != nil {
			top = top.Parent
		}
		if depth <= 0 || h != top || len(callers[h]) == 0 {
			return false, short(h.Name)
		}
		for _, cs := range callers[h] {
			if ok, where := raised(cs.F, cs.Pt, depth-1); !ok {
				return false, where + " (calling " + short(h.Name) + ")"
			}
		}
		return true, ""
	}
	own := &c06Own{p: p, sums: map[string]c06Orgs{}, inSum: map[string]bool{}, visiting: map[string]bool{}}
	nChange := 0
	for _, h := range vecFuncs {
		for _, a := range assignments(h) {
			root, _, depth := c06Root(h, a.LHS)
			if depth == 0 {
				continue
			}
			// the outermost field written through
			fld := ""
			lhs := ast.Unparen(a.LHS)
			for fld == "" {
				switch x := lhs.(type) {
				case *ast.IndexExpr:
					lhs = ast.Unparen(x.X)
					continue
				case *ast.StarExpr:
					lhs = ast.Unparen(x.X)
					continue
				case *ast.SelectorExpr:
					if s, has := h.Info().Selections[x]; has {
						if fv, isV := s.Obj().(*types.Var); isV && fv.IsField() {
							fld = p.FieldName(fv)
						}
					}
				}
				break
			}
			if !strings.HasPrefix(fld, c06BiType+".") {
				continue
			}
			// a table that is being built here (a local holding only fresh storage) is not the loaded one
			if v := varOfRaw(h, root); v != nil && !c06IsGlobal(v) {
				if d := c06DeclFunc(h, v); d != nil {
					if _, isParam := c06ParamIndex(d, v); !isParam && len(own.ofVar(h, v, a.Pt, 3, true)) == 0 {
						continue
					}
				}
			}
			nChange++
			ok, where := raised(h, a.Pt, 2)
			c.Check(ok, key2, rule, a.Stmt.Pos(), "every path through the change sets "+short(flag)+" = "+c06BoolStr(!skipOn),
				short(h.Name)+" changes "+strings.TrimPrefix(fld, "vecengine.")+" on a path of "+where+" that does not set "+short(flag)+" = "+c06BoolStr(!skipOn)+", and Flush skips the branch table while the flag is "+c06BoolStr(skipOn)+": "+bad)
		}
	}
	c.ExpectAtLeast("in-place changes of the branch table in vecengine", nChange, 1)
	// the flag is given the skipping value only with a store or a drop of the table
	for _, h := range p.Funcs() {
		for _, a := range assignsToField(h, flag) {
			b, isConst := constAssign(h, a)
			if !isConst {
				c.Undecided(key3, rule, a.Stmt.Pos(), short(h.Name)+" gives "+short(flag)+" a computed value: whether it still says that the stored branch table is out of date is not decided")
				continue
			}
			if b != skipOn {
				continue
			}
			okS, _ := h.MustPassBefore(storesIn(h), a.Pt)
			if len(storesIn(h)) == 0 {
				okS = false
			}
			var drops []core.Point
			for _, d := range assignsToField(h, c06BiFld) {
				if d.RHS != nil && core.IsNil(h.Info(), d.RHS) {
					drops = append(drops, d.Pt)
				}
			}
			okD := false
			if len(drops) > 0 {
				if o, _ := h.MustPassBefore(drops, a.Pt); o {
					okD = true
				} else if o, _ := h.MustPassAfter(a.Pt, drops); o {
					okD = true
				}
			}
			c.Check(okS || okD, key3, rule, a.Stmt.Pos(), "the flag is lowered after the store or together with dropping the table",
				short(h.Name)+" sets "+short(flag)+" = "+c06BoolStr(skipOn)+" on a path on which the branch table was neither stored nor dropped: Flush then skips a changed table: "+bad)
		}
	}
}

func c06BoolStr(b bool) string {
	if b {
		return "true"
	}
	return "false"
}

// c06BoolFact reads a fact as "<expr> is <truth>" for a boolean operand: bare booleans, negations and
// comparisons with the constants true / false.
func c06BoolFact(info *types.Info, ft core.Fact) (ast.Expr, bool, bool) {
	cm, ok := core.NormCmp(ft)
	if !ok || (cm.Op != token.EQL && cm.Op != token.NEQ) {
		return nil, false, false
	}
	truth := cm.Op == token.EQL
	l := cm.L
	if cm.R != nil {
		r := cm.R
		if _, isConst := core.ConstVal(info, l); isConst {
			l, r = r, l
		}
		cv, isConst := core.ConstVal(info, r)
		if !isConst || cv.Kind() != constant.Bool {
			return nil, false, false
		}
		if !constant.BoolVal(cv) {
			truth = !truth
		}
	}
	return l, truth, true
}
