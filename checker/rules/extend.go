package rules

import "lachk/core"

// Extensions: clauses added to a property after its own file was written (mostly after seeded changes
// were missed). Each lives in cNN_ext.go; this file only wires them.

type ext struct {
	id string
	fn func(*core.Ctx)
}

func extend(id string, extra func(c *core.Ctx)) {
	r, ok := Registry[id]
	if !ok {
		panic("extend: property " + id + " is not registered")
	}
	prev := r.Run
	r.Run = func(c *core.Ctx) {
		prev(c)
		extra(c)
	}
	Registry[id] = r
}

var extensionsDone = false

// ApplyExtensions wires the extra clauses and the thorough-tier passes; called once from main.
func ApplyExtensions() {
	if extensionsDone {
		return
	}
	extensionsDone = true
	for _, e := range []ext{
		{"C01", c01Slots}, {"C02", c02MarkCodec}, {"C05", c05ForkPairs}, {"C08", c08Roots},
		{"C15", c15LoopVars}, {"C16", c16Captures}, {"C17", c17Captures}, {"C23", c23Successor}, {"C26", c26VerifyScope}, {"C27", c27NoLeakOnError}, {"C28", c28SplitRMW},
	} {
		extend(e.id, e.fn)
	}
	for id, fn := range thoroughRuns {
		r := Registry[id]
		r.ThoroughRun = fn
		Registry[id] = r
	}
}
