package rules

// Positive controls: for every property at least one seeded one-instance breakage that still
// type-checks. They are applied as in-memory overlays in the thorough tier; the rule must fire and
// name the construct. The From patterns are regular expressions over today's source; when the
// source changes so that a pattern no longer matches, the control is skipped with a note (it is a
// test of the checker, never a verdict about the repository).
func init() {
	Controls["C01"] = []Control{
		{"Atropos chosen in map order", "abft/election/sort_roots.go", `for _, validator := range el\.validators\.SortedIDs\(\) \{`, "for validator := range el.decidedRoots {", "chooseAtropos"},
		{"re-vote dropped", "abft/event_processing.go", `\t\tsealed, err = p\.bootstrapElection\(\)\n\t\tif err != nil \{\n\t\t\treturn err\n\t\t\}\n\t\tif sealed \{\n\t\t\tbreak\n\t\t\}\n`, "", "re-processed after a decision"},
	}
	Controls["C02"] = []Control{
		{"deliver before mark", "abft/lachesis.go", `(\t\tp\.store\.SetEventConfirmedOn\(e\.ID\(\), frame\)\n)(\t\tif onEventConfirmed != nil \{\n\t\t\tonEventConfirmed\(e\)\n\t\t\}\n)`, "$2$1", "marked before it is delivered"},
		{"election restarted at the same frame", "abft/frame_decide.go", `p\.election\.Reset\(p\.store\.GetValidators\(\), frame\+1\)`, "p.election.Reset(p.store.GetValidators(), frame)", "one frame above"},
	}
	Controls["C03"] = []Control{
		{"wrong vector entry tested", "abft/lachesis.go", `atroposVecClock\.Get\(idx\.Validator\(creatorIdx\)\)`, "atroposVecClock.Get(idx.Validator(creatorIdx / 2))", "validator i is listed iff"},
		{"fork marker overwritten", "vecfc/vector_ops.go", `\t\tif mySeq\.IsForkDetected\(\) \{\n\t\t\t// mySeq observes the maximum already\n\t\t\tcontinue\n\t\t\}\n`, "", "overwritten only while not fork-detected"},
	}
	Controls["C04"] = []Control{
		{"cap changed", "abft/event_processing.go", `selfParentFrame \+ 100`, "selfParentFrame + 10", "build bound"},
		{"left-aligned temporary id", "abft/indexed_lachesis.go", `u\.counter\.FillBytes\(id\[:\]\)`, "copy(id[:], u.counter.Bytes())", "temporary IDs never repeat"},
	}
	Controls["C05"] = []Control{
		{"pair cache key swapped on write", "vecfc/forkless_cause.go", `vi\.cache\.ForklessCause\.Add\(kv\{aID, bID\}, res, 1\)`, "vi.cache.ForklessCause.Add(kv{bID, aID}, res, 1)", "keyed by the ordered pair"},
		{"vector cache not purged on drop", "vecfc/index.go", `\tvi\.cache\.HighestBeforeSeq\.Purge\(\)\n\tvi\.cache\.LowestAfterSeq\.Purge\(\)`, "\tvi.cache.HighestBeforeSeq.Purge()", "drop purges"},
	}
	Controls["C07"] = []Control{
		{"flush before consensus check", "abft/indexed_lachesis.go", `\terr = p\.Lachesis\.Process\(e\)\n\tif err != nil \{\n\t\treturn err\n\t\}\n\tp\.dagIndexer\.Flush\(\)\n\treturn nil`, "\tp.dagIndexer.Flush()\n\terr = p.Lachesis.Process(e)\n\treturn err", "flush only after"},
		{"root registered before frame check", "abft/event_processing.go", `(\tif e\.Frame\(\) != frameIdx \{\n\t\treturn ErrWrongFrame, 0\n\t\}\n\n)(\tif selfParentFrame != frameIdx \{\n\t\tp\.store\.AddRoot\(selfParentFrame, e\)\n\t\}\n)`, "$2$1", "no rejection after the root was registered"},
	}
	Controls["C08"] = []Control{
		{"cached-only state update", "abft/store_last_decided_state.go", `\ts\.cache\.LastDecidedState = v\n\n\ts\.set\(s\.table\.LastDecidedState, \[\]byte\(dsKey\), v\)`, "\ts.cache.LastDecidedState = v", "writes cache and table together"},
		{"vectors flushed before branch info", "vecengine/index.go", `(\tif vi\.bi != nil \{\n\t\tvi\.setBranchesInfo\(vi\.bi\)\n\t\}\n)(\tif err := vi\.vecDb\.Flush\(\); err != nil \{\n\t\tvi\.crit\(err\)\n\t\}\n)`, "$2$1", "branch info is written before"},
	}
	Controls["C09"] = []Control{
		{"old election continues after sealing", "abft/event_processing.go", `\t\tif sealed \{\n\t\t\tbreak\n\t\t\}\n\t\tsealed, err = p\.bootstrapElection\(\)`, "\t\t_ = sealed\n\t\tsealed, err = p.bootstrapElection()", "sealed flag of"},
		{"roots cache not purged", "abft/store.go", `\ts\.cache\.FrameRoots\.Purge\(\)\n\n\ts\.epochDB = s\.getEpochDB\(n\)`, "\ts.epochDB = s.getEpochDB(n)", "purged before"},
	}
	Controls["C14"] = []Control{
		{"released child re-pushed", "gossip/dagordering/event_buffer.go", `\t\t\tif child\.released \{\n[^}]*\}\n`, "", "recheck recursion"},
		{"spill skipped", "gossip/dagordering/event_buffer.go", `\tcomplete = buf\.pushEvent\(e, nil, false\)\n\tbuf\.spillIncompletes\(buf\.limit\)`, "\tcomplete = buf.pushEvent(e, nil, false)\n\tif complete {\n\t\tbuf.spillIncompletes(buf.limit)\n\t}", "spill after every push"},
	}
	Controls["C16"] = []Control{
		{"timer armed on fetching set", "gossip/itemsfetcher/fetcher.go", `if first && f\.announces\.Len\(\) != 0 \{`, "if first && len(f.fetching) != 0 {", "timer armed"},
	}
	Controls["C17"] = []Control{
		{"prune before lookup", "gossip/basestream/basestreamseeder/seeder.go", `(\t\t\tsession, ok := s\.sessions\[sessionKey\]\n\t\t\tif !ok \{\n)(\t\t\t\t// prune oldest session[^\n]*\n\t\t\t\tsessions := s\.peerSessions\[op\.peer\.ID\]\n\t\t\t\tif len\(sessions\) > 2 \{\n\t\t\t\t\toldest := sessions\[0\]\n\t\t\t\t\tsessions = sessions\[1:\]\n\t\t\t\t\tdelete\(s\.sessions, sessionIDAndPeer\{oldest, op\.peer\.ID\}\)\n\t\t\t\t\}\n)`, "$2$1", "evicted only when a new one is created"},
		{"progress not stored", "gossip/basestream/basestreamseeder/seeder.go", `\t\t\t\ts\.sessions\[sessionIDAndPeer\{op\.request\.Session\.ID, op\.peer\.ID\}\] = session\n`, "", "progress is recorded"},
	}
	Controls["C18"] = []Control{
		{"routine before peer removal", "gossip/basestream/basestreamleecher/base_leecher.go", `(\tdelete\(d\.Peers, peer\)\n)(\tif d\.callback\.OngoingSessionPeer\(\) == peer \{\n\t\td\.callback\.TerminateSession\(\)\n\t\td\.Routine\(\)\n\t\}\n)`, "$2$1", "peer removed before"},
		{"window off by one", "gossip/basestream/basestreamleecher/basepeerleecher/session.go", `if d\.totalRequested < d\.totalProcessed\+d\.cfg\.ParallelChunksDownload \{`, "if d.totalRequested <= d.totalProcessed+d.cfg.ParallelChunksDownload {", "below the window"},
	}
	Controls["C21"] = []Control{
		{"plain subtraction", "emitter/doublesign/synced_heuristic.go", `max\.apply\(s\.waitTime\(s\.LastConnected, threshold\), ErrJustConnected\)`, "max.apply(threshold-s.Since(s.LastConnected), ErrJustConnected)", "remaining time saturates"},
		{"timestamp dropped", "emitter/doublesign/synced_heuristic.go", `\tif s\.Since\(s\.BecameValidator\) < threshold \{\n[^}]*\}\n`, "", "all five timestamps"},
	}
	Controls["C22"] = []Control{
		{"snapshot shares the live tree", "kvdb/flushable/flushable.go", `modified:   modifiedCopy,`, "modified:   w.modified,", "fresh tree"},
		{"final batch write dropped", "kvdb/flushable/flushable.go", `\t\*w\.sizeEstimation = 0\n\n\treturn batch\.Write\(\)`, "\t*w.sizeEstimation = 0\n\n\treturn nil", "final batch write"},
	}
	Controls["C25"] = []Control{
		{"drop before dirty marks", "kvdb/flushable/synced_pool.go", `(\t// write dirty flags\n\tfor _, w := range p\.wrappers \{.*?\n\t\}\n\n)(\t// close and drop DBs[^\n]*\n\tfor _, w := range droppedList \{.*?\n\t\}\n\n)`, "$2$1", "database drop after all dirty marks"},
		{"write without dirty mark", "kvdb/flaggedproducer/store.go", `func \(s \*flaggedStore\) Delete\(key \[\]byte\) error \{\n\terr := s\.modified\(\)\n\tif err != nil \{\n\t\treturn err\n\t\}\n`, "func (s *flaggedStore) Delete(key []byte) error {\n", "marks dirty before writing"},
	}
	Controls["C26"] = []Control{
		{"patterns in map order", "kvdb/multidb/producer.go", `\tsort\.Strings\(reqs\)\n`, "\t_ = sort.Strings\n", "range over routingTable"},
		{"conflict check skipped for recorded requests", "kvdb/multidb/producer.go", `\t\tif tablesConflicting\(old\.Table, route\.Table\) \{`, "\t\tif old.Req != req && false && tablesConflicting(old.Table, route.Table) {", "overlapping table"},
	}
	Controls["C27"] = []Control{
		{"refCounter not made", "kvdb/cachedproducer/producer.go", `(func Wrap\(p kvdb\.DBProducer\) \*DBProducer \{.*?)\t\t\trefCounter: make\(map\[string\]int\),\n`, "$1", "refCounter initialised"},
		{"close on every reference", "kvdb/cachedproducer/producer.go", `\} else if counter == 1 \{`, "} else if counter >= 1 {", "close flag set exactly on counter == 1"},
	}
	Controls["C28"] = []Control{
		{"unlocked size read", "kvdb/flushable/flushable.go", `func \(w \*Flushable\) NotFlushedSizeEst\(\) int \{\n\tw\.lock\.RLock\(\)\n\tdefer w\.lock\.RUnlock\(\)\n`, "func (w *Flushable) NotFlushedSizeEst() int {\n", "NotFlushedSizeEst"},
		{"mutating LRU call under read lock", "utils/wlru/wlru.go", `\tc\.lock\.Lock\(\)\n\tvalue, ok = c\.lru\.Get\(key\)\n\tc\.lock\.Unlock\(\)`, "\tc.lock.RLock()\n\tvalue, ok = c.lru.Get(key)\n\tc.lock.RUnlock()", "Cache.Get"},
	}
	Controls["C29"] = []Control{
		{"weight not decremented", "utils/simplewlru/simplewlru.go", `\tc\.weight -= kv\.weight\n`, "", "delete paired with weight"},
		{"Get does not refresh", "utils/simplewlru/simplewlru.go", `\t\tc\.evictList\.MoveToFront\(ent\)\n\t\tif ent\.Value`, "\t\tif ent.Value", "Get refreshes recency"},
	}
	Controls["C30"] = []Control{
		{"no deadline waker", "utils/datasemaphore/semaphore.go", `\t\tif wakeup == nil \{.*?\n\t\t\}\n\t\ts\.cond\.Wait\(\)`, "\t\t_ = wakeup\n\t\ts.cond.Wait()", "waker armed before Wait"},
		{"release without broadcast", "utils/datasemaphore/semaphore.go", `(\t\ts\.processing\.Size -= weight\.Size\n\t\})\n\ts\.cond\.Broadcast\(\)`, "$1", "C30.broadcast"},
	}
}
