package rules

import (
	"go/ast"
	"go/token"
	"go/types"

	"lachk/core"
)

// Results of a function are identified by their role (type), not by their position: the error of an
// unexported function may be the first or the last result, and a maintainer is free to move it.

// c07Sig is the signature of a declared function or of a literal (nil when unknown).
func c07Sig(f *core.FuncInfo) *types.Signature {
	if f == nil {
		return nil
	}
	if f.Obj != nil {
		sig, _ := f.Obj.Type().(*types.Signature)
		return sig
	}
	if f.Lit != nil {
		if tv, ok := f.Info().Types[f.Lit]; ok && tv.Type != nil {
			sig, _ := tv.Type.Underlying().(*types.Signature)
			return sig
		}
	}
	return nil
}

// c07IsErrorType: the predeclared interface type error.
func c07IsErrorType(t types.Type) bool {
	return t != nil && types.Identical(t, types.Universe.Lookup("error").Type())
}

// c07ErrResult: the index of THE result of type error of f (and the number of results); -1 when f has
// no such result or more than one (then the role is not determined by the type).
func c07ErrResult(f *core.FuncInfo) (idx, n int) {
	sig := c07Sig(f)
	if sig == nil {
		return -1, 0
	}
	idx, n = -1, sig.Results().Len()
	for i := 0; i < n; i++ {
		if c07IsErrorType(sig.Results().At(i).Type()) {
			if idx >= 0 {
				return -1, n
			}
			idx = i
		}
	}
	return idx, n
}

// c07ReturnedErr: the expression a return statement of f gives for f's error result.
// known=false: the statement does not spell the value (a bare return of named results, or `return g()`
// forwarding a tuple); x is then nil and the caller must assume any value.
func c07ReturnedErr(f *core.FuncInfo, r *ast.ReturnStmt) (x ast.Expr, known bool) {
	idx, n := c07ErrResult(f)
	if r == nil || idx < 0 || len(r.Results) != n {
		return nil, false
	}
	return r.Results[idx], true
}

// c07MayReturnError: the return statement can give a non-nil error. Spelled value: anything but the
// literal nil. Bare return of a named error result: only when some assignment of the function gives the
// result a value other than nil (otherwise it still holds its zero value). Forwarded tuple: yes.
func c07MayReturnError(f *core.FuncInfo, r *ast.ReturnStmt) bool {
	idx, n := c07ErrResult(f)
	if r == nil || idx < 0 {
		return false
	}
	if x, known := c07ReturnedErr(f, r); known {
		return !core.IsNil(f.Info(), x)
	}
	if len(r.Results) != 0 || n == 0 {
		return true
	}
	// bare return: the named result
	sig := c07Sig(f)
	rv := sig.Results().At(idx)
	if rv.Name() == "" || rv.Name() == "_" {
		return true
	}
	// the function's own statements and those of its literals (a deferred closure may set the result)
	for _, g := range append([]*core.FuncInfo{f}, allLits(f)...) {
		for _, a := range assignments(g) {
			if varOfRaw(g, a.LHS) != rv {
				continue
			}
			if a.RHS == nil || !core.IsNil(g.Info(), a.RHS) {
				return true
			}
		}
		// its address taken: anything can be stored
		escaped := false
		g.InspectOwn(func(nd ast.Node) bool {
			if u, ok := nd.(*ast.UnaryExpr); ok && u.Op == token.AND && varOfRaw(g, u.X) == rv {
				escaped = true
			}
			return !escaped
		})
		if escaped {
			return true
		}
	}
	return false
}

// c07ErrVarOfCall: the variable that receives the error result of the call `call` to callee in f
// (`x, err := g()`, `err = g()`, `var x, err = g()`); nil when the error is discarded or the call is
// not the sole right-hand side of an assignment.
func c07ErrVarOfCall(f *core.FuncInfo, call *ast.CallExpr, callee *core.FuncInfo) *types.Var {
	idx, n := c07ErrResult(callee)
	if idx < 0 || call == nil {
		return nil
	}
	var ev *types.Var
	f.InspectOwn(func(nd ast.Node) bool {
		switch st := nd.(type) {
		case *ast.AssignStmt:
			if len(st.Rhs) == 1 && len(st.Lhs) == n && ast.Unparen(st.Rhs[0]) == ast.Expr(call) {
				ev = varOf(f, st.Lhs[idx])
			}
		case *ast.ValueSpec:
			if len(st.Values) == 1 && len(st.Names) == n && ast.Unparen(st.Values[0]) == ast.Expr(call) {
				ev, _ = f.Info().Defs[st.Names[idx]].(*types.Var)
			}
		}
		return true
	})
	return ev
}
