package rules

import (
	"go/ast"

	"golang.org/x/tools/go/cfg"

	"lachk/core"
)

// c04Roots (clause C04.roots): the quorum 'at the frame below' is evaluated on the roots GetFrameRoots
// returns, and GetFrameRoots answers from the FrameRoots cache whenever the frame is cached. A root is
// registered for every frame slot between its self-parent's frame and its own frame (a loop over the
// slots); the frame search gives the same answer as a node reading the roots table only if each slot
// that is written to the table also refreshes (or invalidates) the cached list of its frame:
//
//	in the inlined view of Store.AddRoot (helpers entered, parameters bound) the table write of a root
//	record lies in a loop; the consultation of the cache (FrameRoots.Get, or a Remove) lies in the same
//	activation of that loop and is passed on every iteration that goes on to the next slot, the helpers
//	on the way performing it on each of their paths; the refresh (FrameRoots.Add) lies in that loop as
//	well and is made under the key that was consulted.
//
// Where the statements sit (AddRoot, addRoot, accessor helpers of the cache) does not matter.
func c04Roots(c *core.Ctx) {
	root := c.Fn("abft.Store.AddRoot")
	const (
		depth  = 4
		rootsT = "abft.Store.epochTable.Roots"
		cacheF = "abft.Store.cache.FrameRoots"
	)
	onField := func(field string, names ...string) func(*c05Frame, *core.CallSite) bool {
		return func(fr *c05Frame, cs *core.CallSite) bool {
			if cs.Recv() == nil {
				return false
			}
			okName := false
			for _, n := range names {
				if cs.Name == n {
					okName = true
				}
			}
			if !okName {
				return false
			}
			name, own := c05FieldIn(fr, cs.Recv())
			return own && name == field
		}
	}
	puts := c05Sites(root, depth, c04InAbft, onField(rootsT, kvPut))
	const lru = "utils/simplewlru.Cache."
	gets := c05Sites(root, depth, c04InAbft, onField(cacheF, lru+"Get", lru+"Remove", lru+"Peek", lru+"Contains"))
	adds := c05Sites(root, depth, c04InAbft, onField(cacheF, lru+"Add"))
	c.ExpectAtLeast("writes of a root record to the roots table in AddRoot", len(puts), 1)
	c.Need(len(puts) >= 1, "Store.AddRoot writes the root records to the roots table")

	chain := func(s c05Site) []*c05Frame {
		var out []*c05Frame
		for fr := s.Fr; fr != nil; fr = fr.Up {
			out = append([]*c05Frame{fr}, out...)
		}
		return out
	}
	// pointIn: the point of chain element i at which the site happens (the site, or the call towards it)
	pointIn := func(ch []*c05Frame, i int, s c05Site) core.Point {
		if i+1 < len(ch) {
			return ch[i+1].At.Pt
		}
		return s.CS.Pt
	}
	sameAct := func(a, b []*c05Frame, i int) bool {
		if i >= len(a) || i >= len(b) {
			return false
		}
		for k := 0; k <= i; k++ {
			if a[k].F != b[k].F || (k > 0 && a[k].At.Call != b[k].At.Call) {
				return false
			}
		}
		return true
	}
	for _, put := range puts {
		pch := chain(put)
		// the slot loop: the innermost loop around the write, looking outwards through the activations
		li, loop := -1, ast.Stmt(nil)
		for i := len(pch) - 1; i >= 0 && loop == nil; i-- {
			if l := enclosingLoop(pch[i].F, posOf(pointIn(pch, i, put))); l != nil {
				li, loop = i, l
			}
		}
		if loop == nil {
			c.Fail("every frame slot of a root refreshes the cached root list of its frame", "T7 Pairing per iteration (inlined view)", put.CS.Pos(), "the root record is not written in a loop over the frame slots: an event advancing several frames is a root of each of them")
			continue
		}
		lf := pch[li].F
		head, _ := lf.LoopOf(loop)
		ok, pos, why := true, put.CS.Pos(), ""
		fail := func(s string) {
			if ok {
				ok, why = false, s
			}
		}
		inLoop := func(s c05Site) ([]*c05Frame, bool) {
			ch := chain(s)
			if !sameAct(pch, ch, li) {
				return ch, false
			}
			pt := pointIn(ch, li, s)
			return ch, enclosingLoop(lf, posOf(pt)) == loop
		}
		var via []core.Point
		var consulted []c05Site
		for _, g := range gets {
			ch, in := inLoop(g)
			if !in {
				continue
			}
			// helpers between the loop's activation and the consultation perform it on each returning path
			always, pt := true, g.CS.Pt
			for i := len(ch) - 1; i > li; i-- {
				if _, skip := (core.PathQuery{F: ch[i].F, From: ch[i].F.Entry(), Avoid: core.PointSet(pt), TargetExit: true}).Find(); skip {
					always = false
				}
				pt = ch[i].At.Pt
			}
			if always {
				via = append(via, pointIn(ch, li, g))
				consulted = append(consulted, g)
			}
		}
		switch {
		case head == nil || len(head.Succs) == 0:
			fail("the slot loop has no recognisable head")
		case len(via) == 0:
			fail("the cached root list (cache.FrameRoots) is not consulted inside the loop over the frame slots in " + short(lf.Name))
			for _, g := range gets {
				pos = g.CS.Pos()
			}
		default:
			body := head.Succs[0]
			path, skip := core.PathQuery{F: lf, From: core.Point{B: body, I: 0}, Avoid: core.PointSet(via...), TargetBlock: func(b *cfg.Block) bool { return b == head }}.Find()
			if skip {
				fail("an iteration of the slot loop in " + short(lf.Name) + " can go on to the next frame slot without consulting the cached list of its frame (" + lf.DescribePath(path) + ")")
			}
		}
		if ok {
			// the refresh: made in the loop, under a consulted key
			nIn := 0
			for _, a := range adds {
				if _, in := inLoop(a); !in {
					pos = a.CS.Pos()
					fail("the cached root list is refreshed outside the loop over the frame slots (only one frame's list is updated)")
					continue
				}
				nIn++
				kfr, kx := a.Arg(0)
				match := false
				for _, g := range consulted {
					gfr, gx := g.Arg(0)
					if gx == nil || kx == nil || gfr.F != kfr.F {
						continue
					}
					if ast.Unparen(gx) == ast.Unparen(kx) {
						match = true
					} else if v := canonVar(kfr.F, varOf(kfr.F, kx)); v != nil && v == canonVar(gfr.F, varOf(gfr.F, gx)) {
						match = true
					}
				}
				if !match {
					pos = a.CS.Pos()
					fail("the cached root list is refreshed under another key than the one it was looked up with")
				}
			}
			removes := 0
			for _, g := range consulted {
				if methodNamed(g.CS.Name, "Remove") {
					removes++
				}
			}
			if nIn == 0 && removes == 0 {
				fail("the cached root list of the slot's frame is neither refreshed nor invalidated")
			}
		}
		c.Check(ok, "every frame slot of a root refreshes the cached root list of its frame", "T7 Pairing per iteration (inlined view)", pos,
			"each iteration of the slot loop writes the record and consults/refreshes cache.FrameRoots under one key",
			why+": a root record is written to the roots table for a frame whose cached list is not updated, so the quorum test of a later frame search (which reads the cached list) misses that root; Build then assigns a lower frame than allowed and Process rejects an allowed claimed frame, depending on cache state")
	}
}
