package rules

import (
	"fmt"
	"go/ast"
	"go/token"
	"go/types"
	"math/big"

	"lachk/core"
)

// c27Marker is a point at which "this was the last reference" becomes true: an assignment of true to
// the flag that enables the real close, or a return that yields true for it.
type c27Marker struct {
	f   *core.FuncInfo
	pt  core.Point
	pos token.Pos
}

// c27TrueSources finds where the boolean expression e (evaluated in g at point at) can get the value
// true: constants, variables (through all their definitions in g, including results of a module
// function assigned to them — then the callee's returns are searched). ok=false when some source
// cannot be classified (parameter, arbitrary expression).
func c27TrueSources(g *core.FuncInfo, e ast.Expr, at core.Point, pos token.Pos, depth int) (out []c27Marker, ok bool) {
	leaves, ok := c27Leaves(g, e, at, pos, depth)
	if !ok {
		return nil, false
	}
	for _, l := range leaves {
		switch {
		case l.e == nil: // zero value: false
		case c26IsTrue(l.f, l.e):
			out = append(out, c27Marker{l.f, l.pt, l.pos})
		default:
			if _, isConst := core.ConstVal(l.f.Info(), l.e); !isConst {
				return nil, false
			}
		}
	}
	return out, true
}

// c27Leaf is one origin of a value: an expression that is neither a variable with visible definitions
// nor a call of a module function (e == nil stands for the zero value of `var x T`), with the function
// and point at which it is evaluated.
type c27Leaf struct {
	f   *core.FuncInfo
	e   ast.Expr
	pt  core.Point
	pos token.Pos
}

// c27Leaves follows the expression e (evaluated in g at point at) back to its origins: through local
// variables (all their definitions in g) and through results of module functions (all their returns).
// ok=false when an origin is out of sight (parameter, captured variable, compound assignment).
func c27Leaves(g *core.FuncInfo, e ast.Expr, at core.Point, pos token.Pos, depth int) (out []c27Leaf, ok bool) {
	if depth > 4 || e == nil {
		return nil, false
	}
	e = ast.Unparen(e)
	if _, isConst := core.ConstVal(g.Info(), e); isConst {
		return []c27Leaf{{g, e, at, pos}}, true
	}
	switch x := e.(type) {
	case *ast.Ident:
		if v, _ := g.Info().ObjectOf(x).(*types.Var); v != nil {
			return c27LeavesOfVar(g, v, depth)
		}
	case *ast.CallExpr:
		if obj, _ := g.P.ResolveCallee(g.Info(), x); obj != nil {
			if fn, isFn := obj.(*types.Func); isFn && g.P.FuncOf(fn) != nil {
				return c27LeavesOfResult(g, x, 0, depth)
			}
		}
	}
	return []c27Leaf{{g, e, at, pos}}, true
}

func c27LeavesOfVar(g *core.FuncInfo, v *types.Var, depth int) (out []c27Leaf, ok bool) {
	// parameters carry values this analysis does not see
	for i := 0; ; i++ {
		pv := g.Param(i)
		if pv == nil {
			break
		}
		if pv == v {
			return nil, false
		}
	}
	// the variable must belong to g (a captured variable is written elsewhere too)
	if !(g.Body.Pos() <= v.Pos() && v.Pos() < g.Body.End()) && !c27IsResult(g, v) {
		return nil, false
	}
	for _, l := range allLits(g) {
		if len(assignsToVar(l, v)) > 0 {
			return nil, false
		}
	}
	ok = true
	for _, a := range assignsToVar(g, v) {
		switch s := a.Stmt.(type) {
		case *ast.ValueSpec:
			if a.RHS == nil {
				out = append(out, c27Leaf{g, nil, a.Pt, a.Stmt.Pos()}) // zero value
				continue
			}
			if len(s.Names) != len(s.Values) {
				return nil, false
			}
		case *ast.AssignStmt:
			if s.Tok != token.ASSIGN && s.Tok != token.DEFINE {
				return nil, false
			}
			if len(s.Lhs) != len(s.Rhs) {
				// v, err := h(…): result k of the callee
				call, isCall := ast.Unparen(s.Rhs[0]).(*ast.CallExpr)
				if !isCall || len(s.Rhs) != 1 {
					return nil, false
				}
				k := -1
				for i, l := range s.Lhs {
					if l == a.LHS {
						k = i
					}
				}
				if obj, _ := g.P.ResolveCallee(g.Info(), call); obj == nil || g.P.FuncOf(c27AsFunc(obj)) == nil {
					// call of an opaque function: the call itself is the origin
					out = append(out, c27Leaf{g, a.RHS, a.Pt, a.Stmt.Pos()})
					continue
				}
				ms, o := c27LeavesOfResult(g, call, k, depth)
				if !o {
					return nil, false
				}
				out = append(out, ms...)
				continue
			}
		default:
			return nil, false
		}
		ms, o := c27Leaves(g, a.RHS, a.Pt, a.Stmt.Pos(), depth+1)
		if !o {
			return nil, false
		}
		out = append(out, ms...)
	}
	return out, ok
}

func c27AsFunc(obj types.Object) *types.Func {
	fn, _ := obj.(*types.Func)
	return fn
}

// c27LeavesOfResult: the origins of result k of the called module function.
func c27LeavesOfResult(g *core.FuncInfo, call *ast.CallExpr, k int, depth int) (out []c27Leaf, ok bool) {
	obj, _ := g.P.ResolveCallee(g.Info(), call)
	fn, _ := obj.(*types.Func)
	h := g.P.FuncOf(fn)
	if h == nil || k < 0 {
		return nil, false
	}
	for _, rp := range h.ReturnPoints() {
		r := rp.Node().(*ast.ReturnStmt)
		var ms []c27Leaf
		var o bool
		switch {
		case k < len(r.Results):
			ms, o = c27Leaves(h, r.Results[k], rp, r.Pos(), depth+1)
		case len(r.Results) == 0:
			rv := c27ResultVar(h, k)
			if rv == nil {
				return nil, false
			}
			ms, o = c27LeavesOfVar(h, rv, depth+1)
		}
		if !o {
			return nil, false
		}
		out = append(out, ms...)
	}
	return out, true
}

func c27ResultVar(h *core.FuncInfo, k int) *types.Var {
	if h.Type.Results == nil {
		return nil
	}
	i := 0
	for _, fl := range h.Type.Results.List {
		for _, nm := range fl.Names {
			if i == k {
				v, _ := h.Info().Defs[nm].(*types.Var)
				return v
			}
			i++
		}
		if len(fl.Names) == 0 {
			i++
		}
	}
	return nil
}

func c27IsResult(h *core.FuncInfo, v *types.Var) bool {
	for k := 0; k < 8; k++ {
		if rv := c27ResultVar(h, k); rv != nil && rv == v {
			return true
		}
	}
	return false
}

// c27TouchesField: does f's own body index the named map field?
func c27TouchesField(f *core.FuncInfo, field string) bool {
	found := false
	f.InspectOwn(func(n ast.Node) bool {
		if ix, ok := n.(*ast.IndexExpr); ok && fieldNameOf(f, ix.X) == field {
			found = true
		}
		return !found
	})
	return found
}

// c27Close decides the close function of the cached store. The counter logic may live in the close
// function itself or in a module function it calls (then the error result must be propagated and the
// "last reference" result is followed into the helper's returns). The facts decided are the same in
// both layouts:
//
//	over-close reported      every exit that creates the error is reached only over the counter <= 0 edge
//	                         (and, with a helper, its error leaves the close function as an error);
//	real close conditional   the single call of the real close is reached only on the true edge of a flag
//	                         (or directly on counter == 1);
//	flag exactly on last     wherever that flag can become true (assignment, returned constant, result of
//	                         the helper) the point is reached only over counter == 1 and counter >= 1,
//	                         and both cache entries are deleted on every path through it;
//	other closes decrement   the value stored back is counter - 1 (counter-- then store, store of
//	                         counter - 1, or an in-place decrement), on the counter >= 2 edge.
func c27Close(c *core.Ctx, closeFn *core.FuncInfo, isRealClose func(*core.CallSite) bool, refc, opened string) {
	// where the counter logic lives
	g := closeFn
	var gCall *core.CallSite
	if !c27TouchesField(closeFn, refc) {
		g = nil
		n := 0
		for _, cs := range closeFn.Calls() {
			if fn, ok := cs.Callee.(*types.Func); ok {
				if h := c.P.FuncOf(fn); h != nil && c27TouchesField(h, refc) {
					g, gCall = h, cs
					n++
				}
			}
		}
		c.Need(g != nil && n == 1, "the close function, or one helper it calls, reads refCounter[name]")
	}
	// the counter tests of g in linear normal form (shared with the eviction clause: see c27Counter)
	kf := c27CounterOf(g, refc)
	counter, isCounterCell, namer, lin, isLast, isMore := kf.counter, kf.isCell, kf.namer, kf.lin, kf.isLast, kf.isMore
	where := short(g.Name)
	if g == closeFn {
		where = "CloseFn"
	}

	// error exits <=> counter <= 0
	nErr := 0
	for _, rp := range g.ReturnPoints() {
		r := rp.Node().(*ast.ReturnStmt)
		creates := false
		for _, res := range r.Results {
			if isCallTo(g, res, "errors.New", "fmt.Errorf") != nil {
				creates = true
			}
		}
		if !creates {
			continue
		}
		nErr++
		ok, _ := g.GuardedBy(rp, lin("counter <= 0"))
		c.Check(ok, "over-close reported", "T4 GuardedBy", posOf(rp), "the error is returned on the counter <= 0 edge", "the over-close error is not tied to counter <= 0")
	}
	c.ExpectAtLeast("error returns of "+where, nErr, 1)
	if gCall != nil {
		ev := errVarOfCall(closeFn, gCall.Call)
		okP, why := ev != nil, "the helper's error result is discarded"
		if okP {
			okP, why = rejectedWhen(closeFn, varNilFact(closeFn, ev, false), func(r *ast.ReturnStmt) bool {
				return len(r.Results) == 1 && !core.IsNil(closeFn.Info(), r.Results[0])
			})
		}
		c.Check(okP, "over-close error is propagated", "T8 DecisionTable", gCall.Pos(), "a non-nil error of "+short(g.Name)+" leads only to error returns of the close function", "closing more often than opening is not reported by Close: "+why)
	}

	// the real close: one site, conditional
	rc := closeFn.CallsMatching(isRealClose)
	c.Check(len(rc) == 1, "real close called at one site", "T6 WhoMayCall", closeFn.Pos(), "exactly one call of the real close", fmt.Sprintf("%d calls of the real close in CloseFn", len(rc)))
	delsPaired := func(f *core.FuncInfo, at core.Point, pos token.Pos) {
		for _, fld := range []string{refc, opened} {
			del := core.Points(f.CallsMatching(func(cs *core.CallSite) bool {
				return cs.Name == "builtin.delete" && len(cs.Call.Args) > 0 && fieldNameOf(f, cs.Call.Args[0]) == fld
			}))
			okD, _ := pairedWith(f, at, del)
			c.Check(okD, "last close forgets "+short(fld), "T7 Pairing", pos, "delete("+short(fld)+", name) is on every path through the last-close edge", "the last close does not delete "+short(fld)+"[name] (a later open would return a closed store)")
		}
	}
	if len(rc) == 1 {
		var flag *types.Var
		var flagExpr ast.Expr
		okG, _ := closeFn.GuardedBy(rc[0].Pt, func(ft core.Fact) bool {
			cm, ok := core.NormCmp(ft)
			if ok && cm.R == nil && cm.Op == token.EQL {
				if v := varOf(closeFn, cm.L); v != nil && v != counter {
					flag, flagExpr = v, cm.L
					return true
				}
			}
			return false
		})
		if !okG && g == closeFn {
			flag = nil
			okG, _ = isLast(rc[0].Pt)
		}
		c.Check(okG, "real close is conditional", "T4 GuardedBy", rc[0].Pos(), "the real close is reached only through a flag / counter test", "the real close is called unconditionally")
		switch {
		case flag != nil:
			marks, ok := c27TrueSources(closeFn, flagExpr, rc[0].Pt, rc[0].Pos(), 0)
			if !ok {
				c.Undecided("close flag has an unexpected definition", "T4 GuardedBy", rc[0].Pos(), "the flag guarding the real close gets a value that is neither a constant nor the last-reference result of the counter helper")
			}
			nSet := 0
			for _, m := range marks {
				nSet++
				if m.f != g {
					c.Fail("close flag set exactly on counter == 1", "T4 GuardedBy", m.pos, "the flag enabling the real close becomes true in "+short(m.f.Name)+", outside the function that tests the reference counter: the underlying database can be closed while references remain")
					continue
				}
				ok1, wit := isLast(m.pt)
				c.Check(ok1, "close flag set exactly on counter == 1", "T4 GuardedBy", m.pos, "the flag enabling the real close is set only on the counter == 1 edge (last reference)", "the underlying database can be closed while references remain: "+g.DescribePath(wit))
				delsPaired(g, m.pt, m.pos)
			}
			c.ExpectAtLeast("assignments enabling the real close", nSet, 1)
		case okG:
			// guarded by counter == 1 directly
			delsPaired(closeFn, rc[0].Pt, rc[0].Pos())
		}
	}

	// decrement otherwise: what is stored back is counter - 1, on the edge counter >= 2
	nDec := 0
	for _, a := range assignments(g) {
		if !isCounterCell(a.LHS) {
			continue
		}
		nDec++
		delta, okVal := big.NewInt(0), true
		switch a.Tok {
		case token.DEC:
			delta.SetInt64(-1)
		case token.ASSIGN, token.SUB_ASSIGN, token.ADD_ASSIGN:
			if a.RHS == nil {
				okVal = false
				break
			}
			l := core.Linearize(g.Info(), a.RHS, namer)
			switch a.Tok {
			case token.ASSIGN:
				k := l.Coef["counter"]
				okVal = len(l.Coef) == 1 && k != nil && k.Cmp(big.NewInt(1)) == 0
				delta.Set(l.C)
			case token.SUB_ASSIGN:
				okVal = len(l.Coef) == 0
				delta.Neg(l.C)
			case token.ADD_ASSIGN:
				okVal = len(l.Coef) == 0
				delta.Set(l.C)
			}
		default:
			okVal = false
		}
		// updates of the local copy that reach the store
		if counter != nil && a.Tok == token.ASSIGN {
			for _, d := range assignsToVar(g, counter) {
				if d.RHS != nil && isCounterCell(d.RHS) {
					continue // the read itself
				}
				if !g.CanReach(d.Pt, a.Pt) {
					continue
				}
				if dom, _ := g.MustPassBefore([]core.Point{d.Pt}, a.Pt); !dom || g.CanReach(d.Pt, d.Pt) {
					okVal = false
					continue
				}
				switch d.Tok {
				case token.DEC:
					delta.Sub(delta, big.NewInt(1))
				case token.INC:
					delta.Add(delta, big.NewInt(1))
				case token.SUB_ASSIGN, token.ADD_ASSIGN, token.ASSIGN:
					if d.RHS == nil {
						okVal = false
						break
					}
					l := core.Linearize(g.Info(), d.RHS, namer)
					switch {
					case d.Tok == token.ASSIGN && len(l.Coef) == 1 && l.Coef["counter"] != nil && l.Coef["counter"].Cmp(big.NewInt(1)) == 0:
						delta.Add(delta, l.C)
					case d.Tok == token.SUB_ASSIGN && len(l.Coef) == 0:
						delta.Sub(delta, l.C)
					case d.Tok == token.ADD_ASSIGN && len(l.Coef) == 0:
						delta.Add(delta, l.C)
					default:
						okVal = false
					}
				default:
					okVal = false
				}
			}
		}
		okVal = okVal && delta.Cmp(big.NewInt(-1)) == 0
		c.Check(okVal && isMore(a.Pt), "other closes decrement the counter", "T7 Pairing", a.Stmt.Pos(), "on the counter > 1 edge the counter is decremented by one and stored back", "the counter is not decremented by exactly one on the remaining-references edge")
	}
	c.ExpectAtLeast("counter write-backs in "+where, nDec, 1)
	// the tests above speak about the counter as read: the local copy is not changed before a test
	if counter != nil {
		for _, d := range assignsToVar(g, counter) {
			if d.RHS != nil && isCounterCell(d.RHS) {
				continue
			}
			for _, b := range g.CFG().Blocks {
				cond := g.BranchCond(b)
				if !b.Live || cond == nil || !mentionsObj(g, cond, counter) {
					continue
				}
				if g.CanReach(d.Pt, core.Point{B: b, I: len(b.Nodes) - 1}) {
					c.Fail("counter changed before it is tested", "T4 GuardedBy", d.Stmt.Pos(), "the local copy of the reference counter is modified before a test of it: the tests no longer speak about the stored count")
				}
			}
		}
	}
}

// (the split of openDB's executions by the outcome of the cache lookup is c27Effect.scenarios)
