package rules

import (
	"fmt"
	"go/ast"
	"go/token"
	"go/types"
	"sort"
	"strings"

	"lachk/core"
)

var _ = fmt.Sprint
var _ ast.Node
var _ token.Pos
var _ types.Object
var _ = sort.Strings
var _ = strings.TrimSpace

// c08site is one occurrence of an effect (a call of a named function) in a function f, possibly inside
// a helper: Chain[0] is the call in f, Chain[len-1] the call of the named function itself. A helper
// counts only when it performs the effect exactly once, on every returning path, and hands the
// effect's error on (returns the call, its error variable, or returns only after it succeeded) — so
// "the helper succeeded" means "the effect succeeded".
type c08site struct {
	Chain []*core.CallSite
}

func (s c08site) Outer() *core.CallSite { return s.Chain[0] }
func (s c08site) Inner() *core.CallSite { return s.Chain[len(s.Chain)-1] }

// c08sitesOf lists the occurrences of calls to `name` in f, looking into module helpers up to depth.
func c08sitesOf(f *core.FuncInfo, name string, depth int) []c08site {
	var out []c08site
	for _, cs := range f.Calls() {
		if cs.InGo || cs.InDefer {
			continue
		}
		if cs.Name == name {
			out = append(out, c08site{[]*core.CallSite{cs}})
			continue
		}
		if depth <= 0 {
			continue
		}
		fn, ok := cs.Callee.(*types.Func)
		if !ok {
			continue
		}
		g := f.P.FuncOf(fn)
		if g == nil || g == f {
			continue
		}
		inner := c08sitesOf(g, name, depth-1)
		if len(inner) != 1 {
			continue
		}
		in := inner[0].Outer()
		if _, skip := (core.PathQuery{F: g, From: g.Entry(), Avoid: core.PointSet(in.Pt), TargetExit: true}).Find(); skip {
			continue
		}
		if g.CanReach(in.Pt, in.Pt) {
			continue
		}
		ev := errVarOfCall(g, in.Call)
		hands := true
		rets := g.ReturnPoints()
		if !c08canFail(in) {
			// the effect has no error result: it cannot fail, so there is nothing to hand on — every
			// return of the helper (all of which follow the effect) is "the effect took place"
			rets = nil
		} else if !c08canFail(cs) {
			continue // the helper swallows the effect's error
		}
		for _, rp := range rets {
			r := rp.Node().(*ast.ReturnStmt)
			if len(r.Results) == 0 {
				hands = false
				break
			}
			last := ast.Unparen(r.Results[len(r.Results)-1])
			switch {
			case last == ast.Expr(in.Call):
			case ev != nil && varOf(g, last) == ev:
			case afterSuccess(g, in, rp):
			default:
				hands = false
			}
		}
		if !hands {
			continue
		}
		out = append(out, c08site{append([]*core.CallSite{cs}, inner[0].Chain...)})
	}
	return out
}

// c08canFail: can the call report a failure, i.e. does its callee have a result of type error? A call
// whose callee is not a declared function (a function value) is taken to be fallible.
func c08canFail(cs *core.CallSite) bool {
	if cs == nil {
		return true
	}
	fn, ok := cs.Callee.(*types.Func)
	if !ok {
		return true
	}
	sig, ok := fn.Type().(*types.Signature)
	if !ok {
		return true
	}
	errT := types.Universe.Lookup("error").Type()
	for i := 0; i < sig.Results().Len(); i++ {
		if types.Identical(sig.Results().At(i).Type(), errT) {
			return true
		}
	}
	return false
}

// c08after: the point `to` is reached only after the effect `call` took place: after it returned a nil
// error when it can fail (afterSuccess), after it returned at all when it has no error result (a step
// that cannot fail needs no check at the call site).
func c08after(f *core.FuncInfo, call *core.CallSite, to core.Point) bool {
	if c08canFail(call) {
		return afterSuccess(f, call, to)
	}
	if call.InGo || call.InDefer {
		return false
	}
	ok, _ := f.MustPassBefore([]core.Point{call.Pt}, to)
	return ok
}

// c08arg resolves argument i of the innermost call of a site to an expression of some function on the
// chain: a helper's parameter passed on unchanged is replaced by the caller's argument.
func c08arg(s c08site, i int) (*core.FuncInfo, ast.Expr) {
	k := len(s.Chain) - 1
	if i >= len(s.Chain[k].Call.Args) {
		return nil, nil
	}
	e := s.Chain[k].Call.Args[i]
	for k > 0 {
		g := s.Chain[k].F
		v := varOf(g, e)
		if v == nil || len(assignsToVar(g, v)) != 0 {
			break
		}
		pi := c24paramIndex(g, v)
		if pi < 0 || pi >= len(s.Chain[k-1].Call.Args) {
			break
		}
		k--
		e = s.Chain[k].Call.Args[pi]
	}
	return s.Chain[k].F, e
}

// c08Roots: what a restarted instance replays are the roots it reads back from the epoch database.
// Restart invisibility therefore needs the root registry to return exactly what was registered
// (property C33): its obligations are shared here.
func c08Roots(c *core.Ctx) {
	r, ok := Registry["C33"]
	if !ok {
		c.Clause("C08.roots", func() { c.Undecided("C33 rules", "shared", 0, "the root-registry rules (C33) are not available") })
		return
	}
	sub := core.NewCtx(c.P, c.Prop, c.Tier)
	r.Run(sub)
	c.Merge("C08.roots(shared with C33)/", sub)
}
