package rules

import (
	"fmt"
	"go/ast"
	"go/token"
	"go/types"
	"sort"
	"strings"

	"lachk/core"
)

var _ = fmt.Sprint
var _ ast.Node
var _ token.Pos
var _ types.Object
var _ = sort.Strings
var _ = strings.TrimSpace

// c08Roots: what a restarted instance replays are the roots it reads back from the epoch database.
// Restart invisibility therefore needs the root registry to return exactly what was registered
// (property C33): its obligations are shared here.
func c08Roots(c *core.Ctx) {
	r, ok := Registry["C33"]
	if !ok {
		c.Clause("C08.roots", func() { c.Undecided("C33 rules", "shared", 0, "the root-registry rules (C33) are not available") })
		return
	}
	sub := core.NewCtx(c.P, c.Prop, c.Tier)
	r.Run(sub)
	c.Merge("C08.roots(shared with C33)/", sub)
}
