package rules

import (
	"go/types"

	"lachk/core"
)

// c25Pool decides the write ordering of SyncedPool.flush on the phase view of c25_phase.go.
func c25Pool(c *core.Ctx) {
	f := c.Fn(poolT + ".flush")
	idParam := f.Param(0)
	c.Need(idParam != nil, "flush(id) has a named flush ID parameter")
	env := c25Env{idParam: "id"}
	const depth = 2

	// every flush mark written by flush (or a helper of it) uses the pool's key, the given ID and a known prefix
	isMark := func(h *core.FuncInfo, henv c25Env, cs *core.CallSite) bool { return cs.Name == c25MarkF }
	marks := c25MaySites(f, env, isMark, depth)
	var cleanSites []c25Site
	nDirty := 0
	for _, m := range marks {
		c.Need(len(m.Inner.Call.Args) == 4, "MarkFlushID(db, key, prefix, id)")
		a := m.Inner.Call.Args
		okArgs := c25Role(m.G, m.Env, a[1]) == "key" && c25Role(m.G, m.Env, a[3]) == "id"
		c.Check(okArgs, "mark uses the pool's key and the flush ID", "provenance", m.Inner.Pos(), "MarkFlushID(db, p.flushIDKey, ·, id)", "a flush mark is written with a different key or ID")
		// the mark must be on disk when MarkFlushID returns: it is put into the underlying database (the
		// value InitUnderlyingDb() yields), not into a flushable wrapper whose Put only buffers it
		kind := c25StoreKind(m.G, m.Env, a[0], 3)
		whyStore := "the database argument cannot be traced to the wrapper's InitUnderlyingDb() result"
		if kind == c25Buffered {
			whyStore = "the database argument is a flushable store (" + types.TypeString(m.G.Info().TypeOf(a[0]), func(p *types.Package) string { return p.Name() }) + "), whose Put only buffers the pair in the overlay"
		}
		c.Check(kind == c25Raw, "flush marks are written to the underlying database", "provenance", m.Inner.Pos(),
			"the mark is put into the store returned by InitUnderlyingDb() (durable when the call returns)",
			"in "+short(m.G.Name)+" a flush mark is not written to the underlying database: "+whyStore+"; the mark reaches the disk only with a later data batch, so after a crash between a drop (or a batch chunk) and that write the databases still show the previous clean flush ID")
		switch c25Role(m.G, m.Env, a[2]) {
		case c25Dirty:
			nDirty++
		case c25Clean:
			cleanSites = append(cleanSites, m)
		default:
			c.Undecided("mark prefix", "T2", m.Inner.Pos(), "MarkFlushID with a prefix that is neither DirtyPrefix nor CleanPrefix")
		}
	}
	c.Need(nDirty >= 1 && len(cleanSites) >= 1, "flush writes dirty marks and clean marks (itself or in a helper it calls)")

	// the three phases: complete iterations over p.wrappers (inline or inside a helper)
	dirty := c25Phases(f, env, c25Dirty, depth)
	flushed := c25Phases(f, env, c25Flush, depth)
	clean := c25Phases(f, env, c25Clean, depth)
	c.Check(len(dirty) >= 1 && len(flushed) >= 1 && len(clean) >= 1, "the three phases range over the same map", "T16b SiblingAgreement", f.Pos(),
		"the dirty-mark, flush and clean-mark phases are all iterations over p.wrappers", "flush lacks a dirty-mark, a flush or a clean-mark iteration over p.wrappers (marks written with the pool's key and the flush ID): the phases do not all cover the pool map")
	c.Need(len(dirty) >= 1 && len(flushed) >= 1 && len(clean) >= 1, "dirty-mark, flush and clean-mark iterations over p.wrappers")
	for _, ph := range dirty {
		okC, okE := true, true
		for _, l := range ph.leaves() {
			okC = okC && l.Complete
			okE = okE && l.Every && l.Err
		}
		if ph.Call != nil && !ph.Covers {
			okC = false
		}
		c.Check(okC, "dirty-mark loop is complete", "T2 (loop)", ph.Pos(), "the dirty phase ends only after ranging over every database (no break; a helper reports success only after its complete loop)", "the dirty-mark loop can be left early: some databases stay unmarked")
		c.Check(okE, "every iteration writes the dirty mark", "T2 (loop)", ph.Pos(), "no path through the loop body reaches the next iteration without MarkFlushID(Dirty)", "an iteration of the dirty-mark loop can skip a database")
	}

	// durable mutations: dropping a database, flushing a database (also when made inside a helper)
	isMut := func(h *core.FuncInfo, henv c25Env, cs *core.CallSite) bool {
		return cs.Name == "kvdb.Droper.Drop" || methodNamed(cs.Name, "Drop") || methodNamed(cs.Name, "RealDrop") || c25IsUnit(h, henv, cs, c25Flush)
	}
	muts := c25MaySites(f, env, isMut, depth)
	c.ExpectAtLeast("durable mutations in flush (Drop, Flush)", len(muts), 2)
	for _, m := range muts {
		ok, wit := c25AnyBefore(dirty, m.CS.Pt)
		what := "database drop"
		if methodNamed(m.Inner.Name, "Flush") {
			what = "data flush"
		}
		path := "path " + f.DescribePath(wit)
		if wit == nil {
			path = "the dirty-mark phase does not certainly cover every database, or its successful end does not dominate this call"
		}
		c.Check(ok, what+" after all dirty marks", "T2 Dominates (loop exit)", m.CS.Pos(),
			"the end of the complete dirty-mark phase dominates this "+what,
			"this "+what+" ("+short(m.Inner.Name)+") can run before every pooled database carries the dirty mark: a crash right after it leaves databases that still show the previous clean flush ID although the set of databases/contents has changed; "+path)
	}

	// every clean mark is written after the complete flush phase
	for _, m := range cleanSites {
		ok, wit := c25AnyBefore(flushed, m.CS.Pt)
		c.Check(ok, "clean marks after all flushes", "T2 Dominates (loop exit)", m.CS.Pos(), "the end of the complete flush phase dominates the clean marks", "a clean mark can be written before every database was flushed: "+f.DescribePath(wit))
	}

	// no change of the map between the dirty phase and the end
	isDel := func(h *core.FuncInfo, henv c25Env, cs *core.CallSite) bool {
		return cs.Name == "builtin.delete" && len(cs.Call.Args) == 2 && fieldNameOf(h, cs.Call.Args[0]) == poolT+".wrappers"
	}
	for _, d := range c25MaySites(f, env, isDel, depth) {
		reach := false
		for _, ph := range dirty {
			if ph.Reaches(d.CS.Pt) {
				reach = true
			}
		}
		c.Check(!reach, "pool map not changed after the dirty phase", "T2", d.CS.Pos(), "delete(p.wrappers,·) happens before the dirty-mark phase only", "the pool map is modified after databases were marked dirty")
	}

	// success is reported only after the complete clean phase
	okFinal, nRet := true, 0
	for _, rp := range c25SucceedingReturns(f) {
		nRet++
		if ok, _ := c25AnyBefore(clean, rp); !ok {
			okFinal = false
		}
	}
	c.Check(okFinal && nRet > 0, "success only after all clean marks", "T2 Dominates (loop exit)", f.Pos(), "flush reports success only after the complete clean-mark phase", "flush can report success before every database carries the clean mark")

	// Flush() entry point: holds the pool mutex and the flushing lock, calls flush(id) with its own id
	ent := c.Fn(poolT + ".Flush")
	okEnt := false
	for _, cs := range ent.CallsTo(poolT + ".flush") {
		okEnt = len(cs.Call.Args) == 1 && canonVar(ent, varOf(ent, cs.Call.Args[0])) == ent.Param(0)
	}
	c.Check(okEnt, "Flush(id) runs flush(id)", "provenance", ent.Pos(), "the exported Flush passes its ID to flush", "Flush does not pass its ID to flush")
}
