package rules

import (
	"go/ast"
	"go/token"
	"go/types"

	"lachk/core"
)

const semT = "utils/datasemaphore.DataSemaphore"

func init() {
	register("C30", "other", "T1 LockSet, T18 TimedWait, T4 GuardedBy (normalised comparisons), T3 PostDominates (Broadcast after every state change), reaching definitions with linear normal forms (Release)",
		"Decides the shape the semaphore's bound/wait/timeout behaviour depends on: all state under the mutex; tryAcquire commits the new held amount only on the edge where both components fit the capacity; Acquire refuses over-capacity requests before waiting, re-evaluates tryAcquire, the capacity refusal (Terminate zeroes the capacity while callers sleep) and the deadline after every wake-up, and every cond.Wait is preceded by a deadline-bound waker that broadcasts under the mutex (otherwise a waiter that nobody releases for sleeps past its timeout) and that has not been cancelled since without a new one being armed; every change of the held amount or capacity in Release/Terminate is followed by Broadcast; Terminate zeroes the capacity. tryAcquire returns false only over an edge establishing that a component does not fit, its capacity test must not be written with a non-constant unsigned subtraction (`capacity - held` wraps once Terminate zeroed the capacity while an amount is held, so a non-empty request would be granted after termination), and TryAcquire returns tryAcquire's result. Release (inlined view, reaching definitions, linear normal forms, path queries; no code is interpreted or executed): every definition that can reach a store into the held amount is held - released, defined only on paths that established released <= held for both components, or the zero value, reaching the store only over an edge establishing held < released for some component; every path stores both components; the warning callback is called only on such an edge and only when non-nil, not after a store and not twice, and every path that has not established released <= held passes the call or the warning == nil edge. When the new amount is computed by a helper with a boolean result, or stored by a helper, tryAcquire is decided the same way (c30_acquire_value.go: reaching definitions classified held + request / held, guards on the way to the helper's return or to the store, a boolean local defined from a helper call standing for the returns of the helper that give its value). The capacity re-check after a wake-up must read the live field: a copy of it taken where the woken caller does not pass again has no role. Timing ('returns shortly after') and uint32 wrap of summed amounts are not decided.",
		[]string{"amounts sum below 2^32 (uint32 wrap in tmp.Num += is not analysed)", "time.AfterFunc runs its function once after the duration (time package contract)"},
		runC30)
}

func runC30(c *core.Ctx) {
	p := c.P
	c.Clause("C30.lock", func() {
		res := c28RunLockset(p, semaphoreLockSpec())
		reportLockset(c, res, nil, nil)
		c28FieldFloors(c, res, semaphoreLockSpec())
	})

	c.Clause("C30.tryAcquire", func() {
		f := c.Fn(semT + ".tryAcquire")
		as := assignsToField(f, semT+".processing")
		if len(as) == 0 {
			inPlace := false
			for _, a := range assignments(f) {
				if _, path := fieldPath(f, a.LHS); len(path) == 2 && path[0] == semT+".processing" {
					inPlace = true
				}
			}
			if inPlace {
				// no wholesale commit: the request is added to the components of processing in place
				c30TryAcquireInPlace(c, f)
			} else {
				// the store lives in a function tryAcquire calls
				c30TryAcquireValue(c, f)
			}
			return
		}
		for _, a := range as {
			// the committed value is not a local of tryAcquire built in place (tmp := processing; tmp.X += req.X)
			// but the result of a helper, or an expression: decided by reaching definitions on the inlined view
			tmp := varOf(f, a.RHS)
			_, _, _, fromCall := c30CallDef(f, tmp)
			if tmp == nil || fromCall || !c30IsLocalOf(f, tmp) {
				c30TryAcquireValue(c, f)
				return
			}
		}
		param := f.Param(0)
		c.Need(param != nil, "tryAcquire has a named metric parameter")
		// every commit owes the obligations (there may be one, or one per branch)
		for _, a := range as {
			tmp := varOf(f, a.RHS)
			c.Need(tmp != nil, "processing is assigned from a local variable")
			// provenance of tmp: starts as s.processing, then += param.Num / param.Size
			okInit := false
			added := map[string]bool{}
			for _, d := range assignments(f) {
				if root, path := fieldPath(f, d.LHS); len(path) == 1 && varOf(f, root) == tmp && d.Tok == token.ADD_ASSIGN {
					r2, p2 := fieldPath(f, d.RHS)
					if len(p2) == 1 && p2[0] == path[0] && varOf(f, r2) == param {
						if ok, _ := f.MustPassBefore([]core.Point{d.Pt}, a.Pt); ok {
							added[path[0]] = true
						}
					}
				}
				if varOf(f, d.LHS) == tmp && d.RHS != nil && fieldNameOf(f, d.RHS) == semT+".processing" {
					okInit = true
				}
			}
			c.Check(okInit && added["inter/dag.Metric.Num"] && added["inter/dag.Metric.Size"], "tmp=processing+request", "provenance", a.Stmt.Pos(),
				"the committed value is processing with the request's Num and Size added on every path", "the value stored into processing is not processing + request (Num and Size)")
			// guard: tmp.X <= max.X for both components
			name := func(acc c30Access) string {
				if len(acc.Path) == 1 && acc.Root == tmp {
					return "new." + short(acc.Path[0])
				}
				if len(acc.Path) == 2 && acc.Path[0] == semT+".maxProcessing" {
					return "max." + short(acc.Path[1])
				}
				return ""
			}
			for _, comp := range []string{"Metric.Num", "Metric.Size"} {
				ok, path := c30Guarded(f, a.Pt, "new."+comp+" - max."+comp+" <= 0", name)
				c.Check(ok, "commit guarded by "+comp+"<=max", "T4 GuardedBy", a.Stmt.Pos(),
					"processing is updated only on the edge where new."+comp+" <= max."+comp,
					"processing can be updated without new."+comp+" <= max."+comp+" having been established: path "+f.DescribePath(path)+c30WrapHint(f))
			}
		}
		// success result only after a commit
		for _, rp := range returnsWith(f, 0, func(e ast.Expr) bool { return isIdentNamed(e, "true") }) {
			ok, path := f.MustPassBefore(pointsOfAssign(as), rp)
			c.Check(ok, "true only after commit", "T2 Dominates", posOf(rp), "returns true only after committing", "returns true without committing: "+f.DescribePath(path))
		}
		// a fitting request is granted: false is returned only over an edge establishing new.X > max.X
		tmps := map[*types.Var]bool{}
		for _, a := range as {
			tmps[varOf(f, a.RHS)] = true
		}
		c30Refusals(c, f, func(comp string) []string { return []string{"max." + comp + " - new." + comp + " + 1 <= 0"} }, func(acc c30Access) string {
			if len(acc.Path) == 1 && acc.Root != nil && tmps[acc.Root] {
				return "new." + short(acc.Path[0])
			}
			if len(acc.Path) == 2 && acc.Path[0] == semT+".maxProcessing" {
				return "max." + short(acc.Path[1])
			}
			return ""
		})
	})

	c.Clause("C30.try", func() {
		c30Delegates(c)
	})

	c.Clause("C30.acquire", func() {
		f := c.Fn(semT + ".Acquire")
		waits := f.CallsTo("sync.Cond.Wait")
		c.Need(len(waits) >= 1, "Acquire waits on a sync.Cond")
		c.ExpectAtLeast("cond.Wait sites in Acquire", len(waits), 1)
		tryCalls := f.CallsTo(semT + ".tryAcquire")
		c.Need(len(tryCalls) >= 1, "Acquire calls tryAcquire")
		weight := f.Param(0)
		for _, w := range waits {
			// (1) after every wake-up tryAcquire is re-evaluated before the next wait or a true return
			ok, path := f.MustPassBetween(w.Pt, core.Points(tryCalls), w.Pt)
			c.Check(ok, "re-evaluate tryAcquire after wake", "T2 Dominates (loop)", w.Pos(), "every path from Wait back to Wait passes tryAcquire", "a path from Wait back to Wait skips tryAcquire: "+f.DescribePath(path))
			// (2) capacity refusal: the wait is reachable only when the request fits the capacity
			// (the comparison may be written in Acquire or in a boolean helper it calls)
			name := func(acc c30Access) string {
				if len(acc.Path) == 1 && acc.Root != nil && acc.Root == weight {
					return "req." + short(acc.Path[0])
				}
				if len(acc.Path) == 2 && acc.Path[0] == semT+".maxProcessing" {
					return "max." + short(acc.Path[1])
				}
				return ""
			}
			for _, comp := range []string{"Metric.Num", "Metric.Size"} {
				ok, path := c30Guarded(f, w.Pt, "req."+comp+" - max."+comp+" <= 0", name)
				c.Check(ok, "no wait for over-capacity "+comp, "T4 GuardedBy", w.Pos(),
					"Wait is reached only when req."+comp+" <= max."+comp+" (larger requests are refused)",
					"Wait reachable with req."+comp+" > max."+comp+": "+f.DescribePath(path))
				// (2b) the capacity can change while the caller sleeps (Terminate zeroes it and broadcasts): the
				// refusal must be re-evaluated after every wake-up, i.e. every path from Wait back to Wait
				// re-establishes req <= max. A test made once before the loop lets a caller that was blocked
				// when Terminate ran go back to sleep until its own timeout.
				// The test must read the live capacity: a local copy of it (or of one of its components) taken
				// where the woken caller does not pass again (limit := s.maxProcessing before the loop) still
				// holds the capacity from before Terminate, so a test against it re-establishes nothing.
				okR, pathR := c30GuardedBetweenSc(&c30Scope{F: f, Stale: c30StaleAcross(f, w.Pt)}, w.Pt, w.Pt, "req."+comp+" - max."+comp+" <= 0", name)
				c.Check(okR, "capacity re-checked after wake "+comp, "T4 GuardedBy (loop)", w.Pos(),
					"every path from Wait back to Wait re-establishes req."+comp+" <= max."+comp+" (a caller woken by Terminate, which zeroes the capacity, is refused instead of waiting again)",
					"a woken caller can wait again without re-testing req."+comp+" <= max."+comp+": a caller blocked when Terminate zeroes the capacity sleeps until its own timeout: "+f.DescribePath(pathR))
			}
			checkTimedWait(c, f, w)
		}
		// true is returned only after a successful tryAcquire
		for _, rp := range returnsWith(f, 0, func(e ast.Expr) bool { return isIdentNamed(e, "true") }) {
			ok, path := f.GuardedBy(rp, func(ft core.Fact) bool {
				return ft.Truth && isCallTo(f, ft.Expr, semT+".tryAcquire") != nil
			})
			c.Check(ok, "true only after tryAcquire", "T4 GuardedBy", posOf(rp), "Acquire returns true only on the edge where tryAcquire succeeded", "Acquire can return true without a successful tryAcquire: "+f.DescribePath(path))
		}
	})

	c.Clause("C30.broadcast", func() {
		for _, name := range []string{"Release", "Terminate"} {
			f := c.Fn(semT + "." + name)
			// a Broadcast made by a helper that always broadcasts counts as a Broadcast
			bc := f.SitesMust(func(cs *core.CallSite) bool { return cs.Name == "sync.Cond.Broadcast" }, 2)
			n := 0
			for _, fld := range []string{".processing", ".maxProcessing"} {
				// a state change made by a helper counts as a state change at the helper's call site
				for _, ch := range c30StateChanges(f, semT+fld, 2) {
					n++
					ok, wit := f.MustPassAfter(ch.Pt, bc)
					c.Check(ok, name+"|"+short(semT+fld), "T3 PostDominates", ch.Pos,
						"every path from this state change to return passes cond.Broadcast",
						"state change can reach return without Broadcast (waiters are not woken): "+f.DescribePath(wit))
				}
			}
			// the obligation is owed by every store, however many there are (one per component and branch, or
			// a single store of a value computed on a local copy): the floor only guards against vacuity
			c.ExpectAtLeast("state changes in "+name, n, 1)
		}
	})

	c30ReleaseClauses(c)
}
