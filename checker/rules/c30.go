package rules

import (
	"go/ast"
	"go/token"

	"lachk/core"
)

const semT = "utils/datasemaphore.DataSemaphore"

func init() {
	register("C30", "other", "T1 LockSet, T18 TimedWait, T4 GuardedBy (normalised comparisons), T3 PostDominates (Broadcast after every state change)",
		"Decides the shape the semaphore's bound/wait/timeout behaviour depends on: all state under the mutex; tryAcquire commits the new held amount only on the edge where both components fit the capacity; Acquire refuses over-capacity requests before waiting, re-evaluates tryAcquire, the capacity refusal (Terminate zeroes the capacity while callers sleep) and the deadline after every wake-up, and every cond.Wait is preceded by a deadline-bound waker that broadcasts under the mutex (otherwise a waiter that nobody releases for sleeps past its timeout); every change of the held amount or capacity in Release/Terminate is followed by Broadcast; over-release zeroes the held amount and calls the nil-guarded warning; Terminate zeroes the capacity. Timing ('returns shortly after') and uint32 wrap of summed amounts are not decided.",
		[]string{"amounts sum below 2^32 (uint32 wrap in tmp.Num += is not analysed)", "time.AfterFunc runs its function once after the duration (time package contract)"},
		runC30)
}

func runC30(c *core.Ctx) {
	p := c.P
	c.Clause("C30.lock", func() {
		res := core.RunLockset(p, semaphoreLockSpec())
		n := reportLockset(c, res, nil, nil)
		c.ExpectAtLeast("semaphore (function,field) access groups", n, 8)
	})

	c.Clause("C30.tryAcquire", func() {
		f := c.Fn(semT + ".tryAcquire")
		as := assignsToField(f, semT+".processing")
		if len(as) == 0 {
			// no wholesale commit: the request is added to the components of processing in place
			c30TryAcquireInPlace(c, f)
			return
		}
		c.Need(len(as) == 1, "exactly one assignment to processing in tryAcquire")
		a := as[0]
		tmp := varOf(f, a.RHS)
		c.Need(tmp != nil, "processing is assigned from a local variable")
		param := f.Param(0)
		c.Need(param != nil, "tryAcquire has a named metric parameter")
		// provenance of tmp: starts as s.processing, then += param.Num / param.Size
		okInit := false
		added := map[string]bool{}
		for _, d := range assignments(f) {
			if root, path := fieldPath(f, d.LHS); len(path) == 1 && varOf(f, root) == tmp && d.Tok == token.ADD_ASSIGN {
				r2, p2 := fieldPath(f, d.RHS)
				if len(p2) == 1 && p2[0] == path[0] && varOf(f, r2) == param {
					if ok, _ := f.MustPassBefore([]core.Point{d.Pt}, a.Pt); ok {
						added[path[0]] = true
					}
				}
			}
			if varOf(f, d.LHS) == tmp && d.RHS != nil && fieldNameOf(f, d.RHS) == semT+".processing" {
				okInit = true
			}
		}
		c.Check(okInit && added["inter/dag.Metric.Num"] && added["inter/dag.Metric.Size"], "tmp=processing+request", "provenance", a.Stmt.Pos(),
			"the committed value is processing with the request's Num and Size added on every path", "the value stored into processing is not processing + request (Num and Size)")
		// guard: tmp.X <= max.X for both components
		name := func(acc c30Access) string {
			if len(acc.Path) == 1 && acc.Root == tmp {
				return "new." + short(acc.Path[0])
			}
			if len(acc.Path) == 2 && acc.Path[0] == semT+".maxProcessing" {
				return "max." + short(acc.Path[1])
			}
			return ""
		}
		for _, comp := range []string{"Metric.Num", "Metric.Size"} {
			ok, path := c30Guarded(f, a.Pt, "new."+comp+" - max."+comp+" <= 0", name)
			c.Check(ok, "commit guarded by "+comp+"<=max", "T4 GuardedBy", a.Stmt.Pos(),
				"processing is updated only on the edge where new."+comp+" <= max."+comp,
				"processing can be updated without new."+comp+" <= max."+comp+" having been established: path "+f.DescribePath(path))
		}
		// success result only after commit
		for _, rp := range returnsWith(f, 0, func(e ast.Expr) bool { return isIdentNamed(e, "true") }) {
			ok, path := f.MustPassBefore([]core.Point{a.Pt}, rp)
			c.Check(ok, "true only after commit", "T2 Dominates", posOf(rp), "returns true only after committing", "returns true without committing: "+f.DescribePath(path))
		}
	})

	c.Clause("C30.acquire", func() {
		f := c.Fn(semT + ".Acquire")
		waits := f.CallsTo("sync.Cond.Wait")
		c.Need(len(waits) >= 1, "Acquire waits on a sync.Cond")
		c.ExpectAtLeast("cond.Wait sites in Acquire", len(waits), 1)
		tryCalls := f.CallsTo(semT + ".tryAcquire")
		c.Need(len(tryCalls) >= 1, "Acquire calls tryAcquire")
		weight := f.Param(0)
		for _, w := range waits {
			// (1) after every wake-up tryAcquire is re-evaluated before the next wait or a true return
			ok, path := f.MustPassBetween(w.Pt, core.Points(tryCalls), w.Pt)
			c.Check(ok, "re-evaluate tryAcquire after wake", "T2 Dominates (loop)", w.Pos(), "every path from Wait back to Wait passes tryAcquire", "a path from Wait back to Wait skips tryAcquire: "+f.DescribePath(path))
			// (2) capacity refusal: the wait is reachable only when the request fits the capacity
			// (the comparison may be written in Acquire or in a boolean helper it calls)
			name := func(acc c30Access) string {
				if len(acc.Path) == 1 && acc.Root != nil && acc.Root == weight {
					return "req." + short(acc.Path[0])
				}
				if len(acc.Path) == 2 && acc.Path[0] == semT+".maxProcessing" {
					return "max." + short(acc.Path[1])
				}
				return ""
			}
			for _, comp := range []string{"Metric.Num", "Metric.Size"} {
				ok, path := c30Guarded(f, w.Pt, "req."+comp+" - max."+comp+" <= 0", name)
				c.Check(ok, "no wait for over-capacity "+comp, "T4 GuardedBy", w.Pos(),
					"Wait is reached only when req."+comp+" <= max."+comp+" (larger requests are refused)",
					"Wait reachable with req."+comp+" > max."+comp+": "+f.DescribePath(path))
				// (2b) the capacity can change while the caller sleeps (Terminate zeroes it and broadcasts): the
				// refusal must be re-evaluated after every wake-up, i.e. every path from Wait back to Wait
				// re-establishes req <= max. A test made once before the loop lets a caller that was blocked
				// when Terminate ran go back to sleep until its own timeout.
				okR, pathR := c30GuardedBetween(f, w.Pt, w.Pt, "req."+comp+" - max."+comp+" <= 0", name)
				c.Check(okR, "capacity re-checked after wake "+comp, "T4 GuardedBy (loop)", w.Pos(),
					"every path from Wait back to Wait re-establishes req."+comp+" <= max."+comp+" (a caller woken by Terminate, which zeroes the capacity, is refused instead of waiting again)",
					"a woken caller can wait again without re-testing req."+comp+" <= max."+comp+": a caller blocked when Terminate zeroes the capacity sleeps until its own timeout: "+f.DescribePath(pathR))
			}
			checkTimedWait(c, f, w)
		}
		// true is returned only after a successful tryAcquire
		for _, rp := range returnsWith(f, 0, func(e ast.Expr) bool { return isIdentNamed(e, "true") }) {
			ok, path := f.GuardedBy(rp, func(ft core.Fact) bool {
				return ft.Truth && isCallTo(f, ft.Expr, semT+".tryAcquire") != nil
			})
			c.Check(ok, "true only after tryAcquire", "T4 GuardedBy", posOf(rp), "Acquire returns true only on the edge where tryAcquire succeeded", "Acquire can return true without a successful tryAcquire: "+f.DescribePath(path))
		}
	})

	c.Clause("C30.broadcast", func() {
		n := 0
		for _, name := range []string{"Release", "Terminate"} {
			f := c.Fn(semT + "." + name)
			// a Broadcast made by a helper that always broadcasts counts as a Broadcast
			bc := f.SitesMust(func(cs *core.CallSite) bool { return cs.Name == "sync.Cond.Broadcast" }, 2)
			for _, fld := range []string{".processing", ".maxProcessing"} {
				// a state change made by a helper counts as a state change at the helper's call site
				for _, ch := range c30StateChanges(f, semT+fld, 2) {
					n++
					ok, wit := f.MustPassAfter(ch.Pt, bc)
					c.Check(ok, name+"|"+short(semT+fld), "T3 PostDominates", ch.Pos,
						"every path from this state change to return passes cond.Broadcast",
						"state change can reach return without Broadcast (waiters are not woken): "+f.DescribePath(wit))
				}
			}
		}
		c.ExpectAtLeast("state changes in Release/Terminate", n, 4)
	})

	c30ReleaseClauses(c)
}
