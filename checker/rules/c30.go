package rules

import (
	"fmt"
	"go/ast"
	"go/token"
	"go/types"

	"lachk/core"
)

const semT = "utils/datasemaphore.DataSemaphore"

func init() {
	register("C30", "other", "T1 LockSet, T18 TimedWait, T4 GuardedBy (normalised comparisons), T3 PostDominates (Broadcast after every state change)",
		"Decides the shape the semaphore's bound/wait/timeout behaviour depends on: all state under the mutex; tryAcquire commits the new held amount only on the edge where both components fit the capacity; Acquire refuses over-capacity requests before waiting, re-evaluates tryAcquire and the deadline after every wake-up, and every cond.Wait is preceded by a deadline-bound waker that broadcasts under the mutex (otherwise a waiter that nobody releases for sleeps past its timeout); every change of the held amount or capacity in Release/Terminate is followed by Broadcast; over-release zeroes the held amount and calls the nil-guarded warning; Terminate zeroes the capacity. Timing ('returns shortly after') and uint32 wrap of summed amounts are not decided.",
		[]string{"amounts sum below 2^32 (uint32 wrap in tmp.Num += is not analysed)", "time.AfterFunc runs its function once after the duration (time package contract)"},
		runC30)
}

func runC30(c *core.Ctx) {
	p := c.P
	c.Clause("C30.lock", func() {
		res := core.RunLockset(p, semaphoreLockSpec())
		n := reportLockset(c, res, nil, nil)
		c.ExpectAtLeast("semaphore (function,field) access groups", n, 8)
	})

	c.Clause("C30.tryAcquire", func() {
		f := c.Fn(semT + ".tryAcquire")
		as := assignsToField(f, semT+".processing")
		if len(as) == 0 {
			// no wholesale commit: the request is added to the components of processing in place
			c30TryAcquireInPlace(c, f)
			return
		}
		c.Need(len(as) == 1, "exactly one assignment to processing in tryAcquire")
		a := as[0]
		tmp := varOf(f, a.RHS)
		c.Need(tmp != nil, "processing is assigned from a local variable")
		param := f.Param(0)
		c.Need(param != nil, "tryAcquire has a named metric parameter")
		// provenance of tmp: starts as s.processing, then += param.Num / param.Size
		okInit := false
		added := map[string]bool{}
		for _, d := range assignments(f) {
			if root, path := fieldPath(f, d.LHS); len(path) == 1 && varOf(f, root) == tmp && d.Tok == token.ADD_ASSIGN {
				r2, p2 := fieldPath(f, d.RHS)
				if len(p2) == 1 && p2[0] == path[0] && varOf(f, r2) == param {
					if ok, _ := f.MustPassBefore([]core.Point{d.Pt}, a.Pt); ok {
						added[path[0]] = true
					}
				}
			}
			if varOf(f, d.LHS) == tmp && d.RHS != nil && fieldNameOf(f, d.RHS) == semT+".processing" {
				okInit = true
			}
		}
		c.Check(okInit && added["inter/dag.Metric.Num"] && added["inter/dag.Metric.Size"], "tmp=processing+request", "provenance", a.Stmt.Pos(),
			"the committed value is processing with the request's Num and Size added on every path", "the value stored into processing is not processing + request (Num and Size)")
		// guard: tmp.X <= max.X for both components
		name := func(acc c30Access) string {
			if len(acc.Path) == 1 && acc.Root == tmp {
				return "new." + short(acc.Path[0])
			}
			if len(acc.Path) == 2 && acc.Path[0] == semT+".maxProcessing" {
				return "max." + short(acc.Path[1])
			}
			return ""
		}
		for _, comp := range []string{"Metric.Num", "Metric.Size"} {
			ok, path := c30Guarded(f, a.Pt, "new."+comp+" - max."+comp+" <= 0", name)
			c.Check(ok, "commit guarded by "+comp+"<=max", "T4 GuardedBy", a.Stmt.Pos(),
				"processing is updated only on the edge where new."+comp+" <= max."+comp,
				"processing can be updated without new."+comp+" <= max."+comp+" having been established: path "+f.DescribePath(path))
		}
		// success result only after commit
		for _, rp := range returnsWith(f, 0, func(e ast.Expr) bool { return isIdentNamed(e, "true") }) {
			ok, path := f.MustPassBefore([]core.Point{a.Pt}, rp)
			c.Check(ok, "true only after commit", "T2 Dominates", posOf(rp), "returns true only after committing", "returns true without committing: "+f.DescribePath(path))
		}
	})

	c.Clause("C30.acquire", func() {
		f := c.Fn(semT + ".Acquire")
		waits := f.CallsTo("sync.Cond.Wait")
		c.Need(len(waits) >= 1, "Acquire waits on a sync.Cond")
		c.ExpectAtLeast("cond.Wait sites in Acquire", len(waits), 1)
		tryCalls := f.CallsTo(semT + ".tryAcquire")
		c.Need(len(tryCalls) >= 1, "Acquire calls tryAcquire")
		weight := f.Param(0)
		for _, w := range waits {
			// (1) after every wake-up tryAcquire is re-evaluated before the next wait or a true return
			ok, path := f.MustPassBetween(w.Pt, core.Points(tryCalls), w.Pt)
			c.Check(ok, "re-evaluate tryAcquire after wake", "T2 Dominates (loop)", w.Pos(), "every path from Wait back to Wait passes tryAcquire", "a path from Wait back to Wait skips tryAcquire: "+f.DescribePath(path))
			// (2) capacity refusal: the wait is reachable only when the request fits the capacity
			// (the comparison may be written in Acquire or in a boolean helper it calls)
			name := func(acc c30Access) string {
				if len(acc.Path) == 1 && acc.Root != nil && acc.Root == weight {
					return "req." + short(acc.Path[0])
				}
				if len(acc.Path) == 2 && acc.Path[0] == semT+".maxProcessing" {
					return "max." + short(acc.Path[1])
				}
				return ""
			}
			for _, comp := range []string{"Metric.Num", "Metric.Size"} {
				ok, path := c30Guarded(f, w.Pt, "req."+comp+" - max."+comp+" <= 0", name)
				c.Check(ok, "no wait for over-capacity "+comp, "T4 GuardedBy", w.Pos(),
					"Wait is reached only when req."+comp+" <= max."+comp+" (larger requests are refused)",
					"Wait reachable with req."+comp+" > max."+comp+": "+f.DescribePath(path))
			}
			checkTimedWait(c, f, w)
		}
		// true is returned only after a successful tryAcquire
		for _, rp := range returnsWith(f, 0, func(e ast.Expr) bool { return isIdentNamed(e, "true") }) {
			ok, path := f.GuardedBy(rp, func(ft core.Fact) bool {
				return ft.Truth && isCallTo(f, ft.Expr, semT+".tryAcquire") != nil
			})
			c.Check(ok, "true only after tryAcquire", "T4 GuardedBy", posOf(rp), "Acquire returns true only on the edge where tryAcquire succeeded", "Acquire can return true without a successful tryAcquire: "+f.DescribePath(path))
		}
	})

	c.Clause("C30.broadcast", func() {
		n := 0
		for _, name := range []string{"Release", "Terminate"} {
			f := c.Fn(semT + "." + name)
			// a Broadcast made by a helper that always broadcasts counts as a Broadcast
			bc := f.SitesMust(func(cs *core.CallSite) bool { return cs.Name == "sync.Cond.Broadcast" }, 2)
			for _, fld := range []string{".processing", ".maxProcessing"} {
				// a state change made by a helper counts as a state change at the helper's call site
				for _, ch := range c30StateChanges(f, semT+fld, 2) {
					n++
					ok, wit := f.MustPassAfter(ch.Pt, bc)
					c.Check(ok, name+"|"+short(semT+fld), "T3 PostDominates", ch.Pos,
						"every path from this state change to return passes cond.Broadcast",
						"state change can reach return without Broadcast (waiters are not woken): "+f.DescribePath(wit))
				}
			}
		}
		c.ExpectAtLeast("state changes in Release/Terminate", n, 4)
	})

	c.Clause("C30.overrelease", func() {
		f := c.Fn(semT + ".Release")
		weight := f.Param(0)
		name := func(acc c30Access) string {
			if len(acc.Path) == 1 && acc.Root != nil && acc.Root == weight {
				return "rel." + short(acc.Path[0])
			}
			if len(acc.Path) == 2 && acc.Path[0] == semT+".processing" {
				return "held." + short(acc.Path[1])
			}
			return ""
		}
		// the subtraction happens only when held >= released for both components
		nSub := 0
		for _, a := range assignments(f) {
			_, path := fieldPath(f, a.LHS)
			if len(path) != 2 || path[0] != semT+".processing" || a.Tok != token.SUB_ASSIGN {
				continue
			}
			nSub++
			for _, comp := range []string{"Metric.Num", "Metric.Size"} {
				ok, wit := c30Guarded(f, a.Pt, "rel."+comp+" - held."+comp+" <= 0", name)
				c.Check(ok, "subtract "+short(path[1])+" guarded by "+comp, "T4 GuardedBy", a.Stmt.Pos(), "held amount is reduced only when held."+comp+" >= released."+comp, "subtraction reachable with held."+comp+" < released."+comp+" (would wrap): "+f.DescribePath(wit))
			}
		}
		c.ExpectAtLeast("subtractions in Release", nSub, 2)
		// over-release edge: processing zeroed, warning nil-guarded
		var zero []assignment
		for _, a := range assignsToField(f, semT+".processing") {
			if cl, ok := ast.Unparen(a.RHS).(*ast.CompositeLit); ok && len(cl.Elts) == 0 {
				zero = append(zero, a)
			}
		}
		c.Check(len(zero) == 1, "over-release zeroes held", "T7 Pairing", f.Pos(), "the over-release branch resets processing to the zero Metric", "no assignment of the zero Metric to processing in Release")
		warn := f.CallsTo(semT + ".warning")
		c.Check(len(warn) == 1, "over-release reported", "T7 Pairing", f.Pos(), "the warning callback is invoked on the over-release branch", "warning callback is not invoked exactly once in Release")
		if len(zero) == 1 && len(warn) == 1 {
			ok, wit := f.GuardedBy(warn[0].Pt, func(ft core.Fact) bool {
				cm, ok := core.NormCmp(ft)
				return ok && cm.Op == token.NEQ && fieldNameOf(f, cm.L) == semT+".warning" && core.IsNil(f.Info(), cm.R)
			})
			c.Check(ok, "warning nil-guarded", "T4 GuardedBy", warn[0].Pos(), "warning is called only when non-nil", "warning may be called when nil: "+f.DescribePath(wit))
			okZ, _ := c30Guarded(f, zero[0].Pt, "rel.Metric.Num - held.Metric.Num <= 0", name)
			c.Check(!okZ, "zeroing not on the fits edge", "T4 GuardedBy", zero[0].Stmt.Pos(), "the reset is not taken on the edge where the release fits", "processing is reset on the edge where the release fits the held amount")
		}
	})

	c.Clause("C30.terminate", func() {
		f := c.Fn(semT + ".Terminate")
		var zero []assignment
		for _, a := range assignsToField(f, semT+".maxProcessing") {
			if cl, ok := ast.Unparen(a.RHS).(*ast.CompositeLit); ok && len(cl.Elts) == 0 {
				zero = append(zero, a)
			}
		}
		ok := len(zero) == 1
		for _, rp := range f.ReturnPoints() {
			if ok {
				ok, _ = f.MustPassBefore([]core.Point{zero[0].Pt}, rp)
			}
		}
		c.Check(ok, "Terminate zeroes capacity", "T2 Dominates", f.Pos(), "maxProcessing is set to the zero Metric on every path (every later non-empty request exceeds it and is refused)", "Terminate does not zero maxProcessing on every path")
	})
}

// checkTimedWait is T18: the cond.Wait w in f (which has a time.Duration parameter) needs a
// deadline-bound waker armed before it, broadcasting under the mutex, and the deadline must be
// re-checked between consecutive waits.
func checkTimedWait(c *core.Ctx, f *core.FuncInfo, w *core.CallSite) {
	condField := fieldNameOf(f, w.Recv())
	if condField == "" {
		c.Undecided("T18|cond", "T18 TimedWait", w.Pos(), "cannot identify the condition variable of Wait")
		return
	}
	// candidate wakers: time.AfterFunc(d, fn) whose fn broadcasts/signals on the same cond
	type waker struct {
		site *core.CallSite
		fn   *core.FuncInfo
	}
	var wakers []waker
	var why []string
	for _, cs := range f.CallsTo("time.AfterFunc") {
		fn := litArg(f, cs.Call, 1)
		if fn == nil {
			why = append(why, "AfterFunc callback at "+c.P.Pos(cs.Pos())+" is not a function literal")
			continue
		}
		var bc []*core.CallSite
		for _, b := range fn.CallsTo("sync.Cond.Broadcast", "sync.Cond.Signal") {
			if fieldNameOf(fn, b.Recv()) == condField {
				bc = append(bc, b)
			}
		}
		if len(bc) == 0 {
			why = append(why, "AfterFunc callback at "+c.P.Pos(cs.Pos())+" does not wake "+short(condField))
			continue
		}
		// on all paths of the callback
		if ok, _ := fn.MustPassBefore(core.Points(bc), fn.ReturnPoints()[0]); !ok && len(fn.ReturnPoints()) == 1 {
			why = append(why, "AfterFunc callback does not broadcast on every path")
			continue
		}
		// under the mutex: a Lock call precedes the broadcast (no lost wake-up between the deadline check and Wait)
		locks := fn.CallsTo("sync.Mutex.Lock", "sync.RWMutex.Lock", "sync.Locker.Lock")
		lockedOK := len(locks) > 0
		for _, b := range bc {
			if ok, _ := fn.MustPassBefore(core.Points(locks), b.Pt); !ok {
				lockedOK = false
			}
		}
		if !lockedOK {
			why = append(why, "AfterFunc callback broadcasts without holding the mutex (wake-up can be lost between the deadline check and Wait)")
			continue
		}
		wakers = append(wakers, waker{cs, fn})
	}
	if len(wakers) == 0 {
		detail := "cond.Wait has no deadline-bound waker: if nothing is released, the caller blocks past its timeout"
		for _, y := range why {
			detail += "; " + y
		}
		c.Fail("T18|Acquire|waker armed before Wait", "T18 TimedWait", w.Pos(), detail)
		return
	}
	// armed before the wait: every path entry -> Wait passes an arming call, or an edge that proves the
	// timer variable (assigned only from arming calls) is non-nil
	var armPts []core.Point
	timerVars := map[*types.Var]bool{}
	for _, wk := range wakers {
		armPts = append(armPts, wk.site.Pt)
		for _, a := range assignments(f) {
			if a.RHS != nil && ast.Unparen(a.RHS) == ast.Expr(wk.site.Call) {
				if v := varOf(f, a.LHS); v != nil {
					timerVars[v] = true
				}
			}
		}
	}
	for v := range timerVars {
		for _, a := range assignsToVar(f, v) {
			if a.RHS == nil {
				continue
			}
			if call, ok := ast.Unparen(a.RHS).(*ast.CallExpr); ok && calleeName(f, call) == "time.AfterFunc" {
				continue
			}
			if core.IsNil(f.Info(), a.RHS) {
				continue
			}
			delete(timerVars, v)
		}
	}
	armedEdge := f.GuardEdges(func(ft core.Fact) bool {
		cm, ok := core.NormCmp(ft)
		if !ok || cm.R == nil || cm.Op != token.NEQ {
			return false
		}
		return timerVars[varOf(f, cm.L)] && core.IsNil(f.Info(), cm.R)
	})
	path, found := core.PathQuery{F: f, From: f.Entry(), Target: core.PointSet(w.Pt), Avoid: core.PointSet(armPts...), AvoidEdge: armedEdge}.Find()
	c.Check(!found, "T18|Acquire|waker armed before Wait", "T18 TimedWait", w.Pos(),
		fmt.Sprintf("every path to cond.Wait arms a time.AfterFunc waker that broadcasts on %s under the mutex", short(condField)),
		"cond.Wait reachable without the deadline waker armed: "+f.DescribePath(path))
	// deadline re-checked between waits: a branch mentioning time.Now/Since/Until or a variable the waker writes
	wakerVars := map[types.Object]bool{}
	for _, wk := range wakers {
		for _, a := range assignments(wk.fn) {
			if v := varOf(wk.fn, a.LHS); v != nil {
				wakerVars[v] = true
			}
		}
	}
	dl := condPoints(f, func(e ast.Expr) bool {
		if c30MayCall(f, e, 2, "time.Now", "time.Since", "time.Until") {
			return true
		}
		for v := range wakerVars {
			if mentionsObj(f, e, v) {
				return true
			}
		}
		return false
	})
	ok, wit := f.MustPassBetween(w.Pt, dl, w.Pt)
	c.Check(ok && len(dl) > 0, "T18|Acquire|deadline re-checked after wake", "T18 TimedWait", w.Pos(),
		"every path from Wait back to Wait passes a deadline test", "a path from Wait back to Wait skips the deadline test: "+f.DescribePath(wit))
}
