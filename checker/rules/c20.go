package rules

import (
	"go/ast"
	"go/constant"
	"go/token"
	"go/types"
	"math/big"
	"sort"
	"strings"

	"golang.org/x/tools/go/cfg"

	"lachk/core"
)

// C20 — quorum indexer (emitter/ancestor/quorum_indexer.go, utils/wmedian/median.go).
// Uses the c19-prefixed helpers of c19.go (single-definition provenance, use audit, disjunction-aware edges).

const (
	c20QiT     = c19AncPkg + ".QuorumIndexer"
	c20Dirty   = c20QiT + ".dirty"
	c20Matrix  = c20QiT + ".globalMatrix"
	c20Self    = c20QiT + ".selfParentSeqs"
	c20Medians = c20QiT + ".globalMedianSeqs"
	c20Strat   = c20QiT + ".searchStrategy"
	c20Vals    = c20QiT + ".validators"
	c20Dagi    = c20QiT + ".dagi"
	c20DiffFn  = c20QiT + ".diffMetricFn"
	c20Recache = c20QiT + ".recacheState"
	c20ValLen  = "inter/pos.Validators.Len"
	c20SeqOf   = c19AncPkg + ".seqOf"
	c20VecGet  = "abft/dagidx.HighestBeforeSeq.Get"
	c20VecOf   = "abft/dagidx.VectorClock.GetMergedHighestBefore"
	c20Row     = c19AncPkg + ".Matrix.Row"
	c20WSeq    = c19AncPkg + ".weightedSeq"
)

var c20Derived = map[string]bool{c20Medians: true, c20Strat: true}

func init() {
	register("C20", "other", "T7 Pairing (dirty flag), T4 GuardedBy, T6 WhoMayWrite, T2 Dominates (loop exit), AST provenance of index roles, T15 ConstRelation (go/constant), normalised comparators, polynomial normal form for Matrix.Row",
		"Decides the shape the indexer's medians and metrics depend on. Dirty flag: every store into a source field of QuorumIndexer (globalMatrix, selfParentSeqs, validators, dagi, diffMetricFn; directly, through Matrix.Row, through a local alias or copy()) is followed by dirty = true on every path to return; the derived fields globalMedianSeqs and searchStrategy are written only by recacheState (the rebuilding method is located by its effect: the method of the indexer that clears dirty; it may be idempotent, i.e. return at once over the dirty == false edge, and may be named differently); a store made by a private accessor method of the indexer (unexported, never a method value, called only on the caller's receiver) counts as a store at each of its call sites; every read of them elsewhere is reached only after recacheState ran (directly, or inside a helper method called on the same receiver whose every path to return runs recacheState or takes the dirty == false edge and does not dirty the state afterwards — an extracted `if h.dirty { h.recacheState() }`) or over the dirty == false edge, also after any dirtying statement of the same function; dirty is cleared only in recacheState, as its last effect, after the complete loop that stores a median for every validator index 0..validators.Len()-1 and after searchStrategy was replaced by a MetricStrategy over a fresh MetricFnCache of the indexer's own GetMetricOf (the cache handed over as its bound GetMetricOf or as the object itself, through NewMetricStrategy, a literal or any constructor whose every return builds the strategy over its parameter); the constructor starts dirty. Index roles: ProcessEvent writes globalMatrix.Row(x)[y] = seqOf(vecClock.Get(x)) for every validator index x (full counted loop), with vecClock = dagi.GetMergedHighestBefore(event.ID()) and y = validators.GetIdx(event.Creator()), and selfParentSeqs[x] gets the same value only under the selfEvent parameter (either store may be made through a setter method whose only effect is that indexed store of its parameters); no return of ProcessEvent is reached without the complete store loop (every processed event overwrites its creator's column: latest processed event); Matrix.Row(i) is buffer[i*columns:(i+1)*columns] (polynomial identity) and NewMatrix sizes the buffer rows*cols; recacheState pairs Row(subject)[i] (read in place or through a getter method returning that element of its parameters) with GetWeightByIdx(i) for the same observer i over all observers, sorts by seq strictly descending, takes wmedian.Of(pairs, validators.Quorum()) of the freshly filled and sorted slice and stores its seq at globalMedianSeqs[subject]; wmedian.Of visits its values in slice order from the first (range, or for i := 0; i < len(values); i++), accumulates the current element's Weight() from zero and returns the current element exactly on the first accumulated weight >= stop, nothing else returns; the per-subject median computation, the store of the median, the strategy replacement and dirty = true may each live in a private helper method called on the same receiver (provenance is decided on the inlined view: a helper's parameters stand for the caller's argument expressions, so the helper may be handed the loop index, the subject's row globalMatrix.Row(subject) or validators.Len() read once into a local, and the comparison function may be a literal in place or one returned by a constructor that is handed the slice and only indexes it; neither recacheState nor the helper writes globalMatrix or validators; a helper counts as the store/assignment it performs on every path, and derived state may be written by a helper only if all its call sites are in recacheState); weightedSeq.Weight returns its weight field. seqOf returns Seq() unless IsForkDetected(), then the constant MaxUint32/2-1 = 2^31-2, and go/constant confirms sentinel >= K-1 where K is the constant of basiccheck's `Seq >= K` rejection (K = MaxInt32-1, so admissible Seq <= 2^31-3 < sentinel). GetMetricOf sums (from zero, += over the full validator loop) diffMetricFn called with, under the parameter names of DiffMetricFn, median = globalMedianSeqs[i], current = selfParentSeqs[i], update = seqOf(dagi.GetMergedHighestBefore(id).Get(i)), validatorIdx = i. NOT decided: numeric equality of the stored median with the definition over all inputs (it follows from the decided shape by the descending-prefix argument, which is not machine-checked), overflow of the Metric sum, staleness of a SearchStrategy value kept by a caller across ProcessEvent, mutation of the slices handed out by GetGlobalMatrix/GetSelfParentSeqs/GetGlobalMedianSeqs by callers, and that vecClock sequences of processed events respect the basiccheck bound (assumed).",
		[]string{"only events accepted by eventcheck/basiccheck reach ProcessEvent (C13 bound on Seq)", "sort.Slice sorts by the given less function; pos.Validators.Quorum/GetIdx/GetWeightByIdx/Len are as documented (C11/C12)",
			"callers do not write through the slices returned by the indexer's getters", "the indexer is used from one goroutine"},
		runC20)
}

// ---------------------------------------------------------------------------
// helpers

// c20Walk strips index/slice/star/assert/field/method-call layers from e and reports the struct fields
// passed on the way (innermost last) and the root variable.
func c20Walk(f *core.FuncInfo, e ast.Expr) (fields []string, root *types.Var) {
	for i := 0; i < 32; i++ {
		e = core.StripConv(f.Info(), e)
		switch x := e.(type) {
		case *ast.IndexExpr:
			e = x.X
		case *ast.SliceExpr:
			e = x.X
		case *ast.StarExpr:
			e = x.X
		case *ast.TypeAssertExpr:
			e = x.X
		case *ast.UnaryExpr:
			if x.Op != token.AND {
				return
			}
			e = x.X
		case *ast.SelectorExpr:
			fn := fieldNameOf(f, x)
			if fn == "" {
				return
			}
			fields = append(fields, fn)
			e = x.X
		case *ast.CallExpr:
			sel, ok := ast.Unparen(x.Fun).(*ast.SelectorExpr)
			if !ok {
				return
			}
			if s, ok := f.Info().Selections[sel]; !ok || s.Kind() != types.MethodVal {
				return
			}
			e = sel.X
		case *ast.Ident:
			root = varOf(f, x)
			return
		default:
			return
		}
	}
	return
}

// c20QIField returns the QuorumIndexer field (if any) an expression is rooted in, following local aliases once.
func c20QIField(f *core.FuncInfo, e ast.Expr, depth int) string {
	fields, root := c20Walk(f, e)
	for _, fn := range fields {
		if strings.HasPrefix(fn, c20QiT+".") {
			return fn
		}
	}
	if root == nil || depth > 2 || root == f.Recv() {
		return ""
	}
	if b, ok := root.Type().Underlying().(*types.Basic); ok && b.Kind() != types.UnsafePointer {
		return ""
	}
	for _, a := range assignsToVar(f, root) {
		if a.RHS != nil {
			if fn := c20QIField(f, a.RHS, depth+1); fn != "" {
				return fn
			}
		}
	}
	return ""
}

type c20Store struct {
	Field string
	Pt    core.Point
	Pos   token.Pos
	Whole bool // the field itself is assigned (h.f = v), not something inside it
}

// c20Stores lists the statements of f that store into (or through) a QuorumIndexer field.
func c20Stores(f *core.FuncInfo) []c20Store {
	var out []c20Store
	for _, a := range assignments(f) {
		if id, ok := ast.Unparen(a.LHS).(*ast.Ident); ok && id != nil {
			continue // plain local variable (aliases are handled when stored through)
		}
		if fn := c20QIField(f, a.LHS, 0); fn != "" {
			out = append(out, c20Store{Field: fn, Pt: a.Pt, Pos: a.Stmt.Pos(), Whole: fieldNameOf(f, a.LHS) == fn})
		}
	}
	for _, cs := range f.CallsTo("builtin.copy") {
		if len(cs.Call.Args) == 2 {
			if fn := c20QIField(f, cs.Call.Args[0], 0); fn != "" {
				out = append(out, c20Store{Field: fn, Pt: cs.Pt, Pos: cs.Pos()})
			}
		}
	}
	return out
}

// c20BoolFact: the fact says field == want.
func c20BoolFact(f *core.FuncInfo, field string, want bool) func(core.Fact) bool {
	return func(ft core.Fact) bool {
		cm, ok := core.NormCmp(ft)
		if !ok || (cm.Op != token.EQL && cm.Op != token.NEQ) {
			return false
		}
		l, r := cm.L, cm.R
		if r != nil && fieldNameOf(f, r) == field {
			l, r = r, l
		}
		if fieldNameOf(f, l) != field {
			return false
		}
		val := true
		if r != nil {
			cv, ok := core.ConstVal(f.Info(), r)
			if !ok || cv.Kind() != constant.Bool {
				return false
			}
			val = constant.BoolVal(cv)
		}
		if cm.Op == token.NEQ {
			val = !val
		}
		return val == want
	}
}

func c20ConstBool(f *core.FuncInfo, e ast.Expr, want bool) bool {
	cv, ok := core.ConstVal(f.Info(), e)
	return ok && cv.Kind() == constant.Bool && constant.BoolVal(cv) == want
}

// c20PkgFuncs: all functions and literals of emitter/ancestor.
func c20PkgFuncs(p *core.Prog) []*core.FuncInfo {
	var out []*core.FuncInfo
	for _, f := range p.Funcs() {
		if core.RelPkg(f.Pkg.PkgPath) == c19AncPkg {
			out = append(out, f)
		}
	}
	return out
}

// c20IsValLen: e is <recv>.validators.Len().
func c20IsValLen(f *core.FuncInfo, e ast.Expr) bool {
	call := isCallTo(f, core.StripConv(f.Info(), e), c20ValLen)
	if call == nil {
		return false
	}
	sel, ok := ast.Unparen(call.Fun).(*ast.SelectorExpr)
	return ok && fieldNameOf(f, sel.X) == c20Vals
}

// c20FullLoop checks that loop is `for i := 0; i < n; i++` in normalised form: i counted from 0 by 1, the body
// entered only over i < n, the exit taken only over i >= n and only from the loop test (no break).
func c20FullLoop(f *core.FuncInfo, loop *ast.ForStmt, isN func(ast.Expr) bool) (ctr *types.Var, ok bool) {
	if loop == nil || loop.Post == nil || loop.Cond == nil {
		return nil, false
	}
	inc, isInc := loop.Post.(*ast.IncDecStmt)
	if !isInc {
		return nil, false
	}
	ctr = varOf(f, inc.X)
	if !c19IsCounterOf(f, ctr, loop) {
		return nil, false
	}
	head, _ := f.LoopOf(loop)
	_, complete := loopDone(f, loop)
	if head == nil || !complete || len(head.Succs) != 2 {
		return nil, false
	}
	namer := func(e ast.Expr) string {
		if varOf(f, e) == ctr {
			return "i"
		}
		if isN(e) {
			return "n"
		}
		return ""
	}
	in := c19Edges(f, c19LinMatch(f, namer, "i - n + 1 <= 0"))
	outE := c19Edges(f, c19LinMatch(f, namer, "n - i <= 0"))
	return ctr, in(head, 0) && outE(head, 1)
}

// c20LoopsOf lists the for statements of f's own body.
func c20ForLoops(f *core.FuncInfo) []*ast.ForStmt {
	var out []*ast.ForStmt
	f.InspectOwn(func(n ast.Node) bool {
		if fs, ok := n.(*ast.ForStmt); ok {
			out = append(out, fs)
		}
		return true
	})
	return out
}

// c20EveryIteration: every path through the loop body (entry of the body to the next test or exit) passes pt.
func c20EveryIteration(f *core.FuncInfo, loop ast.Stmt, pt core.Point) bool {
	head, done := f.LoopOf(loop)
	if head == nil || len(head.Succs) == 0 {
		return false
	}
	_, skip := core.PathQuery{F: f, From: core.Point{B: head.Succs[0], I: 0}, Target: func(p core.Point) bool { return p.B == head || p.B == done }, Avoid: core.PointSet(pt), TargetExit: true}.Find()
	return !skip
}

// c20VarAt names the variable an index-like expression denotes, looking through conversions and through
// locals defined once as (a conversion of) another variable: observer := idx.Validator(i) denotes i.
func c20VarAt(f *core.FuncInfo, e ast.Expr) *types.Var {
	for i := 0; i < 4; i++ {
		v := varOf(f, core.StripConv(f.Info(), e))
		if v == nil {
			return nil
		}
		d, ok := c19SingleDef(f, v)
		if !ok || varOf(f, core.StripConv(f.Info(), d.RHS)) == nil {
			return v
		}
		if enclosingLoop(f, d.Stmt.Pos()) != enclosingLoop(f, e.Pos()) {
			return v // defined in another loop nest: the source variable may have advanced since
		}
		if okDom, _ := f.MustPassBefore([]core.Point{d.Pt}, func() core.Point { pt, _ := f.PointOf(e); return pt }()); !okDom {
			return v
		}
		e = d.RHS
	}
	return nil
}

// c20RecvField: e is <receiver>.<field> (canonical field name).
func c20RecvField(f *core.FuncInfo, e ast.Expr, field string) bool {
	sel, ok := core.StripConv(f.Info(), e).(*ast.SelectorExpr)
	return ok && fieldNameOf(f, sel) == field && varOf(f, sel.X) != nil && varOf(f, sel.X) == f.Recv()
}

// c20FieldAt: e resolves to <receiver>.<field>[ix].
func c20FieldAt(f *core.FuncInfo, e ast.Expr, use core.Point, field string, ix *types.Var) bool {
	x, ok := c19Resolve(f, e, use).(*ast.IndexExpr)
	return ok && c20RecvField(f, x.X, field) && ix != nil && c20VarAt(f, x.Index) == ix
}

// c20SeqOfVec: e resolves to seqOf(V.Get(ix)) with V defined once as <receiver>.dagi.GetMergedHighestBefore(arg), isArg(arg).
func c20SeqOfVec(f *core.FuncInfo, e ast.Expr, use core.Point, ix *types.Var, isArg func(ast.Expr) bool) bool {
	call := isCallTo(f, c19Resolve(f, e, use), c20SeqOf)
	if call == nil || len(call.Args) != 1 {
		return false
	}
	get := isCallTo(f, c19Resolve(f, call.Args[0], use), c20VecGet)
	if get == nil || len(get.Args) != 1 || ix == nil || c20VarAt(f, get.Args[0]) != ix {
		return false
	}
	sel, ok := ast.Unparen(get.Fun).(*ast.SelectorExpr)
	if !ok {
		return false
	}
	vec := isCallTo(f, c19Resolve(f, sel.X, use), c20VecOf)
	if vec == nil || len(vec.Args) != 1 {
		return false
	}
	vsel, ok := ast.Unparen(vec.Fun).(*ast.SelectorExpr)
	return ok && c20RecvField(f, vsel.X, c20Dagi) && isArg(vec.Args[0])
}

// ---------------------------------------------------------------------------
// polynomial normal form (for Matrix.Row): sum of coef * product of atoms

type c20Poly map[string]*big.Int

func c20PolyOf(f *core.FuncInfo, e ast.Expr, namer func(ast.Expr) string) (c20Poly, bool) {
	e = core.StripConv(f.Info(), e)
	if cv, ok := core.ConstVal(f.Info(), e); ok {
		if iv := constant.ToInt(cv); iv.Kind() == constant.Int {
			b, ok := new(big.Int).SetString(iv.ExactString(), 10)
			if ok {
				return c20Poly{"": b}, true
			}
		}
	}
	if be, ok := e.(*ast.BinaryExpr); ok {
		l, ok1 := c20PolyOf(f, be.X, namer)
		r, ok2 := c20PolyOf(f, be.Y, namer)
		if !ok1 || !ok2 {
			return nil, false
		}
		out := c20Poly{}
		switch be.Op {
		case token.ADD, token.SUB:
			for k, v := range l {
				out[k] = new(big.Int).Set(v)
			}
			for k, v := range r {
				if out[k] == nil {
					out[k] = new(big.Int)
				}
				if be.Op == token.ADD {
					out[k].Add(out[k], v)
				} else {
					out[k].Sub(out[k], v)
				}
			}
		case token.MUL:
			for k1, v1 := range l {
				for k2, v2 := range r {
					var atoms []string
					for _, k := range []string{k1, k2} {
						if k != "" {
							atoms = append(atoms, strings.Split(k, "*")...)
						}
					}
					sort.Strings(atoms)
					k := strings.Join(atoms, "*")
					if out[k] == nil {
						out[k] = new(big.Int)
					}
					out[k].Add(out[k], new(big.Int).Mul(v1, v2))
				}
			}
		default:
			return nil, false
		}
		for k, v := range out {
			if v.Sign() == 0 {
				delete(out, k)
			}
		}
		return out, true
	}
	if nm := namer(e); nm != "" {
		return c20Poly{nm: big.NewInt(1)}, true
	}
	if v := varOf(f, e); v != nil {
		if d, ok := c19SingleDef(f, v); ok {
			return c20PolyOf(f, d.RHS, namer)
		}
	}
	return nil, false
}

func (p c20Poly) is(want map[string]int64) bool {
	if len(p) != len(want) {
		return false
	}
	for k, v := range want {
		if p[k] == nil || p[k].Cmp(big.NewInt(v)) != 0 {
			return false
		}
	}
	return true
}

// ---------------------------------------------------------------------------

func runC20(c *core.Ctx) {
	c.Clause("C20.dirty", func() { c20DirtyClause(c) })
	c.Clause("C20.reads", func() { c20Reads(c) })
	c.Clause("C20.recache", func() { c20RecacheClause(c) })
	c.Clause("C20.roles", func() { c20Roles(c) })
	c.Clause("C20.matrix", func() { c20MatrixClause(c) })
	c.Clause("C20.median", func() { c20Median(c) })
	c.Clause("C20.wmedian", func() { c20WMedian(c) })
	c.Clause("C20.fork", func() { c20Fork(c) })
	c.Clause("C20.metric", func() { c20Metric(c) })
}

// dirtyTrue / dirtyFalse assignment points of a function
func c20DirtyAssigns(f *core.FuncInfo, want bool) []core.Point {
	var out []core.Point
	for _, a := range assignsToField(f, c20Dirty) {
		if a.RHS != nil && c20ConstBool(f, a.RHS, want) {
			out = append(out, a.Pt)
		}
	}
	return out
}

func c20DirtyClause(c *core.Ctx) {
	for _, n := range []string{c20Dirty, c20Matrix, c20Self, c20Medians, c20Strat, c20Vals, c20Dagi, c20DiffFn} {
		c.Fld(n)
	}
	// every field of the struct is classified
	if tn := c.P.LookupType(c20QiT); tn != nil {
		st, _ := tn.Type().Underlying().(*types.Struct)
		c.Need(st != nil, "QuorumIndexer is a struct")
		known := map[string]bool{"dirty": true, "globalMatrix": true, "selfParentSeqs": true, "globalMedianSeqs": true, "searchStrategy": true, "validators": true, "dagi": true, "diffMetricFn": true}
		for i := 0; i < st.NumFields(); i++ {
			if !known[st.Field(i).Name()] {
				c.Undecided("field "+st.Field(i).Name(), "T7 table", st.Field(i).Pos(), "QuorumIndexer has a field the rule table does not classify as source or derived state")
			}
		}
	}
	stored := map[string]bool{} // source fields that are stored into somewhere (vacuity guard: one per role)
	helpers := c20RecacheHelpers(c.P)
	rec := c20RecacheFn(c.P)
	for _, f := range c20PkgFuncs(c.P) {
		who := short(f.Name)
		for _, a := range assignsToField(f, c20Dirty) {
			if a.RHS == nil || (!c20ConstBool(f, a.RHS, true) && !c20ConstBool(f, a.RHS, false)) {
				c.Undecided(who+"|dirty assigned a non-constant", "T7", a.Stmt.Pos(), "the dirty flag is assigned a computed value")
			}
		}
		if len(c20DirtyAssigns(f, false)) > 0 && f != rec {
			c.Fail(who+"|clears dirty", "T6 WhoMayWrite", f.Pos(), "the dirty flag is cleared outside recacheState: stale medians/metrics can be served as current")
		}
		set := c20DirtySetSites(f) // dirty = true, directly or in a helper that always sets it
		isSet := core.PointSet(set...)
		clear := c20DirtyAssigns(f, false)
		for _, cs := range f.Calls() {
			if strings.HasPrefix(cs.Name, c20QiT+".") && !isSet(cs.Pt) { // any other method of the indexer may recache (conservative)
				clear = append(clear, cs.Pt)
			}
		}
		_, private := c20PrivateSites(c.P, f)
		for _, s := range c20StoresDeep(c.P, f, 2) {
			switch {
			case s.Field == c20Dirty:
				continue
			case c20Derived[s.Field]:
				c.Check(f == rec || helpers[f], who+"|writes "+short(s.Field), "T6 WhoMayWrite", s.Pos, "derived state is written by recacheState (or by a private helper that only recacheState calls)", "derived state "+short(s.Field)+" is written outside recacheState: it no longer equals the function of the matrix that readers expect")
				continue
			}
			stored[s.Field] = true
			ok, wit := f.MustPassAfter(s.Pt, set)
			if !ok && len(set) > 0 {
				// dirty = true before the store, and not cleared in between
				if pre, _ := f.MustPassBefore(set, s.Pt); pre {
					ok = true
					for _, d := range set {
						for _, cl := range clear {
							if f.CanReach(d, cl) && f.CanReach(cl, s.Pt) {
								ok = false
							}
						}
					}
				}
			}
			if !ok && private && len(c20DirtyAssigns(f, true)) == 0 && len(c20DirtyAssigns(f, false)) == 0 {
				// a private accessor of the indexer that does not touch the flag: it runs only as a part of its
				// callers, where the call stands for the store and the same pairing is decided (c20StoresDeep)
				c.Pass(who+"|store into "+short(s.Field)+" marks dirty", "T7 Pairing", "the store is made by a private method; every call site is followed by dirty = true (decided at the callers)")
				continue
			}
			c.Check(ok, who+"|store into "+short(s.Field)+" marks dirty", "T7 Pairing", s.Pos, "every path from this store to return sets dirty = true",
				"a store into "+short(s.Field)+" can return without dirty = true: medians and cached metrics computed from the old contents keep being served; path "+f.DescribePath(wit))
		}
	}
	nRoles := 0
	for _, fld := range []string{c20Matrix, c20Self} {
		if stored[fld] {
			nRoles++
		}
	}
	c.ExpectAtLeast("source fields stored into (observation matrix, self-parent seqs)", nRoles, 2)
	// the constructor starts dirty (searchStrategy is nil and medians are zero until the first recache)
	nLit := 0
	for _, f := range c20PkgFuncs(c.P) {
		f.InspectOwn(func(n ast.Node) bool {
			cl, ok := n.(*ast.CompositeLit)
			if !ok {
				return true
			}
			tv, ok := f.Info().Types[cl]
			if !ok {
				return true
			}
			if nt, ok := tv.Type.(*types.Named); !ok || c.P.ObjName(nt.Obj()) != c20QiT {
				return true
			}
			nLit++
			okD := false
			for _, el := range cl.Elts {
				if kv, ok := el.(*ast.KeyValueExpr); ok && isIdentNamed(kv.Key, "dirty") && c20ConstBool(f, kv.Value, true) {
					okD = true
				}
			}
			c.Check(okD, short(f.Name)+"|new indexer starts dirty", "T16a", cl.Pos(), "the literal sets dirty: true", "a new QuorumIndexer is not dirty: SearchStrategy() returns nil and the medians read as zero until an event is processed")
			return true
		})
	}
	c.ExpectAtLeast("QuorumIndexer literals", nLit, 1)
}

func c20Reads(c *core.Ctx) {
	readFields := map[string]bool{}
	helpers := c20RecacheHelpers(c.P)
	rec := c20RecacheFn(c.P)
	for _, f := range c20PkgFuncs(c.P) {
		if f == rec || helpers[f] {
			continue // recacheState and its private helpers work on the state being rebuilt
		}
		who := short(f.Name)
		var reads []*ast.SelectorExpr
		f.InspectOwn(func(nd ast.Node) bool {
			if sel, ok := nd.(*ast.SelectorExpr); ok && c20Derived[fieldNameOf(f, sel)] {
				reads = append(reads, sel)
			}
			return true
		})
		if len(reads) == 0 {
			continue
		}
		// the state is fresh after recacheState(), after a helper on the same receiver that ensures freshness
		// on each of its paths (an extracted `if h.dirty { h.recacheState() }`), or over the dirty == false edge;
		// a private helper that reads derived state may rely on each of its call sites being fresh (c20CleanAt)
		for _, sel := range reads {
			readFields[fieldNameOf(f, sel)] = true
			fld := short(fieldNameOf(f, sel))
			pt, ok := f.PointOf(sel)
			if !ok {
				c.Undecided(who+"|read of "+fld, "T4", sel.Pos(), "cannot locate the read in the CFG")
				continue
			}
			if f.Lit != nil {
				c.Undecided(who+"|read of "+fld+" in a closure", "T4", sel.Pos(), "derived state is read inside a function literal: the dirty check cannot be related to the time the closure runs")
				continue
			}
			okClean, wf, path := c20CleanAt(c.P, f, pt, 2)
			where := ""
			if wf != nil {
				where = wf.DescribePath(path)
				if wf != f {
					where += " (in " + short(wf.Name) + ", which calls " + who + ")"
				}
			}
			c.Check(okClean, who+"|read of "+fld+" after recache-or-clean", "T4 GuardedBy / T2 Dominates", sel.Pos(),
				"the read is reached only after recacheState() ran or over the dirty == false edge", fld+" can be read while dirty (no recacheState on the path): values computed from an older matrix are returned; path "+where)
		}
	}
	// vacuity guard: each derived field (medians, search strategy) is read somewhere outside recacheState
	c.ExpectAtLeast("derived fields read outside recacheState", len(readFields), 2)
}

// ---------------------------------------------------------------------------
// recacheState: covers every derived field, clears dirty last

func c20RecacheClause(c *core.Ctx) {
	f := c20RecacheAnchor(c)
	rets := f.ReturnPoints()
	c.Need(len(rets) > 0, "recacheState returns")
	clear := c20DirtyAssigns(f, false)
	c.ExpectAtLeast("dirty = false in recacheState", len(clear), 1)
	var derivedStores []c20Store
	for _, s := range c20Stores(f) {
		if c20Derived[s.Field] {
			derivedStores = append(derivedStores, s)
		}
	}
	// the rebuild may be idempotent: a return over the dirty == false edge owes nothing (the state the
	// readers see was rebuilt by the activation that cleared the flag)
	clean := c19Edges(f, c20BoolFact(f, c20Dirty, false))
	for _, rp := range rets {
		wit, found := core.PathQuery{F: f, From: f.Entry(), Target: core.PointSet(rp), Avoid: core.PointSet(clear...), AvoidEdge: clean}.Find()
		ok := !found && rp != f.Entry()
		c.Check(ok, "recacheState clears dirty on every return", "T2 Dominates", posOf(rp), "dirty = false dominates the return", "recacheState can return with dirty still set (recomputed on every read) or: "+f.DescribePath(wit))
	}
	// a statement of recacheState may live in a helper called on the same receiver: the call site then
	// stands for the helper's stores (may, for "cleared last"; must, for "recomputed before return")
	mayDerive := c20HelperSites(f, func(g *core.FuncInfo, _ *core.CallSite) bool {
		for _, s := range c20Stores(g) {
			if c20Derived[s.Field] {
				return true
			}
		}
		return false
	})
	last := true
	for _, cl := range clear {
		for _, s := range derivedStores {
			if f.CanReach(cl, s.Pt) {
				last = false
			}
		}
		for _, cs := range mayDerive {
			if f.CanReach(cl, cs.Pt) {
				last = false
			}
		}
		for _, pt := range f.SitesMay(func(cs *core.CallSite) bool { return cs.Name == "utils/wmedian.Of" }, 2) {
			if f.CanReach(cl, pt) {
				last = false
			}
		}
	}
	c.Check(last, "dirty cleared last", "T3 PostDominates", f.Pos(), "no derived store and no median computation is reachable after dirty = false", "dirty is cleared before the derived state is complete: a panic in the median computation (wmedian.Of) or a re-entrant read leaves half-updated caches marked clean")
	// median loop: full loop over validators storing globalMedianSeqs[i] each iteration
	// The store is `globalMedianSeqs[x] = …` in recacheState, or a call h.helper(.., x, ..) of a helper that stores
	// globalMedianSeqs[p] for its parameter p on every path: the call then is the store for index x.
	var medPt core.Point
	var medPos token.Pos
	var medIdx ast.Expr
	nMed, nOther := 0, 0
	for _, s := range derivedStores {
		if s.Field != c20Medians {
			continue
		}
		indexed := false
		for _, a := range assignments(f) {
			if ix, ok := ast.Unparen(a.LHS).(*ast.IndexExpr); ok && a.Pt == s.Pt && a.Stmt.Pos() == s.Pos && fieldNameOf(f, ix.X) == c20Medians {
				indexed = true
				medPt, medPos, medIdx = a.Pt, a.Stmt.Pos(), ix.Index
			}
		}
		if indexed {
			nMed++
		} else {
			nOther++
		}
	}
	for _, cs := range c20HelperSites(f, func(g *core.FuncInfo, _ *core.CallSite) bool { _, ok := c20HelperStoresMedian(g); return ok }) {
		k, _ := c20HelperStoresMedian(c20Callee(f, cs))
		c.Need(k < len(cs.Call.Args), "helper call passes the validator index")
		nMed++
		medPt, medPos, medIdx = cs.Pt, cs.Pos(), cs.Call.Args[k]
	}
	c.Need(nMed == 1 && nOther == 0, "recacheState stores into globalMedianSeqs[i] at one place (itself, or a helper that always stores the median of its parameter)")
	medLoop, _ := enclosingLoop(f, medPos).(*ast.ForStmt)
	c.Need(medLoop != nil, "the median store is inside a for loop")
	ctr, full := c20FullLoop(f, medLoop, func(e ast.Expr) bool { return c20IsValLen(f, e) })
	c.Check(full, "median loop covers every validator", "T2 (loop) + normalised bound", medLoop.Pos(), "for i := 0; i < validators.Len(); i++ without break", "the median loop does not run over all validator indexes 0..Len()-1: some medians stay stale")
	okIdx := ctr != nil && c20VarAt(f, medIdx) == ctr
	c.Check(okIdx && c20EveryIteration(f, medLoop, medPt), "a median is stored for the loop's validator in every iteration", "T7 Pairing", medPos, "globalMedianSeqs[i] is assigned on every path through the body", "an iteration can leave globalMedianSeqs[i] unassigned, or the store uses another index")
	done, _ := loopDone(f, medLoop)
	// searchStrategy replaced by a fresh cache over the indexer's own GetMetricOf
	fresh := c20FreshStrategy // c20_strategy.go
	var stratPts []core.Point
	checkStrat := func(g *core.FuncInfo) (pts []core.Point, all bool) {
		all = true
		for _, a := range assignsToField(g, c20Strat) {
			ok := a.RHS != nil && fresh(g, a)
			c.Check(ok, "searchStrategy = MetricStrategy over a fresh cache of GetMetricOf", "provenance", a.Stmt.Pos(), "the metric cache is replaced, not reused", "the search strategy is not rebuilt over a fresh MetricFnCache of this indexer's GetMetricOf: metrics cached before the matrix changed are served")
			if ok {
				pts = append(pts, a.Pt)
			} else {
				all = false
			}
		}
		return
	}
	stratPts, _ = checkStrat(f)
	stratHelper := map[*core.FuncInfo]bool{}
	recHelpers := c20RecacheHelpers(c.P)
	for _, g := range c20PkgFuncs(c.P) {
		if !recHelpers[g] {
			continue
		}
		if pts, all := checkStrat(g); all && c20AlwaysPasses(g, pts) {
			stratHelper[g] = true
		}
	}
	for _, cs := range c20HelperSites(f, func(g *core.FuncInfo, _ *core.CallSite) bool { return stratHelper[g] }) {
		stratPts = append(stratPts, cs.Pt)
	}
	for _, rp := range rets {
		_, skip1 := core.PathQuery{F: f, From: f.Entry(), Target: core.PointSet(rp), Avoid: core.PointSet(stratPts...), AvoidEdge: clean}.Find()
		ok1 := !skip1 && len(stratPts) > 0 && rp != f.Entry()
		ok2 := done != nil
		if ok2 && rp.B != done && f.Entry().B != done {
			_, skip2 := core.PathQuery{F: f, From: f.Entry(), Target: core.PointSet(rp), AvoidEdge: func(b *cfg.Block, s int) bool { return clean(b, s) || b.Succs[s] == done }}.Find()
			ok2 = !skip2
		}
		c.Check(ok1 && ok2, "every derived field recomputed before return", "T2 Dominates (loop exit)", posOf(rp), "the median loop's exit and the strategy replacement dominate the return", "recacheState can return (clean) without having recomputed the medians or replaced the metric cache")
	}
}

// ---------------------------------------------------------------------------
// ProcessEvent: index roles

// posNode wraps a position as something with a Pos method.
type posNode token.Pos

func (p posNode) Pos() token.Pos { return token.Pos(p) }

func c20Roles(c *core.Ctx) {
	f := c.Fn(c20QiT + ".ProcessEvent")
	pEvent, pSelf := f.Param(0), f.Param(1)
	c.Need(pEvent != nil && pSelf != nil, "ProcessEvent(event, selfEvent) with named parameters")
	isEventID := func(e ast.Expr) bool {
		call := isCallTo(f, e, "inter/dag.Event.ID")
		if call == nil {
			return false
		}
		sel, ok := ast.Unparen(call.Fun).(*ast.SelectorExpr)
		return ok && varOf(f, sel.X) == pEvent
	}
	nM, nS := 0, 0
	// the stores, made in place or through a setter method of the indexer (c20_access.go)
	for _, cell := range c20Cells(f) {
		fld := cell.Fld
		a := struct {
			Pt   core.Point
			Stmt interface{ Pos() token.Pos }
		}{cell.Pt, posNode(cell.Pos)}
		loop, _ := enclosingLoop(f, cell.Pos).(*ast.ForStmt)
		ctr, full := c20FullLoop(f, loop, func(e ast.Expr) bool { return c20IsValLen(f, e) })
		c.Check(full && c20EveryIteration(f, loop, a.Pt) || fld == c20Self && full, "store into "+short(fld)+" for every validator", "T2 (loop) + normalised bound", a.Stmt.Pos(), "the store sits in for i := 0; i < validators.Len(); i++ (no break)", "not every validator's observation is recorded: rows keep sequence numbers of an older event of this creator")
		okVal := cell.Val != nil && c20SeqOfVec(f, cell.Val, a.Pt, ctr, isEventID)
		switch fld {
		case c20Matrix:
			nM++
			// "latest processed event": every event handed to ProcessEvent overwrites its creator's column, so no
			// return is reached without the complete store loop (an early exit that skips an event as stale,
			// duplicate or uninteresting keeps the observations of an older event of that creator)
			var done *cfg.Block
			if full && loop != nil {
				done, _ = loopDone(f, loop)
			}
			if done != nil {
				for _, rp := range f.ReturnPoints() {
					ok, w := mustPassBlockBefore(f, done, rp)
					c.Check(ok, "every processed event is recorded", "T2 Dominates (loop exit)", posOf(rp), "the exit of the store loop over all validators dominates every return of ProcessEvent",
						short(f.Name)+" can return without storing the event's observations (path "+f.DescribePath(w)+"): the creator's column keeps the observations of an earlier processed event, so the medians are not taken over the latest processed events")
				}
			}
			// Row(x)[y]
			okX := cell.RowArg != nil && ctr != nil && c20VarAt(f, cell.RowArg) == ctr
			okY := false
			if gi := isCallTo(f, c19Resolve(f, cell.Index, a.Pt), "inter/pos.Validators.GetIdx"); gi != nil && len(gi.Args) == 1 {
				if sel, isSel := ast.Unparen(gi.Fun).(*ast.SelectorExpr); isSel && c20RecvField(f, sel.X, c20Vals) {
					if cr := isCallTo(f, c19Resolve(f, gi.Args[0], a.Pt), "inter/dag.Event.Creator"); cr != nil {
						if cs, isSel := ast.Unparen(cr.Fun).(*ast.SelectorExpr); isSel && varOf(f, cs.X) == pEvent {
							okY = true
						}
					}
				}
			}
			c.Check(okX, "matrix row is the subject validator", "provenance", a.Stmt.Pos(), "globalMatrix.Row(x) with x the loop's validator index", "the row index is not the validator whose sequence is stored (subject/observer mixed up)")
			c.Check(okY, "matrix column is the event's creator", "provenance", a.Stmt.Pos(), "column = validators.GetIdx(event.Creator())", "the column is not the index of the event's creator: the observation is booked to the wrong observer")
			c.Check(okVal, "matrix cell is seqOf(vecClock(event).Get(x))", "provenance", a.Stmt.Pos(), "the stored value is the creator's merged highest-before of validator x, fork-mapped by seqOf", "the stored value is not seqOf(dagi.GetMergedHighestBefore(event.ID()).Get(x)) for the row's validator x")
		case c20Self:
			nS++
			okX := ctr != nil && cell.SelfOK && c20VarAt(f, cell.Index) == ctr
			c.Check(okX && okVal, "selfParentSeqs[x] is seqOf(vecClock(event).Get(x))", "provenance", a.Stmt.Pos(), "own observation of validator x", "selfParentSeqs is not updated with the event's observation of the same validator")
			g, wit := f.GuardedBy(a.Pt, func(ft core.Fact) bool {
				cm, ok := core.NormCmp(ft)
				if !ok || varOf(f, cm.L) != pSelf {
					return false
				}
				if cm.R == nil {
					return cm.Op == token.EQL
				}
				return cm.Op == token.EQL && c20ConstBool(f, cm.R, true) || cm.Op == token.NEQ && c20ConstBool(f, cm.R, false)
			})
			c.Check(g, "selfParentSeqs updated only for own events", "T4 GuardedBy", a.Stmt.Pos(), "the store is reached only over selfEvent == true", "the node's own observation is overwritten by other validators' events: "+f.DescribePath(wit))
			// and every own event updates it
			path, skip := core.PathQuery{F: f, From: core.Point{B: f.CFG().Blocks[0], I: 0}, TargetExit: true, Avoid: core.PointSet(a.Pt), AvoidEdge: c19Edges(f, func(ft core.Fact) bool {
				cm, ok := core.NormCmp(ft)
				if !ok || varOf(f, cm.L) != pSelf {
					return false
				}
				if cm.R == nil {
					return cm.Op == token.NEQ
				}
				return cm.Op == token.EQL && c20ConstBool(f, cm.R, false) || cm.Op == token.NEQ && c20ConstBool(f, cm.R, true)
			})}.Find()
			// only meaningful when the loop can be entered; a zero-validator set skips the body legitimately, so require the
			// skipping path to avoid the loop body
			if skip {
				inBody := false
				for _, p := range path {
					if n := p.Node(); n != nil && loop != nil && c19Within(loop.Body, n.Pos()) {
						inBody = true
					}
				}
				skip = inBody
			}
			c.Check(!skip, "every own event updates selfParentSeqs", "T7 Pairing", a.Stmt.Pos(), "an iteration skips the store only over selfEvent == false", "an own event can be processed without updating the node's own observation: "+f.DescribePath(path))
		}
	}
	c.ExpectAtLeast("stores into globalMatrix rows", nM, 1)
	c.ExpectAtLeast("stores into selfParentSeqs", nS, 1)
}

// ---------------------------------------------------------------------------
// Matrix layout

func c20MatrixClause(c *core.Ctx) {
	f := c.Fn(c20Row)
	pI := f.Param(0)
	c.Need(pI != nil && len(f.ReturnPoints()) == 1, "Matrix.Row(i) with one return")
	r := f.ReturnPoints()[0].Node().(*ast.ReturnStmt)
	c.Need(len(r.Results) == 1, "Row returns one value")
	se, ok := ast.Unparen(r.Results[0]).(*ast.SliceExpr)
	c.Need(ok && se.Low != nil && se.High != nil && se.Max == nil, "Row returns buffer[low:high]")
	namer := func(e ast.Expr) string {
		if varOf(f, e) == pI {
			return "i"
		}
		if fieldNameOf(f, e) == c19AncPkg+".Matrix.columns" {
			return "c"
		}
		return ""
	}
	lo, ok1 := c20PolyOf(f, se.Low, namer)
	hi, ok2 := c20PolyOf(f, se.High, namer)
	okB := fieldNameOf(f, se.X) == c19AncPkg+".Matrix.buffer"
	c.Check(okB && ok1 && ok2 && lo.is(map[string]int64{"c*i": 1}) && hi.is(map[string]int64{"c*i": 1, "c": 1}), "Row(i) = buffer[i*columns:(i+1)*columns]", "polynomial normal form", r.Pos(),
		"rows are disjoint consecutive blocks of `columns` cells", "Row(i) is not buffer[i*columns:(i+1)*columns]: rows overlap or cells of different (subject, observer) pairs coincide")
	nm := c.Fn(c19AncPkg + ".NewMatrix")
	pR, pC := nm.Param(0), nm.Param(1)
	okN := false
	nm.InspectOwn(func(n ast.Node) bool {
		cl, isCl := n.(*ast.CompositeLit)
		if !isCl {
			return true
		}
		var buf, cols ast.Expr
		for i, el := range cl.Elts {
			if kv, isKV := el.(*ast.KeyValueExpr); isKV {
				if isIdentNamed(kv.Key, "buffer") {
					buf = kv.Value
				} else if isIdentNamed(kv.Key, "columns") {
					cols = kv.Value
				}
			} else if i == 0 {
				buf = el
			} else if i == 1 {
				cols = el
			}
		}
		if buf == nil || cols == nil {
			return true
		}
		mk := isCallTo(nm, buf, "builtin.make")
		if mk == nil || len(mk.Args) < 2 {
			return true
		}
		ln, okL := c20PolyOf(nm, mk.Args[1], func(e ast.Expr) string {
			switch varOf(nm, e) {
			case pR:
				return "r"
			case pC:
				return "c"
			}
			return ""
		})
		okN = okL && pR != nil && pC != nil && ln.is(map[string]int64{"c*r": 1}) && varOf(nm, cols) == pC
		return true
	})
	c.Check(okN, "NewMatrix(rows, cols) allocates rows*cols cells with columns = cols", "polynomial normal form", nm.Pos(), "buffer length rows*cols, columns = cols", "the matrix buffer or its column count does not match rows x cols")
	// the indexer's matrix is validators x validators
	ni := c.Fn(c19AncPkg + ".NewQuorumIndexer")
	okSq := false
	for _, cs := range ni.CallsTo(c19AncPkg + ".NewMatrix") {
		if len(cs.Call.Args) == 2 {
			isLen := func(e ast.Expr) bool {
				call := isCallTo(ni, e, c20ValLen)
				if call == nil {
					return false
				}
				sel, ok := ast.Unparen(call.Fun).(*ast.SelectorExpr)
				return ok && varOf(ni, sel.X) != nil && varOf(ni, sel.X) == ni.Param(0)
			}
			okSq = isLen(cs.Call.Args[0]) && isLen(cs.Call.Args[1])
		}
	}
	c.Check(okSq, "globalMatrix is validators x validators", "provenance", ni.Pos(), "NewMatrix(validators.Len(), validators.Len())", "the global matrix is not sized validators.Len() x validators.Len()")
}

// ---------------------------------------------------------------------------
// recacheState: the weighted median of one subject validator

// c20StructLitFields maps field names of a struct literal (keyed or positional) to their values.
func c20StructLitFields(f *core.FuncInfo, cl *ast.CompositeLit) map[string]ast.Expr {
	out := map[string]ast.Expr{}
	tv, ok := f.Info().Types[cl]
	if !ok {
		return out
	}
	st, _ := tv.Type.Underlying().(*types.Struct)
	for i, el := range cl.Elts {
		if kv, ok := el.(*ast.KeyValueExpr); ok {
			if id, ok := kv.Key.(*ast.Ident); ok {
				out[id.Name] = kv.Value
			}
		} else if st != nil && i < st.NumFields() {
			out[st.Field(i).Name()] = el
		}
	}
	return out
}

func c20IsNamed(p *core.Prog, t types.Type, name string) bool {
	nt, ok := t.(*types.Named)
	return ok && p.ObjName(nt.Obj()) == name
}

func c20Median(c *core.Ctx) {
	rf := c20RecacheAnchor(c)
	// The median of one subject validator is computed in the body of recacheState's loop over validators, or in
	// a helper method that loop calls once per subject (h.medianOf(subject)). f is the function that holds the
	// wmedian.Of call, subj the variable denoting the subject there (loop counter, or the helper's parameter
	// bound to the loop counter), region the statements executed once per subject.
	f := rf
	var via *core.CallSite // the call in recacheState that enters the helper (nil: computed in recacheState itself)
	ofs := rf.CallsTo("utils/wmedian.Of")
	if len(ofs) == 0 {
		cands := c20HelperSites(rf, func(g *core.FuncInfo, _ *core.CallSite) bool { return len(g.CallsTo("utils/wmedian.Of")) > 0 })
		c.Need(len(cands) == 1, "one wmedian.Of(values, stop) call in recacheState (or in one helper it calls on its receiver)")
		via = cands[0]
		f = c20Callee(rf, via)
		ofs = f.CallsTo("utils/wmedian.Of")
	}
	c.Need(len(ofs) == 1 && len(ofs[0].Call.Args) == 2, "one wmedian.Of(values, stop) call in recacheState")
	of := ofs[0]
	pairs := varOf(f, of.Call.Args[0])
	c.Need(pairs != nil, "wmedian.Of is applied to a local slice")
	// fr is the activation of f in the inlined view of recacheState; rctr the counter of recacheState's full
	// loop over validators: an expression of f is "the subject" when it resolves to rctr through the frames
	// (the loop counter itself, a helper parameter bound to it, a conversion or single-definition local of it)
	root := &c21Frame{F: rf}
	fr := root
	var rctr *types.Var
	var region ast.Node
	if via == nil {
		outer, _ := enclosingLoop(f, of.Pos()).(*ast.ForStmt)
		ctr, full := c20FullLoop(f, outer, func(e ast.Expr) bool { return c20IsValLen(f, e) })
		c.Need(full && ctr != nil, "wmedian.Of is called inside the full loop over validators")
		rctr, region = ctr, outer.Body
	} else {
		outer, _ := enclosingLoop(rf, via.Pos()).(*ast.ForStmt)
		ctr, full := c20FullLoop(rf, outer, func(e ast.Expr) bool { return c20IsValLen(rf, e) })
		c.Need(full && ctr != nil, "the median helper is called inside the full loop over validators")
		c.Need(!f.CanReach(of.Pt, of.Pt), "the median helper computes one median per call")
		fr = c21Enter(root, via, f)
		rctr, region = ctr, f.Body
	}
	isSubj := func(e ast.Expr) bool { return c20FrVarAt(fr, e, rctr) }
	// what a helper is handed was evaluated when it was entered: the matrix and the validators are not
	// replaced or written while the medians are computed
	c.Check(c20NoStoresInto(c20Matrix, rf, f) && c20NoStoresInto(c20Vals, rf, f), "observations are not written while the medians are computed", "T6 WhoMayWrite", rf.Pos(), "neither recacheState nor the median helper stores into globalMatrix or validators", "recacheState (or its median helper) writes the observation matrix or the validators while it computes the medians: the medians are not those of the observations the readers see")
	// stop = validators.Quorum()
	okStop := false
	if q := isCallTo(f, c19Resolve(f, of.Call.Args[1], of.Pt), "inter/pos.Validators.Quorum"); q != nil {
		if sel, ok := ast.Unparen(q.Fun).(*ast.SelectorExpr); ok && c20RecvField(f, sel.X, c20Vals) {
			okStop = true
		}
	}
	c.Check(okStop, "median threshold is validators.Quorum()", "provenance", of.Pos(), "stop = h.validators.Quorum()", "the weighted median stops at something other than the quorum weight of the indexer's validators")
	// the result's seq is stored at globalMedianSeqs[subject]
	// seqOfOf: e (in g == f) resolves to wmedian.Of(..).(weightedSeq).seq of the one Of call
	seqOfOf := func(e ast.Expr, use core.Point) bool {
		if e == nil {
			return false
		}
		sel, ok := c19Resolve(f, e, use).(*ast.SelectorExpr)
		if !ok || fieldNameOf(f, sel) != c20WSeq+".seq" {
			return false
		}
		ta, ok := c19Resolve(f, sel.X, use).(*ast.TypeAssertExpr)
		if !ok {
			return false
		}
		call, ok := c19Resolve(f, ta.X, use).(*ast.CallExpr)
		return ok && call == of.Call
	}
	// a helper hands the median back: every return of the helper is the seq of the Of result
	helperReturnsSeq := via != nil && len(f.ReturnPoints()) > 0
	if via != nil {
		for _, rp := range f.ReturnPoints() {
			r := rp.Node().(*ast.ReturnStmt)
			if len(r.Results) != 1 || !seqOfOf(r.Results[0], rp) {
				helperReturnsSeq = false
			}
		}
	}
	nStore := 0
	stores := func(g *core.FuncInfo) {
		for _, a := range assignments(g) {
			ix, ok := ast.Unparen(a.LHS).(*ast.IndexExpr)
			if !ok || fieldNameOf(g, ix.X) != c20Medians {
				continue
			}
			nStore++
			okStore := false
			switch {
			case g == f:
				// globalMedianSeqs[subject] = Of(..).(weightedSeq).seq, where the median is computed
				okStore = seqOfOf(a.RHS, a.Pt) && isSubj(ix.Index)
			default:
				// recacheState stores what the helper returned for the loop's validator
				call, isCall := c19Resolve(g, a.RHS, a.Pt).(*ast.CallExpr)
				okStore = a.RHS != nil && isCall && call == via.Call && helperReturnsSeq && c20VarAt(g, ix.Index) == rctr
			}
			c.Check(okStore, "stored median is the seq of wmedian.Of's result for this subject", "provenance", a.Stmt.Pos(), "globalMedianSeqs[subject] = wmedian.Of(pairs, quorum).(weightedSeq).seq in the same iteration", "the value stored as the median is not the result of this iteration's wmedian.Of, or goes to another validator's slot")
		}
	}
	stores(f)
	if rf != f {
		stores(rf)
	}
	c.ExpectAtLeast("stores of the median into globalMedianSeqs", nStore, 1)
	// pairs: fresh per subject, one slot per validator
	pDef, single := c19SingleDef(f, pairs)
	okFresh := false
	if single {
		if mk := isCallTo(f, pDef.RHS, "builtin.make"); mk != nil && len(mk.Args) >= 2 && c20FrValLen(fr, mk.Args[1]) && (len(mk.Args) == 2) {
			okFresh, _ = precedesLocally(f, []core.Point{pDef.Pt}, of.Pt)
			okFresh = okFresh && c19Within(region, pDef.Stmt.Pos())
		}
	}
	c.Check(okFresh, "observer list is rebuilt per subject with one slot per validator", "provenance", of.Pos(), "pairs := make(.., validators.Len()) inside the subject loop", "the list the median is taken from is not a fresh slice of validators.Len() entries per subject: observations of another subject (or missing observers) enter the median")
	// fill loop
	// one store pairs[i] = … inside a loop of its own that visits every slot: a range over pairs,
	// `for i := 0; i < len(pairs); i++`, or the full counted loop over validators.Len() (pairs has exactly
	// validators.Len() slots, decided above)
	var fillStore assignment
	nFill := 0
	for _, a := range assignments(f) {
		ix, ok := ast.Unparen(a.LHS).(*ast.IndexExpr)
		if ok && varOf(f, ix.X) == pairs {
			nFill++
			fillStore = a
		}
	}
	c.Need(nFill == 1, "pairs is filled by one indexed store")
	fill := enclosingLoop(f, fillStore.Stmt.Pos())
	c.Need(fill != nil && c19Within(region, fill.Pos()), "the store into pairs sits in a loop of its own inside the per-subject computation")
	var obs *types.Var
	okLoop := false
	if it, ok := core.IterationOf(f, fill, func(e ast.Expr) ast.Expr {
		if varOf(f, e) == pairs {
			return ast.Unparen(e) // the slice variable itself, not the make() it was defined by
		}
		return c19Resolve(f, e, core.Point{})
	}); ok && it.FromZero && it.Index != nil && it.Coll != nil && varOf(f, it.Coll) == pairs {
		obs = it.Index
		if fs, isFor := fill.(*ast.ForStmt); it.Counted && isFor {
			okLoop = c19IsCounterOf(f, obs, fs)
		} else if !it.Counted {
			n, addr := c19AssignCount(f, obs)
			okLoop = n == 1 && !addr
		}
	} else if fs, isFor := fill.(*ast.ForStmt); isFor {
		if ctr, full := c20FullLoop(f, fs, func(e ast.Expr) bool { return c20FrValLen(fr, e) }); full && ctr != nil {
			obs, okLoop = ctr, okFresh
		}
	}
	c.Need(obs != nil, "pairs is filled inside a loop over its slots (range pairs, i < len(pairs), or i < validators.Len())")
	fillDone, complete := loopDone(f, fill)
	okAll := okLoop && complete && c20EveryIteration(f, fill, fillStore.Pt) && c20VarAt(f, ast.Unparen(fillStore.LHS).(*ast.IndexExpr).Index) == obs
	c.Check(okAll, "every observer contributes one entry", "T2 (loop)", fill.Pos(), "pairs[i] is stored for every i of range pairs (no break/continue)", "some observers are left out of the median (zero-weight nil entries or skipped slots)")
	cl, _ := c19Resolve(f, fillStore.RHS, fillStore.Pt).(*ast.CompositeLit)
	okSeq, okW := false, false
	if cl != nil {
		if tv, ok := f.Info().Types[cl]; ok && c20IsNamed(c.P, tv.Type, c20WSeq) {
			fl := c20StructLitFields(f, cl)
			// seq = Row(subject)[observer]: the element is read in f (the observer is f's fill index); the row may be
			// computed in place, held in a local, or handed to the helper by recacheState
			// (or read through a getter method of the indexer, c20_access.go)
			if fl["seq"] != nil {
				if rfr, rowArg, cfr, col, ok := c20FrCellRead(fr, fl["seq"], fillStore.Pt); ok {
					okSeq = c20FrVarAt(rfr, rowArg, rctr) && c20FrVarIn(cfr, col, fr, obs)
				}
			}
			if fl["weight"] != nil {
				if w := isCallTo(f, c19Resolve(f, fl["weight"], fillStore.Pt), "inter/pos.Validators.GetWeightByIdx"); w != nil && len(w.Args) == 1 {
					if sel, ok := ast.Unparen(w.Fun).(*ast.SelectorExpr); ok && c20RecvField(f, sel.X, c20Vals) {
						okW = c20VarAt(f, w.Args[0]) == obs
					}
				}
			}
		}
	}
	c.Check(okSeq, "entry i holds Row(subject)[i]", "provenance", fillStore.Stmt.Pos(), "seq = globalMatrix.Row(subject)[observer i]", "the sequence of entry i is not the matrix cell (subject row, observer column i): rows and columns are read in the opposite roles to how ProcessEvent writes them")
	c.Check(okW, "entry i carries the weight of observer i", "provenance", fillStore.Stmt.Pos(), "weight = validators.GetWeightByIdx(i) for the same i", "the weight attached to observer i's sequence is not observer i's weight")
	// sort descending, between fill and Of
	var sorts []*core.CallSite
	for _, cs := range f.CallsTo("sort.Slice", "sort.SliceStable") {
		if len(cs.Call.Args) == 2 && varOf(f, cs.Call.Args[0]) == pairs {
			sorts = append(sorts, cs)
		}
	}
	c.Need(len(sorts) == 1, "pairs is sorted by one sort.Slice call")
	srt := sorts[0]
	o1, _ := precedesLocally(f, []core.Point{srt.Pt}, of.Pt)
	o2 := fillDone != nil
	if o2 {
		_, early := core.PathQuery{F: f, From: pDef.Pt, FromAfter: true, Target: core.PointSet(srt.Pt), AvoidEdge: func(b *cfg.Block, s int) bool { return b.Succs[s] == fillDone }}.Find()
		o2 = !early
	}
	c.Check(o1 && o2, "fill, then sort, then median", "T2 Dominates (loop exit)", srt.Pos(), "the complete fill loop precedes the sort, which precedes wmedian.Of, in each subject iteration", "the median is taken from a list that is not completely filled and sorted")
	// the comparison function: a literal written in place (or held by a local), or built by a constructor that
	// is handed the slice (bySeqDesc(pairs)) and returns a literal reading its parameter
	lessOf := c20LessOf(fr, srt.Call.Args[1], pairs)
	c.Need(lessOf != nil && lessOf.Lit.Param(0) != nil && lessOf.Lit.Param(1) != nil, "sort.Slice gets a function literal with named parameters (in place, or returned by a constructor)")
	less := lessOf.Lit
	c19Audit(c, f, pairs, "observer list", "T6 use audit", func(k string) bool {
		switch k {
		case "def", "range", "store", "len", "closure", "arg:sort.Slice:0", "arg:sort.SliceStable:0", "arg:utils/wmedian.Of:0":
			return true
		}
		// handed to the constructor of the comparison function, which only indexes it inside the literal
		return lessOf.Kind != "" && k == lessOf.Kind && lessOf.readsOnly()
	}, nil)
	elem := func(e ast.Expr, use core.Point) *types.Var { // e resolves to pairs[p].(weightedSeq).seq -> p
		sel, ok := c19Resolve(less, e, use).(*ast.SelectorExpr)
		if !ok || fieldNameOf(less, sel) != c20WSeq+".seq" {
			return nil
		}
		ta, ok := c19Resolve(less, sel.X, use).(*ast.TypeAssertExpr)
		if !ok {
			return nil
		}
		ix, ok := c19Resolve(less, ta.X, use).(*ast.IndexExpr)
		if !ok || !c20FrIsVar(lessOf.Fr, ix.X, pairs) {
			return nil
		}
		return varOf(less, ix.Index)
	}
	okLess := len(less.ReturnPoints()) > 0
	for _, rp := range less.ReturnPoints() {
		r := rp.Node().(*ast.ReturnStmt)
		ok := false
		if len(r.Results) == 1 {
			if cm, k := core.NormCmp(core.Fact{Expr: r.Results[0], Truth: true}); k && cm.R != nil && cm.Op == token.LSS {
				// L < R: descending means seq(j) < seq(i)
				ok = elem(cm.L, rp) == less.Param(1) && elem(cm.R, rp) == less.Param(0)
			}
		}
		okLess = okLess && ok
	}
	if !lessOf.readsOnly() {
		okLess = false
	}
	c.Check(okLess, "entries sorted by seq, strictly descending", "normalised comparator", srt.Pos(), "less(i,j) is pairs[i].seq > pairs[j].seq", "the observer list is not sorted by descending sequence: the prefix reaching quorum no longer consists of the highest observations, so the result is not the largest s observed by a quorum")
	// weightedSeq.Weight returns its weight
	wf := c.Fn(c20WSeq + ".Weight")
	okWt := len(wf.ReturnPoints()) == 1
	if okWt {
		r := wf.ReturnPoints()[0].Node().(*ast.ReturnStmt)
		okWt = len(r.Results) == 1 && fieldNameOf(wf, r.Results[0]) == c20WSeq+".weight"
	}
	c.Check(okWt, "weightedSeq.Weight() is the weight field", "provenance", wf.Pos(), "Weight returns ws.weight", "the weight seen by wmedian.Of is not the validator weight stored in the entry")
}

// ---------------------------------------------------------------------------
// wmedian.Of

// c20SliceIteration finds the one loop of f that visits the elements of the slice variable `vals` in
// slice order from index 0, however it is written (range with key and/or value, or a counted loop
// `for i := 0; i < len(vals); i++`), and returns it as a core.Iteration together with the predicate
// "e denotes the element of the current iteration at point use" (the range value, vals[i], or a
// single-definition local holding one of them, defined in the same iteration).
func c20SliceIteration(c *core.Ctx, f *core.FuncInfo, vals *types.Var, what string) (*core.Iteration, func(e ast.Expr, use core.Point) bool) {
	var it *core.Iteration
	f.InspectOwn(func(n ast.Node) bool {
		switch n.(type) {
		case *ast.RangeStmt, *ast.ForStmt:
		default:
			return true
		}
		resolve := func(e ast.Expr) ast.Expr {
			if varOf(f, e) == vals {
				return ast.Unparen(e) // the slice variable itself, not its defining expression
			}
			return c19Resolve(f, e, core.Point{})
		}
		cand, ok := core.IterationOf(f, n.(ast.Stmt), resolve)
		if fs, isFor := n.(*ast.ForStmt); !ok && isFor && fs.Cond != nil {
			// `for i := 0; i < len(vals) && <stop condition>; i++`: still an iteration over a prefix of vals in
			// slice order; the bound is the conjunct that compares the index
			for _, ft := range core.Decompose(fs.Cond, true) {
				if !ft.Truth || ft.Expr == fs.Cond {
					continue
				}
				cp := *fs
				cp.Cond = ft.Expr
				if c2, ok2 := core.IterationOf(f, &cp, resolve); ok2 && c2.Coll != nil && varOf(f, c2.Coll) == vals {
					c2.Stmt = fs
					c2.Head, c2.Done = f.LoopOf(fs)
					cand, ok = c2, true
					break
				}
			}
		}
		if !ok || cand.Coll == nil || varOf(f, cand.Coll) != vals {
			return true
		}
		c.Need(it == nil, "one loop over "+what)
		it = cand
		return true
	})
	c.Need(it != nil, what+" is visited by one loop in slice order (range, or for i := 0; i < len(..); i++)")
	c.Need(it.FromZero && it.Head != nil, "the loop over "+what+" starts at the first element")
	// the loop variables are changed only by the loop itself
	if it.Counted {
		fs, _ := it.Stmt.(*ast.ForStmt)
		c.Need(fs != nil && c19IsCounterOf(f, it.Index, fs), "the index of the loop over "+what+" is counted from 0 by 1 and not modified otherwise")
	} else {
		for _, v := range []*types.Var{it.Index, it.Value} {
			if v != nil {
				n, addr := c19AssignCount(f, v)
				c.Need(n == 1 && !addr, "range variables are not reassigned")
			}
		}
	}
	cur := func(e ast.Expr, use core.Point) bool {
		return it.IsElem(e, func(x ast.Expr) ast.Expr { return c19Resolve(f, x, use) })
	}
	return it, cur
}

func c20WMedian(c *core.Ctx) {
	f := c.Fn("utils/wmedian.Of")
	pVals, pStop := f.Param(0), f.Param(1)
	c.Need(pVals != nil && pStop != nil, "Of(values, stop) with named parameters")
	for _, v := range []*types.Var{pVals, pStop} {
		n, addr := c19AssignCount(f, v)
		c.Need(n == 0 && !addr, "parameters are not reassigned")
	}
	it, curAt := c20SliceIteration(c, f, pVals, "the values parameter")
	loop, head := it.Stmt, it.Head
	// accumulator: acc += cur.Weight() (or acc = acc + cur.Weight()), the weight possibly held in a local
	var acc *types.Var
	var adds []assignment
	for _, a := range assignments(f) {
		if !c19Within(loop, a.Stmt.Pos()) || a.RHS == nil {
			continue
		}
		rhs := a.RHS
		switch a.Tok {
		case token.ADD_ASSIGN:
		case token.ASSIGN:
			// acc = acc + w  /  acc = w + acc
			be, ok := ast.Unparen(rhs).(*ast.BinaryExpr)
			if !ok || be.Op != token.ADD || varOf(f, a.LHS) == nil {
				continue
			}
			switch varOf(f, a.LHS) {
			case varOf(f, be.X):
				rhs = be.Y
			case varOf(f, be.Y):
				rhs = be.X
			default:
				continue
			}
		default:
			continue
		}
		if w := isCallTo(f, c19Resolve(f, rhs, a.Pt), "utils/wmedian.WeightedValue.Weight"); w != nil {
			if sel, ok := ast.Unparen(w.Fun).(*ast.SelectorExpr); ok && curAt(sel.X, a.Pt) {
				c.Need(acc == nil || acc == varOf(f, a.LHS), "one accumulator")
				acc = varOf(f, a.LHS)
				adds = append(adds, a)
			}
		}
	}
	c.Need(acc != nil && len(adds) == 1, "curWeight += value.Weight() once per iteration")
	okZero := true
	for _, a := range assignsToVar(f, acc) {
		if a.Stmt == adds[0].Stmt {
			continue
		}
		zero := a.RHS == nil
		if zero {
			_, zero = a.Stmt.(*ast.ValueSpec)
		} else {
			zero = core.IsConstInt(f.Info(), a.RHS, 0)
		}
		if !zero || c19Within(loop, a.Stmt.Pos()) {
			okZero = false
		}
	}
	c.Check(okZero && c20EveryIteration(f, loop, adds[0].Pt), "weight accumulated from zero over every element in order", "provenance", adds[0].Stmt.Pos(), "the accumulator starts at 0, is only increased by the current element's Weight(), once in every iteration", "the accumulated weight is not the total weight of the prefix ending at the current element")
	namer := func(e ast.Expr) string {
		switch varOf(f, e) {
		case acc:
			return "cur"
		case pStop:
			return "stop"
		}
		return ""
	}
	reached := c19LinMatch(f, namer, "stop - cur <= 0")
	notReached := c19LinMatch(f, namer, "cur - stop + 1 <= 0")
	rets := f.ReturnPoints()
	c.ExpectAtLeast("returns of wmedian.Of", len(rets), 1)
	into := c19IntoHead(head)
	bodyEntry := core.Point{B: head.Succs[0], I: 0}
	// single-exit form: the element is kept in a result variable inside the loop and returned after it.
	// resultVar decides that v is such a variable: nil before the loop, assigned only the current element,
	// only after the += and over curWeight >= stop, and once it is assigned no further weight is added
	// (the loop is left, or continues only over v == nil, which cannot hold then: the element's Weight()
	// was called, so it is not nil).
	var resStores []core.Point
	resultVar := func(v *types.Var) ([]core.Point, bool) {
		if v == nil || v == pVals || v == pStop || !c19Within(f.Body, v.Pos()) {
			return nil, false
		}
		n, addr := c19AssignCount(f, v)
		as := assignsToVar(f, v)
		if addr || n != len(as) {
			return nil, false
		}
		var stores []core.Point
		for _, a := range as {
			if !c19Within(loop, a.Stmt.Pos()) {
				zero := a.RHS == nil
				if zero {
					_, zero = a.Stmt.(*ast.ValueSpec)
				} else {
					zero = core.IsNil(f.Info(), a.RHS)
				}
				if !zero || a.Stmt.Pos() > loop.Pos() {
					return nil, false
				}
				continue
			}
			if a.RHS == nil || a.Tok != token.ASSIGN || !curAt(a.RHS, a.Pt) {
				return nil, false
			}
			if _, early := (core.PathQuery{F: f, From: bodyEntry, Target: core.PointSet(a.Pt), Avoid: core.PointSet(adds[0].Pt), AvoidEdge: into}).Find(); early {
				return nil, false
			}
			if g, _ := c19GuardedBetween(f, adds[0].Pt, a.Pt, reached); !g {
				return nil, false
			}
			stores = append(stores, a.Pt)
		}
		for _, s := range stores {
			if _, more := (core.PathQuery{F: f, From: s, FromAfter: true, Target: core.PointSet(adds[0].Pt), AvoidEdge: c19Edges(f, varNilFact(f, v, true))}).Find(); more {
				return nil, false
			}
		}
		return stores, len(stores) > 0
	}
	for _, rp := range rets {
		r := rp.Node().(*ast.ReturnStmt)
		if len(r.Results) == 1 && !c19Within(loop, r.Pos()) {
			if v := varOf(f, r.Results[0]); v != nil {
				stores, okVar := resultVar(v)
				c.Check(okVar, "returns the current element", "provenance", r.Pos(), "the result variable holds the element at which the threshold was reached (stored over curWeight >= stop, nothing is added afterwards)", "Of returns a variable that is not exactly the first element at which the accumulated weight reached stop")
				if okVar {
					resStores = append(resStores, stores...)
					// returned only when it was stored: a path without a store reaches the return only over v != nil, which cannot hold
					path, unset := core.PathQuery{F: f, From: f.Entry(), Target: core.PointSet(rp), Avoid: core.PointSet(stores...), AvoidEdge: c19Edges(f, varNilFact(f, v, false))}.Find()
					c.Check(!unset, "returns only when the accumulated weight (including this element) reached stop", "T4 GuardedBy (normalised comparison)", r.Pos(), "the return is reached only after the element was stored over curWeight >= stop (or over result != nil)", "Of can return without any element having reached stop (nil or stale result instead of the panic); path "+f.DescribePath(path))
				}
				continue
			}
		}
		okV := len(r.Results) == 1 && curAt(r.Results[0], rp) && c19Within(loop, r.Pos())
		c.Check(okV, "returns the current element", "provenance", r.Pos(), "the result is the element at which the threshold was reached", "Of returns something other than the element of the current iteration")
		// within the iteration: add first, then the return only over cur >= stop
		path, found := core.PathQuery{F: f, From: bodyEntry, Target: core.PointSet(rp), Avoid: core.PointSet(adds[0].Pt), AvoidEdge: into}.Find()
		ok2, w2 := c19GuardedBetween(f, adds[0].Pt, rp, reached)
		if !found && !ok2 {
			path = w2
		}
		c.Check(!found && ok2, "returns only when the accumulated weight (including this element) reached stop", "T4 GuardedBy (normalised comparison)", r.Pos(), "the return follows the += and is reached only over curWeight >= stop", "the return is not guarded by curWeight >= stop evaluated after adding the current element's weight: the median is taken at a different prefix weight than the threshold (too high if it fires early, too low with a strict comparison); path "+f.DescribePath(path))
	}
	// the first element reaching the threshold is returned: continuing the loop requires cur < stop
	// (a store into the result variable of the single-exit form ends the search like a return: nothing is added after it)
	path, found := core.PathQuery{F: f, From: adds[0].Pt, FromAfter: true, Target: func(p core.Point) bool { return p.B == head }, AvoidEdge: c19Edges(f, notReached), TargetExit: true, Avoid: core.PointSet(append(append([]core.Point(nil), rets...), resStores...)...)}.Find()
	if found && len(path) > 0 {
		// reaching a return is fine (handled above); only the way back to the loop head counts
		lastPt := path[len(path)-1]
		if _, isRet := lastPt.Node().(*ast.ReturnStmt); isRet {
			found = false
		}
	}
	c.Check(!found, "iteration continues only while the threshold is not reached", "T4 GuardedBy (normalised comparison)", loop.Pos(), "the next element is examined only over curWeight < stop", "Of can pass over the first element that reaches the threshold: the median is too low; path "+f.DescribePath(path))
}

// ---------------------------------------------------------------------------
// seqOf and the fork sentinel

func c20Fork(c *core.Ctx) {
	f := c.Fn(c20SeqOf)
	p := f.Param(0)
	c.Need(p != nil, "seqOf(seq) with a named parameter")
	onP := func(e ast.Expr, name string) bool {
		call := isCallTo(f, e, name)
		if call == nil {
			return false
		}
		sel, ok := ast.Unparen(call.Fun).(*ast.SelectorExpr)
		return ok && varOf(f, sel.X) == p
	}
	forkFact := func(want bool) func(core.Fact) bool {
		return func(ft core.Fact) bool {
			cm, ok := core.NormCmp(ft)
			if !ok || !onP(cm.L, "abft/dagidx.Seq.IsForkDetected") {
				return false
			}
			val := cm.Op == token.EQL
			if cm.R != nil {
				if c20ConstBool(f, cm.R, false) {
					val = !val
				} else if !c20ConstBool(f, cm.R, true) {
					return false
				}
			}
			return val == want
		}
	}
	var sentinel constant.Value
	nConst, nSeq := 0, 0
	for _, rp := range f.ReturnPoints() {
		r := rp.Node().(*ast.ReturnStmt)
		c.Need(len(r.Results) == 1, "seqOf returns one value")
		e := c19Resolve(f, r.Results[0], rp)
		if cv, ok := core.ConstVal(f.Info(), e); ok {
			nConst++
			sentinel = constant.ToInt(cv)
			g, w := c19GuardedLocally(f, rp, forkFact(true))
			c.Check(g, "sentinel returned only for detected forks", "T4 GuardedBy", r.Pos(), "the constant is returned only over IsForkDetected() == true", "a validator without a detected fork can be reported with the maximal observation: "+f.DescribePath(w))
		} else if onP(e, "abft/dagidx.Seq.Seq") {
			nSeq++
			g, w := c19GuardedLocally(f, rp, forkFact(false))
			c.Check(g, "plain sequence returned only without fork", "T4 GuardedBy", r.Pos(), "seq.Seq() is returned only over IsForkDetected() == false", "a detected fork is reported with its plain sequence number instead of the maximal observation: "+f.DescribePath(w))
		} else {
			c.Undecided("seqOf result", "provenance", r.Pos(), "seqOf returns something that is neither a constant nor seq.Seq()")
		}
	}
	c.ExpectAtLeast("sentinel returns in seqOf", nConst, 1)
	c.ExpectAtLeast("Seq() returns in seqOf", nSeq, 1)
	// T15: sentinel >= largest admissible Seq. basiccheck rejects Seq >= K.
	// The function holding the test is found by what it does (c20_limit.go): the entry point
	// basiccheck.Validate or a same-package function the event is handed to (method or plain function),
	// that returns nil only over Seq < K.
	entry, limitSites := c20SeqLimitSites(c)
	var kVal *big.Int
	nOK := 0
	if len(limitSites) == 0 {
		c.Check(false, "basiccheck accepts only Seq <= bound", "T8 DecisionTable", entry.Pos(), "", "neither basiccheck.Validate nor a function of basiccheck it hands the event to returns nil only over Seq < K: events are accepted without an upper bound on Seq, the fork sentinel is no longer above every admissible sequence")
	}
	for _, s := range limitSites {
		bc := s.F
		capture := c20SeqBoundFact(bc, s.Ev, func(k *big.Int) {
			// several tests: the weakest one is what the sentinel is compared with
			if kVal == nil || k.Cmp(kVal) > 0 {
				kVal = k
			}
		})
		for _, rp := range c20AcceptingReturns(bc) {
			g, _ := c19GuardedLocally(bc, rp, capture)
			c.Check(g, "basiccheck accepts only Seq <= bound", "T8 DecisionTable", posOf(rp), bc.Name+" returns nil only over Seq < K", bc.Name+" can accept an event without an upper bound on Seq: the fork sentinel is no longer above every admissible sequence")
			if g {
				nOK++
			}
		}
	}
	c.ExpectAtLeast("accepting returns of checkLimits", nOK, 1)
	if sentinel != nil && kVal != nil {
		sv, _ := new(big.Int).SetString(sentinel.ExactString(), 10)
		okRel := sv != nil && sv.Cmp(kVal) >= 0
		// and the documented value
		want := new(big.Int).Sub(new(big.Int).Lsh(big.NewInt(1), 31), big.NewInt(2))
		c.Check(okRel, "fork sentinel >= every admissible Seq", "T15 ConstRelation", f.Pos(), "sentinel "+sentinel.ExactString()+" >= "+kVal.String()+" (largest Seq accepted by basiccheck)", "the fork sentinel "+sentinel.ExactString()+" is below the largest admissible Seq "+kVal.String()+": a forking validator can rank below an honest observation")
		c.Note("C20.fork: sentinel=%s, largest admissible Seq=%s, sentinel==2^31-2: %v", sentinel.ExactString(), kVal.String(), sv != nil && sv.Cmp(want) == 0)
	}
}

// ---------------------------------------------------------------------------
// GetMetricOf

// c20Metric lives in c20_metric.go (inlined view: the per-validator diff may be computed in a helper).
