package rules

import (
	"go/ast"
	"go/token"
	"go/types"

	"golang.org/x/tools/go/cfg"

	"lachk/core"
)

func init() {
	register("C02", "other", "T2 Dominates + T4 GuardedBy (mark before deliver, deliver once), T6 WhoMayCall, linear normaliser (frame bookkeeping)",
		"Decides the structure behind 'each block delivers exactly the new ancestry, once': in the confirmation walk an event is handed to the application only on the edge where it is not yet marked confirmed, and only after it has been marked with the block's frame on the same path (the walk may visit an event twice); the mark is written nowhere else and the application's per-event callback is reachable only through that walk; the walk descends only into parents of delivered events (the filter may be a closure of confirmEvents, a closure that forwards to a module function, or a method bound to a struct built there whose fields are assigned nowhere else; or a struct built there that is handed to a walk taking a one-method interface; parents may be pushed one by one or as a whole list, the push being recognised by what the callee does); every event the walk loads is offered to the filter before the next iteration, unless that very event id is in a local set of walked ids. Frame bookkeeping (decided on the inlined view of onFrameDecided, error values handed on by folded-in helpers followed) (per path, over the definitions that reach the Reset): on every path of onFrameDecided the frame persisted as last decided and the frame the election is reset to differ by exactly one (frame / frame+1, or FirstFrame-1 / FirstFrame when sealing), Bootstrap creates the election at last-decided+1, and the decided (frame, atropos) pair of the election result is what is applied. Roots (C02.roots): every frame slot of a root is written to the roots table in its own iteration of Store.AddRoot's slot loop, because a restarted node rebuilds the election from that table alone and a missing slot lets it decide a frame during Bootstrap, before the block callbacks exist (a block is swallowed, later blocks shift). Ancestry closure and 'the Atropos is a root of that frame' are graph facts and are not decided.",
		[]string{"the event source returns the events that were processed", "application callbacks are opaque"},
		runC02)
}

// c02ParamType: the type of parameter i of the function called at ws.
func c02ParamType(f *core.FuncInfo, ws *core.CallSite, i int) types.Type {
	sig, _ := f.Info().TypeOf(ws.Call.Fun).(*types.Signature)
	if sig == nil || i >= sig.Params().Len() {
		return nil
	}
	return sig.Params().At(i).Type()
}

// c02WalkedByID: the edges of g that say "this event id is in a local set": the comma-ok / value of a map
// lookup whose key is the id handed to GetEvent (or event.ID() of the loaded event), tested true.
func c02WalkedByID(g *core.FuncInfo, get *core.CallSite, event *types.Var) func(*cfg.Block, int) bool {
	var id *types.Var
	if len(get.Call.Args) == 1 {
		id = canonVar(g, varOf(g, get.Call.Args[0]))
	}
	isID := func(k ast.Expr) bool {
		if v := canonVar(g, varOf(g, k)); v != nil && v == id {
			return true
		}
		return event != nil && c01MethodOn(g, k, "ID") == event
	}
	lookup := func(e ast.Expr) bool {
		ix, ok := ast.Unparen(e).(*ast.IndexExpr)
		if !ok {
			return false
		}
		if _, isMap := g.Info().TypeOf(ix.X).Underlying().(*types.Map); !isMap {
			return false
		}
		return isID(ix.Index)
	}
	return g.GuardEdges(func(ft core.Fact) bool {
		e, truth, ok := c01BoolOperand(g.Info(), ft)
		if !ok || !truth {
			return false
		}
		if lookup(e) {
			return true
		}
		v := varOf(g, e)
		if v == nil {
			return false
		}
		for _, a := range assignsToVar(g, v) {
			as, isAs := a.Stmt.(*ast.AssignStmt)
			if !isAs || len(as.Rhs) != 1 || !lookup(as.Rhs[0]) {
				return false
			}
		}
		return len(assignsToVar(g, v)) > 0
	})
}

func runC02(c *core.Ctx) {
	p := c.P
	c.Clause("C02.once", func() {
		f := c.Fn("abft.Lachesis.confirmEvents")
		// the filter handed to the walk (directly or through a local): a closure, a closure that only
		// forwards to a module function, or a method bound to a struct built here (c02FilterOf)
		frame := f.Param(0)
		cb := f.ParamNamed("onEventConfirmed")
		if cb == nil {
			cb = f.Param(2)
		}
		var flt c02Filter
		found := false
		for _, ws := range f.CallsTo("abft.Orderer.dfsSubgraph") {
			if len(ws.Call.Args) == 2 && !found {
				flt, found = c02FilterOf(f, ws.Call.Args[1], c02ParamType(f, ws, 1), frame, cb)
			}
		}
		c.Need(found && flt.fn != nil, "confirmEvents passes a filter (closure or bound method) to dfsSubgraph")
		l, ev := flt.fn, flt.ev
		deliver := l.CallsMatching(func(cs *core.CallSite) bool { return flt.isCb(cs.Call.Fun) })
		c.ExpectAtLeast("delivery sites", len(deliver), 1)
		marks := l.CallsTo("abft.Store.SetEventConfirmedOn")
		gets := l.CallsTo("abft.Store.GetEventConfirmedOn")
		c.Need(len(marks) == 1 && len(gets) == 1, "the closure reads and writes the confirmed mark once each")
		isEvID := func(e ast.Expr) bool { return ev != nil && c01MethodOn(l, e, "ID") == ev }
		c.Check(isEvID(marks[0].Call.Args[0]) && isEvID(gets[0].Call.Args[0]) && flt.isFrame(marks[0].Call.Args[1]), "mark is read and written for the visited event with the block's frame", "provenance", marks[0].Pos(), "Get/SetEventConfirmedOn(e.ID(), frame)", "the confirmed mark is not keyed by the visited event or not set to the block's frame")
		// the value read
		var dv *types.Var
		for _, a := range assignments(l) {
			if a.RHS != nil && ast.Unparen(a.RHS) == ast.Expr(gets[0].Call) {
				dv = varOf(l, a.LHS)
			}
		}
		// (the test may be kept in a boolean local: `seen := mark != 0; if seen {…}`)
		notYet := c01FactThrough(l, func(ft core.Fact) bool {
			lc, k := core.NormLinCmp(l.Info(), ft, func(e ast.Expr) string {
				if dv != nil && varOf(l, e) == dv {
					return "mark"
				}
				if ast.Unparen(e) == ast.Expr(gets[0].Call) {
					return "mark"
				}
				return ""
			})
			if !k {
				return false
			}
			// the mark is an unsigned frame number: "not > 0" says the same as "== 0"
			unsigned := false
			if b, isB := l.Info().TypeOf(gets[0].Call).Underlying().(*types.Basic); isB && b.Info()&types.IsUnsigned != 0 {
				unsigned = true
			}
			return lc.Equal(core.ParseLinCmp("mark == 0")) || (unsigned && lc.Equal(core.ParseLinCmp("mark <= 0")))
		})
		for _, d := range deliver {
			ok1, wit := l.GuardedBy(d.Pt, notYet)
			c.Check(ok1, "event delivered only if not yet confirmed", "T4 GuardedBy", d.Pos(), "the application callback is reached only on the mark == 0 edge", "an event already delivered by an earlier block (or earlier in this walk) can be delivered again: "+l.DescribePath(wit))
			ok2, wit2 := l.MustPassBefore(core.Points(marks), d.Pt)
			c.Check(ok2, "event marked before it is delivered", "T2 Dominates", d.Pos(), "SetEventConfirmedOn dominates the callback (the walk may reach the event twice)", "an event can be delivered without having been marked: a second visit delivers it again ("+l.DescribePath(wit2)+")")
			c.Check(canonVar(l, varOf(l, d.Call.Args[0])) == ev, "the visited event is what is delivered", "provenance", d.Pos(), "callback(e)", "a different event is delivered")
		}
		// descend (true) only when newly confirmed; already confirmed => false
		for _, rp := range returnsWith(l, 0, func(e ast.Expr) bool { return isIdentNamed(e, "true") }) {
			ok, _ := l.MustPassBefore(core.Points(marks), rp)
			c.Check(ok, "walk descends only from newly confirmed events", "T2 Dominates", posOf(rp), "'true' (descend into parents) is returned only after marking", "the walk can descend from an unmarked event")
		}
		ws := f.CallsTo("abft.Orderer.dfsSubgraph")
		okW := len(ws) == 1 && varOf(f, ws[0].Call.Args[0]) == f.Param(1)
		c.Check(okW, "walk starts at the block's Atropos", "provenance", f.Pos(), "dfsSubgraph(atropos, filter)", "the confirmation walk does not start at the Atropos")
	})

	c.Clause("C02.walk", func() {
		anchor := c.Fn("abft.Orderer.dfsSubgraph")
		f, filter := anchor, anchor.Param(1)
		// a call of the filter: the function value itself, or the single method of an interface-typed filter
		isFilterCall := func(g *core.FuncInfo, v *types.Var) func(cs *core.CallSite) bool {
			return func(cs *core.CallSite) bool {
				if v == nil {
					return false
				}
				if cs.Callee == types.Object(v) {
					return true
				}
				if _, isIface := v.Type().Underlying().(*types.Interface); isIface && cs.Recv() != nil {
					return varOf(g, cs.Recv()) == v
				}
				return false
			}
		}
		calledIn := func(g *core.FuncInfo, v *types.Var) bool {
			return v != nil && len(g.CallsMatching(isFilterCall(g, v))) > 0
		}
		if !calledIn(anchor, filter) {
			// the step of the walk (load, filter, push the parents) may be a helper that is handed the filter
			// and is called in every iteration of the walk
			for _, w := range c01HelperViews(anchor) {
				if w.At == nil || w.G.Type.Params == nil {
					continue
				}
				for _, fl := range w.G.Type.Params.List {
					for _, nm := range fl.Names {
						pv, _ := w.G.Info().Defs[nm].(*types.Var)
						if _, cv, bound := w.bindVar(pv); bound && cv != nil && cv == anchor.Param(1) && calledIn(w.G, pv) && f == anchor {
							if every, _ := c03EveryIterationCalls(anchor, w.At); every {
								f, filter = w.G, pv
							}
						}
					}
				}
			}
		}
		fc := f.CallsMatching(isFilterCall(f, filter))
		// pushes onto the stack of the walk: one element at a time or all elements of a list at once,
		// classified by what the callee does (c02PushKind)
		push := f.CallsMatching(func(cs *core.CallSite) bool {
			single, bulk := c02PushKind(cs)
			return single || bulk
		})
		c.Need(len(fc) == 1 && len(push) >= 1, "dfsSubgraph filters each event and pushes parents")
		// the event that was filtered
		var filtered *types.Var
		if len(fc[0].Call.Args) == 1 {
			filtered = canonVar(f, varOf(f, fc[0].Call.Args[0]))
		}
		accepted := func(ft core.Fact) bool {
			// filter(event) is true: the call itself or a local holding its result, in any spelling
			e, truth, ok := c01BoolOperand(f.Info(), ft)
			return ok && truth && resolveLocal(f, e) == ast.Expr(fc[0].Call)
		}
		for _, ps := range push {
			ok, wit := f.GuardedBetween(fc[0].Pt, ps.Pt, accepted)
			d, _ := f.MustPassBefore(core.Points(fc), ps.Pt)
			c.Check(ok && d, "parents are visited only for accepted events", "T4 GuardedBy", ps.Pos(), "stack.Push(parent) is reached only on the filter(event) == true edge of the same iteration", "parents of a rejected (already confirmed) event are walked: "+f.DescribePath(wit))
			// what is pushed are the filtered event's parents: the push is made once per element of an
			// iteration over event.Parents() (ranged or indexed, possibly through a local)
			// — or the whole list event.Parents() is pushed at once
			okP := false
			if _, bulk := c02PushKind(ps); bulk {
				okP = len(ps.Call.Args) == 1 && filtered != nil && c01MethodOn(f, ps.Call.Args[0], "Parents") == filtered
			} else if it, isIt := c01IterationOf(f, enclosingLoop(f, ps.Pos())); isIt && it.FromZero && it.Coll != nil && len(ps.Call.Args) == 1 {
				okP = c01MethodOn(f, it.Coll, "Parents") == filtered && filtered != nil && it.IsElem(ps.Call.Args[0], c01Resolver(f))
			}
			c.Check(okP, "the walk follows the parents relation", "provenance", ps.Pos(), "pushes each element of event.Parents() of the filtered event", "the walk does not push the event's parents")
		}
		// a missing event is an error
		get := anchor.CallsTo("abft.EventSource.GetEvent")
		if f != anchor {
			get = append(get, f.CallsTo("abft.EventSource.GetEvent")...)
		}
		c.Check(len(get) == 1, "events are loaded from the event source", "provenance", f.Pos(), "input.GetEvent(walk)", "dfsSubgraph does not load events from the event source")
		// every loaded event is offered to the filter: the filter is what marks and delivers, so an event
		// that the walk drops for another reason is neither delivered by this block nor marked, and its
		// ancestors are not walked. The only other acceptable reason to drop it is that this very event
		// (by its id) was already walked.
		for _, gs := range get {
			g := gs.F
			loop := c01LoopAround(g, gs.Call)
			if g != f || loop == nil {
				continue
			}
			head, _ := g.LoopOf(loop)
			if head == nil {
				continue
			}
			walked := c02WalkedByID(g, gs, filtered)
			path, skip := core.PathQuery{F: g, From: gs.Pt, FromAfter: true, Avoid: core.PointSet(core.Points(fc)...), AvoidEdge: walked,
				TargetBlock: func(b *cfg.Block) bool { return b == head }}.Find()
			c.Check(!skip, "every loaded event is offered to the filter", "T3 PostDominates (per iteration)", gs.Pos(), "from GetEvent every path to the next iteration passes filter(event) (an error return apart)",
				"the walk can drop a loaded event without offering it to the filter, for a reason other than that this event id was walked before ("+g.DescribePath(path)+"): the event is neither delivered nor marked by this block and its ancestors are not walked, so the block does not deliver exactly the new ancestry of its Atropos")
		}
	})

	c.Clause("C02.who", func() {
		n := 0
		// the confirmation walk's filter: a closure of confirmEvents, or the method such a closure only
		// forwards to when nothing else calls that method
		owner := map[*core.FuncInfo]bool{}
		if ce := p.Func("abft.Lachesis.confirmEvents"); ce != nil {
			for _, lit := range allLits(ce) {
				owner[lit] = true
			}
			// … or the function that the filter handed to the walk consists of (forwarding target, bound
			// method) when the module uses it for nothing else
			for _, ws := range ce.CallsTo("abft.Orderer.dfsSubgraph") {
				if len(ws.Call.Args) != 2 {
					continue
				}
				if flt, ok := c02FilterOf(ce, ws.Call.Args[1], c02ParamType(ce, ws, 1), ce.Param(0), ce.Param(2)); ok {
					for _, g := range flt.own {
						owner[g] = true
					}
				}
			}
		}
		for _, g := range p.FuncsInPkg("abft") {
			all := append([]*core.FuncInfo{g}, allLits(g)...)
			for _, h := range all {
				for _, cs := range h.CallsTo("abft.Store.SetEventConfirmedOn") {
					n++
					okOwner := owner[h]
					c.Check(okOwner, "confirmed mark written in "+short(h.Name), "T6 WhoMayCall", cs.Pos(), "the confirmation walk's filter", "the confirmed mark is written outside the confirmation walk")
				}
			}
		}
		c.ExpectAtLeast("writers of the confirmed mark", n, 1)
		// ApplyEvent is only handed to confirmEvents
		aa := c.Fn("abft.Lachesis.applyAtropos")
		// the callback (the field or a local holding it) is never invoked here and is handed to no other
		// function than confirmEvents; comparing it with nil is not a use
		isApplyEvent := func(e ast.Expr) bool { return fieldNameOf(aa, e) == "lachesis.BlockCallbacks.ApplyEvent" }
		uses := 0
		okUse := true
		for _, cs := range aa.Calls() {
			if isApplyEvent(cs.Call.Fun) {
				okUse = false
			}
			for _, a := range cs.Call.Args {
				if isApplyEvent(a) {
					if cs.Name == "abft.Lachesis.confirmEvents" {
						uses++
					} else {
						okUse = false
					}
				}
			}
		}
		c.Check(okUse && uses >= 1, "the per-event callback is reachable only through the confirmation walk", "T6 WhoMayCall", aa.Pos(), "blockCallback.ApplyEvent is only passed to confirmEvents", "the application's per-event callback is invoked outside the confirmation walk")
		// confirmEvents gets the decided frame and the atropos
		ce := aa.CallsTo("abft.Lachesis.confirmEvents")
		okArgs := len(ce) == 1 && len(ce[0].Call.Args) == 3 && aa.Param(0) != nil && aa.Param(1) != nil &&
			canonVar(aa, varOf(aa, ce[0].Call.Args[0])) == aa.Param(0) && canonVar(aa, varOf(aa, ce[0].Call.Args[1])) == aa.Param(1)
		c.Check(okArgs, "the block's frame and Atropos drive the walk", "provenance", aa.Pos(), "confirmEvents(decidedFrame, atropos, ·)", "the walk is not given the decided frame and Atropos")
		// the Block handed to the application carries that Atropos
		okBlk := false
		aa.InspectOwn(func(nd ast.Node) bool {
			if cl, ok := nd.(*ast.CompositeLit); ok {
				if t := aa.Info().TypeOf(cl); t != nil && t.String() == core.ModPath+"/lachesis.Block" {
					if v, has := c01StructFields(aa, cl)["Atropos"]; has && aa.Param(1) != nil && canonVar(aa, varOf(aa, v)) == aa.Param(1) {
						okBlk = true
					}
				}
			}
			return true
		})
		c.Check(okBlk, "the block names the decided Atropos", "provenance", aa.Pos(), "Block{Atropos: atropos, ...}", "the block handed to the application does not carry the decided Atropos")
	})

	c.Clause("C02.frame", func() {
		frameBookkeeping(c)
		// the decided pair is applied as is
		for _, name := range []string{"abft.Orderer.handleElection", "abft.Orderer.bootstrapElection"} {
			f := c.Fn(name)
			// the decision may be applied in the function itself or in a helper it hands the result to
			for _, e := range c01Effects(f, func(cs *core.CallSite) bool { return cs.Name == "abft.Orderer.onFrameDecided" }) {
				if e.G != f && e.At.Name == "abft.Orderer.bootstrapElection" {
					continue // judged under its own name
				}
				cs, g := e.Eff, e.G
				ok := len(cs.Call.Args) == 2
				if ok {
					r0, p0 := fieldPath(g, cs.Call.Args[0])
					r1, p1 := fieldPath(g, cs.Call.Args[1])
					ok = len(p0) == 1 && p0[0] == "abft/election.Res.Frame" && len(p1) == 1 && p1[0] == "abft/election.Res.Atropos"
					// frame and Atropos are taken from one and the same result
					ok = ok && varOf(g, r0) != nil && canonVar(g, varOf(g, r0)) == canonVar(g, varOf(g, r1))
				}
				c.Check(ok, short(name)+" applies the election's (frame, atropos)", "provenance", cs.Pos(), "onFrameDecided(decided.Frame, decided.Atropos)", "the applied frame/Atropos are not the election's result")
			}
		}
		// applyAtropos receives them unchanged
		od := c02DecideView(c)
		// (the callback field may be read into a local before the nil test and the call)
		aa := c02FieldCalls(od, "abft.OrdererCallbacks.ApplyAtropos")
		ok := len(aa) >= 1
		for _, cs := range aa {
			ok = ok && len(cs.Call.Args) == 2 && od.Param(0) != nil && od.Param(1) != nil &&
				canonVar(od, varOf(od, cs.Call.Args[0])) == od.Param(0) && canonVar(od, varOf(od, cs.Call.Args[1])) == od.Param(1)
		}
		c.Check(ok, "the block callback gets the decided frame and Atropos", "provenance", od.Pos(), "ApplyAtropos(frame, atropos)", "the block callback is not given the decided frame/Atropos")
	})
	c02RootsPersisted(c)
	_ = token.NoPos
}
