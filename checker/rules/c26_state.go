package rules

import (
	"go/ast"
	"go/types"
	"strings"

	"lachk/core"
)

// c26RouteState decides that the route of a request does not depend on which requests were routed
// before ("routing is deterministic; re-opening a request, also after a restart, yields the same database
// and table"). RouteOf has no input but the request and the producer, so the fact is about the producer
// state it consults:
//
//	frozen       every field of the producer (and package variable) that RouteOf, or a function it
//	             enters, reads is written only while the producer is constructed: no assignment to the
//	             field, to an element or sub-field of it, no delete/clear/copy into it and no mutating
//	             method call on it anywhere else in the package (aliases through pointers are not
//	             followed);
//	or a memo    a field that is written after construction is tolerated only as a cache of RouteOf's
//	             own results: every access is keyed, made in RouteOf itself, all keys are one variable
//	             that still holds the request RouteOf was called with at every access (a parameter that is
//	             never assigned, or a local copy taken before the parameter changes), and what is stored
//	             is what RouteOf returns right after. Anything else makes the answer for one request depend
//	             on the requests routed earlier (e.g. a result stored under a shortened request).
type c26StateWrite struct {
	g        *core.FuncInfo
	pt       core.Point
	pos      ast.Node
	what     string
	key, val ast.Expr // keyed store (m[k] = v, sync.Map.Store(k, v)); nil otherwise
}

type c26StateRead struct {
	g   *core.FuncInfo
	pos ast.Node
	key ast.Expr // keyed read (m[k], sync.Map.Load(k)); nil: the field is used as a whole
}

// c26StateIDs lists the producer fields / package variables the expression passes through, following
// selections, indexing, slicing, dereferences and single-definition locals (innermost last).
func c26StateIDs(f *core.FuncInfo, e ast.Expr, isState func(*types.Var) string) []string {
	var out []string
	for depth := 0; depth < 12 && e != nil; depth++ {
		e = resolveLocal(f, e)
		switch x := e.(type) {
		case *ast.SelectorExpr:
			if s, ok := f.Info().Selections[x]; ok {
				if v, ok := s.Obj().(*types.Var); ok && v.IsField() {
					if id := isState(v); id != "" {
						out = append(out, id)
					}
				}
				e = x.X
				continue
			}
			// qualified identifier pkg.Var
			if v, ok := f.Info().Uses[x.Sel].(*types.Var); ok {
				if id := isState(v); id != "" {
					out = append(out, id)
				}
			}
			return out
		case *ast.IndexExpr:
			e = x.X
		case *ast.SliceExpr:
			e = x.X
		case *ast.StarExpr:
			e = x.X
		case *ast.TypeAssertExpr:
			e = x.X
		case *ast.Ident:
			if v, ok := f.Info().ObjectOf(x).(*types.Var); ok {
				if id := isState(v); id != "" {
					out = append(out, id)
				}
			}
			return out
		default:
			return out
		}
	}
	return out
}

func c26RouteState(c *core.Ctx, root, ctor *core.FuncInfo) {
	p := c.P
	rv := root.Recv()
	c.Need(rv != nil, "RouteOf is a method of the producer")
	rt := rv.Type()
	if pt, ok := rt.(*types.Pointer); ok {
		rt = pt.Elem()
	}
	rst, ok := rt.Underlying().(*types.Struct)
	c.Need(ok, "the producer is a struct")
	own := map[*types.Var]bool{}
	for i := 0; i < rst.NumFields(); i++ {
		own[rst.Field(i)] = true
	}
	inScope := func(pk *types.Package) bool {
		if pk == nil {
			return false
		}
		rel := core.RelPkg(pk.Path())
		return rel == "kvdb/multidb" || rel == "utils/fmtfilter"
	}
	isState := func(v *types.Var) string {
		switch {
		case v == nil:
		case v.IsField():
			if own[v] {
				return p.FieldName(v)
			}
		case v.Pkg() != nil && v.Parent() == v.Pkg().Scope() && inScope(v.Pkg()):
			return core.RelPkg(v.Pkg().Path()) + "." + v.Name()
		}
		return ""
	}
	withLits := func(fs []*core.FuncInfo) []*core.FuncInfo {
		var out []*core.FuncInfo
		for _, f := range fs {
			out = append(out, f)
			out = append(out, allLits(f)...)
		}
		return out
	}

	// what RouteOf consults
	var reach []*core.FuncInfo
	for _, g := range core.ReachableFuncs(p, []*core.FuncInfo{root}, false) {
		if inScope(g.Pkg.Types) {
			reach = append(reach, g)
		}
	}
	reads := map[string][]c26StateRead{}
	var order []string
	for _, g := range withLits(reach) {
		g := g
		keyed := map[ast.Expr]ast.Expr{} // the state expression -> key it is read with
		selIdent := map[*ast.Ident]bool{}
		g.InspectOwn(func(n ast.Node) bool {
			switch x := n.(type) {
			case *ast.SelectorExpr:
				selIdent[x.Sel] = true
			case *ast.IndexExpr:
				keyed[ast.Unparen(x.X)] = x.Index
			case *ast.CallExpr:
				if sel, ok := ast.Unparen(x.Fun).(*ast.SelectorExpr); ok && calleeName(g, x) == "sync.Map.Load" && len(x.Args) == 1 {
					keyed[ast.Unparen(sel.X)] = x.Args[0]
				}
			}
			return true
		})
		g.InspectOwn(func(n ast.Node) bool {
			var v *types.Var
			var e ast.Expr
			switch x := n.(type) {
			case *ast.SelectorExpr:
				if s, ok := g.Info().Selections[x]; ok {
					v, _ = s.Obj().(*types.Var)
				} else {
					v, _ = g.Info().Uses[x.Sel].(*types.Var)
				}
				e = x
			case *ast.Ident:
				if !selIdent[x] { // the Sel of a selector is handled with the selector
					v, _ = g.Info().Uses[x].(*types.Var)
				}
				e = x
			}
			if id := isState(v); id != "" {
				if _, seen := reads[id]; !seen {
					order = append(order, id)
				}
				reads[id] = append(reads[id], c26StateRead{g: g, pos: n, key: keyed[e]})
			}
			return true
		})
	}
	c.ExpectAtLeast("producer fields consulted by RouteOf", len(order), 1)

	// who writes them after construction
	var scope []*core.FuncInfo
	for _, f := range p.Funcs() {
		if inScope(f.Pkg.Types) && f.Parent == nil && f != ctor {
			scope = append(scope, f)
		}
	}
	writes := map[string][]c26StateWrite{}
	pure := core.Purity(p, "kvdb/multidb", "utils/fmtfilter")
	for _, g := range withLits(scope) {
		for _, a := range assignments(g) {
			if _, isSpec := a.Stmt.(*ast.ValueSpec); isSpec {
				continue
			}
			if id, isId := ast.Unparen(a.LHS).(*ast.Ident); isId {
				// a plain local is not state; a package variable is
				if v, _ := g.Info().ObjectOf(id).(*types.Var); isState(v) == "" {
					continue
				}
			}
			ids := c26StateIDs(g, a.LHS, isState)
			for _, id := range ids {
				w := c26StateWrite{g: g, pt: a.Pt, pos: a.Stmt, what: "assignment to " + exprStr(a.LHS)}
				if ix, isIx := ast.Unparen(a.LHS).(*ast.IndexExpr); isIx {
					// m[k] = v on the field itself
					if sel, k := resolveLocal(g, ix.X).(*ast.SelectorExpr); k && isState(c26FieldOf(g, sel)) == id {
						w.key, w.val = ix.Index, a.RHS
					}
				}
				writes[id] = append(writes[id], w)
			}
		}
		for _, cs := range g.Calls() {
			switch o := cs.Callee.(type) {
			case *types.Builtin:
				switch o.Name() {
				case "delete", "clear", "copy":
					if len(cs.Call.Args) > 0 {
						for _, id := range c26StateIDs(g, cs.Call.Args[0], isState) {
							writes[id] = append(writes[id], c26StateWrite{g: g, pt: cs.Pt, pos: cs.Call, what: o.Name() + "(" + exprStr(cs.Call.Args[0]) + ", …)"})
						}
					}
				}
			case *types.Func:
				recv := cs.Recv()
				sig, _ := o.Type().(*types.Signature)
				if recv == nil || sig == nil || sig.Recv() == nil {
					continue
				}
				rtyp := sig.Recv().Type()
				if _, isPtr := rtyp.(*types.Pointer); !isPtr || types.IsInterface(rtyp) {
					continue // value receivers work on a copy; interface values are opaque backends
				}
				if cs.Name == "sync.Map.Load" || cs.Name == "sync.Map.Range" || strings.HasPrefix(cs.Name, "sync.RWMutex.") || strings.HasPrefix(cs.Name, "sync.Mutex.") {
					continue
				}
				if h := p.FuncOf(o); h != nil && pure[h] == "" {
					continue // a read-only module method
				}
				for _, id := range c26StateIDs(g, recv, isState) {
					w := c26StateWrite{g: g, pt: cs.Pt, pos: cs.Call, what: "call of " + cs.Name + " on " + exprStr(recv)}
					if cs.Name == "sync.Map.Store" && len(cs.Call.Args) == 2 {
						w.key, w.val = cs.Call.Args[0], cs.Call.Args[1]
					}
					writes[id] = append(writes[id], w)
				}
			}
		}
	}

	for _, id := range order {
		ws := writes[id]
		key := short(id) + "|consulted by RouteOf, fixed after construction"
		if len(ws) == 0 {
			c.Pass(key, "T6 WhoMayWrite", "nothing outside "+short(ctor.Name)+" writes the field, its elements or calls a mutating method on it")
			continue
		}
		ok, why, at := c26IsMemo(root, reads[id], ws)
		c.Check(ok, key, "T6 WhoMayWrite + provenance", at.Pos(),
			"written after construction only as a cache of RouteOf's own result under the unmodified request",
			"RouteOf consults "+short(id)+", which is modified after the producer was built ("+ws[0].what+" in "+short(c27Declared(ws[0].g).Name)+" at "+p.Pos(ws[0].pos.Pos())+"), and "+why+": the route of a request then depends on which requests were routed before it, so the same request can get a different database or table on a fresh producer / after a restart")
	}
}

func c26FieldOf(g *core.FuncInfo, sel *ast.SelectorExpr) *types.Var {
	if s, ok := g.Info().Selections[sel]; ok {
		v, _ := s.Obj().(*types.Var)
		return v
	}
	v, _ := g.Info().Uses[sel.Sel].(*types.Var)
	return v
}

// c26IsMemo: are the accesses of one post-construction-written field those of a result cache of root
// (see c26RouteState)? at is the construct to report.
func c26IsMemo(root *core.FuncInfo, reads []c26StateRead, writes []c26StateWrite) (ok bool, why string, at ast.Node) {
	var keyVar *types.Var
	sameKey := func(k ast.Expr) bool {
		v := varOf(root, k)
		if v == nil {
			return false
		}
		if keyVar == nil {
			keyVar = v
		}
		return keyVar == v
	}
	for _, w := range writes {
		switch {
		case w.g != root:
			return false, "it is written outside RouteOf's own body", w.pos
		case w.key == nil:
			return false, "the modification is not a store of one entry under a key", w.pos
		case !sameKey(w.key):
			return false, "its entries are read and written under different key expressions", w.pos
		}
	}
	at = writes[0].pos
	for _, r := range reads {
		isWrite := false
		for _, w := range writes {
			if w.pos.Pos() <= r.pos.Pos() && r.pos.End() <= w.pos.End() {
				isWrite = true
			}
		}
		switch {
		case isWrite:
		case r.g != root:
			return false, "it is also read in " + short(c27Declared(r.g).Name), r.pos
		case r.key == nil:
			return false, "it is also used other than by looking up one key", r.pos
		case !sameKey(r.key):
			return false, "its entries are read and written under different key expressions", r.pos
		}
	}
	if keyVar == nil {
		return false, "no keyed access identifies the request an entry belongs to", at
	}
	// the key still holds the request RouteOf was called with
	req := root.Param(0)
	for _, l := range allLits(root) {
		if len(assignsToVar(l, keyVar)) > 0 || (req != nil && len(assignsToVar(l, req)) > 0) {
			return false, "the key variable is assigned in a closure", at
		}
	}
	switch {
	case req != nil && keyVar == req:
		if as := assignsToVar(root, req); len(as) > 0 {
			return false, "its entries are keyed by " + req.Name() + ", which RouteOf itself rewrites (" + root.P.Pos(as[0].Stmt.Pos()) + ": the request is shortened to its parent while falling back), so a result is stored under a request it does not belong to", writes[0].pos
		}
	case req != nil && c27SingleAssigned(root, keyVar):
		def := assignsToVar(root, keyVar)[0]
		if def.RHS == nil || varOf(root, def.RHS) != req {
			return false, "its entries are keyed by " + keyVar.Name() + ", which is not a copy of the request", at
		}
		for _, a := range assignsToVar(root, req) {
			if root.CanReach(a.Pt, def.Pt) {
				return false, "its entries are keyed by " + keyVar.Name() + ", a copy of the request that can be taken after the request was rewritten", at
			}
		}
	default:
		return false, "its entries are keyed by " + keyVar.Name() + ", which is not the request RouteOf was called with", at
	}
	// what is stored is what is returned
	for _, w := range writes {
		vv := varOf(root, w.val)
		if vv == nil {
			return false, "what is stored is not a variable that RouteOf then returns", w.pos
		}
		same := returnsWith(root, 0, func(e ast.Expr) bool { return varOf(root, e) == vv })
		if okR, _ := root.MustPassAfter(w.pt, same); !okR || len(same) == 0 {
			return false, "what is stored under the request is not what RouteOf returns for it", w.pos
		}
		for _, a := range assignsToVar(root, vv) {
			if root.CanReach(w.pt, a.Pt) {
				return false, "the stored value is changed before it is returned", w.pos
			}
		}
	}
	return true, "", at
}
