package rules

import (
	"go/ast"
	"go/token"
	"go/types"

	"lachk/core"
)

const (
	rbtP   = "github.com/emirpasic/gods/trees/redblacktree."
	flT    = "kvdb/flushable.Flushable"
	flRead = "kvdb/flushable.flushableReader"
)

func init() {
	register("C22", "other", "T1 LockSet, T16c tombstone agreement, T2 Dominates (flush phases), T7 Pairing, alias/provenance (snapshot copy)",
		"Decides the structure the overlay semantics depend on: the overlay tree, size estimate and underlying handle are only touched under the store lock (also by the iterator and the batch); every function that reads an overlay value treats nil as 'deleted' (Has/Get/flush/iterator/batch write and replay) while Put rejects nil and stores a private copy and Delete stores the nil tombstone; reads fall through to the underlying store only on the not-in-overlay edge; flush puts or deletes every overlay entry into a batch, writes full batches on the size threshold, clears the overlay and the size only after the complete loop and ends with the final batch write; dropping clears tree and size; the snapshot's tree is a fresh tree filled under the read lock with its own lock, and the underlying store's snapshot and the copy of the overlay are taken in one critical section of the store lock (in GetSnapshot or in the helper that builds the snapshot; when the reader is assembled in a constructor helper, the tree and the parent snapshot are judged at the arguments of its call, and a tree returned by a copying helper at that helper's returns); statements of flush may live in helpers called on the same store (effect sites); the unflushed-key count is the tree size and both write paths key the tree by the same string conversion; the lazy variant installs the real store before flushing. The merged-iterator semantics (value-level) and history equivalence are not decided.",
		[]string{"gods red-black tree contract (ordered by string comparator, Put replaces)", "underlying store is a correct ordered map (C23)"},
		runC22)
}

func runC22(c *core.Ctx) {
	p := c.P
	modF := flRead + ".modified"

	c.Clause("C22.lock", func() {
		spec := flushableLockSpec()
		res := core.RunLockset(p, spec)
		// methods of unexported adapter types whose values exist only as arguments of calls made under the
		// lock are entered with what is held at those calls (c22_adapter.go); second pass with that entry
		if held := c22AdapterHeld(p, "kvdb/flushable", res); len(held) > 0 {
			spec.AssumeHeld = held
			res = core.RunLockset(p, spec)
		}
		// the pool is C25/C28's subject: its methods, and the plain helper functions that only the pool calls
		pool := c22PoolFuncs(res)
		reportLockset(c, res, c28Exceptions, func(f *core.FuncInfo) bool { return !pool[f] })
		// vacuity guard only: accesses of each role of the guarded state (overlay tree, the two underlying
		// handles, size estimate) were found and analysed; every (function, field) group is an obligation
		// of its own, so the number of groups carries no weight
		seen := map[string]int{}
		for _, a := range res.Accesses {
			if !pool[a.F] {
				seen[a.Field]++
			}
		}
		for _, fld := range []string{modF, flRead + ".underlying", flT + ".underlying", flT + ".sizeEstimation"} {
			c.ExpectAtLeast("analysed accesses of "+short(fld), seen[fld], 1)
		}
	})

	c.Clause("C22.tombstone", func() {
		// every function reading an overlay value compares it with nil (exception: a function that only
		// copies the values verbatim into another tree, as the snapshot does: tombstones stay tombstones)
		nLookup, nWalk := 0, 0
		for _, f := range p.FuncsInPkg("kvdb/flushable") {
			var reads []ast.Expr
			for _, cs := range f.CallsTo(rbtP + "Tree.Get") {
				reads = append(reads, cs.Call)
			}
			lookups := len(reads)
			for _, cs := range f.CallsTo(rbtP + "Iterator.Value") {
				reads = append(reads, cs.Call)
			}
			f.InspectOwn(func(nd ast.Node) bool {
				if sel, ok := nd.(*ast.SelectorExpr); ok && fieldNameOf(f, sel) == rbtP+"Node.Value" {
					reads = append(reads, sel)
				}
				return true
			})
			if len(reads) == 0 {
				continue
			}
			if lookups > 0 {
				nLookup++
			}
			if len(reads) > lookups {
				nWalk++
			}
			// variables holding read values
			vals := map[*types.Var]bool{}
			for _, a := range assignments(f) {
				for _, r := range reads {
					if a.RHS != nil && ast.Unparen(a.RHS) == r {
						if as, ok := a.Stmt.(*ast.AssignStmt); ok {
							if v := varOf(f, as.Lhs[0]); v != nil {
								vals[v] = true
							}
						}
					}
				}
			}
			if c22VerbatimCopy(f, reads, vals) {
				c.Pass(short(f.Name), "T16c tombstone agreement (exception)", "copies every overlay entry it reads, tombstones included, verbatim into another tree (Tree.Put value argument) and uses the values for nothing else")
				continue
			}
			// a comparison of the read value with nil (branch condition or returned boolean), in this function
			// or in a module function that receives the value as an argument
			f := f
			isVal := func(e ast.Expr) bool {
				e = ast.Unparen(e)
				if v := varOf(f, e); v != nil && (vals[v] || vals[canonVar(f, v)]) {
					return true
				}
				for _, rd := range reads {
					if e == rd {
						return true
					}
				}
				return false
			}
			found := c22NilTested(f, isVal, 2)
			c.Check(found, short(f.Name), "T16c tombstone agreement", f.Pos(), "the overlay value read here is compared with nil (nil = deleted)", "an overlay value is read without a nil (tombstone) test: a deleted key would be treated as present")
		}
		// vacuity guard: the two ways of reading an overlay value (point lookup, walk over entries) were
		// each seen; every reading function is an obligation of its own
		c.ExpectAtLeast("functions looking an overlay value up (Tree.Get)", nLookup, 1)
		c.ExpectAtLeast("functions walking overlay entries (Iterator.Value / Node.Value)", nWalk, 1)
		// batch entries: kv.v == nil means delete in Write and Replay
		for _, name := range []string{"kvdb/flushable.cacheBatch.Write", "kvdb/flushable.cacheBatch.Replay"} {
			f := c.Fn(name)
			// the entry's value field compared with nil, written in place or in a boolean helper of the
			// entry (decided from the helper's returns: c25_view.go)
			isNilV := func(g *core.FuncInfo, want bool) func(core.Fact) bool {
				return c25Lift(c25View{G: g, Role: func(ast.Expr) string { return "" }}, func(v c25View, ft core.Fact) bool {
					x, isNil, ok := c22NilCmp(v.G.Info(), ft)
					return ok && fieldNameOf(v.G, x) == "kvdb/flushable.kv.v" && isNil == want
				}, 2)
			}
			// the places where an entry is applied: the overlay's own delete/put, or Delete/Put of a writer
			// (the replay loop may be shared by Write and Replay and be given the overlay as a writer), in
			// the function itself or in a function it calls
			ok, nDel, nPut := true, 0, 0
			for _, g := range c22Hosts(f, 2) {
				if g != f && (g.Name == flT+".delete" || g.Name == flT+".put") {
					continue
				}
				for _, d := range g.CallsTo(flT+".delete", kvDelete) {
					nDel++
					if gd, _ := g.GuardedBy(d.Pt, isNilV(g, true)); !gd {
						ok = false
					}
				}
				for _, pc := range g.CallsTo(flT+".put", kvPut) {
					nPut++
					if gd, _ := g.GuardedBy(pc.Pt, isNilV(g, false)); !gd {
						ok = false
					}
				}
			}
			ok = ok && nDel >= 1 && nPut >= 1
			c.Check(ok, short(name)+"|nil value = delete", "T16c tombstone agreement", f.Pos(), "delete on the v == nil edge, put on the v != nil edge", "batch entries are not split into delete (nil value) and put (non-nil value)")
		}
		// and the other side of that agreement: the entry recorded by the batch's Put has a nil value only
		// when the caller's value is nil — an empty non-nil value must not turn into the delete marker
		// (abstract nil-ness of the expression stored in the entry's value field: c22_batch.go)
		bput := c.Fn("kvdb/flushable.cacheBatch.Put")
		if pv := bput.Param(1); pv != nil && len(assignsToVar(bput, pv)) == 0 {
			vals := c22EntryValues(bput, c22NilEnv{pv: c22Keeps}, 2, map[*core.FuncInfo]bool{})
			c.ExpectAtLeast("places where cacheBatch.Put gives a batch entry its value", len(vals), 1)
			for _, ev := range vals {
				switch ev.Class {
				case c22Maybe:
					c.Fail("cacheBatch.Put|non-nil value stays non-nil", "T16c tombstone agreement (abstract nil-ness)", ev.Node.Pos(), "the batch entry's value is made by appending the value to a nil slice: for an empty non-nil value the result is nil, which Write/Replay treat as a deletion (a Put of an empty value deletes the key); in "+short(ev.Host.Name))
				case c22Nil:
					c.Fail("cacheBatch.Put|non-nil value stays non-nil", "T16c tombstone agreement (abstract nil-ness)", ev.Node.Pos(), "the batch entry recorded by Put always has a nil value, which Write/Replay treat as a deletion; in "+short(ev.Host.Name))
				case c22Keeps, c22Fresh:
					c.Pass("cacheBatch.Put|non-nil value stays non-nil", "T16c tombstone agreement (abstract nil-ness)", "the entry's value is nil only if the caller's value is nil ("+ev.Class+"; "+short(ev.Host.Name)+")")
				}
			}
		}
	})

	c.Clause("C22.write", func() {
		put := c.Fn(flT + ".Put")
		// nil key or value rejected before put()
		inner := put.CallsTo(flT + ".put")
		c.Need(len(inner) == 1, "Put calls put once")
		for _, pr := range []*types.Var{put.Param(0), put.Param(1)} {
			ok, _ := put.GuardedBy(inner[0].Pt, varNilFact(put, pr, false))
			c.Check(ok, "Put rejects nil "+pr.Name(), "T4 GuardedBy", put.Pos(), "put() is reached only with "+pr.Name()+" != nil", "a nil "+pr.Name()+" can reach the overlay (nil value is the tombstone)")
		}
		// put stores string(key) -> copy(value); delete stores string(key) -> nil
		lput := c.Fn(flT + ".put")
		ldel := c.Fn(flT + ".delete")
		keyOK := func(f *core.FuncInfo, e ast.Expr) bool {
			call, ok := ast.Unparen(e).(*ast.CallExpr)
			if !ok || len(call.Args) != 1 {
				return false
			}
			tv, ok := f.Info().Types[call.Fun]
			return ok && tv.IsType() && tv.Type.String() == "string" && varOf(f, call.Args[0]) == f.Param(0)
		}
		for _, f := range []*core.FuncInfo{lput, ldel} {
			tp := f.CallsTo(rbtP + "Tree.Put")
			ok := len(tp) == 1 && fieldNameOf(f, tp[0].Recv()) == modF && keyOK(f, tp[0].Call.Args[0])
			if ok {
				if f == lput {
					cp := isCallTo(f, tp[0].Call.Args[1], "github.com/ethereum/go-ethereum/common.CopyBytes")
					ok = cp != nil && varOf(f, cp.Args[0]) == f.Param(1)
				} else {
					ok = core.IsNil(f.Info(), tp[0].Call.Args[1])
				}
			}
			what := "a private copy of the value"
			if f == ldel {
				what = "the nil tombstone"
			}
			c.Check(ok, short(f.Name)+" stores "+what+" under string(key)", "provenance", f.Pos(), "modified.Put(string(key), ·) with "+what, short(f.Name)+" does not store "+what+" under string(key)")
			// size estimate grows with every write
			var inc []core.Point
			for _, a := range assignments(f) {
				if st, ok := ast.Unparen(a.LHS).(*ast.StarExpr); ok && fieldNameOf(f, st.X) == flT+".sizeEstimation" && a.Tok == token.ADD_ASSIGN {
					inc = append(inc, a.Pt)
				}
			}
			okS := len(tp) == 1 && len(inc) > 0
			if okS {
				okS, _ = pairedWith(f, tp[0].Pt, inc)
			}
			c.Check(okS, short(f.Name)+" grows the size estimate", "T7 Pairing", f.Pos(), "every overlay write adds to the size estimate", "an overlay write does not grow the size estimate")
		}
		// NotFlushedPairs is the tree size
		nf := c.Fn(flT + ".NotFlushedPairs")
		okN := false
		for _, rp := range nf.ReturnPoints() {
			r := rp.Node().(*ast.ReturnStmt)
			if len(r.Results) == 1 {
				if call := isCallTo(nf, r.Results[0], rbtP+"Tree.Size"); call != nil {
					if sel, ok := call.Fun.(*ast.SelectorExpr); ok && fieldNameOf(nf, sel.X) == modF {
						okN = true
					}
				}
			}
		}
		c.Check(okN, "NotFlushedPairs = overlay size", "provenance", nf.Pos(), "returns modified.Size() (one node per distinct key)", "NotFlushedPairs is not the overlay tree's size")
	})

	c.Clause("C22.read", func() {
		for _, name := range []string{"Has", "Get"} {
			f := c.Fn(flRead + "." + name)
			under := f.CallsTo(kvHas, kvGet)
			c.Need(len(under) == 1, name+" falls through to the underlying store once")
			tg := f.CallsTo(rbtP + "Tree.Get")
			c.Need(len(tg) == 1 && fieldNameOf(f, tg[0].Recv()) == modF, name+" looks the key up in the overlay")
			// found flag
			var okVar *types.Var
			f.InspectOwn(func(n ast.Node) bool {
				if as, ok := n.(*ast.AssignStmt); ok && len(as.Rhs) == 1 && ast.Unparen(as.Rhs[0]) == ast.Expr(tg[0].Call) && len(as.Lhs) == 2 {
					okVar = varOf(f, as.Lhs[1])
				}
				return true
			})
			c.Need(okVar != nil, "comma-ok lookup")
			ok, wit := f.GuardedBy(under[0].Pt, func(ft core.Fact) bool {
				cm, k := core.NormCmp(ft)
				return k && cm.R == nil && cm.Op == token.NEQ && varOf(f, cm.L) == okVar
			})
			c.Check(ok, name+" consults the underlying store only for keys not in the overlay", "T4 GuardedBy", under[0].Pos(), "underlying."+name+" is on the !found edge", "the underlying store is consulted for a key that is in the overlay: "+f.DescribePath(wit))
			// the underlying call uses the same key
			c.Check(varOf(f, under[0].Call.Args[0]) == f.Param(0), name+" passes the key unchanged", "provenance", under[0].Pos(), "same key", "the underlying store is asked for a different key")
		}
		// Get returns a copy of the overlay value
		get := c.Fn(flRead + ".Get")
		okCopy := false
		for _, rp := range get.ReturnPoints() {
			r := rp.Node().(*ast.ReturnStmt)
			if len(r.Results) == 2 && isCallTo(get, r.Results[0], "github.com/ethereum/go-ethereum/common.CopyBytes") != nil {
				okCopy = true
			}
		}
		c.Check(okCopy, "Get returns a copy of the overlay value", "alias", get.Pos(), "the caller cannot modify the overlay through the returned slice", "Get hands out the overlay's own slice")
	})

	c.Clause("C22.flush", func() {
		f := c.Fn(flT + ".flush")
		// the loop driven by Next() of an iterator over the overlay tree (the iterator may be made in the
		// loop's init clause or before the loop)
		// (the loop may also stand in a function flush calls on the same store or with the overlay tree as
		// an argument: c22_loop.go; h is the function that contains it)
		fl := c22FindFlushLoop(f)
		c.Need(fl != nil, "flush iterates the overlay with a for loop")
		h, loop := fl.Host, fl.Loop
		c.Check(fl.Overlay, "flush walks the whole overlay", "loop shape", loop.Pos(), "the loop advances an iterator of the overlay tree with Next() until it is exhausted", "flush does not iterate modified.Iterator() with Next()")
		done, complete := loopDone(h, loop)
		c.Need(done != nil, "exit of the overlay loop")
		if h != f {
			// the callee reports success (or simply returns) only behind the loop's exit
			rets := h.ReturnPoints()
			if c25ReturnsError(h) {
				rets = c25SucceedingReturns(h)
			}
			for _, rp := range rets {
				if o, _ := mustPassBlockBefore(h, done, rp); !o {
					complete = false
				}
			}
		}
		c.Check(complete, "flush loop has no early exit except returns", "T2 (loop)", loop.Pos(), "the loop is left only when the iterator is exhausted (or by returning an error)", "the overlay loop can be left early by break/goto")
		// each iteration puts or deletes into the batch (directly or through a helper that always does),
		// split on the tombstone
		stages := c22Stages(h)
		nPut, nDel := 0, 0
		for _, s := range stages {
			if s.IsDel {
				nDel++
			} else {
				nPut++
			}
		}
		c.Need(nPut >= 1 && nDel >= 1, "flush stages entries with batch.Put and batch.Delete (directly or in a helper called with the entry's value)")
		isStage := func(cs *core.CallSite) bool { return cs.Name == kvPut || cs.Name == kvDelete }
		head, _ := h.LoopOf(loop)
		c.Need(head != nil && len(head.Succs) > 0, "head of the overlay loop")
		bodyEntry := core.Point{B: head.Succs[0], I: 0}
		_, skip := core.PathQuery{F: h, From: bodyEntry, Target: func(pt core.Point) bool { return pt.B == head }, Avoid: core.PointSet(h.SitesMust(isStage, 2)...)}.Find()
		c.Check(!skip, "every overlay entry reaches the batch", "T2 (loop)", loop.Pos(), "no path through the body reaches the next entry without batch.Put or batch.Delete", "an overlay entry can be skipped")
		okSplit, whySplit := true, ""
		for _, s := range stages {
			if g, wit := s.Host.GuardedBy(s.Site.Pt, s.tombFact(s.IsDel)); !g {
				okSplit = false
				whySplit = " (" + short(s.Host.Name) + ": " + s.Host.DescribePath(wit) + ")"
			}
		}
		c.Check(okSplit, "tombstones become deletes, values become puts", "T4 GuardedBy", loop.Pos(), "batch.Delete only on the value == nil edge, batch.Put only on the value != nil edge", "flush does not map tombstones to Delete and values to Put"+whySplit)
		// clearing only after the complete loop; final write after clearing
		// (the clearing statements may live in a helper called on the same store, e.g. dropNotFlushed)
		clr := c22Sites(f, c22ClearIn, 2, false)
		c.Need(len(clr) >= 1, "flush clears the overlay (itself or through a helper of the same store)")
		clrPos := posOf(clr[0])
		ok1 := true
		for _, pt := range clr {
			if !fl.After(f, pt) {
				ok1 = false
			}
		}
		c.Check(ok1, "overlay cleared only after the complete loop", "T2 Dominates (loop exit)", clrPos, "modified.Clear() is dominated by the loop's exit", "the overlay can be cleared before every entry reached the batch")
		// (a helper that always writes the batch counts as the write)
		var final []core.Point
		for _, pt := range f.SitesMust(func(cs *core.CallSite) bool { return cs.Name == "kvdb.Batch.Write" && !cs.InDefer }, 2) {
			if enclosingLoop(f, posOf(pt)) == nil {
				final = append(final, pt)
			}
		}
		var noWrite bool
		if fl.Call == nil {
			_, noWrite = core.PathQuery{F: f, From: blockEntry(done), Avoid: core.PointSet(final...), TargetExit: true}.Find()
		} else {
			// from the return of the call that ran the loop, leaving aside the edges on which that call's
			// error is non-nil (flush gives up there, the overlay is kept)
			q := core.PathQuery{F: f, From: fl.Call.Pt, FromAfter: true, Avoid: core.PointSet(final...), TargetExit: true}
			if ev := errVarOfCall(f, fl.Call.Call); ev != nil {
				q.AvoidEdge = f.GuardEdges(varNilFact(f, ev, false))
			}
			_, noWrite = q.Find()
		}
		c.Check(!noWrite && len(final) > 0, "final batch write", "T3 PostDominates", clrPos, "every path from the end of the overlay loop to return passes the final batch.Write()", "flush can return success without writing the last batch")
		// every point that (may) clear the overlay is paired with a point that certainly zeroes the size
		zero := c22Sites(f, c22ZeroIn, 2, true)
		ok3 := true
		for _, pt := range clr {
			if o, _ := pairedWith(f, pt, zero); !o {
				ok3 = false
			}
		}
		c.Check(ok3, "size estimate reset with the overlay", "T7 Pairing", clrPos, "*sizeEstimation = 0 is paired with modified.Clear()", "the size estimate is not reset when the overlay is cleared")
		// threshold write: the batch is reset (outside defer) only after it was written successfully, in
		// flush or in a helper flush calls; a reset before that loses the staged entries
		isWrite := func(cs *core.CallSite) bool { return cs.Name == "kvdb.Batch.Write" }
		okReset, nReset := true, 0
		resetPos := loop.Pos()
		for _, g := range c22Hosts(f, 2) {
			var certs []*core.CallSite
			for _, r := range g.CallsTo("kvdb.Batch.Reset") {
				if r.InDefer {
					continue
				}
				if certs == nil {
					certs = c22Certifies(g, isWrite, 1)
				}
				nReset++
				if !c22AfterCertified(g, certs, r.Pt) {
					okReset, resetPos = false, r.Pos()
				}
			}
		}
		if nReset > 0 {
			c.Check(okReset, "full batch is written, then reset", "T2+T4", resetPos, "batch.Reset() follows a successful batch.Write()", "the batch is reset without having been written")
		}
	})

	c.Clause("C22.drop", func() {
		f := c.Fn(flT + ".dropNotFlushed")
		// every path through dropNotFlushed clears the overlay tree, and every point that clears it is
		// paired with a point that zeroes the size estimate (either may live in a helper of the same store)
		clr := c22Sites(f, c22ClearIn, 2, true)
		zero := c22Sites(f, c22ZeroIn, 2, true)
		ok := len(clr) >= 1
		if ok {
			_, skip := core.PathQuery{F: f, From: f.Entry(), Avoid: core.PointSet(clr...), TargetExit: true}.Find()
			ok = !skip
		}
		for _, pt := range c22Sites(f, c22ClearIn, 2, false) {
			if o, _ := pairedWith(f, pt, zero); !o {
				ok = false
			}
		}
		c.Check(ok, "drop clears tree and size", "T7 Pairing", f.Pos(), "modified.Clear() and *sizeEstimation = 0", "dropNotFlushed does not clear both the overlay and the size estimate")
		d := c.Fn(flT + ".DropNotFlushed")
		c.Check(len(d.CallsTo(flT+".dropNotFlushed")) == 1, "DropNotFlushed delegates", "T20", d.Pos(), "calls dropNotFlushed under the lock", "DropNotFlushed does not call dropNotFlushed")
	})

	c.Clause("C22.snapshot", func() {
		entry := c.Fn(flT + ".GetSnapshot")
		// the function that builds the snapshot's reader: GetSnapshot itself, or a helper it calls
		var f *core.FuncInfo
		var cl *ast.CompositeLit
		hosts := c22Hosts(entry, 2)
		for _, g := range hosts {
			g := g
			g.InspectOwn(func(n ast.Node) bool {
				if x, ok := n.(*ast.CompositeLit); ok && cl == nil {
					if t := g.Info().TypeOf(x); t != nil && t.String() == core.ModPath+"/kvdb/flushable.flushableReader" {
						cl, f = x, g
					}
				}
				return true
			})
		}
		c.Need(cl != nil, "snapshot builds its own flushableReader")
		var modV, underV ast.Expr
		for _, el := range cl.Elts {
			if kv, ok := el.(*ast.KeyValueExpr); ok {
				switch {
				case isIdentNamed(kv.Key, "modified"):
					modV = kv.Value
				case isIdentNamed(kv.Key, "underlying"):
					underV = kv.Value
				}
			}
		}
		// the tree and the store are judged where their values are made: when the reader is assembled in a
		// constructor helper they are parameters, and the arguments at the helper's call are examined
		var modFrames, underFrames []c22Frame
		if modV != nil {
			modFrames = c22ArgFrames(hosts, f, modV, 2)
		}
		if underV != nil {
			underFrames = c22ArgFrames(hosts, f, underV, 2)
		}
		okFresh := c22AllFrames(modFrames, func(fr c22Frame) bool {
			as := assignsToVar(fr.G, fr.V)
			return len(as) == 1 && isCallTo(fr.G, as[0].RHS, rbtP+"NewWithStringComparator") != nil
		})
		c.Check(okFresh, "snapshot overlay is a fresh tree", "alias", cl.Pos(), "the snapshot's tree is newly created (later writes to the store cannot reach it)", "the snapshot shares the live overlay tree")
		// filled from the live overlay inside GetSnapshot (which holds the read lock: C22.lock)
		okFill := c22AllFrames(modFrames, func(fr c22Frame) bool {
			for _, cs := range fr.G.CallsTo(rbtP + "Tree.Put") {
				if canonVar(fr.G, varOf(fr.G, cs.Recv())) == fr.V && enclosingLoop(fr.G, cs.Pos()) != nil {
					return true
				}
			}
			return false
		})
		c.Check(okFill, "snapshot overlay is filled from the live overlay", "provenance", f.Pos(), "every live overlay entry is copied into the fresh tree", "the snapshot's tree is not filled from the live overlay")
		// underlying is a snapshot of the parent, not the parent
		okU := c22AllFrames(underFrames, func(fr c22Frame) bool {
			for _, a := range assignsToVar(fr.G, fr.V) {
				if a.RHS != nil && isCallTo(fr.G, a.RHS, "kvdb.Snapshoter.GetSnapshot") != nil {
					return true
				}
			}
			return false
		})
		c.Check(okU, "snapshot reads a snapshot of the underlying store", "provenance", f.Pos(), "underlying: parent.GetSnapshot()", "the snapshot reads the live underlying store")
		// the parent snapshot and the copy of the overlay are taken in one critical section of the store
		// lock: a flush (or drop, or write) between the two would pair the old underlying state with the
		// new overlay
		okAtomic, whyAtomic, posAtomic := c22SnapshotAtomic(entry)
		c.Check(okAtomic, "parent snapshot and overlay copy are taken atomically", "T1 LockSet (single critical section)", posAtomic,
			"the underlying GetSnapshot() call and every read of the overlay tree happen under the store lock, which is not released in between",
			"the snapshot is not a view of one moment: "+whyAtomic+"; a Flush between the two yields the old underlying state with an emptied overlay (unflushed writes are lost, deleted keys reappear)")
	})

	c.Clause("C22.lazy", func() {
		f := c.Fn("kvdb/flushable.LazyFlushable.Flush")
		ini := f.CallsTo("kvdb/flushable.LazyFlushable.initUnderlyingDb")
		fl := f.CallsTo(flT + ".flush")
		// every flush() call is reached only after some initUnderlyingDb() call returned a nil error
		ok := len(ini) >= 1 && len(fl) >= 1
		for _, fc := range fl {
			after := false
			for _, ic := range ini {
				after = after || afterSuccess(f, ic, fc.Pt)
			}
			ok = ok && after
		}
		c.Check(ok, "lazy flush installs the real store first", "T2+T4", f.Pos(), "flush() runs only after initUnderlyingDb() succeeded", "the lazy store can flush into the placeholder database")
		// both handles are updated together
		ii := c.Fn("kvdb/flushable.LazyFlushable.initUnderlyingDb")
		a1 := assignsToField(ii, flT+".underlying")
		a2 := assignsToField(ii, flRead+".underlying")
		okBoth := len(a1) >= 1 && len(a2) >= 1
		if okBoth {
			okBoth, _ = pairedWith(ii, a1[0].Pt, pointsOfAssign(a2))
			// on the error edge of the producer nothing needs to be installed
			if !okBoth {
				okBoth = true
				for _, rp := range returnsWith(ii, 1, func(e ast.Expr) bool { return core.IsNil(ii.Info(), e) }) {
					if o, _ := ii.GuardedBy(rp, func(core.Fact) bool { return false }); o {
						continue
					}
					// nil-error return reachable after a1 must also pass a2
					if ii.CanReach(a1[0].Pt, rp) {
						if o, _ := ii.MustPassBetween(a1[0].Pt, pointsOfAssign(a2), rp); !o {
							okBoth = false
						}
					}
				}
			}
		}
		c.Check(okBoth, "reader and writer handles are replaced together", "T7 Pairing", ii.Pos(), "flushableReader.underlying is updated whenever Flushable.underlying is", "the read path and the write path can point to different underlying stores")
	})
}
