package rules

import (
	"go/ast"
	"go/token"
	"go/types"

	"golang.org/x/tools/go/cfg"

	"lachk/core"
)

// c17Region is the part of a function in which one handler does its work: the paths that start at From
// and run until a block satisfying End is entered or the function returns. In says whether a source
// position lies lexically inside the handler (for a whole function: always).
type c17Region struct {
	F    *core.FuncInfo
	From core.Point
	End  func(*cfg.Block) bool
	In   func(token.Pos) bool
}

func c17WholeFunc(g *core.FuncInfo) c17Region {
	return c17Region{F: g, From: g.Entry(), In: func(token.Pos) bool { return true }}
}

// c17Effect is a set of places at which an effect is known to be complete: CFG points (a call, a
// statement) and blocks whose entry implies it (the done block of a loop that is left only through its
// head). Loads are the points that read the state the effect depends on.
type c17Effect struct {
	Pts    []core.Point
	Blocks map[*cfg.Block]bool
	Loads  []core.Point
	Why    string // why nothing was recognised (diagnostics)
}

func (e *c17Effect) empty() bool { return len(e.Pts) == 0 && len(e.Blocks) == 0 }

// mustPass: every path through the region passes the effect.
func (r c17Region) mustPass(e *c17Effect) (bool, []core.Point) {
	if e.empty() {
		return false, nil
	}
	q := core.PathQuery{F: r.F, From: r.From, Avoid: core.PointSet(e.Pts...), TargetBlock: r.End, TargetExit: true,
		AvoidEdge: func(b *cfg.Block, i int) bool { return e.Blocks[b.Succs[i]] }}
	path, found := q.Find()
	return !found, path
}

// reaches: some path inside the region leads from just after `from` to `to`.
func (r c17Region) reaches(from, to core.Point) bool {
	q := core.PathQuery{F: r.F, From: from, FromAfter: true, Target: core.PointSet(to)}
	if r.End != nil {
		q.AvoidEdge = func(b *cfg.Block, i int) bool { return r.End(b.Succs[i]) }
	}
	_, found := q.Find()
	return found
}

// c17SameVar: e denotes the variable v (pure aliases `p := v` looked through).
func c17SameVar(f *core.FuncInfo, e ast.Expr, v *types.Var) bool {
	w := varOf(f, e)
	return w != nil && v != nil && canonVar(f, w) == canonVar(f, v)
}

// c17Through looks through single-definition locals regardless of whether the defining expression reads
// mutable state (the caller orders the load against the writes itself).
func c17Through(f *core.FuncInfo) func(ast.Expr) ast.Expr {
	return func(e ast.Expr) ast.Expr {
		for depth := 0; depth < 5; depth++ {
			e = ast.Unparen(e)
			id, ok := e.(*ast.Ident)
			if !ok || lhsIdents(f)[id] {
				return e
			}
			v, _ := f.Info().ObjectOf(id).(*types.Var)
			d := singleDef(f, v)
			if d == nil {
				return e
			}
			e = d
		}
		return e
	}
}

// c17ModuleCallee returns the analysed function a call site invokes directly (nil for interface
// methods, func values, builtins, go/defer calls and recursion).
func c17ModuleCallee(cs *core.CallSite) *core.FuncInfo {
	if cs.InGo || cs.InDefer {
		return nil
	}
	fn, ok := cs.Callee.(*types.Func)
	if !ok {
		return nil
	}
	g := cs.F.P.FuncOf(fn)
	if g == nil || g == cs.F || g.Body == nil {
		return nil
	}
	return g
}

// c17ArgParams maps the arguments of the call that denote one of the given variables to the callee's
// parameter objects: result[i] is the callee parameter that receives vars[i] (nil if it is not passed).
func c17ArgParams(cs *core.CallSite, g *core.FuncInfo, vars []*types.Var, isVar func(ast.Expr, *types.Var) bool) []*types.Var {
	out := make([]*types.Var, len(vars))
	for i, a := range cs.Call.Args {
		for k, v := range vars {
			if v != nil && out[k] == nil && isVar(a, v) {
				out[k] = g.Param(i)
			}
		}
	}
	return out
}

// c17ListDeleted: the places of the region at which the peer's entry of the peer→sessions list map is
// certainly deleted: delete(peerSessions, peer), or a call of a helper that gets the peer and deletes
// its entry on every path.
func c17ListDeleted(r c17Region, peer *types.Var, listField string, depth int) *c17Effect {
	f := r.F
	eff := &c17Effect{Blocks: map[*cfg.Block]bool{}}
	for _, cs := range f.Calls() {
		if !r.In(cs.Pos()) {
			continue
		}
		if cs.Name == "builtin.delete" && len(cs.Call.Args) == 2 {
			if fieldNameOf(f, cs.Call.Args[0]) == listField && c17SameVar(f, cs.Call.Args[1], peer) && !cs.InGo && !cs.InDefer {
				eff.Pts = append(eff.Pts, cs.Pt)
			}
			continue
		}
		if depth <= 0 {
			continue
		}
		if g := c17ModuleCallee(cs); g != nil {
			ps := c17ArgParams(cs, g, []*types.Var{peer}, func(a ast.Expr, v *types.Var) bool { return c17SameVar(f, a, v) })
			if ps[0] == nil {
				continue
			}
			gr := c17WholeFunc(g)
			if ok, _ := gr.mustPass(c17ListDeleted(gr, ps[0], listField, depth-1)); ok {
				eff.Pts = append(eff.Pts, cs.Pt)
			}
		}
	}
	if eff.empty() {
		eff.Why = "no delete of the peer's entry in the session-list map"
	}
	return eff
}

// c17SessionDeleted: the points inside body at which the table entry keyed by (elem, peer) is
// certainly deleted: delete(sessions, K) where K is built from the current element and the peer, or a
// helper that receives both and does that on every path.
func c17SessionDeleted(f *core.FuncInfo, body *ast.BlockStmt, isElem func(ast.Expr) bool, peer *types.Var, tableField string, depth int) []core.Point {
	var out []core.Point
	through := c17Through(f)
	for _, cs := range f.Calls() {
		if cs.Pos() < body.Pos() || cs.Pos() >= body.End() || cs.InGo || cs.InDefer {
			continue
		}
		if cs.Name == "builtin.delete" && len(cs.Call.Args) == 2 {
			if fieldNameOf(f, cs.Call.Args[0]) != tableField {
				continue
			}
			key, ok := through(cs.Call.Args[1]).(*ast.CompositeLit)
			if !ok {
				continue
			}
			hasElem, hasPeer := false, false
			for _, el := range key.Elts {
				if kv, ok := el.(*ast.KeyValueExpr); ok {
					el = kv.Value
				}
				if isElem(el) {
					hasElem = true
				}
				if c17SameVar(f, el, peer) {
					hasPeer = true
				}
			}
			if hasElem && hasPeer {
				out = append(out, cs.Pt)
			}
			continue
		}
		if depth <= 0 {
			continue
		}
		if g := c17ModuleCallee(cs); g != nil {
			var elemParam, peerParam *types.Var
			for i, a := range cs.Call.Args {
				switch {
				case elemParam == nil && isElem(a):
					elemParam = g.Param(i)
				case peerParam == nil && c17SameVar(f, a, peer):
					peerParam = g.Param(i)
				}
			}
			if elemParam == nil || peerParam == nil {
				continue
			}
			isP := func(e ast.Expr) bool { return c17SameVar(g, e, elemParam) }
			pts := c17SessionDeleted(g, g.Body, isP, peerParam, tableField, depth-1)
			if ok, _ := c17WholeFunc(g).mustPass(&c17Effect{Pts: pts}); ok {
				out = append(out, cs.Pt)
			}
		}
	}
	return out
}

// c17AllSessionsDeleted: the places of the region at which every session listed for the peer has
// certainly been deleted from the session table: the exit of an iteration over peerSessions[peer]
// (any loop form, possibly over a local snapshot of the list) that starts at the first element, is left
// only when the list is exhausted and deletes the table entry of the current element in every
// iteration; or a call of a helper that gets the peer and does this on every path. Loads are the
// points where the list is read from the map.
func c17AllSessionsDeleted(r c17Region, peer *types.Var, tableField, listField string, depth int) *c17Effect {
	f := r.F
	eff := &c17Effect{Blocks: map[*cfg.Block]bool{}}
	through := c17Through(f)
	var loops []ast.Stmt
	f.InspectOwn(func(n ast.Node) bool {
		switch s := n.(type) {
		case *ast.ForStmt, *ast.RangeStmt:
			if r.In(s.Pos()) {
				loops = append(loops, s.(ast.Stmt))
			}
		}
		return true
	})
	why := "no loop over the peer's session list"
	for _, lp := range loops {
		it, ok := core.IterationOf(f, lp, through)
		if !ok || it.Coll == nil {
			continue
		}
		ix, isIx := through(it.Coll).(*ast.IndexExpr)
		if !isIx || fieldNameOf(f, ix.X) != listField || !c17SameVar(f, ix.Index, peer) {
			continue
		}
		if !it.Complete || !it.FromZero || it.Done == nil {
			why = "the loop over the peer's session list can be left before the list is exhausted (or does not start at its first element)"
			continue
		}
		isElem := func(e ast.Expr) bool {
			if it.IsElem(e, through) {
				return true
			}
			// a counted loop over a snapshot: xs[i] where xs resolves to the same list
			if x, ok := through(e).(*ast.IndexExpr); ok && it.Index != nil && varOf(f, core.StripConv(f.Info(), x.Index)) == it.Index {
				if c, ok := through(x.X).(*ast.IndexExpr); ok && fieldNameOf(f, c.X) == listField && c17SameVar(f, c.Index, peer) {
					return true
				}
			}
			return false
		}
		dels := c17SessionDeleted(f, it.Body, isElem, peer, tableField, depth)
		if len(dels) == 0 {
			why = "the loop over the peer's session list does not delete the table entry of the current element"
			continue
		}
		if ok, _ := it.EveryIterationPasses(dels, true); !ok {
			why = "an iteration over the peer's session list can skip the deletion of its table entry"
			continue
		}
		eff.Blocks[it.Done] = true
		if pt, ok := f.PointOf(ix); ok {
			eff.Loads = append(eff.Loads, pt)
		}
	}
	if depth > 0 {
		for _, cs := range f.Calls() {
			if !r.In(cs.Pos()) {
				continue
			}
			g := c17ModuleCallee(cs)
			if g == nil {
				continue
			}
			ps := c17ArgParams(cs, g, []*types.Var{peer}, func(a ast.Expr, v *types.Var) bool { return c17SameVar(f, a, v) })
			if ps[0] == nil {
				continue
			}
			gr := c17WholeFunc(g)
			sub := c17AllSessionsDeleted(gr, ps[0], tableField, listField, depth-1)
			if ok, wit := gr.mustPass(sub); ok {
				eff.Pts = append(eff.Pts, cs.Pt)
				eff.Loads = append(eff.Loads, cs.Pt)
			} else if !sub.empty() {
				why = "the helper " + short(g.Name) + " deletes the peer's sessions, but not on every path: " + g.DescribePath(wit)
			} else if sub.Why != "" && len(loops) == 0 {
				why = "in the helper " + short(g.Name) + ": " + sub.Why
			}
		}
	}
	if eff.empty() {
		eff.Why = why
	}
	return eff
}

// c17PeerDropped decides, for the handler region, that unregistering removes everything kept for the
// peer: on every path all listed sessions are deleted from the table and the list entry is deleted,
// and the list is not read (by the loop that walks it) after its entry was deleted.
func c17PeerDropped(r c17Region, peer *types.Var, tableField, listField string, depth int) (bool, string) {
	f := r.F
	// the whole job may be delegated to one helper that gets the peer
	if depth > 0 {
		done := &c17Effect{Blocks: map[*cfg.Block]bool{}}
		for _, cs := range f.Calls() {
			if !r.In(cs.Pos()) {
				continue
			}
			g := c17ModuleCallee(cs)
			if g == nil {
				continue
			}
			ps := c17ArgParams(cs, g, []*types.Var{peer}, func(a ast.Expr, v *types.Var) bool { return c17SameVar(f, a, v) })
			if ps[0] == nil {
				continue
			}
			if ok, _ := c17PeerDropped(c17WholeFunc(g), ps[0], tableField, listField, depth-1); ok {
				done.Pts = append(done.Pts, cs.Pt)
			}
		}
		if ok, _ := r.mustPass(done); ok {
			return true, ""
		}
	}
	all := c17AllSessionsDeleted(r, peer, tableField, listField, 2)
	if ok, wit := r.mustPass(all); !ok {
		if all.empty() {
			return false, all.Why
		}
		return false, "a path through the handler skips the deletion of the peer's sessions: " + r.F.DescribePath(wit)
	}
	list := c17ListDeleted(r, peer, listField, 2)
	if ok, wit := r.mustPass(list); !ok {
		if list.empty() {
			return false, list.Why
		}
		return false, "a path through the handler keeps the peer's entry in the session-list map: " + r.F.DescribePath(wit)
	}
	for _, d := range list.Pts {
		for _, l := range all.Loads {
			// d == l: one helper call does both, but was not accepted as a whole above (order inside it unknown)
			if d == l || r.reaches(d, l) {
				return false, "the peer's session list is read after its map entry was deleted (the walk sees an empty list and leaves the sessions in the table)"
			}
		}
	}
	return true, ""
}
