package rules

import (
	"go/ast"
	"go/token"
	"go/types"

	"golang.org/x/tools/go/cfg"

	"lachk/core"
)

// Eviction facts of the weighted LRU, decided on the CFG and through helper calls so that they do not
// depend on how the eviction is split over functions (removeOldest inlined into normalize, the list
// removal written in place or in removeElement, ...).

const c29ListF = lruT + ".evictList"

// c29IsBack: e denotes evictList.Back() — the least recently used element, nil exactly when the list is
// empty — directly, through a single-definition local, through a variable all of whose definitions are
// evictList.Back() and one of which precedes the use on every path, or as the result of an accessor
// (`elem, found := c.oldest()`) every return of which gives evictList.Back(), or nil after having found
// the list empty.
func c29IsBack(f *core.FuncInfo, e ast.Expr) bool { return c29IsBackD(f, e, 2) }

func c29IsBackCall(f *core.FuncInfo, e ast.Expr) bool {
	call := isCallTo(f, e, "container/list.List.Back")
	if call == nil {
		return false
	}
	sel, ok := ast.Unparen(call.Fun).(*ast.SelectorExpr)
	return ok && fieldNameOf(f, sel.X) == c29ListF
}

func c29IsBackD(f *core.FuncInfo, e ast.Expr, depth int) bool {
	if e == nil {
		return false
	}
	if c29IsBackCall(f, e) {
		return true
	}
	if depth <= 0 {
		return false
	}
	// the accessor called in place: use(c.oldest())
	if call, ok := ast.Unparen(e).(*ast.CallExpr); ok {
		return c29ResultIsBack(f, call, 0, depth)
	}
	v := varOfRaw(f, e)
	if v == nil || v.IsField() {
		return false
	}
	if call, idx, _, ok := c30CallDef(f, v); ok {
		return c29ResultIsBack(f, call, idx, depth)
	}
	// a variable (e.g. a named result) assigned only from evictList.Back(), on every path to its use
	var defs []core.Point
	for _, a := range assignsToVar(f, v) {
		if a.RHS == nil {
			if _, isSpec := a.Stmt.(*ast.ValueSpec); isSpec {
				continue
			}
			return false
		}
		if as, ok := a.Stmt.(*ast.AssignStmt); ok && (len(as.Lhs) != len(as.Rhs) || (as.Tok != token.ASSIGN && as.Tok != token.DEFINE)) {
			return false
		}
		if !c29IsBackCall(f, a.RHS) {
			return false
		}
		defs = append(defs, a.Pt)
	}
	if len(defs) == 0 {
		return false
	}
	for _, l := range allLits(f) {
		if len(assignsToVar(l, v)) > 0 {
			return false
		}
	}
	use, ok := f.PointOf(e)
	if !ok {
		return false
	}
	dominated, _ := f.MustPassBefore(defs, use)
	return dominated
}

// c29Nest bounds the nesting of accessor look-through (mutually recursive accessors).
var c29Nest int

// c29ResultIsBack: result idx of the called module function is evictList.Back() on every return.
func c29ResultIsBack(f *core.FuncInfo, call *ast.CallExpr, idx int, depth int) bool {
	g, _ := c30CalleeInfo(f, call)
	if g == nil || g == f || c29Nest > 4 {
		return false
	}
	c29Nest++
	defer func() { c29Nest-- }()
	cases, ok := c30ResultCases(g, idx)
	if !ok {
		return false
	}
	_, empty := c29BackEvictions(g, 0)
	for _, rc := range cases {
		if c29IsBackD(g, rc.Expr, depth-1) {
			continue
		}
		if core.IsNil(g.Info(), rc.Expr) {
			// nil is Back() when the list has been found empty on the way to this return
			if _, found := (core.PathQuery{F: g, From: g.Entry(), Target: core.PointSet(rc.Pt), AvoidEdge: empty}).Find(); !found {
				continue
			}
		}
		return false
	}
	return true
}

// c29FoundEmpty: the fact is the false value of a boolean result of an accessor (held in a local, or
// the call itself) every return of which that gives false has found the list empty.
func c29FoundEmpty(f *core.FuncInfo, ft core.Fact, depth int) bool {
	if depth <= 0 {
		return false
	}
	cm, ok := core.NormCmp(ft)
	if !ok || cm.R != nil || cm.Op != token.NEQ {
		return false
	}
	call, idx, ok := c30CallOfBool(f, cm.L)
	if !ok {
		return false
	}
	g, _ := c30CalleeInfo(f, call)
	if g == nil || g == f || c29Nest > 4 {
		return false
	}
	c29Nest++
	defer func() { c29Nest-- }()
	cases, ok := c30ResultCases(g, idx)
	if !ok {
		return false
	}
	rt := g.Info().TypeOf(cases[0].Expr)
	if rt == nil {
		return false
	}
	if t, isBool := rt.Underlying().(*types.Basic); !isBool || t.Info()&types.IsBoolean == 0 {
		return false
	}
	_, empty := c29BackEvictionsD(g, 0, depth-1)
	for _, rc := range cases {
		if val, isConst := c30ConstBool(g, rc.Expr); isConst && val {
			continue
		}
		if _, found := (core.PathQuery{F: g, From: g.Entry(), Target: core.PointSet(rc.Pt), AvoidEdge: empty}).Find(); found {
			return false
		}
	}
	return true
}

// c29RemovedAt returns the expression denoting the list element that the call removes from the
// eviction list: the argument of evictList.Remove(x), or the argument bound to a parameter which the
// called module function removes on every returning path. nil if the call is not such a removal.
func c29RemovedAt(f *core.FuncInfo, cs *core.CallSite, depth int) ast.Expr {
	if cs.InGo || cs.InDefer {
		return nil
	}
	if cs.Name == "container/list.List.Remove" && len(cs.Call.Args) == 1 && fieldNameOf(f, cs.Recv()) == c29ListF {
		return cs.Call.Args[0]
	}
	if depth <= 0 {
		return nil
	}
	fn, ok := cs.Callee.(*types.Func)
	if !ok {
		return nil
	}
	g := f.P.FuncOf(fn)
	if g == nil || g == f {
		return nil
	}
	for i, a := range cs.Call.Args {
		if pv := g.Param(i); pv != nil && c29MustRemoveParam(g, pv, depth-1) {
			return a
		}
	}
	return nil
}

// c29MustRemoveParam: every returning path of g removes the element held by its parameter pv.
func c29MustRemoveParam(g *core.FuncInfo, pv *types.Var, depth int) bool {
	var pts []core.Point
	for _, cs := range g.Calls() {
		if x := c29RemovedAt(g, cs, depth); x != nil && varOf(g, resolveLocal(g, x)) == pv {
			pts = append(pts, cs.Pt)
		}
	}
	if len(pts) == 0 || len(assignsToVar(g, pv)) > 0 {
		return false
	}
	_, escapes := core.PathQuery{F: g, From: g.Entry(), Avoid: core.PointSet(pts...), TargetExit: true}.Find()
	return !escapes
}

// c29BackEvictions returns the points of f at which the least recently used element (evictList.Back())
// is removed if there is one, and the edges on which the list is known to be empty (Back() == nil).
// A call of a module function every returning path of which passes such a point or edge is itself such
// a point.
func c29BackEvictions(f *core.FuncInfo, depth int) ([]core.Point, func(*cfg.Block, int) bool) {
	return c29BackEvictionsD(f, depth, 2)
}

func c29BackEvictionsD(f *core.FuncInfo, depth, lookDepth int) ([]core.Point, func(*cfg.Block, int) bool) {
	var sites []core.Point
	for _, cs := range f.Calls() {
		if x := c29RemovedAt(f, cs, 2); x != nil {
			if c29IsBack(f, x) {
				sites = append(sites, cs.Pt)
			}
			continue
		}
		if depth <= 0 || cs.InGo || cs.InDefer {
			continue
		}
		if fn, ok := cs.Callee.(*types.Func); ok {
			if g := f.P.FuncOf(fn); g != nil && g != f && c29AlwaysEvictsBack(g, depth-1) {
				sites = append(sites, cs.Pt)
			}
		}
	}
	lenNamer := func(e ast.Expr) string {
		if call := isCallTo(f, e, "container/list.List.Len"); call != nil {
			if sel, ok := ast.Unparen(call.Fun).(*ast.SelectorExpr); ok && fieldNameOf(f, sel.X) == c29ListF {
				return "len"
			}
		}
		if isCallTo(f, e, lruT+".Len") != nil {
			return "len"
		}
		if call := isCallTo(f, e, "builtin.len"); call != nil && len(call.Args) == 1 && fieldNameOf(f, call.Args[0]) == lruT+".items" {
			return "len"
		}
		return ""
	}
	lenZero, lenNonPos := core.ParseLinCmp("len == 0"), core.ParseLinCmp("len <= 0")
	empty := f.GuardEdges(func(ft core.Fact) bool {
		// the list is empty: Len() == 0 (written in any way), Back() == nil, or the `found == false`
		// result of an accessor that looked at Back()
		if c29FoundEmpty(f, ft, lookDepth) {
			return true
		}
		if lc, ok := core.NormLinCmp(f.Info(), ft, lenNamer); ok && (lc.Equal(lenZero) || lc.Equal(lenNonPos)) {
			return true
		}
		cm, ok := core.NormCmp(ft)
		if !ok || cm.R == nil || cm.Op != token.EQL {
			return false
		}
		l, r := cm.L, cm.R
		if core.IsNil(f.Info(), l) {
			l, r = r, l
		}
		return core.IsNil(f.Info(), r) && c29IsBack(f, l)
	})
	return sites, empty
}

// c29AlwaysEvictsBack: every returning path of g removes evictList.Back() or has found the list empty.
func c29AlwaysEvictsBack(g *core.FuncInfo, depth int) bool {
	sites, empty := c29BackEvictions(g, depth)
	if len(sites) == 0 {
		return false
	}
	_, escapes := core.PathQuery{F: g, From: g.Entry(), Avoid: core.PointSet(sites...), AvoidEdge: empty, TargetExit: true}.Find()
	return !escapes
}

// c29IdleCycle looks for a cycle in f's CFG that passes none of the points and none of the edges;
// it returns a witness (the path from a block back to itself). hasCycle says whether f loops at all.
func c29IdleCycle(f *core.FuncInfo, pts []core.Point, edges func(*cfg.Block, int) bool) (witness []core.Point, idle bool, hasCycle bool) {
	for _, b := range f.CFG().Blocks {
		if !b.Live {
			continue
		}
		blk := b
		isB := func(x *cfg.Block) bool { return x == blk }
		if _, any := (core.PathQuery{F: f, From: core.Point{B: b, I: 0}, TargetBlock: isB}).Find(); !any {
			continue
		}
		hasCycle = true
		if path, found := (core.PathQuery{F: f, From: core.Point{B: b, I: 0}, Avoid: core.PointSet(pts...), AvoidEdge: edges, TargetBlock: isB}).Find(); found {
			return path, true, true
		}
	}
	return nil, false, hasCycle
}
