package rules

// C10 — rule constants of the election (vote rule decision table).
// Uses the generic c15* helpers of c15.go (single-definition locals, struct
// literal fields, linear expansion); the two files are delivered together.

import (
	"go/ast"
	"go/token"
	"go/types"
	"sort"

	"golang.org/x/tools/go/cfg"

	"lachk/core"
)

const (
	c10Pkg      = "abft/election"
	c10El       = c10Pkg + ".Election"
	c10VotesF   = c10El + ".votes"
	c10DecRoots = c10El + ".decidedRoots"
	c10ValsF    = c10El + ".validators"
	c10FrameF   = c10El + ".frameToDecide"
	c10YesF     = c10Pkg + ".voteValue.yes"
	c10DecidedF = c10Pkg + ".voteValue.decided"
	c10ObsRootF = c10Pkg + ".voteValue.observedRoot"
	c10SlotF    = c10Pkg + ".RootAndSlot.Slot"
	c10IDF      = c10Pkg + ".RootAndSlot.ID"
	c10SlotFr   = c10Pkg + ".Slot.Frame"
	c10SlotVal  = c10Pkg + ".Slot.Validator"
	c10Count    = "inter/pos.WeightCounter.Count"
	c10Sum      = "inter/pos.WeightCounter.Sum"
	c10HasQ     = "inter/pos.WeightCounter.HasQuorum"
	c10NewCnt   = "inter/pos.Validators.NewCounter"
)

func init() {
	register("C10", "other", "T8 DecisionTable with value provenance (objects, not text), T4 GuardedBy with the linear normaliser, T2/T3 path rules, T6 WhoMayWrite, T17 Iteration view of loops, T19 ReachingDefs (tested frames), inlined views of ProcessRoot / chooseAtropos / notDecidedRoots / calcFrameIdx (helpers of the package are seen through, error tests threaded per return site)",
		"Decides ONLY the rule constants of the election, i.e. the vote-rule table the property spells out; equivalence of the emitted blocks with an independent reference implementation needs execution and is NOT decided, nor is forkless-cause (vecfc, C05); of the frame rule only the frames that calcFrameIdx tests are decided (C10.frame: by reaching definitions, every frame handed to forklessCausedByQuorumOn is the self-parent's frame or the previously tested frame plus one on the edge where that test held; the rest of the frame rule is C04; C10.slots: the roots of a frame that the frame rule and the election read through Store.GetFrameRoots contain a multi-frame root in each of its frames — every iteration of Store.AddRoot's slot loop, which runs from selfParentFrame+1 while frame <= root.Frame(), writes the roots table and looks up the cached list of the iteration's own frame, storing it back on a hit; the content of the record and of the list is C33/C01). Loops are taken as iterations (range, or counted from 0 with C[i], the bound possibly defined next to the index), loop membership is decided on the CFG, and the four functions are analysed as inlined views: any part of their work may live in helper functions of the package (vote computation per round, counting, lookups, stores, predicates; the vote under construction may be a helper's local that is copied into the stored variable), a helper's error return followed by the caller's `if err != nil { return … }` counts as the error exit it is; observedRoots/observedRootsMap may use a higher-order 'for each observed root' helper; a vote counter is a storage cell — a local variable or a member of a local record that groups the counters, built once by a composite literal and never reassigned; the frame search is located by its effect (the functions that call forklessCausedByQuorumOn) and, when the searching function receives the self-parent's frame from its callers, decided in the views of those callers; in AddRoot the frame of an iteration may be read back from a local record built from the loop variable, and a helper's comma-ok result that is constant false exactly after a cache miss relays the miss. Decided: round = root frame - frame to decide, older roots do not vote; round 1: yes is exactly the comma-ok of looking the subject up in the map of previous-frame roots that observe(newRoot, ·) accepts (keyed by their validator), such a vote never decides; later rounds: each vote of a previous-frame root that the new root observes is looked up for (that root, this subject) and counted with the voter's validator on the yes counter on the vote.yes edge and on the no counter on the other edge, the counters being fresh per subject; the new vote is yes >= no of those two counters' sums (normalised: a tie is yes), computed after all observed roots were counted and only if all counted votes reach quorum (otherwise error, as for a missing or double vote); decided is yesCounter.HasQuorum() OR noCounter.HasQuorum(); a vote enters decidedRoots exactly on the decided edge, under its subject; every subject's vote is stored under (new root, subject); chooseAtropos walks SortedIDs(), returns a root only on the decided-and-yes edge (Atropos = that vote's observed root, Frame = frameToDecide), continues only on the decided-and-no edge, returns (nil, nil) at the first undecided validator and an error when all are decided no.",
		[]string{"pos.WeightCounter.Count adds the weight of the validator passed, once (C11)", "Validators.SortedIDs is the canonical order (C12)", "observe/getFrameRoots are the forkless-cause and root-registry callbacks (C05, C33)"},
		runC10)
}

// ---------------------------------------------------------------------------
// helpers (c10 prefix)

// c10Canon gives equalities a canonical sign (first sorted term positive), as ParseLinCmp does.
func c10Canon(lc core.LinCmp) core.LinCmp {
	if lc.Op == "<=" {
		return lc
	}
	keys := make([]string, 0, len(lc.Form.Coef))
	for k := range lc.Form.Coef {
		keys = append(keys, k)
	}
	sort.Strings(keys)
	if len(keys) > 0 && lc.Form.Coef[keys[0]].Sign() < 0 || len(keys) == 0 && lc.Form.C.Sign() < 0 {
		for _, c := range lc.Form.Coef {
			c.Neg(c)
		}
		lc.Form.C.Neg(lc.Form.C)
	}
	return lc
}

// c10LinIs: the fact normalises (through single-definition locals) to the expected comparison.
func c10LinIs(f *core.FuncInfo, namer core.AtomNamer, want string) func(core.Fact) bool {
	w := core.ParseLinCmp(want)
	return func(ft core.Fact) bool {
		lc, ok := c15LinFact(f, ft, namer)
		return ok && c10Canon(lc).Equal(w)
	}
}

// c10ExprLinIs: the integer expression linearises to want ("rootFrame - 1").
func c10ExprLinIs(f *core.FuncInfo, namer core.AtomNamer, e ast.Expr, want string) bool {
	if e == nil {
		return false
	}
	l := core.Linearize(f.Info(), e, namer)
	c15ExpandLin(f, l, namer)
	w := core.ParseLinCmp(want + " <= 0")
	return core.LinCmp{Form: l, Op: "<="}.Equal(w)
}

// c10FieldOf matches a bare boolean <v>.<field> with the given truth.
func c10FieldOf(f *core.FuncInfo, v *types.Var, field string, truth bool) func(core.Fact) bool {
	return c15BoolFact(truth, func(e ast.Expr) bool {
		return v != nil && c15SamePath(f, e, v, []string{field})
	})
}

// c10FieldOfAny matches a bare boolean <v>.<field>, v being any of the variables, with the given truth.
func c10FieldOfAny(f *core.FuncInfo, vs map[*types.Var]bool, field string, truth bool) func(core.Fact) bool {
	return c15BoolFact(truth, func(e ast.Expr) bool {
		root, path := fieldPath(f, e)
		return len(path) == 1 && path[0] == field && vs[varOf(f, root)]
	})
}

// c10VarIs matches a bare boolean variable (or a single-definition copy of it) with the given truth.
func c10VarIs(f *core.FuncInfo, v *types.Var, truth bool) func(core.Fact) bool {
	return c15BoolFact(truth, func(e ast.Expr) bool {
		return v != nil && (varOf(f, e) == v || varOf(f, c15Through(f, e)) == v)
	})
}

// c10CopySources: v and, transitively, the variables whose value is copied into it by a plain
// assignment (v = w): the places where the value v ends up with may have been built.
func c10CopySources(f *core.FuncInfo, v *types.Var) map[*types.Var]bool {
	out := map[*types.Var]bool{v: true}
	for changed := true; changed; {
		changed = false
		for _, a := range assignments(f) {
			if a.RHS == nil || (a.Tok != token.ASSIGN && a.Tok != token.DEFINE) || !out[varOf(f, a.LHS)] {
				continue
			}
			if as, ok := a.Stmt.(*ast.AssignStmt); ok && len(as.Lhs) != len(as.Rhs) {
				continue
			}
			if w := varOf(f, a.RHS); w != nil && !w.IsField() && !out[w] && types.Identical(w.Type(), v.Type()) {
				out[w] = true
				changed = true
			}
		}
	}
	return out
}

// c10StartsWithout: every whole-value definition of the variables is the zero value, a composite literal
// that does not set the field, or a copy of another of them.
func c10StartsWithout(f *core.FuncInfo, vs map[*types.Var]bool, field string) bool {
	n := 0
	for _, a := range assignments(f) {
		if !vs[varOf(f, a.LHS)] {
			continue
		}
		n++
		if a.RHS == nil {
			if _, isSpec := a.Stmt.(*ast.ValueSpec); isSpec {
				continue // var v T
			}
			return false
		}
		if as, ok := a.Stmt.(*ast.AssignStmt); ok && len(as.Lhs) != len(as.Rhs) {
			return false // a call's result: unknown value
		}
		if vs[varOf(f, a.RHS)] {
			continue
		}
		if flds, _, ok := c15StructFields(f, a.RHS); !ok || flds[field] != nil {
			return false
		}
	}
	return n > 0
}

// c10Lookup is a comma-ok map lookup "val, ok := m[key]".
type c10Lookup struct {
	Stmt    *ast.AssignStmt
	Map     ast.Expr
	Key     ast.Expr
	Val, Ok *types.Var
	Pt      core.Point
}

func c10Lookups(f *core.FuncInfo) []c10Lookup {
	var out []c10Lookup
	f.InspectOwn(func(n ast.Node) bool {
		as, ok := n.(*ast.AssignStmt)
		if !ok || len(as.Lhs) != 2 || len(as.Rhs) != 1 {
			return true
		}
		ix, ok := ast.Unparen(as.Rhs[0]).(*ast.IndexExpr)
		if !ok {
			return true
		}
		if _, isMap := f.Info().Types[ix.X].Type.Underlying().(*types.Map); !isMap {
			return true
		}
		lk := c10Lookup{Stmt: as, Map: ix.X, Key: ix.Index, Val: varOf(f, as.Lhs[0]), Ok: varOf(f, as.Lhs[1])}
		lk.Pt, _ = f.PointOf(as)
		out = append(out, lk)
		return true
	})
	return out
}

// c10IndexStores lists "m[k] = v" assignments whose map expression satisfies isMap.
func c10IndexStores(f *core.FuncInfo, isMap func(ast.Expr) bool) []assignment {
	var out []assignment
	for _, a := range assignments(f) {
		if ix, ok := ast.Unparen(a.LHS).(*ast.IndexExpr); ok && a.Tok == token.ASSIGN && isMap(ix.X) {
			out = append(out, a)
		}
	}
	return out
}

// c10ErrorReturn: a (res, err) return with nil result and a non-nil error expression.
func c10ErrorReturn(f *core.FuncInfo) func(*ast.ReturnStmt) bool {
	return func(r *ast.ReturnStmt) bool {
		return len(r.Results) == 2 && core.IsNil(f.Info(), r.Results[0]) && !core.IsNil(f.Info(), r.Results[1])
	}
}

// c10NonZeroDefs lists the assignments to v that give it a value (a bare "var v T" is the zero value).
func c10NonZeroDefs(f *core.FuncInfo, v *types.Var) []assignment {
	var out []assignment
	for _, a := range assignsToVar(f, v) {
		if a.RHS != nil || a.Tok != token.DEFINE {
			out = append(out, a)
		}
	}
	return out
}

// c10Ctx carries the roles resolved in ProcessRoot.
type c10Ctx struct {
	pr          *core.FuncInfo
	newRoot     *types.Var
	namer       core.AtomNamer
	round1      func(core.Fact) bool
	roundLater  func(core.Fact) bool
	subjLoop    ast.Stmt
	subjIt      *core.Iteration     // the loop over the undecided subjects
	vote        *types.Var          // the new vote being built (the variable that is stored)
	votes       map[*types.Var]bool // that variable and the locals whose value is copied into it (the vote under construction may live in a helper's local)
	yesLater    *assignment
	decLater    *assignment
	obsLoop     ast.Stmt
	obsIt       *core.Iteration // the loop over the observed previous-frame roots (the voters)
	prev        *c10Lookup      // lookup of the voter's vote
	yesC, noC   *types.Var
	allC        *types.Var
	votesStores []c10Store
}

// isSubj: e denotes the subject validator of the current iteration.
func (x *c10Ctx) isSubj(e ast.Expr) bool { return c10IsElem(x.pr, x.subjIt, e) }

// isVoter: e denotes the observed previous-frame root of the current iteration.
func (x *c10Ctx) isVoter(e ast.Expr) bool { return c10IsElem(x.pr, x.obsIt, e) }

// builtFrom: the collection used at `use` is el.<fn>(newRoot.ID, root frame - 1): the call itself
// (possibly held in a single-definition local), or a variable whose only value-giving assignment is
// that call and is passed on every path to the use that does not take an edge of the other round.
func (x *c10Ctx) builtFrom(coll ast.Expr, fn string, use core.Point, otherRound func(core.Fact) bool) bool {
	pr := x.pr
	argsOK := func(call *ast.CallExpr) bool {
		return len(call.Args) == 2 && c15SamePath(pr, call.Args[0], x.newRoot, []string{c10IDF}) && c10ExprLinIs(pr, x.namer, call.Args[1], "rootFrame - 1")
	}
	coll = c15Through(pr, coll)
	if call := isCallTo(pr, coll, fn); call != nil {
		return argsOK(call)
	}
	v := varOf(pr, coll)
	defs := c10NonZeroDefs(pr, v)
	if v == nil || len(defs) != 1 {
		return false
	}
	call := isCallTo(pr, defs[0].RHS, fn)
	if call == nil || !argsOK(call) {
		return false
	}
	_, miss := core.PathQuery{F: pr, From: pr.Entry(), Target: core.PointSet(use), Avoid: core.PointSet(defs[0].Pt), AvoidEdge: pr.GuardEdges(otherRound)}.Find()
	return !miss
}

func runC10(c *core.Ctx) {
	p := c.P
	x := &c10Ctx{}

	c.Clause("C10.round", func() {
		for _, f := range []string{c10VotesF, c10DecRoots, c10ValsF, c10FrameF, c10YesF, c10DecidedF, c10ObsRootF} {
			c.Fld(f)
		}
		// ProcessRoot as one body: helpers of the election it calls are seen through (inlined view), except the
		// ones the rule talks about by name
		pr := c10Inlined(c.Fn(c10El+".ProcessRoot"), c10El+".notDecidedRoots", c10El+".observedRootsMap", c10El+".observedRoots",
			c10El+".chooseAtropos", c10El+".observe", c10El+".getFrameRoots")
		x.pr = pr
		x.newRoot = pr.Param(0)
		c.Need(x.newRoot != nil && c15TypeName(x.newRoot.Type()) == c10Pkg+".RootAndSlot", "ProcessRoot(newRoot RootAndSlot)")
		recv := pr.Recv()
		x.namer = func(e ast.Expr) string {
			e = core.StripConv(pr.Info(), e)
			if c15SamePath(pr, e, x.newRoot, []string{c10SlotF, c10SlotFr}) {
				return "rootFrame"
			}
			if c15SamePath(pr, e, recv, []string{c10FrameF}) {
				return "decideFrame"
			}
			return ""
		}
		x.round1 = c10LinIs(pr, x.namer, "rootFrame - decideFrame - 1 == 0")
		x.roundLater = c10LinIs(pr, x.namer, "rootFrame - decideFrame - 1 != 0")
		// the subject loop: an iteration over the result of notDecidedRoots() (range, or counted with C[i])
		pr.InspectOwn(func(n ast.Node) bool {
			switch n.(type) {
			case *ast.RangeStmt, *ast.ForStmt:
				if it := c10Iter(pr, n.(ast.Stmt)); it != nil && it.Coll != nil && isCallTo(pr, it.Coll, c10El+".notDecidedRoots") != nil {
					x.subjLoop, x.subjIt = n.(ast.Stmt), it
				}
			}
			return true
		})
		c.Need(x.subjLoop != nil && x.subjIt.Head != nil && len(x.subjIt.Head.Succs) == 2, "ProcessRoot iterates over notDecidedRoots()")
		c.Check(c10Forward(x.subjIt), "all undecided subjects are visited", "T17 Iteration", x.subjLoop.Pos(),
			"the subject loop covers the whole result of notDecidedRoots() and is left only at its end (or by a return)",
			"the loop over the undecided subjects does not cover all of notDecidedRoots() (break, or an index range that skips elements): some subjects get no vote from this root")
		// votes stores: el.votes[voteID{fromRoot: newRoot, forValidator: subject}] = vote, directly or in a helper of the election
		x.votesStores = c10VoteStores(pr)
		c.Need(len(x.votesStores) == 1, "exactly one store into el.votes (in ProcessRoot or a helper it calls)")
		st := x.votesStores[0]
		if st.Undecided != "" {
			c.Undecided("vote stored under (new root, subject)", "T8 provenance", st.Pos, st.Undecided)
			return
		}
		x.vote = varOf(pr, st.Val)
		c.Need(x.vote != nil && c15TypeName(x.vote.Type()) == c10Pkg+".voteValue", "the stored vote is a voteValue variable")
		x.votes = c10CopySources(pr, x.vote)
		okKey := varOf(pr, c15Through(pr, st.From)) == x.newRoot && x.isSubj(st.For)
		c.Check(okKey, "vote stored under (new root, subject)", "T8 provenance", st.Pos,
			"el.votes[{fromRoot: newRoot, forValidator: subject}] = the vote just computed",
			"the new vote is not stored under (newRoot, subject): later roots look it up under that key and count a wrong or missing vote")
		// every non-error iteration stores the vote
		head := x.subjIt.Head
		finals := returnsWith(pr, 0, func(e ast.Expr) bool { return isCallTo(pr, e, c10El+".chooseAtropos") != nil })
		finalSet := core.PointSet(finals...)
		_, skip := core.PathQuery{F: pr, From: blockEntry(head.Succs[0]), Avoid: core.PointSet(st.Pt), Target: finalSet}.Find()
		c.Check(!skip && len(finals) > 0, "every subject gets a vote and the election is re-evaluated", "T3 PostDominates", st.Pos,
			"each iteration over the undecided subjects reaches the el.votes store (or an error return), and the loop ends in return el.chooseAtropos()",
			"an undecided subject can be skipped without a stored vote, or ProcessRoot does not end by evaluating chooseAtropos(): later roots miss a vote / a reached decision is not reported")
		// old roots do not vote
		ok2, wit := pr.GuardedBy(st.Pt, c10LinIs(pr, x.namer, "decideFrame - rootFrame + 1 <= 0"))
		c.Check(ok2, "only roots above the frame to decide vote", "T4 GuardedBy (normalised)", st.Pos,
			"votes are cast only on the edge NOT(root frame <= frameToDecide)",
			"a root at or below the frame being decided can cast votes: "+pr.DescribePath(wit))
		// T6: who writes the election state
		for _, f := range c10PkgView(p, c10Pkg, pr) {
			for _, a := range assignments(f) {
				tgt := a.LHS
				if ix, ok := ast.Unparen(tgt).(*ast.IndexExpr); ok {
					tgt = ix.X
				}
				fn := fieldNameOf(f, tgt)
				if fn != c10VotesF && fn != c10DecRoots {
					continue
				}
				okW := f == pr || (f.Name == c10El+".Reset" && ast.Unparen(a.LHS) == tgt)
				who := "ProcessRoot (entries) and Reset (fresh maps)"
				if !okW && fn == c10VotesF && f == st.Via && c10CalledOnlyFrom(p, f, pr) {
					// the store ProcessRoot makes through a helper that nobody else can call
					okW, who = true, "ProcessRoot (here through its private helper "+short(f.Name)+") and Reset"
				}
				c.Check(okW, "write of "+short(fn)+" in "+short(f.Name), "T6 WhoMayWrite", a.Stmt.Pos(), "election state is written by "+who+" only", "votes/decidedRoots are modified outside ProcessRoot/Reset")
			}
			for _, cs := range f.CallsTo("builtin.delete") {
				if len(cs.Call.Args) > 0 && (fieldNameOf(f, cs.Call.Args[0]) == c10VotesF || fieldNameOf(f, cs.Call.Args[0]) == c10DecRoots) {
					c.Fail("delete from election state in "+short(f.Name), "T6 WhoMayWrite", cs.Pos(), "votes or decisions are deleted: a decided validator becomes undecided again")
				}
			}
		}
	})
	c10Frame(c)
	c10Slots(c)
	if x.pr == nil || x.vote == nil || x.subjIt == nil {
		return
	}
	pr := x.pr

	// classify the assignments to vote.yes / vote.decided by round
	var yesR1, yesLater, decR1, decLater, obsR1 []assignment
	c.Clause("C10.round1", func() {
		for _, a := range assignments(pr) {
			root, path := fieldPath(pr, a.LHS)
			if !x.votes[varOf(pr, root)] || len(path) != 1 {
				continue
			}
			r1, _ := pr.GuardedBy(a.Pt, x.round1)
			rl, _ := pr.GuardedBy(a.Pt, x.roundLater)
			if r1 == rl {
				c.Undecided("assignment to vote."+short(path[0])+" outside the round split", "T8 DecisionTable", a.Stmt.Pos(), "an assignment to the new vote is not on the round == 1 edge nor on the round != 1 edge (round = root frame - frameToDecide): cannot attribute it to a rule")
				continue
			}
			switch path[0] {
			case c10YesF:
				if r1 {
					yesR1 = append(yesR1, a)
				} else {
					yesLater = append(yesLater, a)
				}
			case c10DecidedF:
				if r1 {
					decR1 = append(decR1, a)
				} else {
					decLater = append(decLater, a)
				}
			case c10ObsRootF:
				if r1 {
					obsR1 = append(obsR1, a)
				}
			}
		}
		c.ExpectAtLeast("round-1 assignments of vote.yes", len(yesR1), 1)
		lks := c10Lookups(pr)
		for _, a := range yesR1 {
			// yes = ok of observedMap[subject]
			var lk *c10Lookup
			for i := range lks {
				if lks[i].Ok != nil && varOf(pr, a.RHS) == lks[i].Ok {
					lk = &lks[i]
				}
			}
			if lk == nil {
				c.Fail("round 1: yes = subject observed", "T8 DecisionTable", a.Stmt.Pos(), "in round 1 vote.yes is "+exprStr(a.RHS)+", not the comma-ok of looking the subject up among the roots the new root observes: first-round votes no longer say whether the subject's root is forkless-caused")
				continue
			}
			okSubj := x.isSubj(lk.Key)
			okFresh := len(assignsToVar(pr, lk.Ok)) == 1
			if d, _ := pr.MustPassBefore([]core.Point{lk.Pt}, a.Pt); !d {
				okFresh = false
			}
			c.Check(okSubj && okFresh, "round 1: yes = subject observed", "T8 DecisionTable", a.Stmt.Pos(),
				"vote.yes is the ok of observedMap[subject] for the subject being voted on",
				"round-1 vote.yes is not the presence of this subject in the observed-roots map")
			// the map: observedRootsMap(newRoot.ID, rootFrame-1), assigned on the round-1 edge before the lookup
			okMap := x.builtFrom(lk.Map, c10El+".observedRootsMap", lk.Pt, x.roundLater)
			c.Check(okMap, "round 1: observed roots of the previous frame", "T8 provenance", lk.Stmt.Pos(),
				"the map looked up is observedRootsMap(newRoot.ID, newRoot frame - 1), built on every round-1 path before the lookup",
				"the round-1 lookup is not made in observedRootsMap(newRoot.ID, newRoot.Slot.Frame-1): votes are taken against another frame's or another root's observations (or an empty map)")
			// observed root recorded for a yes
			okObs := len(obsR1) > 0
			for _, o := range obsR1 {
				g, _ := pr.GuardedBy(o.Pt, c10VarIs(pr, lk.Ok, true))
				if !g || !c15SamePath(pr, o.RHS, lk.Val, []string{c10IDF}) {
					okObs = false
				}
			}
			c.Check(okObs, "round 1: a yes names the observed root", "T8 provenance", a.Stmt.Pos(),
				"vote.observedRoot is the ID of the root found for the subject, set on the ok edge", "a round-1 yes does not carry the ID of the subject's observed root: the Atropos hash is wrong or empty")
		}
		// round 1 never decides
		okND := true
		for _, a := range decR1 {
			if v, ok := core.ConstVal(pr.Info(), a.RHS); !ok || v.String() != "false" {
				okND = false
			}
		}
		// every value the vote starts from is undecided: the zero value or a literal that does not set decided
		if !c10StartsWithout(pr, x.votes, c10DecidedF) {
			okND = false
		}
		for _, st := range c10IndexStores(pr, func(m ast.Expr) bool { return fieldNameOf(pr, m) == c10DecRoots }) {
			if g, _ := pr.GuardedBy(st.Pt, x.roundLater); !g {
				okND = false
			}
		}
		c.Check(okND, "round 1 never decides", "T8 DecisionTable", pr.Pos(),
			"the vote starts undecided, round 1 only ever sets decided to false and decidedRoots is written on the round != 1 edge only",
			"a first-round vote can be marked decided or stored in decidedRoots: a single root's observation decides a validator")
		// the two observation helpers record exactly the roots that observe() accepts
		for _, name := range []string{"observedRootsMap", "observedRoots"} {
			c10CheckObserved(c, c.Fn(c10El+"."+name), name)
		}
	})

	c.Clause("C10.count", func() {
		// the lookup of a previous vote: el.votes[{fromRoot: voter, forValidator: subject}]
		for _, lk := range c10Lookups(pr) {
			if fieldNameOf(pr, lk.Map) == c10VotesF {
				l := lk
				x.prev = &l
			}
		}
		c.Need(x.prev != nil && x.prev.Val != nil && x.prev.Ok != nil, "later rounds look previous votes up in el.votes")
		flds, _, ok := c15StructFields(pr, c15Through(pr, x.prev.Key))
		c.Need(ok, "the lookup key is a voteID literal")
		x.obsLoop, x.obsIt = c10LoopAt(pr, x.prev.Pt)
		okKey := x.obsIt != nil && x.obsLoop != x.subjLoop && x.isVoter(flds[c10Pkg+".voteID.fromRoot"]) && x.isSubj(flds[c10Pkg+".voteID.forValidator"])
		c.Check(okKey, "previous vote looked up for (observed root, subject)", "T8 provenance", x.prev.Stmt.Pos(),
			"the vote counted is el.votes[{fromRoot: the observed root of this iteration, forValidator: the subject}]",
			"the vote that is counted is not the observed root's vote for this subject")
		c.Need(okKey, "voter loop")
		// the roots iterated: observedRoots(newRoot.ID, rootFrame-1) assigned on the round != 1 edge
		okObs := x.builtFrom(x.obsIt.Coll, c10El+".observedRoots", x.prev.Pt, x.round1)
		complete := c10Forward(x.obsIt) && x.obsIt.Done != nil
		c.Check(okObs && complete, "voters are the previous-frame roots the new root observes", "T8 provenance", x.obsLoop.Pos(),
			"the loop covers all of observedRoots(newRoot.ID, newRoot frame - 1) (no break), built on every later-round path",
			"later-round votes are not collected from all of observedRoots(newRoot.ID, newRoot.Slot.Frame-1)")
		// classify the counters by the edge on which they count
		type cnt struct {
			onYes, onNo, other int
			sites              []*core.CallSite
			badWeight          *core.CallSite
		}
		cs := map[*types.Var]*cnt{}
		var order []*types.Var
		yesT, yesF := c10FieldOf(pr, x.prev.Val, c10YesF, true), c10FieldOf(pr, x.prev.Val, c10YesF, false)
		for _, call := range pr.CallsTo(c10Count) {
			cv := c10Cell(pr, call.Recv())
			if cv == nil {
				c.Undecided("Count on a non-variable counter", "T8 provenance", call.Pos(), "cannot attribute this Count call to a counter variable")
				continue
			}
			if cs[cv] == nil {
				cs[cv] = &cnt{}
				order = append(order, cv)
			}
			k := cs[cv]
			k.sites = append(k.sites, call)
			y, _ := pr.GuardedBetween(x.prev.Pt, call.Pt, yesT)
			n, _ := pr.GuardedBetween(x.prev.Pt, call.Pt, yesF)
			switch {
			case y && !n:
				k.onYes++
			case n && !y:
				k.onNo++
			default:
				k.other++
			}
			okW := len(call.Call.Args) == 1 && c10ElemPath(pr, x.obsIt, call.Call.Args[0], []string{c10SlotF, c10SlotVal})
			g, _ := pr.GuardedBetween(x.prev.Pt, call.Pt, c10VarIs(pr, x.prev.Ok, true))
			if !okW || !g {
				k.badWeight = call
			}
		}
		var ys, ns, as []*types.Var
		for _, v := range order {
			k := cs[v]
			switch {
			case k.onYes > 0 && k.onNo == 0 && k.other == 0:
				ys = append(ys, v)
			case k.onNo > 0 && k.onYes == 0 && k.other == 0:
				ns = append(ns, v)
			case k.other > 0 && k.onYes == 0 && k.onNo == 0:
				as = append(as, v)
			default:
				c.Fail("each counter has one role", "T8 DecisionTable", cs[v].sites[0].Pos(), "one counter is incremented both on the vote.yes edge and on the other edge (or also unconditionally): yes-weight and no-weight are mixed")
			}
		}
		if !c.Check(len(ys) == 1 && len(ns) == 1 && len(as) == 1, "yes / no / all counters", "T8 DecisionTable", x.prev.Stmt.Pos(),
			"exactly one counter is incremented only on the previous vote's yes edge, one only on its no edge, one for every counted vote",
			"the counting does not have one yes-edge counter, one no-edge counter and one all-votes counter: yes and no weights cannot be told apart") {
			return
		}
		x.yesC, x.noC, x.allC = ys[0], ns[0], as[0]
		roles := []struct {
			v    *types.Var
			role string
		}{{x.yesC, "yes counter"}, {x.noC, "no counter"}, {x.allC, "all-votes counter"}}
		// each counts the voter's own validator, is fresh per subject, and the three are distinct counters over the election's validators
		seenCalls := map[ast.Expr]bool{}
		for _, r := range roles {
			k := cs[r.v]
			pos := k.sites[0].Pos()
			if k.badWeight != nil {
				pos = k.badWeight.Pos()
			}
			c.Check(k.badWeight == nil, r.role+" counts the voter's validator", "T8 provenance", pos,
				"Count receives the observed root's Slot.Validator (the voter's weight), for a vote that exists",
				"a vote is weighted with a validator other than the voting root's own (or counted although no vote was found): the weighted majority is wrong")
			rhs, defPt, okDef := c10CellDef(pr, r.v)
			call := isCallTo(pr, rhs, c10NewCnt)
			okF := okDef && call != nil && !seenCalls[rhs]
			if okF {
				seenCalls[rhs] = true
				sel, _ := ast.Unparen(call.Fun).(*ast.SelectorExpr)
				okF = sel != nil && fieldNameOf(pr, sel.X) == c10ValsF && c10LoopOfPoint(pr, defPt) == x.subjLoop
			}
			c.Check(okF, r.role+" is fresh per subject", "T8 provenance", pos,
				"the counter is el.validators.NewCounter() created inside the subject loop, outside the voter loop",
				"a vote counter is not a new el.validators.NewCounter() per subject: weights of other subjects or other rounds leak into the majority")
		}
		// every found vote is counted as yes or as no before the majority is taken
		var yn []core.Point
		yn = append(yn, core.Points(cs[x.yesC].sites)...)
		yn = append(yn, core.Points(cs[x.noC].sites)...)
		// from the lookup, reaching the next lookup or the majority without a yes/no count means a skipped vote
		tgt := []core.Point{x.prev.Pt}
		tgt = append(tgt, pointsOfAssign(yesLater)...)
		_, skip := core.PathQuery{F: pr, From: x.prev.Pt, FromAfter: true, Avoid: core.PointSet(yn...), Target: core.PointSet(tgt...)}.Find()
		okAllCounted := !skip
		c.Check(okAllCounted, "every found vote is counted as yes or no", "T3 PostDominates", x.prev.Stmt.Pos(),
			"from the lookup, every path that leaves the iteration without an error return passes yesCounter.Count or noCounter.Count",
			"a previous vote can be looked up and then counted on neither side: the majority misses that voter's weight")
		// a missing vote, a double vote are errors
		for _, e := range edgesWithFact(pr, c10VarIs(pr, x.prev.Ok, false)) {
			ok, wit := edgeLeadsOnlyTo(pr, e.B, e.Succ, c10ErrorReturn(pr))
			c.Check(ok, "missing previous vote is an error", "T8 DecisionTable", posOf(core.Point{B: e.B, I: len(e.B.Nodes) - 1}), "the !ok edge of the vote lookup only leads to an error return", "a voter without a recorded vote for the subject is skipped silently: "+pr.DescribePath(wit))
		}
		nDouble := 0
		for _, site := range cs[x.allC].sites {
			for _, e := range edgesWithFact(pr, c15BoolFact(false, func(e ast.Expr) bool { return ast.Unparen(e) == ast.Expr(site.Call) })) {
				nDouble++
				ok, wit := edgeLeadsOnlyTo(pr, e.B, e.Succ, c10ErrorReturn(pr))
				c.Check(ok, "double vote of one validator is an error", "T8 DecisionTable", site.Pos(), "allVotes.Count(...) == false (validator already counted: fork roots) only leads to an error return", "two fork roots of one validator are both counted: "+pr.DescribePath(wit))
			}
		}
		c.ExpectAtLeast("double-vote checks", nDouble, 1)
	})

	c.Clause("C10.majority", func() {
		c.Need(x.yesC != nil && x.noC != nil && x.allC != nil, "counters resolved (C10.count)")
		if len(yesLater) != 1 {
			c.Fail("later rounds: yes = (yes weight >= no weight)", "T8 DecisionTable", pr.Pos(), "expected exactly one assignment of vote.yes on the later-round edge")
			return
		}
		a := yesLater[0]
		x.yesLater = &a
		namer := func(e ast.Expr) string {
			if call := isCallTo(pr, e, c10Sum); call != nil {
				if sel, ok := ast.Unparen(call.Fun).(*ast.SelectorExpr); ok {
					switch c10Cell(pr, sel.X) {
					case x.yesC:
						return "yes"
					case x.noC:
						return "no"
					case x.allC:
						return "all"
					}
				}
			}
			return ""
		}
		lc, ok := c15LinFact(pr, core.Fact{Expr: c15Through(pr, a.RHS), Truth: true}, namer)
		got := "<not an integer comparison>"
		if ok {
			got = lc.String()
		}
		c.Check(ok && lc.Equal(core.ParseLinCmp("no - yes <= 0")), "later rounds: yes = (yes weight >= no weight)", "T8 DecisionTable (normalised)", a.Stmt.Pos(),
			"vote.yes is yesCounter.Sum() >= noCounter.Sum() up to rewriting: the weighted majority, a tie counts as yes",
			"the new vote is not 'yes weight >= no weight' of the yes-edge and no-edge counters (normalised: "+got+", expected +1*no -1*yes +0 <= 0): on a tie, or with the counters exchanged, this node votes differently from nodes running the specified rule and the network forks")
		// after all voters were counted, and only with a quorum of votes
		okAfter := c10LoopOfPoint(pr, a.Pt) == x.subjLoop
		if done, complete := x.obsIt.Done, x.obsIt.Complete; okAfter && done != nil && complete {
			okAfter, _ = mustPassBlockBefore(pr, done, a.Pt)
			// ... in this iteration of the subject loop
			if okAfter && pr.CanReach(a.Pt, a.Pt) {
				_, again := core.PathQuery{F: pr, From: a.Pt, FromAfter: true, Target: core.PointSet(a.Pt), AvoidEdge: func(b *cfg.Block, s int) bool { return b.Succs[s] == done }}.Find()
				okAfter = !again
			}
		} else {
			okAfter = false
		}
		c.Check(okAfter, "majority taken after all voters are counted", "T2 Dominates (loop exit)", a.Stmt.Pos(),
			"the comparison is evaluated after the voter loop has run to completion", "the majority is taken inside or before the counting loop: it sees only part of the votes")
		quorum := c15BoolFact(true, func(e ast.Expr) bool {
			call := isCallTo(pr, e, c10HasQ)
			if call == nil {
				return false
			}
			sel, ok := ast.Unparen(call.Fun).(*ast.SelectorExpr)
			return ok && c10Cell(pr, sel.X) == x.allC
		})
		okQ, wit := pr.GuardedBy(a.Pt, quorum)
		if okQ && pr.CanReach(a.Pt, a.Pt) {
			okQ, wit = pr.GuardedBetween(a.Pt, a.Pt, quorum)
		}
		c.Check(okQ, "vote only with a quorum of counted votes", "T4 GuardedBy", a.Stmt.Pos(),
			"the majority is taken only on the allCounter.HasQuorum() edge", "a vote is cast although fewer than a quorum of previous-frame votes were counted: "+pr.DescribePath(wit))
		nQ := 0
		for _, e := range edgesWithFact(pr, func(ft core.Fact) bool { return quorum(core.Fact{Expr: ft.Expr, Truth: !ft.Truth}) }) {
			nQ++
			ok, w2 := edgeLeadsOnlyTo(pr, e.B, e.Succ, c10ErrorReturn(pr))
			c.Check(ok, "no quorum of votes is an error", "T8 DecisionTable", posOf(core.Point{B: e.B, I: len(e.B.Nodes) - 1}), "the !allCounter.HasQuorum() edge only leads to an error return", "missing quorum of votes is not reported as an error: "+pr.DescribePath(w2))
		}
		c.ExpectAtLeast("all-votes quorum checks", nQ, 1)
	})

	c.Clause("C10.decided", func() {
		c.Need(x.yesC != nil && x.noC != nil, "counters resolved (C10.count)")
		if len(decLater) != 1 {
			c.Fail("decided = yes quorum OR no quorum", "T8 DecisionTable", pr.Pos(), "expected exactly one assignment of vote.decided on the later-round edge")
			return
		}
		a := decLater[0]
		alts := core.Disjuncts(c15Through(pr, a.RHS), true)
		seen := map[*types.Var]bool{}
		okD := len(alts) == 2
		for _, alt := range alts {
			if len(alt) != 1 || !alt[0].Truth {
				okD = false
				continue
			}
			call := isCallTo(pr, alt[0].Expr, c10HasQ)
			if call == nil {
				okD = false
				continue
			}
			if sel, ok := ast.Unparen(call.Fun).(*ast.SelectorExpr); ok {
				seen[c10Cell(pr, sel.X)] = true
			}
		}
		okD = okD && seen[x.yesC] && seen[x.noC] && len(seen) == 2
		c.Check(okD, "decided = yes quorum OR no quorum", "T8 DecisionTable", a.Stmt.Pos(),
			"vote.decided is yesCounter.HasQuorum() || noCounter.HasQuorum() (either side, of the yes-edge and no-edge counters)",
			"vote.decided is not 'yesCounter.HasQuorum() OR noCounter.HasQuorum()' (found "+exprStr(a.RHS)+"): with AND nothing is ever decided, with one side only a validator that a quorum voted against (or for) stays undecided and the Atropos choice stalls or differs")
		// entry into decidedRoots exactly on the decided edge, under the subject
		stores := c10IndexStores(pr, func(m ast.Expr) bool { return fieldNameOf(pr, m) == c10DecRoots })
		c.ExpectAtLeast("stores into decidedRoots", len(stores), 1)
		decT, decF := c10FieldOfAny(pr, x.votes, c10DecidedF, true), c10FieldOfAny(pr, x.votes, c10DecidedF, false)
		for _, st := range stores {
			ix := ast.Unparen(st.LHS).(*ast.IndexExpr)
			okK := x.isSubj(ix.Index) && x.votes[varOf(pr, st.RHS)]
			g, wit := pr.GuardedBetween(a.Pt, st.Pt, decT)
			d, _ := pr.MustPassBefore([]core.Point{a.Pt}, st.Pt)
			c.Check(okK && g && d, "decidedRoots[subject] = vote only when decided", "T4 GuardedBy", st.Stmt.Pos(),
				"the vote is recorded as the subject's decision only on the vote.decided edge after decided was computed",
				"a vote can enter decidedRoots without being decided (or under another validator): chooseAtropos treats an open vote as final "+pr.DescribePath(wit))
		}
		if len(x.votesStores) == 1 {
			_, miss := core.PathQuery{F: pr, From: a.Pt, FromAfter: true, Target: core.PointSet(x.votesStores[0].Pt), Avoid: core.PointSet(pointsOfAssign(stores)...), AvoidEdge: pr.GuardEdges(decF)}.Find()
			c.Check(!miss, "every decided vote enters decidedRoots", "T3 PostDominates", a.Stmt.Pos(),
				"from the computation of decided, every path to the vote store passes decidedRoots[subject] = vote or the !decided edge",
				"a decided vote can be stored without being recorded in decidedRoots: chooseAtropos keeps reporting 'not decided'")
		}
	})

	c.Clause("C10.atropos", func() {
		ca := c10Inlined(c.Fn(c10El + ".chooseAtropos"))
		var lk *c10Lookup
		for _, l := range c10Lookups(ca) {
			if fieldNameOf(ca, l.Map) == c10DecRoots {
				l2 := l
				lk = &l2
			}
		}
		c.Need(lk != nil && lk.Ok != nil && lk.Val != nil, "chooseAtropos looks the validator up in decidedRoots with comma-ok")
		// the walk: an iteration (range, or index from 0 with C[i]) over el.validators.SortedIDs()
		loop, it := c10LoopAt(ca, lk.Pt)
		c.Need(loop != nil, "chooseAtropos looks the decisions up in a loop")
		okOrder := false
		if it != nil && it.Coll != nil && it.FromZero && (!it.Counted || it.Index != nil) {
			if call := isCallTo(ca, it.Coll, "inter/pos.Validators.SortedIDs"); call != nil {
				if sel, ok := ast.Unparen(call.Fun).(*ast.SelectorExpr); ok && fieldNameOf(ca, sel.X) == c10ValsF {
					okOrder = true
				}
			}
		}
		c.Check(okOrder, "validators visited in canonical order", "T8 provenance", loop.Pos(),
			"the loop walks el.validators.SortedIDs() front to back", "chooseAtropos does not walk el.validators.SortedIDs() from its first element in steps of one: 'first decided-yes validator' depends on another order")
		c.Check(c10IsElem(ca, it, lk.Key), "decision looked up for the visited validator", "T8 provenance", lk.Stmt.Pos(), "decidedRoots[validator] of the loop's validator", "the decision examined is not the visited validator's (the element of SortedIDs() the walk is at)")
		okT, okF := c10VarIs(ca, lk.Ok, true), c10VarIs(ca, lk.Ok, false)
		yesT, yesF := c10FieldOf(ca, lk.Val, c10YesF, true), c10FieldOf(ca, lk.Val, c10YesF, false)
		// (a) a root is returned only via decided && yes, and it is that vote's root for the frame to decide
		roots := returnsWith(ca, 0, func(e ast.Expr) bool { return !core.IsNil(ca.Info(), e) })
		c.ExpectAtLeast("returns of an Atropos", len(roots), 1)
		for _, rp := range roots {
			g1, w1 := ca.GuardedBetween(lk.Pt, rp, okT)
			g2, w2 := ca.GuardedBetween(lk.Pt, rp, yesT)
			d, _ := ca.MustPassBefore([]core.Point{lk.Pt}, rp)
			wit := w1
			if g1 {
				wit = w2
			}
			c.Check(g1 && g2 && d, "Atropos returned only for a decided yes", "T4 GuardedBy", posOf(rp),
				"a non-nil result is reached only through the ok (decided) edge and the vote.yes edge of the visited validator",
				"a root can be returned as Atropos for a validator that is not decided yes: "+ca.DescribePath(wit))
			r := rp.Node().(*ast.ReturnStmt)
			flds, _, ok := c15StructFields(ca, c15Through(ca, r.Results[0]))
			okRes := ok && c15SamePath(ca, flds[c10Pkg+".Res.Atropos"], lk.Val, []string{c10ObsRootF}) && fieldNameOf(ca, flds[c10Pkg+".Res.Frame"]) == c10FrameF && len(r.Results) == 2 && core.IsNil(ca.Info(), r.Results[1])
			c.Check(okRes, "Atropos is the decided vote's observed root", "T8 provenance", posOf(rp), "Res{Frame: frameToDecide, Atropos: vote.observedRoot} of the visited validator's decision, nil error", "the returned result is not {frameToDecide, that decision's observedRoot}")
		}
		// (b) the walk continues only past a decided no
		g1, w1 := ca.GuardedBetween(lk.Pt, lk.Pt, okT)
		g2, w2 := ca.GuardedBetween(lk.Pt, lk.Pt, yesF)
		wit := w1
		if g1 {
			wit = w2
		}
		c.Check(g1 && g2, "walk continues only past a decided no", "T4 GuardedBy (loop)", lk.Stmt.Pos(),
			"every path from one validator's lookup to the next takes the ok (decided) edge and the !vote.yes edge",
			"the walk can pass a validator that is undecided (or decided yes) and pick a later one: nodes that have not yet decided an earlier validator choose a different Atropos ("+ca.DescribePath(wit)+")")
		// (c) the first undecided validator stops the walk with (nil, nil)
		nU := 0
		for _, e := range edgesWithFact(ca, okF) {
			nU++
			ok, w := edgeLeadsOnlyTo(ca, e.B, e.Succ, func(r *ast.ReturnStmt) bool {
				return len(r.Results) == 2 && core.IsNil(ca.Info(), r.Results[0]) && core.IsNil(ca.Info(), r.Results[1])
			})
			c.Check(ok, "undecided validator stops the walk with 'not decided'", "T8 DecisionTable", lk.Stmt.Pos(),
				"the !ok edge only leads to return nil, nil", "at an undecided validator chooseAtropos does not report 'not decided yet' (nil, nil): "+ca.DescribePath(w))
		}
		c.ExpectAtLeast("undecided edges in chooseAtropos", nU, 1)
		// (d) all decided no: error
		done, _ := loopDone(ca, loop)
		okE := done != nil
		if okE {
			_, bad := core.PathQuery{F: ca, From: blockEntry(done), Target: func(pt core.Point) bool {
				r, ok := pt.Node().(*ast.ReturnStmt)
				return ok && !c10ErrorReturn(ca)(r)
			}}.Find()
			okE = !bad
		}
		c.Check(okE, "all validators decided no is an error", "T8 DecisionTable", loop.Pos(), "leaving the loop only leads to an error return", "when every validator is decided no chooseAtropos does not return an error")
		// ProcessRoot evaluates the walk decided above (that every vote is followed by the final
		// `return el.chooseAtropos()` is an obligation of C10.round; this only guards against a vacuous view)
		first := pr.CallsTo(c10El + ".chooseAtropos")
		c.ExpectAtLeast("chooseAtropos calls in ProcessRoot", len(first), 1)
	})

	c.Clause("C10.subjects", func() {
		nd := c10Inlined(c.Fn(c10El + ".notDecidedRoots"))
		var lk *c10Lookup
		for _, l := range c10Lookups(nd) {
			if fieldNameOf(nd, l.Map) == c10DecRoots {
				l2 := l
				lk = &l2
			}
		}
		c.Need(lk != nil && lk.Ok != nil, "notDecidedRoots looks validators up in decidedRoots")
		_, it := c10LoopAt(nd, lk.Pt)
		c.Need(it != nil && it.Coll != nil, "notDecidedRoots iterates over validators")
		okSrc := false
		if call := isCallTo(nd, it.Coll, "inter/pos.Validators.IDs", "inter/pos.Validators.SortedIDs"); call != nil {
			if sel, ok := ast.Unparen(call.Fun).(*ast.SelectorExpr); ok && fieldNameOf(nd, sel.X) == c10ValsF {
				okSrc = true
			}
		}
		complete := c10Forward(it)
		n := 0
		okApp := true
		for _, a := range assignments(nd) {
			call := isCallTo(nd, a.RHS, "builtin.append")
			if call == nil {
				continue
			}
			n++
			g, _ := nd.GuardedBetween(lk.Pt, a.Pt, c10VarIs(nd, lk.Ok, false))
			if !g || len(call.Args) != 2 || !c10IsElem(nd, it, call.Args[1]) || !c10IsElem(nd, it, lk.Key) {
				okApp = false
			}
		}
		// every undecided one is appended
		for _, e := range edgesWithFact(nd, c10VarIs(nd, lk.Ok, false)) {
			var apps []core.Point
			for _, a := range assignments(nd) {
				if isCallTo(nd, a.RHS, "builtin.append") != nil {
					apps = append(apps, a.Pt)
				}
			}
			_, skip := core.PathQuery{F: nd, From: blockEntry(e.B.Succs[e.Succ]), Avoid: core.PointSet(apps...), TargetExit: true}.Find()
			if skip {
				okApp = false
			}
		}
		c.Check(okSrc && complete && okApp && n == 1, "subjects are exactly the validators without a decision", "T8 DecisionTable", nd.Pos(),
			"notDecidedRoots walks all of el.validators' ids and appends a validator exactly on the !ok edge of decidedRoots[validator]",
			"the subjects voted on are not exactly the validators missing from decidedRoots: a decided validator is re-voted or an open one gets no votes")
	})
}
