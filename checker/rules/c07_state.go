package rules

import (
	"go/ast"
	"go/types"
	"strings"

	"lachk/core"
)

// c07BuildState (clause C07.build-state): a merely built event leaves no trace only if Build changes no
// memory of the consensus instance that later calls consult. The index data goes through the droppable
// overlay (C07.defer/C07.drop) and the store's read-through caches hold what the tables hold (C08/C33);
// what remains are plain fields. Decided here:
//
//	no function of package abft that is reachable from IndexedLachesis.Build through static calls (its
//	literals included) assigns a field — directly, or an element/pointee of it — of an object that
//	outlives the call (reached from a receiver, a parameter, a captured or a package variable; objects
//	the function created itself are construction) when that field is read by a function reachable from
//	IndexedLachesis.Process or Build.
//
// The temporary-ID counter is the one intended exception: its values only have to be fresh, which
// C04.tmpid decides. A memo of 'the last built event' consulted by Process is exactly such a trace.
func c07BuildState(c *core.Ctx) {
	p := c.P
	build := c.Fn(ilT + ".Build")
	proc := c.Fn(ilT + ".Process")
	inAbft := func(g *core.FuncInfo) bool { return core.RelPkg(g.Pkg.PkgPath) == "abft" }
	withLits := func(gs []*core.FuncInfo) []*core.FuncInfo {
		var out []*core.FuncInfo
		for _, g := range gs {
			if !inAbft(g) {
				continue
			}
			out = append(out, g)
			out = append(out, allLits(g)...)
		}
		return out
	}
	writers := withLits(core.ReachableFuncs(p, []*core.FuncInfo{build}, false))
	readers := withLits(core.ReachableFuncs(p, []*core.FuncInfo{build, proc}, false))
	// exempt: the temporary-ID counter (C04.tmpid), and the store's read-through caches — Build writes no
	// store table (C07.build-effects), so a cache field it fills holds what a later read of the table
	// would produce anyway (cache = table is C08/C33)
	exempt := func(field string) bool {
		return strings.HasPrefix(field, "abft.uniqueID.") || field == ilT+".uniqueDirtyID" || strings.HasPrefix(field, "abft.Store.cache.")
	}
	// fieldsOf: the canonical names of the fields selected on the way to the assigned location
	type write struct {
		g     *core.FuncInfo
		a     assignment
		field string
	}
	var writes []write
	for _, g := range writers {
		for _, a := range assignments(g) {
			lhs := ast.Unparen(a.LHS)
			// element or pointee of a field: the field's object is what changes
			for {
				switch x := lhs.(type) {
				case *ast.IndexExpr:
					lhs = ast.Unparen(x.X)
					continue
				case *ast.StarExpr:
					lhs = ast.Unparen(x.X)
					continue
				}
				break
			}
			sel, isSel := lhs.(*ast.SelectorExpr)
			if !isSel {
				continue
			}
			s, ok := g.Info().Selections[sel]
			if !ok {
				continue
			}
			fv, _ := s.Obj().(*types.Var)
			if fv == nil || !fv.IsField() {
				continue
			}
			field := p.FieldName(fv)
			if !strings.HasPrefix(field, "abft.") || exempt(field) {
				continue
			}
			// the object: root of the selection chain
			rootX := ast.Expr(sel)
			for {
				switch x := ast.Unparen(rootX).(type) {
				case *ast.SelectorExpr:
					if _, isField := g.Info().Selections[x]; isField {
						rootX = x.X
						continue
					}
				case *ast.IndexExpr:
					rootX = x.X
					continue
				case *ast.StarExpr:
					rootX = x.X
					continue
				}
				break
			}
			if rv := varOfRaw(g, rootX); rv != nil {
				if g.Body.Pos() <= rv.Pos() && rv.Pos() < g.Body.End() {
					// a local of this function: a struct value of its own, or an object it created; a local
					// alias of outliving memory (x := p.field) is followed one step
					d := singleDef(g, rv)
					if d == nil || c04FreshObject(g, rootX) {
						continue
					}
					if _, isPtr := rv.Type().Underlying().(*types.Pointer); !isPtr {
						continue
					}
				}
			}
			writes = append(writes, write{g, a, field})
		}
	}
	n := 0
	for _, g := range writers {
		if g.Obj != nil {
			n++
		}
	}
	c.ExpectAtLeast("abft functions reachable from Build", n, 6)
	ok, pos, why := true, build.Pos(), ""
	for _, w := range writes {
		var reader *core.FuncInfo
		for _, r := range readers {
			found := false
			r.InspectOwn(func(nd ast.Node) bool {
				sel, isSel := nd.(*ast.SelectorExpr)
				if !isSel || found {
					return !found
				}
				if fieldNameOf(r, sel) != w.field {
					return true
				}
				// not the assigned occurrence itself
				if r == w.g && sel.Pos() >= w.a.LHS.Pos() && sel.End() <= w.a.LHS.End() {
					return true
				}
				found = true
				return false
			})
			if found {
				reader = r
				break
			}
		}
		if reader != nil && ok {
			ok, pos = false, w.a.Stmt.Pos()
			why = short(w.g.Name) + ", reachable from IndexedLachesis.Build, assigns " + short(w.field) + ", which " + short(reader.Name) + " reads: the value survives DropNotFlushed, so after a Build of an event that is never processed later Process/Build calls see state that an instance without that Build does not have (events are accepted or rejected differently)"
		}
	}
	c.Check(ok, "Build leaves no field of the consensus instance changed that later calls read", "T6 effects (field writes reachable from Build x field reads reachable from Process/Build)", pos,
		"no assignment to a field of an outliving abft object is reachable from Build, except the temporary-ID counter (C04.tmpid)", why)
}
