package rules

import (
	"go/ast"
	"go/types"

	"lachk/core"
)

// Two lists of the consensus state are kept in arrival order, which differs between instances that
// receive the same events in different parents-first orders:
//
//   - BranchesInfo.BranchIDByCreators[k]: the branches of creator k, numbered and appended as the fork
//     events arrive (which of two fork siblings continues an older branch and which one opens a new one
//     depends on which came first);
//   - the cached root list of a frame that the election's getFrameRoots answers from: roots are appended
//     as they are registered.
//
// Code that lets the position of an element in such a list decide something makes the outcome depend on
// the delivery order. C01.forkpairs and C01.rootorder decide, for the two places where consensus code
// scans these lists, that every element is treated alike (the analogue of T10 MapOrder for
// arrival-ordered slices).
//
// Generic helper (candidate for promotion to core/helpers):
//
//	c01TraceElem   follows an operand back to the loop whose current element it is — in the function
//	               itself or, when the operand is a parameter, in every caller (bounded depth)

const (
	c01BranchLists = "vecengine.BranchesInfo.BranchIDByCreators"
	c01ElObserve   = "abft/election.Election.observe"
	c01ElRoots     = "abft/election.Election.getFrameRoots"
	c01RootID      = "abft/election.RootAndSlot.ID"
)

// c01ElemSrc: the operand is the current element of iteration It of function Fn.
type c01ElemSrc struct {
	Fn *core.FuncInfo
	It *core.Iteration
}

// c01LoopsAround: the loops of g that enclose pos, innermost first.
func c01LoopsAround(g *core.FuncInfo, n ast.Node) []ast.Stmt {
	var out []ast.Stmt
	g.InspectOwn(func(m ast.Node) bool {
		switch m.(type) {
		case *ast.ForStmt, *ast.RangeStmt:
			if m.Pos() <= n.Pos() && n.End() <= m.End() {
				out = append([]ast.Stmt{m.(ast.Stmt)}, out...)
			}
		}
		return true
	})
	return out
}

// c01TraceElem: x (read at node `at` of g) is the current element of an enclosing iteration of g, or a
// parameter of g that is such an element at every call of g made within scope. ok=false when some way
// of reaching x is neither.
func c01TraceElem(g *core.FuncInfo, x ast.Expr, at ast.Node, scope []*core.FuncInfo, depth int) ([]c01ElemSrc, bool) {
	res := c01Resolver(g)
	for _, loop := range c01LoopsAround(g, at) {
		if it, ok := c01IterationOf(g, loop); ok && it.IsElem(x, res) {
			return []c01ElemSrc{{g, it}}, true
		}
	}
	v := canonVar(g, varOf(g, res(x)))
	i := c01ParamIndex(g, v)
	if i < 0 || depth <= 0 || g.Obj == nil {
		return nil, false
	}
	var out []c01ElemSrc
	n := 0
	for _, h := range scope {
		for _, cs := range h.Calls() {
			if cs.Callee != types.Object(g.Obj) || i >= len(cs.Call.Args) {
				continue
			}
			n++
			srcs, ok := c01TraceElem(h, cs.Call.Args[i], cs.Call, scope, depth-1)
			if !ok {
				return nil, false
			}
			out = append(out, srcs...)
		}
	}
	return out, n > 0
}

// c01IsBranchList: e (in fn) denotes the whole list of one creator's branches, BranchIDByCreators[k]:
// the index expression itself (single-definition locals looked through), the result of a module
// accessor every return of which is such an expression, or a parameter of fn that receives such a list
// at every call of fn made within scope (bounded depth; scope nil: parameters are not followed).
func c01IsBranchList(fn *core.FuncInfo, e ast.Expr, scope []*core.FuncInfo, depth int) bool {
	if fn == nil || e == nil || depth < 0 {
		return false
	}
	r := resolveLocal(fn, e)
	if ix, ok := r.(*ast.IndexExpr); ok {
		_, pth := fieldPath(fn, ix.X)
		return len(pth) > 0 && pth[len(pth)-1] == c01BranchLists
	}
	if pv, ok := c01Producer(fn, r); ok && depth > 0 {
		n := 0
		for _, rp := range pv.G.ReturnPoints() {
			ret := rp.Node().(*ast.ReturnStmt)
			n++
			if len(ret.Results) != 1 || !c01IsBranchList(pv.G, ret.Results[0], nil, depth-1) {
				return false
			}
		}
		return n > 0
	}
	v := canonVar(fn, varOf(fn, r))
	i := c01ParamIndex(fn, v)
	if i < 0 || depth == 0 || fn.Obj == nil || len(assignsToVar(fn, v)) > 0 {
		return false
	}
	n := 0
	for _, h := range scope {
		for _, cs := range h.Calls() {
			if cs.Callee != types.Object(fn.Obj) || i >= len(cs.Call.Args) {
				continue
			}
			n++
			if !c01IsBranchList(h, cs.Call.Args[i], scope, depth-1) {
				return false
			}
		}
	}
	return n > 0
}

func c01ArrivalOrder(c *core.Ctx) {
	p := c.P
	withLits := func(fs []*core.FuncInfo) []*core.FuncInfo {
		var out []*core.FuncInfo
		for _, f := range fs {
			out = append(out, f)
			out = append(out, allLits(f)...)
		}
		return out
	}

	c.Clause("C01.forkpairs", func() {
		root := c.Fn("vecengine.Engine.fillEventVectors")
		scope := withLits(core.ReachableScoped(p, []*core.FuncInfo{root}, func(f *core.FuncInfo) bool { return core.RelPkg(f.Pkg.PkgPath) == "vecengine" }))
		// the list of one creator's branches, as a whole (also behind an accessor or a helper's parameter)
		branchList := func(fn *core.FuncInfo, e ast.Expr) bool { return c01IsBranchList(fn, e, scope, 3) }
		const key = "fork detection compares every pair of a creator's branches"
		const rule = "T10 (arrival-ordered list) + provenance through helpers"
		const bad = "the branches of a creator are numbered in the order in which the fork events arrive, so a scan that picks branches by their position in that list finds a fork in one instance and misses it in another that received the same events in a different order: vector clocks, frames and cheater lists diverge"
		nTests := 0
		for _, g := range scope {
			// the overlap test of two branches: the operands of the MinSeq reads
			var ops []*core.CallSite
			for _, cs := range g.Calls() {
				if methodNamed(cs.Name, "MinSeq") && len(cs.Call.Args) == 1 {
					ops = append(ops, cs)
				}
			}
			if len(ops) == 0 {
				continue
			}
			nTests++
			var its []*core.Iteration
			ok, why := true, ""
			for _, cs := range ops {
				srcs, traced := c01TraceElem(g, cs.Call.Args[0], cs.Call, scope, 3)
				if !traced || len(srcs) == 0 {
					ok, why = false, "the branch `"+exprStr(cs.Call.Args[0])+"` compared in "+short(g.Name)+" is not the current element of a loop over the creator's branches"
					continue
				}
				for _, s := range srcs {
					it := s.It
					seen := false
					for _, o := range its {
						if o == it || o.Stmt == it.Stmt {
							seen = true
						}
					}
					if !seen {
						its = append(its, it)
					}
					if it.Coll != nil && !it.FromZero && it.Counted && branchList(s.Fn, it.Coll) {
						// the counted spelling of the triangular half: for i := 0 …; for j := i + 1; j < len(list); j++
						counted := false
						if fs, isFor := it.Stmt.(*ast.ForStmt); isFor {
							if as, isAs := fs.Init.(*ast.AssignStmt); isAs && len(as.Rhs) == 1 {
								for _, loop := range c01LoopsAround(s.Fn, it.Stmt) {
									if loop == it.Stmt {
										continue
									}
									if o, isIt := c01IterationOf(s.Fn, loop); isIt && o.Index != nil && o.FromZero && o.Coll != nil && branchList(s.Fn, o.Coll) && mentionsObj(s.Fn, as.Rhs[0], o.Index) {
										counted = true
									}
								}
							}
						}
						if counted {
							continue
						}
					}
					if it.Coll == nil || !it.FromZero {
						ok, why = false, "a loop that supplies the compared branches in "+short(s.Fn.Name)+" does not run over the branch list from its first element"
						continue
					}
					if branchList(s.Fn, it.Coll) {
						continue
					}
					// a sub-range is acceptable only as the triangular half of a symmetric pair scan: every
					// bound is taken from the index of the other loop over the same list
					okTri := false
					if se, isSlice := resolveLocal(s.Fn, it.Coll).(*ast.SliceExpr); isSlice && branchList(s.Fn, se.X) {
						okTri = se.Low != nil || se.High != nil
						for _, b := range []ast.Expr{se.Low, se.High, se.Max} {
							if b == nil {
								continue
							}
							fromOuter := false
							for _, loop := range c01LoopsAround(s.Fn, it.Stmt) {
								if loop == it.Stmt {
									continue
								}
								if o, isIt := c01IterationOf(s.Fn, loop); isIt && o.Index != nil && o.Coll != nil && branchList(s.Fn, o.Coll) && mentionsObj(s.Fn, b, o.Index) {
									fromOuter = true
								}
							}
							okTri = okTri && fromOuter
						}
					}
					if !okTri {
						ok, why = false, "a loop that supplies the compared branches in "+short(s.Fn.Name)+" runs over `"+exprStr(it.Coll)+"`, not over the whole list BranchIDByCreators[creator]"
					}
				}
			}
			if ok && len(its) < 2 {
				ok, why = false, "both compared branches come from one loop"
			}
			if why != "" {
				why = " (" + why + ")"
			}
			c.Check(ok, key, rule, ops[0].Pos(), "both operands of the overlap test are the current elements of two nested loops, each over the whole list BranchIDByCreators[creator] (or its triangular half)", bad+why)
		}
		c.ExpectAtLeast("branch-overlap tests reachable from fillEventVectors", nTests, 1)
	})

	c.Clause("C01.rootorder", func() {
		root := c.Fn("abft/election.Election.ProcessRoot")
		scope := withLits(core.ReachableScoped(p, []*core.FuncInfo{root}, func(f *core.FuncInfo) bool { return core.RelPkg(f.Pkg.PkgPath) == "abft/election" }))
		const rule = "T10 (arrival-ordered list) + T3 per iteration"
		const bad = "the roots of a frame are listed in the order in which they were registered, and a cheater can have several roots in one slot: when a root of the list is not tested on its own, the vote depends on which of them was delivered first, and two instances decide different Atropoi for the same events"
		n := 0
		for _, g := range scope {
			var loops []ast.Stmt
			g.InspectOwn(func(m ast.Node) bool {
				switch m.(type) {
				case *ast.ForStmt, *ast.RangeStmt:
					loops = append(loops, m.(ast.Stmt))
				}
				return true
			})
			for _, loop := range loops {
				it, ok := c01IterationOf(g, loop)
				if !ok || it.Coll == nil || isCallTo(g, it.Coll, c01ElRoots) == nil {
					continue
				}
				n++
				key := "every root of the previous frame is tested on its own in " + short(g.Name)
				// the forkless-cause test of this iteration's root
				var tests []core.Point
				for _, cs := range g.Calls() {
					if cs.Name != c01ElObserve || len(cs.Call.Args) != 2 || enclosingLoop(g, cs.Pos()) != loop {
						continue
					}
					sel, isSel := resolveLocal(g, cs.Call.Args[1]).(*ast.SelectorExpr)
					if isSel && fieldNameOf(g, sel) == c01RootID && it.IsElem(sel.X, c01Resolver(g)) {
						tests = append(tests, cs.Pt)
					}
				}
				if len(tests) == 0 {
					c.Fail(key, rule, loop.Pos(), "the loop over getFrameRoots(frame) does not test observe(root, element.ID) for its element: "+bad)
					continue
				}
				every, wit := c01EveryIteration(g, it.Head, it.Done, tests)
				why := ""
				switch {
				case !it.FromZero:
					why = "the scan does not start at the first root of the list"
				case !every:
					why = "an iteration can finish without the forkless-cause test of its root (" + g.DescribePath(wit) + ")"
				case !it.Complete:
					why = "the scan can be left before the last root of the list"
				}
				if why != "" {
					why = " (" + why + ")"
				}
				c.Check(why == "", key, rule, loop.Pos(), "the loop over getFrameRoots(frame) runs over the whole list and every iteration evaluates observe(root, element.ID)", bad+why)
			}
		}
		c.ExpectAtLeast("scans of a frame's root list in the election", n, 1)
	})
}
