package rules

// C10.slots — the frame rule, as far as it is a rule constant of the root registry: a root that moves
// up several frames is a root of every frame above its self-parent's frame up to its own, and the frame
// rule (forklessCausedByQuorumOn) as well as the election (observedRoots / observedRootsMap) read the
// roots of a frame through Store.GetFrameRoots. So registration (Store.AddRoot) has to make the root
// visible under each of those frames in every source GetFrameRoots answers from — the roots table and,
// when the frame's list is cached, that cached list. Decided on the inlined view of AddRoot (the
// per-slot work may live in a helper or in the loop itself), per iteration of the slot loop, on the CFG.

import (
	"go/ast"
	"go/token"
	"go/types"

	"golang.org/x/tools/go/cfg"

	"lachk/core"
)

const (
	c10StoreT     = "abft.Store"
	c10AddRoot    = c10StoreT + ".AddRoot"
	c10GetRoots   = c10StoreT + ".GetFrameRoots"
	c10RootsTable = c10StoreT + ".epochTable.Roots"
	c10RootsCache = c10StoreT + ".cache.FrameRoots"
	c10RootKeyFn  = "abft.rootRecordKey"
)

// c10RecvField: canonical name of the field on which the call's method is invoked ("" if none).
func c10RecvField(f *core.FuncInfo, cs *core.CallSite) string {
	r := cs.Recv()
	if r == nil {
		return ""
	}
	_, path := fieldPath(f, r)
	if len(path) == 0 {
		return ""
	}
	return path[len(path)-1]
}

// c10SlotLoop is the loop of AddRoot that enumerates the frames of a root.
type c10SlotLoop struct {
	Stmt       *ast.ForStmt
	Var        *types.Var // the frame of the iteration
	Head, Done *cfg.Block
	it         *core.Iteration
}

// c10FindSlotLoop looks for a counted loop of f whose variable starts at spf+1, is stepped by one in
// every iteration and runs while it is <= root.Frame() (bounds compared up to arithmetic rewriting and
// single-definition locals). why explains a failure.
func c10FindSlotLoop(f *core.FuncInfo, spf, root *types.Var) (loop *c10SlotLoop, why string) {
	why = "no for loop in " + short(f.Name)
	f.InspectOwn(func(n ast.Node) bool {
		fs, ok := n.(*ast.ForStmt)
		if !ok || loop != nil {
			return true
		}
		head, done := f.LoopOf(fs)
		if head == nil || done == nil || fs.Cond == nil || len(head.Succs) != 2 {
			why = "the loop has no condition"
			return true
		}
		it := &core.Iteration{F: f, Stmt: fs, Body: fs.Body, Head: head, Done: done}
		// the stepped variable: v++ / v += 1 / v = v + 1, passed by every iteration
		for _, a := range assignments(f) {
			v := varOf(f, a.LHS)
			if v == nil || v.IsField() || !c10InLoop(f, fs, a.Pt) && a.Stmt != ast.Node(fs.Post) {
				continue
			}
			step := a.Tok == token.INC
			if !step && a.RHS != nil {
				l := core.Linearize(f.Info(), a.RHS, func(e ast.Expr) string {
					if varOf(f, e) == v {
						return "v"
					}
					return ""
				})
				one := l.C.IsInt64() && l.C.Int64() == 1
				switch a.Tok {
				case token.ADD_ASSIGN:
					step = one && len(l.Coef) == 0
				case token.ASSIGN:
					step = one && len(l.Coef) == 1 && l.Coef["v"] != nil && l.Coef["v"].IsInt64() && l.Coef["v"].Int64() == 1
				}
			}
			if !step {
				continue
			}
			if every, _ := it.EveryIterationPasses([]core.Point{a.Pt}, false); !every {
				continue
			}
			// its only other definition is the start value, given before the loop
			var inits []assignment
			okDefs := true
			for _, d := range assignsToVar(f, v) {
				if d.Pt == a.Pt && d.Stmt == a.Stmt {
					continue
				}
				if d.RHS == nil || (d.Tok != token.DEFINE && d.Tok != token.ASSIGN) || c10InLoop(f, fs, d.Pt) && d.Stmt != ast.Node(fs.Init) {
					okDefs = false
				}
				inits = append(inits, d)
			}
			if !okDefs || len(inits) != 1 {
				why = "the loop variable has other definitions than its start value and its step"
				continue
			}
			namer := func(e ast.Expr) string {
				e = core.StripConv(f.Info(), e)
				switch varOf(f, e) {
				case nil:
				case spf:
					return "spf"
				case v:
					return "f"
				}
				if call, ok := ast.Unparen(e).(*ast.CallExpr); ok && methodNamed(calleeName(f, call), "Frame") {
					if sel, ok := ast.Unparen(call.Fun).(*ast.SelectorExpr); ok && root != nil && varOf(f, c15Through(f, sel.X)) == root {
						return "rootFrame"
					}
				}
				return ""
			}
			if !c10ExprLinIs(f, namer, inits[0].RHS, "spf + 1") {
				why = "the first frame registered is " + exprStr(inits[0].RHS) + ", not the self-parent's frame + 1"
				continue
			}
			if !c10LinIs(f, namer, "f - rootFrame <= 0")(core.Fact{Expr: fs.Cond, Truth: true}) {
				why = "the loop does not run while frame <= root.Frame() (condition " + exprStr(fs.Cond) + ")"
				continue
			}
			loop = &c10SlotLoop{Stmt: fs, Var: v, Head: head, Done: done, it: it}
			return false
		}
		return true
	})
	if loop != nil {
		return loop, ""
	}
	return nil, why
}

// c10RecordFrame resolves the Slot.Frame of the RootAndSlot whose key a roots-table Put writes (the key
// being rootRecordKey(&record) / rootRecordKey(&RootAndSlot{…}), locals looked through). nil if the
// record is built in another way.
func c10RecordFrame(f *core.FuncInfo, key ast.Expr) ast.Expr {
	call := isCallTo(f, c15Through(f, key), c10RootKeyFn)
	if call == nil || len(call.Args) != 1 {
		return nil
	}
	rec := ast.Unparen(c15Through(f, call.Args[0]))
	if u, ok := rec.(*ast.UnaryExpr); ok && u.Op == token.AND {
		rec = c15Through(f, u.X)
	}
	flds, _, ok := c15StructFields(f, rec)
	if !ok || flds[c10SlotF] == nil {
		return nil
	}
	sl, _, ok := c15StructFields(f, c15Through(f, flds[c10SlotF]))
	if !ok {
		return nil
	}
	return sl[c10SlotFr]
}

func c10Slots(c *core.Ctx) {
	c.Clause("C10.slots", func() {
		c.Fld(c10RootsTable)
		c.Fld(c10RootsCache)
		gr := c10Inlined(c.Fn(c10GetRoots))
		ar := c10Inlined(c.Fn(c10AddRoot), c10RootKeyFn)
		spf, root := ar.Param(0), ar.Param(1)
		c.Need(spf != nil && root != nil, "AddRoot(selfParentFrame, root)")
		// the sources GetFrameRoots answers from
		readsTable, readsCache := false, false
		for _, cs := range gr.Calls() {
			switch c10RecvField(gr, cs) {
			case c10RootsTable:
				readsTable = true
			case c10RootsCache:
				if methodNamed(cs.Name, "Get") || methodNamed(cs.Name, "Peek") {
					readsCache = true
				}
			}
		}
		c.Need(readsTable || readsCache, "GetFrameRoots reads the roots table or the cached root lists")
		const rule = "T17 Iteration + T3 per iteration (two sinks)"
		loop, why := c10FindSlotLoop(ar, spf, root)
		if loop == nil {
			c.Undecided("a root is registered for every frame above its self-parent's up to its own", rule, ar.Pos(),
				"AddRoot does not enumerate the frames selfParentFrame+1 .. root.Frame() in a counted loop ("+why+"): cannot decide that a root which moves up several frames becomes a root of each of them")
			return
		}
		c.Pass("a root is registered for every frame above its self-parent's up to its own", rule,
			"AddRoot's slot loop runs from selfParentFrame+1 while frame <= root.Frame(), in steps of one")
		// isSlot: e, read at point `at`, is the frame of the slot loop's iteration: the loop variable, a copy
		// of it, or the member of a local record that was built from it (`r := RootAndSlot{Slot{Frame: f}}; r.Slot.Frame`)
		isSlot := func(e ast.Expr, at core.Point) bool {
			if e == nil {
				return false
			}
			for i := 0; i < 4; i++ {
				e = c15Through(ar, core.StripConv(ar.Info(), e))
				if varOf(ar, e) == loop.Var {
					return true
				}
				if e = c10LocalMember(ar, e, at); e == nil {
					return false
				}
			}
			return false
		}
		perIter := func(pts []core.Point) (bool, []core.Point) { return loop.it.EveryIterationPasses(pts, true) }

		// (a) the roots table
		if readsTable {
			const key = "every frame slot of a root is written to the roots table"
			var puts []core.Point
			var first *core.CallSite
			badFrame := ""
			for _, cs := range ar.Calls() {
				if c10RecvField(ar, cs) != c10RootsTable || !methodNamed(cs.Name, "Put") || len(cs.Call.Args) < 1 {
					continue
				}
				if first == nil {
					first = cs
				}
				if fr := c10RecordFrame(ar, cs.Call.Args[0]); fr != nil && !isSlot(fr, cs.Pt) {
					badFrame = exprStr(fr)
					continue
				}
				puts = append(puts, cs.Pt)
			}
			pos := loop.Stmt.Pos()
			if first != nil {
				pos = first.Pos()
			}
			ok, wit := len(puts) > 0, []core.Point(nil)
			if ok {
				ok, wit = perIter(puts)
			}
			det := "an iteration of the slot loop can finish without a Put into the roots table (" + ar.DescribePath(wit) + ")"
			switch {
			case first == nil:
				det = "AddRoot never writes the roots table"
			case badFrame != "":
				det = "the record written has Slot.Frame " + badFrame + ", not the frame of the iteration"
			}
			c.Check(ok, key, rule, pos,
				"every iteration of AddRoot's slot loop puts the root's record into the roots table",
				det+": GetFrameRoots of a lower frame of a multi-frame root does not return it, so the frame rule and the votes of that frame are computed from an incomplete root set and frames / Atropoi differ from the specified rules")
		}

		// (b) the cached list of the frame
		if readsCache {
			const key = "every frame slot of a root reaches the cached root list of its frame"
			const bad = ": GetFrameRoots answers from the cached list while it exists, so forklessCausedByQuorumOn and the election's observedRoots miss a multi-frame root in its lower frame(s) — first-round yes votes, majorities and decisions differ from the specified rules (and between a long-running and a restarted node)"
			var touches, adds []*core.CallSite
			var anyTouch *core.CallSite
			for _, cs := range ar.Calls() {
				if c10RecvField(ar, cs) != c10RootsCache || len(cs.Call.Args) < 1 {
					continue
				}
				switch {
				case methodNamed(cs.Name, "Get"), methodNamed(cs.Name, "Peek"), methodNamed(cs.Name, "Remove"):
					anyTouch = cs
					if isSlot(cs.Call.Args[0], cs.Pt) {
						touches = append(touches, cs)
					}
				case methodNamed(cs.Name, "Add"):
					if isSlot(cs.Call.Args[0], cs.Pt) {
						adds = append(adds, cs)
					}
				}
			}
			switch {
			case anyTouch == nil:
				c.Fail(key, rule, loop.Stmt.Pos(), "AddRoot never looks at the cached root lists"+bad)
			case len(touches) == 0:
				c.Fail(key, rule, anyTouch.Pos(), "in "+short(ar.Name)+" the cached list is looked up under "+exprStr(anyTouch.Call.Args[0])+", which is not the frame of the slot loop's iteration: the cache is not updated once per frame slot"+bad)
			default:
				ok, wit := perIter(core.Points(touches))
				det := ""
				if !ok {
					det = "an iteration of the slot loop can finish without looking up (or invalidating) the cached list of its frame (" + ar.DescribePath(wit) + ")"
				}
				// a hit stores the list back under the same frame
				for _, t := range touches {
					if !ok || methodNamed(t.Name, "Remove") {
						continue
					}
					var hit *types.Var
					for _, a := range assignments(ar) {
						if as, isAs := a.Stmt.(*ast.AssignStmt); isAs && len(as.Lhs) == 2 && len(as.Rhs) == 1 && ast.Unparen(as.Rhs[0]) == ast.Expr(t.Call) {
							hit = varOf(ar, as.Lhs[1])
						}
					}
					if hit == nil {
						ok, det = false, "the hit flag of the cache lookup is not kept"
						continue
					}
					// the edges on which the lookup has missed: the hit flag is false, or a boolean that relays
					// the flag (a helper's comma-ok result: constant false exactly after a miss) is false
					missEdges := []func(*cfg.Block, int) bool{ar.GuardEdges(c10VarIs(ar, hit, false))}
					for _, w := range c10MissRelays(ar, t.Pt, c10VarIs(ar, hit, false)) {
						missEdges = append(missEdges, ar.GuardEdges(c10VarIs(ar, w, false)))
					}
					missed := func(b *cfg.Block, s int) bool {
						for _, m := range missEdges {
							if m(b, s) {
								return true
							}
						}
						return false
					}
					q := core.PathQuery{F: ar, From: t.Pt, FromAfter: true, Avoid: core.PointSet(core.Points(adds)...), AvoidEdge: missed,
						TargetBlock: func(b *cfg.Block) bool { return b == loop.Head }, TargetExit: true}
					if p, found := q.Find(); found {
						ok, det = false, "after a cache hit the iteration can finish without storing the list back under its frame ("+ar.DescribePath(p)+")"
					}
				}
				c.Check(ok, key, rule, touches[0].Pos(),
					"every iteration of AddRoot's slot loop looks up the cached list of its own frame and, on a hit, stores it back under that frame (or invalidates it)",
					det+bad)
			}
		}
	})
}
