package rules

import (
	"go/ast"
	"go/token"
	"go/types"
	"strings"

	"golang.org/x/tools/go/cfg"

	"lachk/core"
)

const ethdb = "github.com/ethereum/go-ethereum/ethdb."

// canonical names of the key-value interface methods (declared in go-ethereum's ethdb)
var (
	kvPut     = ethdb + "KeyValueWriter.Put"
	kvDelete  = ethdb + "KeyValueWriter.Delete"
	kvGet     = ethdb + "KeyValueReader.Get"
	kvHas     = ethdb + "KeyValueReader.Has"
	kvStat    = ethdb + "Stater.Stat"
	kvCompact = ethdb + "Compacter.Compact"
)

// methodNamed: does the canonical callee name end in ".<method>"?
func methodNamed(name, method string) bool { return strings.HasSuffix(name, "."+method) }

// preds computes the predecessor lists of a function's CFG (live blocks only).
func preds(f *core.FuncInfo) map[*cfg.Block][]*cfg.Block {
	m := map[*cfg.Block][]*cfg.Block{}
	for _, b := range f.CFG().Blocks {
		if !b.Live {
			continue
		}
		for _, s := range b.Succs {
			m[s] = append(m[s], b)
		}
	}
	return m
}

// enclosingLoop returns the innermost for/range statement of f's own body that contains pos.
func enclosingLoop(f *core.FuncInfo, pos token.Pos) ast.Stmt {
	var best ast.Stmt
	f.InspectOwn(func(n ast.Node) bool {
		switch s := n.(type) {
		case *ast.ForStmt, *ast.RangeStmt:
			if s.Pos() <= pos && pos < s.End() {
				best = s.(ast.Stmt)
			}
		}
		return true
	})
	return best
}

// loopDone returns the done-block of the loop statement and whether the loop is "complete":
// its done block is entered only from the loop head (no break/goto out of the body).
func loopDone(f *core.FuncInfo, loop ast.Stmt) (done *cfg.Block, complete bool) {
	head, done := f.LoopOf(loop)
	if done == nil || head == nil {
		return nil, false
	}
	ps := preds(f)[done]
	complete = len(ps) == 1 && ps[0] == head
	return done, complete
}

// blockEntry is the first point of a block.
func blockEntry(b *cfg.Block) core.Point { return core.Point{B: b, I: 0} }

// mustPassBlockBefore: every path from entry to `to` passes through block b.
func mustPassBlockBefore(f *core.FuncInfo, b *cfg.Block, to core.Point) (bool, []core.Point) {
	if to.B == b || f.Entry().B == b {
		return true, nil
	}
	// avoid entering b: use an edge filter
	path, found := core.PathQuery{F: f, From: f.Entry(), Target: core.PointSet(to), AvoidEdge: func(from *cfg.Block, s int) bool { return from.Succs[s] == b }}.Find()
	return !found, path
}

// edgeLeadsOnlyTo: from successor `succ` of block b, every reachable return statement satisfies pred.
func edgeLeadsOnlyTo(f *core.FuncInfo, b *cfg.Block, succ int, pred func(*ast.ReturnStmt) bool) (bool, []core.Point) {
	start := b.Succs[succ]
	path, found := core.PathQuery{F: f, From: blockEntry(start), Target: func(pt core.Point) bool {
		r, ok := pt.Node().(*ast.ReturnStmt)
		return ok && !pred(r)
	}}.Find()
	return !found, path
}

// condBlocks lists (block) whose branch condition, decomposed for the given truth, contains a fact accepted by match;
// returns the block and the successor index on which the fact holds.
type condEdge struct {
	B    *cfg.Block
	Succ int
}

func edgesWithFact(f *core.FuncInfo, match func(core.Fact) bool) []condEdge {
	var out []condEdge
	for _, b := range f.CFG().Blocks {
		if !b.Live || f.BranchCond(b) == nil {
			continue
		}
		for s := 0; s < 2; s++ {
			hit := false
			for _, ft := range f.EdgeFacts(b, s) {
				if match(ft) {
					hit = true
					break
				}
			}
			if !hit {
				// disjunctive edges (`a || b` true, `a && b` false): the fact holds on the edge when every
				// alternative contains it
				alts := f.EdgeAlternatives(b, s)
				hit = len(alts) > 1
				for _, alt := range alts {
					some := false
					for _, ft := range alt {
						if match(ft) {
							some = true
							break
						}
					}
					if !some {
						hit = false
						break
					}
				}
			}
			if hit {
				out = append(out, condEdge{b, s})
			}
		}
	}
	return out
}

// errVarOfCall returns the variable receiving the (last) error result of the call, when the call is
// the sole RHS of an assignment or definition in f.
func errVarOfCall(f *core.FuncInfo, call *ast.CallExpr) *types.Var {
	var v *types.Var
	f.InspectOwn(func(n ast.Node) bool {
		switch s := n.(type) {
		case *ast.AssignStmt:
			if len(s.Rhs) == 1 && ast.Unparen(s.Rhs[0]) == ast.Expr(call) {
				v = varOf(f, s.Lhs[len(s.Lhs)-1])
			}
		case *ast.ValueSpec:
			if len(s.Values) == 1 && ast.Unparen(s.Values[0]) == ast.Expr(call) {
				if w, ok := f.Info().ObjectOf(s.Names[len(s.Names)-1]).(*types.Var); ok {
					v = w
				}
			}
		}
		return true
	})
	return v
}

// errNilFact matches "v == nil" (wantNil) or "v != nil".
func varNilFact(f *core.FuncInfo, v *types.Var, wantNil bool) func(core.Fact) bool {
	return func(ft core.Fact) bool {
		cm, ok := core.NormCmp(ft)
		if !ok || cm.R == nil || v == nil {
			return false
		}
		l, r := cm.L, cm.R
		if core.IsNil(f.Info(), l) {
			l, r = r, l
		}
		if !core.IsNil(f.Info(), r) || varOf(f, l) != v {
			return false
		}
		if wantNil {
			return cm.Op == token.EQL
		}
		return cm.Op == token.NEQ
	}
}

// afterSuccess: the point `to` is reached only after `call` returned a nil error: every path from
// entry to `to` passes the call, and from the call to `to` takes the err == nil edge; also accepts the
// "return on err != nil" form (which is the same edge set). If the call's result is returned directly
// or discarded, the answer is false.
func afterSuccess(f *core.FuncInfo, call *core.CallSite, to core.Point) bool {
	ev := errVarOfCall(f, call.Call)
	if ev == nil {
		return false
	}
	if ok, _ := f.MustPassBefore([]core.Point{call.Pt}, to); !ok {
		return false
	}
	ok, _ := f.GuardedBetween(call.Pt, to, varNilFact(f, ev, true))
	return ok
}

// declaresMethod: does the named type declare (not merely promote) the method?
func declaresMethod(p *core.Prog, typeName, method string) *core.FuncInfo {
	for _, f := range p.MethodsOf(typeName) {
		if f.Obj.Name() == method {
			return f
		}
	}
	return nil
}

// constNamed: is e a reference to the named package-level constant (by object)?
func constNamed(f *core.FuncInfo, e ast.Expr, name string) bool {
	o := f.ObjOf(e)
	cst, ok := o.(*types.Const)
	return ok && f.P.ObjName(cst) == name
}
