package rules

import (
	"go/ast"

	"lachk/core"
)

// c05Branches: the answer must not depend on whether the in-memory branch table was dropped and
// re-read in between (abft drops it after every event, a restart re-reads it as well). The table holds
// more than the fork assignment: BranchIDLastSeq changes with every indexed event and decides whether
// the next event of a creator continues its branch or opens a new one. So whatever Add changed in the
// loaded table has to be written back before the vectors that were computed from it become durable:
//
//	in Engine.Flush, every path to the flush of the overlay store on which a branch table is loaded
//	(no edge that implies bi == nil, whichever way a compound condition was decided) has written the
//	BranchesInfo table, and what it wrote is the encoding of the engine's own bi.
//
// The write is looked for in the inlined view of Flush (setBranchesInfo -> setRlp -> table.Put today);
// the table and the value are read back through the parameter bindings, so inlining or extracting the
// helpers does not change the verdict.
func c05Branches(c *core.Ctx) {
	f := c.Fn("vecengine.Engine.Flush")
	const (
		biF    = "vecengine.Engine.bi"
		tableF = "vecengine.Engine.table.BranchesInfo"
	)
	inEngine := func(g *core.FuncInfo) bool { return core.RelPkg(g.Pkg.PkgPath) == "vecengine" }
	flushes := c05Sites(f, 3, inEngine, func(fr *c05Frame, cs *core.CallSite) bool {
		if cs.Name != "kvdb.FlushableKVStore.Flush" || cs.Recv() == nil {
			return false
		}
		name, own := c05FieldIn(fr, cs.Recv())
		return own && name == "vecengine.Engine.vecDb"
	})
	c.Need(len(flushes) >= 1, "Engine.Flush flushes the overlay store of the vectors")
	writes := c05Sites(f, 3, inEngine, func(fr *c05Frame, cs *core.CallSite) bool {
		if cs.Name != kvPut || cs.Recv() == nil || len(cs.Call.Args) != 2 {
			return false
		}
		name, own := c05FieldIn(fr, cs.Recv())
		return own && name == tableF
	})
	// is e (in frame fr) the engine's own branch table, or its encoding?
	var isBi func(fr *c05Frame, e ast.Expr, depth int) bool
	isBi = func(fr *c05Frame, e ast.Expr, depth int) bool {
		if e == nil || depth > 3 {
			return false
		}
		if name, own := c05FieldIn(fr, e); own && name == biF {
			return true
		}
		dfr, call := c05DefiningCall(fr, e)
		if call == nil {
			return false
		}
		nm := calleeName(dfr.F, call)
		if (nm == "github.com/ethereum/go-ethereum/rlp.EncodeToBytes" || methodNamed(nm, "Bytes")) && len(call.Args) >= 1 {
			return isBi(dfr, call.Args[0], depth+1)
		}
		return false
	}
	// a helper on the way to the write performs it on every returning path on which a table is loaded
	// (the nil test may have moved into the helper together with the write)
	always := func(s c05Site) bool {
		pt := s.CS.Pt
		for fr := s.Fr; fr.Up != nil; fr = fr.Up {
			g := fr.F
			if _, skip := (core.PathQuery{F: g, From: g.Entry(), Avoid: core.PointSet(pt), AvoidEdge: c04AllAltsMatch(g, fieldNilFact(g, biF, true)), TargetExit: true}).Find(); skip {
				return false
			}
			pt = fr.At.Pt
		}
		return true
	}
	var good []core.Point
	var bad *c05Site
	for i := range writes {
		w := writes[i]
		vfr, vx := w.Arg(1)
		if always(w) && isBi(vfr, vx, 0) {
			good = append(good, w.RootPt())
		} else if bad == nil {
			bad = &w
		}
	}
	noTable := c04AllAltsMatch(f, fieldNilFact(f, biF, true))
	for _, fl := range flushes {
		if core.PointSet(good...)(fl.RootPt()) {
			c.Undecided("loaded branch table is written back before the vectors are flushed", "T2 Dominates (inlined view, per-mode paths)", fl.RootCall().Pos(),
				"the write of the branch table and the flush of the overlay happen inside the same call of Engine.Flush; their order inside that helper is not decided by this rule")
			continue
		}
		path, found := core.PathQuery{F: f, From: f.Entry(), Target: core.PointSet(fl.RootPt()), Avoid: core.PointSet(good...), AvoidEdge: noTable}.Find()
		why := "the overlay can be flushed with a loaded branch table that was not written back (" + f.DescribePath(path) + ")"
		if len(good) == 0 {
			why = "Engine.Flush never writes the engine's branch table to the BranchesInfo table"
			if bad != nil {
				why += " (the write at " + c.P.Pos(bad.CS.Pos()) + " stores something else, or only on some paths of its helper)"
			}
		}
		c.Check(!found, "loaded branch table is written back before the vectors are flushed", "T2 Dominates (inlined view, per-mode paths)", fl.RootCall().Pos(),
			"every path to vecDb.Flush() on which bi is loaded has stored the encoding of bi in the BranchesInfo table",
			why+": the per-branch last sequence numbers of the events indexed since the last write are lost when the table is re-read (DropNotFlushed / restart), so a later event of the same creator — e.g. a second first event — is filed on the wrong branch and ForklessCause depends on whether the table was re-read")
	}
}
