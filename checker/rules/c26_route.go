package rules

import (
	"go/ast"
	"go/token"
	"go/types"

	"golang.org/x/tools/go/cfg"

	"lachk/core"
)

// c26Route decides the lookup order of RouteOf independently of how the search is written
// (`for i := 0; !ok && …`, `if !ok { for … { …; break } }`, early returns, a helper holding the
// pattern loop):
//
//	exact route wins          every pattern attempt is preceded by the comma-ok read of the exact table,
//	                          and every path from that read to the attempt takes a "not found" edge of its
//	                          ok variable;
//	first matching pattern    from the branch on which an attempt succeeded (its error is nil) no further
//	wins                      attempt is reachable before the next exact lookup, unless the match was
//	                          recorded (ok = true) on the way;
//	a recorded match ends     from ok = true every path to an attempt takes a "not found" edge of ok (which
//	the search                cannot be taken) or starts the next exact lookup; ok is not reset in between.
//
// The search (exact lookup, then patterns) may be written in RouteOf or in a function RouteOf calls: the
// facts are decided in the function that holds the exact lookup (directly, or through a helper that only
// makes the lookup and reports whether it found an entry), and no pattern attempt may be reachable from
// RouteOf other than through that function.
func c26Route(c *core.Ctx, root *core.FuncInfo) {
	p := c.P
	isAttempt := func(cs *core.CallSite) bool { return cs.Name == mdP+"scanfRoute.Name" }
	var f *core.FuncInfo
	var okVar *types.Var
	var lookups []core.Point
	consistent := false
	for _, g := range core.ReachableFuncs(p, []*core.FuncInfo{root}, false) {
		if core.RelPkg(g.Pkg.PkgPath) != "kvdb/multidb" {
			continue
		}
		if v, pts, cons := c26Lookups(g, mdP+"Producer.routingTable", isAttempt); v != nil && len(pts) > 0 {
			f, okVar, lookups, consistent = g, v, pts, cons
			break
		}
	}
	c.Need(f != nil && okVar != nil && len(lookups) > 0 && consistent, "dest, ok := routingTable[req]")
	if f != root {
		// attempts that RouteOf can reach without entering the search function are not preceded by the exact lookup
		seen := map[*core.FuncInfo]bool{f: true, root: true}
		work := []*core.FuncInfo{root}
		for len(work) > 0 {
			g := work[0]
			work = work[1:]
			for _, l := range append([]*core.FuncInfo{g}, allLits(g)...) {
				for _, cs := range l.CallsMatching(isAttempt) {
					c.Fail("exact route wins", "T2 Dominates + T4 GuardedBy", cs.Pos(), "a pattern is tried in "+short(g.Name)+", outside "+short(f.Name)+" which consults the exact table: it can override an exact route of the request")
				}
			}
			for _, h := range core.StaticCallees(g) {
				if !seen[h] && core.RelPkg(h.Pkg.PkgPath) == "kvdb/multidb" {
					seen[h] = true
					work = append(work, h)
				}
			}
		}
	}
	tries := f.SitesMay(isAttempt, 2)
	c.ExpectAtLeast("pattern attempts in RouteOf", len(tries), 1)
	notOk := func(ft core.Fact) bool {
		cm, k := core.NormCmp(ft)
		return k && cm.R == nil && cm.Op == token.NEQ && varOf(f, cm.L) == okVar
	}
	notOkEdges := f.GuardEdges(notOk)
	isLookup := core.PointSet(lookups...)

	// exact route wins
	for _, t := range tries {
		ok, wit := f.MustPassBefore(lookups, t)
		if ok {
			for _, lk := range lookups {
				if path, found := (core.PathQuery{F: f, From: lk, FromAfter: true, Target: core.PointSet(t), Avoid: isLookup, AvoidEdge: notOkEdges}).Find(); found {
					ok, wit = false, path
					break
				}
			}
		}
		c.Check(ok, "exact route wins", "T2 Dominates + T4 GuardedBy", posOf(t), "a pattern is tried only after the exact table was consulted and had no entry for the request",
			"a pattern can be tried although the exact table has (or was not asked for) a route of the request, and override it: "+f.DescribePath(wit))
	}

	// first match wins: in RouteOf and in every helper that holds pattern attempts
	direct := map[core.Point]bool{}
	nFuncs := 0
	for _, g := range core.ReachableFuncs(p, []*core.FuncInfo{f}, false) {
		if core.RelPkg(g.Pkg.PkgPath) != "kvdb/multidb" {
			continue
		}
		own := g.CallsMatching(isAttempt)
		if len(own) == 0 {
			continue
		}
		nFuncs++
		var gLookups, marks, resets []core.Point
		var guard func(*cfg.Block, int) bool
		if g == f {
			gLookups, guard = lookups, notOkEdges
			for _, a := range assignsToVar(f, okVar) {
				switch {
				case isLookup(a.Pt):
				case a.RHS != nil && c26IsTrue(f, a.RHS):
					marks = append(marks, a.Pt)
				default:
					resets = append(resets, a.Pt)
				}
			}
		}
		gTries := g.SitesMay(isAttempt, 2)
		isTry := core.PointSet(gTries...)
		fresh := core.PointSet(gLookups...)
		stop := core.PointSet(append(append([]core.Point{}, gLookups...), marks...)...)
		for _, cs := range own {
			if g == f {
				direct[cs.Pt] = true
			}
			var succ []condEdge
			if ev := errVarOfCall(g, cs.Call); ev != nil {
				succ = edgesWithFact(g, varNilFact(g, ev, true))
			}
			if len(succ) == 0 {
				c.Undecided(short(g.Name)+"|first matching pattern wins", "T5 AtMostOnce", cs.Pos(), "cannot tell on which branch the pattern matched: the error result of the attempt is not compared with nil")
				continue
			}
			ok, wit := true, []core.Point(nil)
			for _, e := range succ {
				if path, found := (core.PathQuery{F: g, From: blockEntry(e.B.Succs[e.Succ]), Target: isTry, Avoid: stop}).Find(); found {
					ok, wit = false, path
					break
				}
			}
			c.Check(ok, short(g.Name)+"|first matching pattern wins", "T5 AtMostOnce", cs.Pos(), "after a pattern matched, no other pattern is tried for the same request unless the match was recorded",
				"after a pattern matched, a later pattern is still tried and can replace the match (the route then depends on the last, not the first matching pattern): "+g.DescribePath(wit))
		}
		for _, m := range marks {
			path, found := (core.PathQuery{F: g, From: m, FromAfter: true, Target: isTry, Avoid: fresh, AvoidEdge: guard}).Find()
			ok := !found
			for _, r := range resets {
				if !ok {
					break
				}
				if _, toReset := (core.PathQuery{F: g, From: m, FromAfter: true, Target: core.PointSet(r), Avoid: fresh}).Find(); toReset {
					if path2, toTry := (core.PathQuery{F: g, From: r, FromAfter: true, Target: isTry, Avoid: fresh}).Find(); toTry {
						ok, path = false, path2
					}
				}
			}
			c.Check(ok, short(g.Name)+"|a recorded match ends the pattern search", "T4 GuardedBy", posOf(m), "once a route has been found, a pattern is tried again only for the next (shortened) request",
				"a pattern can be tried although a route has been found already, and override it: "+g.DescribePath(path))
		}
	}
	c.ExpectAtLeast("functions holding pattern attempts", nFuncs, 1)
	// an attempt made through a helper must not be repeated for one request (the helper's own loop is checked above)
	for _, t := range tries {
		if direct[t] {
			continue
		}
		path, again := (core.PathQuery{F: f, From: t, FromAfter: true, Target: core.PointSet(t), Avoid: isLookup, AvoidEdge: notOkEdges}).Find()
		if !again {
			continue
		}
		// the helper makes one attempt per call and is called for one pattern after the other: the first
		// match wins when the helper reports the match to its caller (see c26MatchReport) and, from the call,
		// another attempt is reached only over a "did not match" edge of that report (or for the next,
		// shortened request, or after the match was recorded)
		noMatch := c26NoMatchFact(f, t, isAttempt)
		if noMatch == nil {
			c.Undecided("helper attempt repeated", "T5 AtMostOnce", posOf(t), "the helper that tries patterns is called repeatedly for one request and does not report through a result whether the pattern matched; which match wins is not decided: "+f.DescribePath(path))
			continue
		}
		stop := append([]core.Point{}, lookups...)
		for _, a := range assignsToVar(f, okVar) {
			if !isLookup(a.Pt) && a.RHS != nil && c26IsTrue(f, a.RHS) {
				stop = append(stop, a.Pt)
			}
		}
		noMatchEdges := f.GuardEdges(noMatch)
		wit, found := (core.PathQuery{F: f, From: t, FromAfter: true, Target: core.PointSet(tries...), Avoid: core.PointSet(stop...), AvoidEdge: func(b *cfg.Block, s int) bool {
			return noMatchEdges(b, s) || notOkEdges(b, s)
		}}).Find()
		c.Check(!found, short(f.Name)+"|first matching pattern wins", "T5 AtMostOnce", posOf(t), "after the helper reported a match, no other pattern is tried for the same request unless the match was recorded",
			"after a pattern matched, a later pattern is still tried and can replace the match (the route then depends on the last, not the first matching pattern): "+f.DescribePath(wit))
	}
}

// c26NoMatchFact: the call at point t of f enters a module function that makes exactly one pattern
// attempt and reports its outcome through a result (c26MatchReport). Returned is the predicate of the
// branch facts of f saying "this call did not match" — on the variable of f that receives the report
// and has no other definition —, nil when there is no such report.
func c26NoMatchFact(f *core.FuncInfo, t core.Point, isAttempt func(*core.CallSite) bool) func(core.Fact) bool {
	for _, cs := range f.Calls() {
		if cs.Pt != t || cs.InDefer || cs.InGo {
			continue
		}
		fn, isFn := cs.Callee.(*types.Func)
		if !isFn {
			continue
		}
		h := f.P.FuncOf(fn)
		if h == nil || h == f || h.Body == nil {
			continue
		}
		own := h.CallsMatching(isAttempt)
		if len(own) != 1 || len(h.SitesMay(isAttempt, 2)) != 1 {
			continue
		}
		k, asErr := c26MatchReport(h, own[0])
		if k < 0 {
			continue
		}
		recv := c26ResultReceiver(f, cs.Call, k)
		if recv == nil || len(assignsToVar(f, recv)) != 1 {
			continue
		}
		for _, l := range allLits(f) {
			if len(assignsToVar(l, recv)) > 0 {
				return nil
			}
		}
		if asErr {
			return varNilFact(f, recv, false)
		}
		return func(ft core.Fact) bool {
			cm, ok := core.NormCmp(ft)
			return ok && cm.R == nil && cm.Op == token.NEQ && varOf(f, cm.L) == recv
		}
	}
	return nil
}

// c26MatchReport: h makes the pattern attempt `try` (not in a loop) and tells its caller whether the
// pattern matched: result k is, on every return that is feasible when the attempt's error is nil, the
// constant true (or, asErr, a nil error), and on every return that is feasible when it is not nil, the
// constant false (or the attempt's error / a newly made one). Decided on the two valuations of the atom
// "error of the attempt == nil" over the feasible edges; k = -1 when no result does so.
func c26MatchReport(h *core.FuncInfo, try *core.CallSite) (k int, asErr bool) {
	ev := errVarOfCall(h, try.Call)
	if ev == nil || len(assignsToVar(h, ev)) != 1 || h.CanReach(try.Pt, try.Pt) || h.Type.Results == nil {
		return -1, false
	}
	for _, l := range allLits(h) {
		if len(assignsToVar(l, ev)) > 0 {
			return -1, false
		}
	}
	n := 0
	for _, fl := range h.Type.Results.List {
		if len(fl.Names) == 0 {
			n++
		} else {
			n += len(fl.Names)
		}
	}
	matched := func(t c26Tri) func(ast.Expr) c26Tri {
		return func(e ast.Expr) c26Tri {
			b, ok := ast.Unparen(e).(*ast.BinaryExpr)
			if !ok || (b.Op != token.EQL && b.Op != token.NEQ) {
				return c26Unknown
			}
			l, r := b.X, b.Y
			if core.IsNil(h.Info(), l) {
				l, r = r, l
			}
			if !core.IsNil(h.Info(), r) || varOf(h, l) != ev {
				return c26Unknown
			}
			if b.Op == token.NEQ {
				return t.not()
			}
			return t
		}
	}
	for k = 0; k < n; k++ {
		for _, asErr = range []bool{false, true} {
			ok, seen := true, 0
			for _, t := range []c26Tri{c26True, c26False} {
				atom := matched(t)
				infeasible := c26Infeasible(h, atom)
				for _, rp := range h.ReturnPoints() {
					if _, reach := (core.PathQuery{F: h, From: h.Entry(), Target: core.PointSet(rp), AvoidEdge: infeasible}).Find(); !reach {
						continue
					}
					seen++
					r := rp.Node().(*ast.ReturnStmt)
					if k >= len(r.Results) {
						ok = false
						continue
					}
					res := r.Results[k]
					switch {
					case !asErr:
						ok = ok && c26Eval(h, res, atom) == t
					case t == c26True:
						ok = ok && core.IsNil(h.Info(), res)
					default:
						ok = ok && (varOf(h, res) == ev || isCallTo(h, res, "errors.New", "fmt.Errorf") != nil)
					}
				}
			}
			if ok && seen >= 2 {
				return k, asErr
			}
		}
	}
	return -1, false
}
