package rules

import (
	"go/ast"
	"go/token"
	"go/types"
	"strings"

	"lachk/core"
)

const (
	ordT = "abft.Orderer"
	ilT  = "abft.IndexedLachesis"
)

func init() {
	register("C04", "other", "T6 WhoMayCall/single producer, T8 DecisionTable (loop shape, normalised), T15 ConstRelation (cap 100), T4 GuardedBy, T21 InjectiveEncoding",
		"Decides the structure that makes building and processing agree on frames: one function (calcFrameIdx) produces both the frame assigned by Build and the frame compared with the claimed one in checkAndSaveEvent, and its only quorum test is forklessCausedByQuorumOn over the stored roots of that frame; its frame search (decided on the CFG, whatever loop form is used) starts at the self-parent's frame, alternates one quorum test with one step by one, evaluates the test only below the bound and ends only when the bound is reached or the test failed; on every build-mode path the bound read by the search is the self-parent's frame plus the constant 100 and on every check-mode path it is the claimed frame (reaching definitions per mode, so the Build cap cannot clamp processing), and a result of 0 becomes 1; a differing claimed frame leads only to ErrWrongFrame and the root is registered only afterwards; and the answer cannot depend on which events were built before: every built event is indexed under a temporary ID freshly sampled in Build (the SetID of a sample dominates the indexing and the frame computation) and that ID is an injective fixed-width function of a strictly increasing counter that nothing outside the increment restarts unless the restart is paired with an unconditional purge of the pair cache (directly, in an always-purging callee, or in every module implementation of DagIndexer.Reset), or every ID-keyed cache that Build can fill is purged when the unflushed index data is dropped. The search function, its quorum function and its two callers are located by what they do (the abft function that repeats a forkless-cause quorum test on a CFG cycle; the caller feeding SetFrame is the build side), so the mode may be a boolean parameter decided inside the search or start/bound values computed by the callers (then decided at the call sites, the self-parent's frame as a symbolic value through locals and helpers), and the quorum count may live in a helper or a bound callback; the frame compared with the claimed one is the search result on every path (reaching definitions). Roots (C04.roots): in the inlined view of Store.AddRoot every iteration of the loop over the frame slots that writes a root record also consults cache.FrameRoots, and the refresh is made inside that loop under the consulted key, so the quorum test never reads a cached root list that misses a registered root. Equality of ForklessCause with the graph definition is not decided.",
		[]string{"math/big FillBytes / encoding/binary fixed-width contracts", "the event source returns the self-parent that was processed"},
		runC04)
}

// checkTmpID is the shared clause (C04.tmpid, used by C05 and C07 as well).
func checkTmpID(c *core.Ctx) {
	build := c.Fn(ilT + ".Build")
	// sites (in Build, or in a helper that always does it) where the event gets a fresh sample as its ID
	isFresh := func(cs *core.CallSite) bool {
		return methodNamed(cs.Name, "SetID") && len(cs.Call.Args) == 1 && isCallTo(cs.F, cs.Call.Args[0], "abft.uniqueID.sample") != nil
	}
	fresh := build.SitesMust(isFresh, 2)
	c.Need(len(fresh) >= 1, "IndexedLachesis.Build assigns a temporary ID from uniqueID.sample() with SetID")
	smp := c.Fn("abft.uniqueID.sample")
	purgedOnDrop := false
	if dn := c.P.Func("vecfc.Index.onDropNotFlushed"); dn != nil {
		for _, cs := range dn.CallsTo("utils/simplewlru.Cache.Purge") {
			if fieldNameOf(dn, cs.Recv()) == "vecfc.Index.cache.ForklessCause" {
				purgedOnDrop = true
			}
		}
	}
	// every built event is indexed under such a fresh ID: the assignment dominates the indexing, and Build
	// gives the event no other ID. An event indexed under an ID it already carried (e.g. the temporary ID
	// of an earlier, abandoned Build of the same object) meets the pair-cache entries of that earlier build.
	{
		adds := build.CallsMatching(func(cs *core.CallSite) bool {
			return methodNamed(cs.Name, "Add") && strings.HasPrefix(cs.Name, "abft.DagIndexer.")
		})
		inner := build.CallsTo("abft.Lachesis.Build", "abft.Orderer.Build")
		ok, pos, why := true, build.Pos(), ""
		if len(adds)+len(inner) == 0 {
			ok, why = false, "Build neither indexes the event nor computes its frame"
		}
		for _, cs := range append(adds, inner...) {
			if d, wit := build.MustPassBefore(fresh, cs.Pt); !d && ok {
				ok, pos, why = false, cs.Pos(), "the event can be indexed (and its frame computed) under the ID it carried before instead of a fresh temporary one ("+build.DescribePath(wit)+")"
			}
		}
		for _, cs := range build.CallsMatching(func(cs *core.CallSite) bool { return methodNamed(cs.Name, "SetID") }) {
			if !isFresh(cs) && ok {
				ok, pos, why = false, cs.Pos(), "Build also gives the event an ID that is not a fresh sample"
			}
		}
		switch {
		case ok:
			c.Pass("every built event is indexed under a fresh temporary ID", "T2 Dominates", "SetID(uniqueID.sample()) lies on every path to dagIndexer.Add and to the frame computation; Build sets no other ID")
		case purgedOnDrop:
			c.Pass("every built event is indexed under a fresh temporary ID", "T2 Dominates (alternative: purge)", "the forkless-cause pair cache is purged with the dropped index data, so a repeated ID cannot hit a stale entry")
		default:
			c.Fail("every built event is indexed under a fresh temporary ID", "T2 Dominates", pos, why+"; the forkless-cause pair cache is keyed by event IDs and survives DropNotFlushed, so a second Build under the same ID answers from the entries of the first one and assigns a different frame than a clean instance (which Process may then reject)")
		}
	}
	ctrF := "abft.uniqueID.counter"
	// (a) counter strictly increases: counter.Add(counter, <const 1>) / ++ on every path
	incOK := false
	for _, cs := range smp.CallsTo("math/big.Int.Add") {
		if fieldNameOf(smp, cs.Recv()) == ctrF && len(cs.Call.Args) == 2 && fieldNameOf(smp, cs.Call.Args[0]) == ctrF {
			if v, ok := smp.ObjOf(cs.Call.Args[1]).(*types.Var); ok && smp.P.ObjName(v) == "github.com/ethereum/go-ethereum/common.Big1" {
				if o, _ := smp.MustPassBefore([]core.Point{cs.Pt}, smp.ReturnPoints()[0]); o {
					incOK = true
				}
			}
		}
	}
	for _, a := range assignsToField(smp, ctrF) {
		if a.Tok == token.INC {
			incOK = true
		}
	}
	// (b) how the counter is written into the returned array
	verdict, why := "undecided", "no recognised encoding of the counter into the ID"
	var pos token.Pos = smp.Pos()
	for _, cs := range smp.Calls() {
		switch {
		case cs.Name == "math/big.Int.FillBytes" && fieldNameOf(smp, cs.Recv()) == ctrF:
			verdict, why = "ok", "counter.FillBytes(id[:]): fixed-width big-endian, injective"
		case hasSuffix(cs.Name, "ByteOrder.PutUint64", "bigEndian.PutUint64", "littleEndian.PutUint64", "ByteOrder.PutUint32"):
			verdict, why = "ok", "fixed-width binary encoding of the counter"
		case cs.Name == "builtin.copy" && len(cs.Call.Args) == 2:
			src := ast.Unparen(cs.Call.Args[1])
			srcCall, isCall := src.(*ast.CallExpr)
			if !isCall || calleeName(smp, srcCall) != "math/big.Int.Bytes" {
				continue
			}
			pos = cs.Pos()
			dst, isSlice := ast.Unparen(cs.Call.Args[0]).(*ast.SliceExpr)
			if !isSlice {
				verdict, why = "undecided", "copy destination is not a slice of the ID array"
				continue
			}
			if dst.Low == nil || core.IsConstInt(smp.Info(), dst.Low, 0) {
				verdict, why = "bad", "copy(id[:], counter.Bytes()) left-aligns a variable-length big-endian rendering: counters n and n*256^k get the same ID (e.g. build #7 and build #1792)"
			} else if be, ok := ast.Unparen(dst.Low).(*ast.BinaryExpr); ok && be.Op == token.SUB && isCallTo(smp, be.X, "builtin.len") != nil && isCallTo(smp, be.Y, "builtin.len") != nil {
				verdict, why = "ok", "right-aligned copy of the counter bytes: fixed-width big-endian"
			} else {
				verdict, why = "undecided", "copy into the ID at an offset the rule cannot classify"
			}
		}
	}
	// (c) alternative: every ID-keyed cache Build can fill is purged on drop
	purged := purgedOnDrop
	switch {
	case verdict == "ok" && incOK:
		c.Pass("temporary IDs never repeat", "T21 InjectiveEncoding", why+"; the counter increases on every call")
	case purged:
		c.Pass("temporary IDs never repeat", "T21 InjectiveEncoding (alternative: purge)", "the forkless-cause pair cache is purged together with the dropped index data, so a reused temporary ID cannot hit a stale entry")
	case verdict == "bad" || !incOK:
		if !incOK && verdict != "bad" {
			why = "the counter is not incremented on every path of sample()"
		}
		c.Fail("temporary IDs never repeat", "T21 InjectiveEncoding", pos, why+"; the forkless-cause pair cache keyed by event IDs is not purged when the built event's index data is dropped, so a later Build with the same temporary ID reads stale answers and assigns a frame that Process then rejects")
	default:
		c.Undecided("temporary IDs never repeat", "T21 InjectiveEncoding", pos, why)
	}
	// (d) … and nobody moves the counter back while answers for earlier temporary IDs can still be cached
	c04CounterRestarts(c, smp, purgedOnDrop)
}

func runC04(c *core.Ctx) {
	c.Clause("C04.single", func() { c04Single(c) })

	c.Clause("C04.loop", func() { c04Loop(c) })

	c.Clause("C04.tmpid", func() { checkTmpID(c) })

	c.Clause("C04.roots", func() { c04Roots(c) })
}
