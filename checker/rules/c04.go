package rules

import (
	"go/ast"
	"go/token"
	"go/types"

	"lachk/core"
)

const (
	ordT = "abft.Orderer"
	ilT  = "abft.IndexedLachesis"
)

func init() {
	register("C04", "other", "T6 WhoMayCall/single producer, T8 DecisionTable (loop shape, normalised), T15 ConstRelation (cap 100), T4 GuardedBy, T21 InjectiveEncoding",
		"Decides the structure that makes building and processing agree on frames: one function (calcFrameIdx) produces both the frame assigned by Build and the frame compared with the claimed one in checkAndSaveEvent, and its only quorum test is forklessCausedByQuorumOn over the stored roots of that frame; its loop starts at the self-parent's frame, advances by one, continues only while below the bound and forkless-caused by a quorum, the Build bound is the self-parent's frame plus the constant 100, the processing bound is the claimed frame, and a result of 0 becomes 1; a differing claimed frame leads only to ErrWrongFrame and the root is registered only afterwards; and the answer cannot depend on which events were built before: the temporary ID given to a built event is an injective fixed-width function of a strictly increasing counter, or every ID-keyed cache that Build can fill is purged when the unflushed index data is dropped. Equality of ForklessCause with the graph definition is not decided.",
		[]string{"math/big FillBytes / encoding/binary fixed-width contracts", "the event source returns the self-parent that was processed"},
		runC04)
}

// checkTmpID is the shared clause (C04.tmpid, used by C05 and C07 as well).
func checkTmpID(c *core.Ctx) {
	build := c.Fn(ilT + ".Build")
	sets := build.CallsMatching(func(cs *core.CallSite) bool { return methodNamed(cs.Name, "SetID") })
	c.Need(len(sets) == 1, "IndexedLachesis.Build assigns a temporary ID with SetID")
	gen := isCallTo(build, sets[0].Call.Args[0], "abft.uniqueID.sample")
	c.Need(gen != nil, "the temporary ID comes from uniqueID.sample()")
	smp := c.Fn("abft.uniqueID.sample")
	ctrF := "abft.uniqueID.counter"
	// (a) counter strictly increases: counter.Add(counter, <const 1>) / ++ on every path
	incOK := false
	for _, cs := range smp.CallsTo("math/big.Int.Add") {
		if fieldNameOf(smp, cs.Recv()) == ctrF && len(cs.Call.Args) == 2 && fieldNameOf(smp, cs.Call.Args[0]) == ctrF {
			if v, ok := smp.ObjOf(cs.Call.Args[1]).(*types.Var); ok && smp.P.ObjName(v) == "github.com/ethereum/go-ethereum/common.Big1" {
				if o, _ := smp.MustPassBefore([]core.Point{cs.Pt}, smp.ReturnPoints()[0]); o {
					incOK = true
				}
			}
		}
	}
	for _, a := range assignsToField(smp, ctrF) {
		if a.Tok == token.INC {
			incOK = true
		}
	}
	// (b) how the counter is written into the returned array
	verdict, why := "undecided", "no recognised encoding of the counter into the ID"
	var pos token.Pos = smp.Pos()
	for _, cs := range smp.Calls() {
		switch {
		case cs.Name == "math/big.Int.FillBytes" && fieldNameOf(smp, cs.Recv()) == ctrF:
			verdict, why = "ok", "counter.FillBytes(id[:]): fixed-width big-endian, injective"
		case hasSuffix(cs.Name, "ByteOrder.PutUint64", "bigEndian.PutUint64", "littleEndian.PutUint64", "ByteOrder.PutUint32"):
			verdict, why = "ok", "fixed-width binary encoding of the counter"
		case cs.Name == "builtin.copy" && len(cs.Call.Args) == 2:
			src := ast.Unparen(cs.Call.Args[1])
			srcCall, isCall := src.(*ast.CallExpr)
			if !isCall || calleeName(smp, srcCall) != "math/big.Int.Bytes" {
				continue
			}
			pos = cs.Pos()
			dst, isSlice := ast.Unparen(cs.Call.Args[0]).(*ast.SliceExpr)
			if !isSlice {
				verdict, why = "undecided", "copy destination is not a slice of the ID array"
				continue
			}
			if dst.Low == nil || core.IsConstInt(smp.Info(), dst.Low, 0) {
				verdict, why = "bad", "copy(id[:], counter.Bytes()) left-aligns a variable-length big-endian rendering: counters n and n*256^k get the same ID (e.g. build #7 and build #1792)"
			} else if be, ok := ast.Unparen(dst.Low).(*ast.BinaryExpr); ok && be.Op == token.SUB && isCallTo(smp, be.X, "builtin.len") != nil && isCallTo(smp, be.Y, "builtin.len") != nil {
				verdict, why = "ok", "right-aligned copy of the counter bytes: fixed-width big-endian"
			} else {
				verdict, why = "undecided", "copy into the ID at an offset the rule cannot classify"
			}
		}
	}
	// (c) alternative: every ID-keyed cache Build can fill is purged on drop
	purged := false
	if dn := c.P.Func("vecfc.Index.onDropNotFlushed"); dn != nil {
		for _, cs := range dn.CallsTo("utils/simplewlru.Cache.Purge") {
			if fieldNameOf(dn, cs.Recv()) == "vecfc.Index.cache.ForklessCause" {
				purged = true
			}
		}
	}
	switch {
	case verdict == "ok" && incOK:
		c.Pass("temporary IDs never repeat", "T21 InjectiveEncoding", why+"; the counter increases on every call")
	case purged:
		c.Pass("temporary IDs never repeat", "T21 InjectiveEncoding (alternative: purge)", "the forkless-cause pair cache is purged together with the dropped index data, so a reused temporary ID cannot hit a stale entry")
	case verdict == "bad" || !incOK:
		if !incOK && verdict != "bad" {
			why = "the counter is not incremented on every path of sample()"
		}
		c.Fail("temporary IDs never repeat", "T21 InjectiveEncoding", pos, why+"; the forkless-cause pair cache keyed by event IDs is not purged when the built event's index data is dropped, so a later Build with the same temporary ID reads stale answers and assigns a frame that Process then rejects")
	default:
		c.Undecided("temporary IDs never repeat", "T21 InjectiveEncoding", pos, why)
	}
}

func runC04(c *core.Ctx) {
	p := c.P
	c.Clause("C04.single", func() {
		calc := c.Fn(ordT + ".calcFrameIdx")
		build := c.Fn(ordT + ".Build")
		chk := c.Fn(ordT + ".checkAndSaveEvent")
		// Build: SetFrame(value from calcFrameIdx(e, false))
		sf := build.CallsMatching(func(cs *core.CallSite) bool { return methodNamed(cs.Name, "SetFrame") })
		c.Need(len(sf) == 1, "Orderer.Build sets the frame once")
		fv := varOf(build, sf[0].Call.Args[0])
		okB := false
		if fv != nil {
			for _, a := range assignsToVar(build, fv) {
				if call := isCallTo(build, a.RHS, ordT+".calcFrameIdx"); call != nil && a.RHS != nil {
					if as, ok := a.Stmt.(*ast.AssignStmt); ok && len(as.Lhs) == 2 && varOf(build, as.Lhs[1]) == fv && isIdentNamed(call.Args[1], "false") && varOf(build, call.Args[0]) == build.Param(0) {
						okB = true
					}
				}
			}
		}
		c.Check(okB, "Build assigns calcFrameIdx(e, build mode)", "T6 single producer", sf[0].Pos(), "the frame set by Build is the second result of calcFrameIdx(e, false)", "Build's frame does not come from calcFrameIdx")
		// checkAndSaveEvent: compares e.Frame() with calcFrameIdx(e, true)
		var fi *types.Var
		for _, a := range assignments(chk) {
			if call := isCallTo(chk, a.RHS, ordT+".calcFrameIdx"); call != nil && a.RHS != nil {
				if as, ok := a.Stmt.(*ast.AssignStmt); ok && len(as.Lhs) == 2 && isIdentNamed(call.Args[1], "true") {
					fi = varOf(chk, as.Lhs[1])
				}
			}
		}
		c.Need(fi != nil, "checkAndSaveEvent computes the frame with calcFrameIdx(e, true)")
		wrongFrame := func(ft core.Fact) bool {
			cm, k := core.NormCmp(ft)
			if !k || cm.R == nil || cm.Op != token.NEQ {
				return false
			}
			is := func(a, b ast.Expr) bool {
				call, ok := ast.Unparen(a).(*ast.CallExpr)
				return ok && methodNamed(calleeName(chk, call), "Frame") && varOf(chk, b) == fi
			}
			return is(cm.L, cm.R) || is(cm.R, cm.L)
		}
		edges := edgesWithFact(chk, wrongFrame)
		okR := len(edges) >= 1
		for _, e := range edges {
			if o, _ := edgeLeadsOnlyTo(chk, e.B, e.Succ, func(r *ast.ReturnStmt) bool {
				if len(r.Results) < 1 {
					return false
				}
				v, ok := chk.ObjOf(r.Results[0]).(*types.Var)
				return ok && p.ObjName(v) == "abft.ErrWrongFrame"
			}); !o {
				okR = false
			}
		}
		c.Check(okR, "claimed frame != computed frame => ErrWrongFrame", "T8 DecisionTable", chk.Pos(), "e.Frame() != frameIdx leads only to returning ErrWrongFrame", "an event with a wrong claimed frame can be accepted")
		// the root is registered only when the frames agree
		for _, ar := range chk.CallsTo("abft.Store.AddRoot") {
			ok, wit := chk.GuardedBy(ar.Pt, func(ft core.Fact) bool { return wrongFrame(core.Fact{Expr: ft.Expr, Truth: !ft.Truth}) })
			c.Check(ok, "root registered only after the frame check", "T4 GuardedBy", ar.Pos(), "AddRoot is reached only on the claimed == computed edge", "a root can be registered for an event that is then rejected: "+chk.DescribePath(wit))
		}
		c.ExpectAtLeast("AddRoot sites", len(chk.CallsTo("abft.Store.AddRoot")), 1)
		// calcFrameIdx's only quorum test
		q := calc.CallsTo(ordT + ".forklessCausedByQuorumOn")
		c.Check(len(q) == 1, "one quorum test", "T6 WhoMayCall", calc.Pos(), "calcFrameIdx decides each step with forklessCausedByQuorumOn", "calcFrameIdx does not use exactly one forklessCausedByQuorumOn test")
		for _, g := range p.FuncsInPkg("abft") {
			if g != calc && g != build && g != chk && len(g.CallsTo(ordT+".calcFrameIdx")) > 0 {
				c.Fail("calcFrameIdx called in "+short(g.Name), "T6 WhoMayCall", g.Pos(), "a second consumer of the frame computation")
			}
		}
		// forklessCausedByQuorumOn: counts creators of the frame's roots that forkless-cause... e is forkless caused by root
		fq := c.Fn(ordT + ".forklessCausedByQuorumOn")
		okQ := false
		for _, cs := range fq.CallsTo("abft/dagidx.ForklessCause.ForklessCause") {
			if len(cs.Call.Args) == 2 {
				a0, isC := ast.Unparen(cs.Call.Args[0]).(*ast.CallExpr)
				if isC && methodNamed(calleeName(fq, a0), "ID") {
					if sel, ok := a0.Fun.(*ast.SelectorExpr); ok && varOf(fq, sel.X) == fq.Param(0) {
						_, pth := fieldPath(fq, cs.Call.Args[1])
						if len(pth) >= 1 && pth[len(pth)-1] == "abft/election.RootAndSlot.ID" {
							okQ = true
						}
					}
				}
			}
		}
		c.Check(okQ, "quorum test asks ForklessCause(event, root)", "provenance", fq.Pos(), "ForklessCause(e.ID(), root.ID) over GetFrameRoots(f)", "the quorum test does not ask whether the event is forkless-caused by the frame's roots")
		okRet := false
		for _, rp := range fq.ReturnPoints() {
			r := rp.Node().(*ast.ReturnStmt)
			if len(r.Results) == 1 && isCallTo(fq, r.Results[0], "inter/pos.WeightCounter.HasQuorum") != nil {
				okRet = true
			}
		}
		c.Check(okRet, "quorum test returns HasQuorum()", "provenance", fq.Pos(), "the result is the weight counter's HasQuorum()", "the result is not the counter's quorum test")
	})

	c.Clause("C04.loop", func() {
		f := c.Fn(ordT + ".calcFrameIdx")
		e, checkOnly := f.Param(0), f.Param(1)
		var loop *ast.ForStmt
		f.InspectOwn(func(n ast.Node) bool {
			if fs, ok := n.(*ast.ForStmt); ok && loop == nil {
				loop = fs
			}
			return true
		})
		c.Need(loop != nil && loop.Cond != nil && loop.Post != nil, "calcFrameIdx has a counted for loop with a condition")
		// self-parent frame variable: result 0
		var spf *types.Var
		if f.Type.Results != nil && len(f.Type.Results.List) > 0 && len(f.Type.Results.List[0].Names) > 0 {
			spf, _ = f.Info().Defs[f.Type.Results.List[0].Names[0]].(*types.Var)
		}
		c.Need(spf != nil, "named result selfParentFrame")
		// selfParentFrame = GetEvent(*e.SelfParent()).Frame() on the self-parent != nil edge, 0 otherwise
		okSP := false
		for _, a := range assignsToVar(f, spf) {
			if call, ok := ast.Unparen(a.RHS).(*ast.CallExpr); ok && a.RHS != nil && methodNamed(calleeName(f, call), "Frame") {
				if mentionsCall(f, call, "abft.EventSource.GetEvent") {
					g, _ := f.GuardedBy(a.Pt, func(ft core.Fact) bool {
						cm, k := core.NormCmp(ft)
						if !k || cm.R == nil || cm.Op != token.NEQ || !core.IsNil(f.Info(), cm.R) {
							return false
						}
						cl, isC := ast.Unparen(cm.L).(*ast.CallExpr)
						return isC && methodNamed(calleeName(f, cl), "SelfParent")
					})
					okSP = g
				}
			}
		}
		c.Check(okSP, "self-parent frame is the stored self-parent's frame", "provenance", f.Pos(), "selfParentFrame = GetEvent(*e.SelfParent()).Frame() when a self-parent exists, else 0", "the starting frame is not the self-parent's frame")
		// init: f = selfParentFrame
		var fvar *types.Var
		okPost := false
		if inc, ok := loop.Post.(*ast.IncDecStmt); ok && inc.Tok == token.INC {
			fvar = varOf(f, inc.X)
			okPost = fvar != nil
		}
		// start value: every definition of the loop variable that is made before the loop is entered
		// (the loop's init clause or statements preceding the loop) must be the self-parent's frame
		okInit := false
		if fvar != nil {
			nDefs, nGood := 0, 0
			for _, a := range assignsToVar(f, fvar) {
				if a.Stmt.Pos() >= loop.Body.Pos() || a.Tok == token.INC {
					continue // inside / after the loop
				}
				if a.Stmt.Pos() > loop.End() {
					continue
				}
				if a.RHS == nil {
					if _, isSpec := a.Stmt.(*ast.ValueSpec); isSpec {
						continue // `var f idx.Frame`: zero value, overwritten by the init clause
					}
				}
				nDefs++
				if a.RHS != nil && varOf(f, a.RHS) == spf {
					nGood++
				}
			}
			okInit = nDefs >= 1 && nDefs == nGood
		}
		c.Check(okInit && okPost, "loop starts at the self-parent's frame and steps by one", "loop shape", loop.Pos(), "for f = selfParentFrame; ...; f++", "the frame loop does not start at the self-parent's frame or does not step by one")
		// cond: f < bound && forklessCausedByQuorumOn(e, f)
		var bound *types.Var
		okCond := false
		facts := core.Decompose(loop.Cond, true)
		hasLT, hasQ := false, false
		for _, ft := range facts {
			if cm, k := core.NormCmp(ft); k && cm.R != nil && cm.Op == token.LSS && varOf(f, cm.L) == fvar {
				bound = varOf(f, cm.R)
				hasLT = bound != nil
			}
			if call := isCallTo(f, ft.Expr, ordT+".forklessCausedByQuorumOn"); call != nil && ft.Truth && len(call.Args) == 2 && varOf(f, call.Args[0]) == e && varOf(f, call.Args[1]) == fvar {
				hasQ = true
			}
		}
		okCond = hasLT && hasQ && len(facts) == 2
		c.Check(okCond, "loop continues only while below the bound and forkless-caused by a quorum at f", "T8 DecisionTable", loop.Cond.Pos(), "f < bound && forklessCausedByQuorumOn(e, f)", "the continuation condition is not 'f < bound && forklessCausedByQuorumOn(e, f)'")
		// bound: selfParentFrame + 100 in build mode, e.Frame() in check mode
		okBuild, okCheck := false, false
		if bound != nil {
			for _, a := range assignsToVar(f, bound) {
				if a.RHS == nil {
					continue
				}
				l := core.Linearize(f.Info(), a.RHS, func(x ast.Expr) string {
					if varOf(f, x) == spf {
						return "spf"
					}
					return ""
				})
				if len(l.Coef) == 1 && coefIs(l, "spf", 1) && l.C.IsInt64() && l.C.Int64() == 100 {
					// not under the checkOnly edge
					g, _ := f.GuardedBy(a.Pt, func(ft core.Fact) bool { return ft.Truth && varOf(f, ft.Expr) == checkOnly })
					okBuild = !g
				}
				if call, ok := ast.Unparen(a.RHS).(*ast.CallExpr); ok && methodNamed(calleeName(f, call), "Frame") {
					if sel, k := call.Fun.(*ast.SelectorExpr); k && varOf(f, sel.X) == e {
						g, _ := f.GuardedBy(a.Pt, func(ft core.Fact) bool { return ft.Truth && varOf(f, ft.Expr) == checkOnly })
						okCheck = g
					}
				}
			}
		}
		c.Check(okBuild, "build bound is the self-parent's frame + 100", "T15 ConstRelation", f.Pos(), "maxFrameToCheck = selfParentFrame + 100", "the build-mode bound is not selfParentFrame + 100")
		c.Check(okCheck, "processing bound is the claimed frame", "T8 DecisionTable", f.Pos(), "in check mode the bound is e.Frame()", "the check-mode bound is not the claimed frame")
		// 0 -> 1 and the returned frame is f
		okZero := false
		for _, a := range assignsToVar(f, fvar) {
			if a.RHS != nil && core.IsConstInt(f.Info(), a.RHS, 1) {
				g, _ := f.GuardedBy(a.Pt, func(ft core.Fact) bool {
					cm, k := core.NormCmp(ft)
					return k && cm.R != nil && cm.Op == token.EQL && varOf(f, cm.L) == fvar && core.IsConstInt(f.Info(), cm.R, 0)
				})
				okZero = g
			}
		}
		okRet := false
		for _, rp := range f.ReturnPoints() {
			r := rp.Node().(*ast.ReturnStmt)
			if len(r.Results) == 2 && varOf(f, r.Results[0]) == spf && varOf(f, r.Results[1]) == fvar {
				okRet = true
			}
		}
		c.Check(okZero && okRet, "result 0 becomes 1 and the loop variable is returned", "T8 DecisionTable", f.Pos(), "if f == 0 { f = 1 }; return selfParentFrame, f", "the frame of an event without self-parent is not 1, or the loop result is not what is returned")
	})

	c.Clause("C04.tmpid", func() { checkTmpID(c) })
}
