package rules

import (
	"go/ast"
	"go/token"
	"go/types"

	"golang.org/x/tools/go/cfg"

	"lachk/core"
)

// C03.forkscan — a fork that no parent has seen is found by comparing the branches of a creator
// pairwise ([MinSeq, Seq] ranges that overlap). Whether a cheater is listed depends on that scan looking
// at every pair: a scan that is abandoned for another reason than "an overlap was found" (a `break` on
// an unobserved branch, say) misses the fork whenever the conflicting branches come later in the
// creator's (arrival-ordered) branch list, and the forker is missing from the cheater lists.
//
// Decided for every loop that supplies an operand of the overlap test (the operands of the MinSeq
// reads, followed through helper parameters as in C01.forkpairs): within one iteration the loop is left
// otherwise than through its head — break, goto, return — only over an edge that says the overlap test
// held: the comparison `MinSeq(a) <= Seq(b)` itself (normalised, any spelling) or the true result of a
// module predicate every `true` return of which implies it.
func c03ForkScan(c *core.Ctx) {
	p := c.P
	c.Clause("C03.forkscan", func() {
		root := c.Fn("vecengine.Engine.fillEventVectors")
		var scope []*core.FuncInfo
		for _, f := range core.ReachableScoped(p, []*core.FuncInfo{root}, func(f *core.FuncInfo) bool { return core.RelPkg(f.Pkg.PkgPath) == "vecengine" }) {
			scope = append(scope, f)
			scope = append(scope, allLits(f)...)
		}
		const key = "the pairwise scan of a creator's branches is left early only when an overlap was found"
		const rule = "T3 per iteration (loop exits) + facts through predicates"
		n := 0
		seen := map[ast.Stmt]bool{}
		for _, g := range scope {
			for _, cs := range g.Calls() {
				if !methodNamed(cs.Name, "MinSeq") || len(cs.Call.Args) != 1 {
					continue
				}
				srcs, traced := c01TraceElem(g, cs.Call.Args[0], cs.Call, scope, 3)
				if !traced {
					continue // C01.forkpairs reports operands that are not loop elements
				}
				for _, s := range srcs {
					it := s.It
					if it == nil || it.Head == nil || len(it.Head.Succs) == 0 || seen[it.Stmt] {
						continue
					}
					seen[it.Stmt] = true
					n++
					f := s.Fn
					found := f.GuardEdges(c03OverlapFound(f, 2))
					lo, hi := it.Stmt.Pos(), it.Stmt.End()
					outside := func(b *cfg.Block) bool {
						if b == it.Done {
							return true
						}
						return len(b.Nodes) > 0 && !(lo <= b.Nodes[0].Pos() && b.Nodes[0].Pos() < hi)
					}
					wall := func(b *cfg.Block, si int) bool { return b.Succs[si] == it.Head || found(b, si) }
					path, leaves := core.PathQuery{F: f, From: blockEntry(it.Head.Succs[0]), AvoidEdge: wall, TargetBlock: outside, TargetExit: true}.Find()
					c.Check(!leaves, key, rule, it.Stmt.Pos(), "every break / goto / return out of a loop over the creator's branches lies behind the edge on which the two branches' ranges overlap",
						"the scan over a creator's branches in "+short(f.Name)+" can be abandoned although no overlap was found ("+f.DescribePath(path)+"): pairs that come later in the arrival-ordered branch list are never compared, a fork visible only in the combination of two branches is missed and its creator is missing from the cheater list")
				}
			}
		}
		c.ExpectAtLeast("loops that supply the operands of the branch-overlap test", n, 1)
	})
}

// c03OverlapFound: the fact says that the range test of two branches held: `MinSeq(x) <= Seq(y)` in
// normal form, or the true/false result of a module function whose returns with that value all imply it.
func c03OverlapFound(f *core.FuncInfo, depth int) func(core.Fact) bool {
	direct := func(ft core.Fact) bool {
		cm, ok := core.NormCmp(ft)
		if !ok || cm.R == nil || (cm.Op != token.LEQ && cm.Op != token.LSS) {
			return false
		}
		call, isCall := resolveLocal(f, cm.L).(*ast.CallExpr)
		return isCall && methodNamed(calleeName(f, call), "MinSeq")
	}
	return c01FactThrough(f, func(ft core.Fact) bool {
		if direct(ft) {
			return true
		}
		if depth <= 0 {
			return false
		}
		e, truth, ok := c01BoolOperand(f.Info(), ft)
		if !ok {
			return false
		}
		call, ok := resolveLocal(f, e).(*ast.CallExpr)
		if !ok {
			return false
		}
		cs := c01CallSiteOf(f, call)
		if cs == nil {
			return false
		}
		fn, ok := cs.Callee.(*types.Func)
		if !ok {
			return false
		}
		h := f.P.FuncOf(fn)
		if h == nil || h == f {
			return false
		}
		return c03ResultImplies(h, truth, c03OverlapFound(h, depth-1))
	})
}

// c03ResultImplies: whenever the boolean function h returns `truth`, a fact accepted by match holds at
// that return: every return is the opposite constant, an expression whose being `truth` implies such a
// fact, or lies behind an edge that carries one.
func c03ResultImplies(h *core.FuncInfo, truth bool, match func(core.Fact) bool) bool {
	n := 0
	for _, rp := range h.ReturnPoints() {
		ret, _ := rp.Node().(*ast.ReturnStmt)
		if ret == nil || len(ret.Results) != 1 {
			return false
		}
		n++
		x := ret.Results[0]
		if cv, ok := core.ConstVal(h.Info(), x); ok {
			if (cv.String() == "true") != truth {
				continue // this return cannot yield the value
			}
			if g, _ := h.GuardedBy(rp, match); !g {
				return false
			}
			continue
		}
		some := false
		for _, ft := range core.Decompose(resolveLocal(h, x), truth) {
			if match(ft) {
				some = true
			}
		}
		if !some {
			if g, _ := h.GuardedBy(rp, match); !g {
				return false
			}
		}
	}
	return n > 0
}
