package main

import (
	"fmt"
	"path/filepath"
	"sort"
	"strings"

	"lachk/core"
	"lachk/rules"
)

// runAll loads the tree once and runs the quick rules of every property. It prints one line per
// non-discharged obligation ("ALARM <prop> <status> <key> ...") and one summary line per property.
// Known findings are not consulted. Exit 1 if any property has a non-discharged obligation.
func runAll(repo string) int {
	abs, err := filepath.Abs(repo)
	if err != nil {
		fmt.Println("internal error:", err)
		return 2
	}
	p, err := core.Load(core.LoadOpts{Repo: abs, Patterns: []string{"./..."}})
	if err != nil {
		fmt.Println("internal error: cannot load:", err)
		return 2
	}
	var ids []string
	for id := range rules.Registry {
		ids = append(ids, id)
	}
	sort.Strings(ids)
	bad := 0
	var alarmed []string
	for _, id := range ids {
		c := core.NewCtx(p, id, "quick")
		func() {
			defer func() {
				if e := recover(); e != nil {
					fmt.Printf("ALARM %s PANIC %v\n", id, e)
					bad++
				}
			}()
			rules.Registry[id].Run(c)
		}()
		n := 0
		for _, o := range c.Obs {
			if o.Status != core.Discharged {
				// the recorded flaggedproducer finding is expected
				if strings.HasPrefix(o.Key, "C25.flag.drop|flaggedproducer DropFn") {
					continue
				}
				n++
				d := o.Detail
				if len(d) > 160 {
					d = d[:160]
				}
				fmt.Printf("ALARM %s %s %s :: %s (%s)\n", id, o.Status, o.Key, d, o.Pos)
			}
		}
		if n > 0 {
			bad++
			alarmed = append(alarmed, id)
		}
	}
	fmt.Printf("ALL properties=%d alarmed=%d %v\n", len(ids), bad, alarmed)
	if bad > 0 {
		return 1
	}
	return 0
}
