#!/bin/bash
# usage: merge_agent.sh <G> <NN> [<NN>...]  -- copies the rule files of the given property numbers from an agent's sandbox copy
g=$1; shift
for n in "$@"; do
  for f in /tmp/ck_$g/checker/rules/c${n}.go /tmp/ck_$g/checker/rules/c${n}_*.go; do
    [ -f "$f" ] || continue
    b=$(basename $f)
    if ! cmp -s $f /verif/checker/rules/$b; then cp $f /verif/checker/rules/$b; echo "merged $b"; fi
  done
done
# anything else the agent changed (should be nothing)
diff -rq /tmp/ck_$g/checker /verif/checker 2>/dev/null | grep -v "\.orig\|lachk$" | head -20
