#!/bin/bash
# usage: seedcheck.sh <ID> [more props to check...]   -- confirms a delivered seeded change in a scratch worktree and runs the quick checks on it
id=$1; shift
extra="$@"
SRC=${SEEDSRC:-/tmp/seed_out}/$id
WT=${SEEDWT:-/tmp/wt_seed}
export GOFLAGS=-mod=mod GOPROXY=off GOSUMDB=off GOTOOLCHAIN=local GOWORK=off
head=$(git -C /repo rev-parse HEAD)
if [ ! -d $WT ]; then git -C /repo worktree add -q --detach $WT HEAD || exit 2; fi
git -C $WT checkout -q -- . ; git -C $WT clean -fdq; git -C $WT checkout -q --detach $head || exit 2
first=$(head -1 $SRC/demo_test.go)
place=$(echo "$first" | sed -E 's/^\/\/ *[Pp]lace at ([^ ;]+).*/\1/')
cmd=$(echo "$first" | sed -E 's/.*run: *(go test.*)$/\1/')
echo "[$id] demo at $place ; cmd: $cmd"
cp $SRC/demo_test.go $WT/$place
cd $WT
echo -n "[$id] demo WITHOUT change: "; if bash -c "$cmd" > /tmp/seedtmp_${id}_a.txt 2>&1; then echo PASS; else echo "FAIL (unexpected)"; tail -5 /tmp/seedtmp_${id}_a.txt; fi
if ! git apply --check $SRC/patch.diff 2>/tmp/seedtmp_${id}_apply.txt; then echo "[$id] PATCH DOES NOT APPLY"; cat /tmp/seedtmp_${id}_apply.txt; exit 3; fi
git apply $SRC/patch.diff
echo -n "[$id] build: "; if go build ./... > /tmp/seedtmp_${id}_build.txt 2>&1; then echo ok; else echo FAIL; head -5 /tmp/seedtmp_${id}_build.txt; fi
echo -n "[$id] demo WITH change: "; if bash -c "$cmd" > /tmp/seedtmp_${id}_b.txt 2>&1; then echo "PASS (unexpected)"; else echo "FAIL (expected)"; grep -E "^\s+.*_test.go|panic" /tmp/seedtmp_${id}_b.txt | head -3; fi
rm -f $WT/$place
pkgs=$(python3 -c "import json;print(' '.join('./'+p.replace('github.com/Fantom-foundation/lachesis-base/','')+'/...' for p in json.load(open('$SRC/meta.json')).get('touched_packages',[])))")
echo -n "[$id] existing tests ($pkgs): "; if go test -vet=off -count=1 $pkgs > /tmp/seedtmp_${id}_tests.txt 2>&1; then echo pass; else echo FAIL; tail -5 /tmp/seedtmp_${id}_tests.txt; fi
cd /verif
prop=$(python3 -c "import json;print(json.load(open('$SRC/meta.json'))['property'])")
for p in $prop $extra; do
  out=/tmp/seed_chk_$p.txt; [ "$p" = "$prop" ] && out=/tmp/seed_chk_$id.txt
  ./bin/lachk -property $p -tier quick -repo $WT -verif /tmp/seed_verif_${id} > $out 2>&1; rc=$?
  echo "[$id] check $p exit=$rc"; grep -E "^(VIOLATED|UNDECIDED|internal)" $out | cut -c1-330
done
git -C $WT checkout -q -- . ; git -C $WT clean -fdq
